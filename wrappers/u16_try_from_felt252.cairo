fn main(a: felt252) -> Option<u16> {
    a.try_into()
}
