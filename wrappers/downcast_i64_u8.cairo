fn main(a: i64) -> Option<u8> {
    a.try_into()
}
