fn main(a: i64) -> Option<i16> {
    a.try_into()
}
