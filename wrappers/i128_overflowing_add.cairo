use core::num::traits::OverflowingAdd;
fn main(a: i128, b: i128) -> (i128, bool) {
    a.overflowing_add(b)
}
