#[feature("corelib-internal-use")]
fn main(a: i32, b: i32) -> Result<u32, u32> {
    core::integer::i32_diff(a, b)
}
