#[feature("corelib-internal-use")]
fn main(a: u16, b: NonZero<u16>) -> (u16, u16) {
    core::integer::u16_safe_divmod(a, b)
}
