fn main(a: i128) -> Option<u128> {
    a.try_into()
}
