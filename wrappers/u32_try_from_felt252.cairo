fn main(a: felt252) -> Option<u32> {
    a.try_into()
}
