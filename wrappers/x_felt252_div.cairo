fn main(a: felt252, b: NonZero<felt252>) -> felt252 {
    core::felt252_div(a, b)
}
