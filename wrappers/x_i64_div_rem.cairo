fn main(a: i64, b: NonZero<i64>) -> (i64, i64) {
    DivRem::div_rem(a, b)
}
