fn main(a: u64) -> Option<u32> {
    a.try_into()
}
