fn main(a: u128) -> Option<u16> {
    a.try_into()
}
