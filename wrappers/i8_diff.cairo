#[feature("corelib-internal-use")]
fn main(a: i8, b: i8) -> Result<u8, u8> {
    core::integer::i8_diff(a, b)
}
