fn main(a: i16) -> Option<u64> {
    a.try_into()
}
