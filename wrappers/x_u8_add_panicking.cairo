fn main(a: u8, b: u8) -> u8 {
    a + b
}
