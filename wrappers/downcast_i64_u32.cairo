fn main(a: i64) -> Option<u32> {
    a.try_into()
}
