#[feature("corelib-internal-use")]
fn main(a: u64, b: u64) -> Result<u64, u64> {
    core::integer::u64_overflowing_sub(a, b)
}
