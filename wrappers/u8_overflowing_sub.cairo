#[feature("corelib-internal-use")]
fn main(a: u8, b: u8) -> Result<u8, u8> {
    core::integer::u8_overflowing_sub(a, b)
}
