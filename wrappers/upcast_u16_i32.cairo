fn main(a: u16) -> i32 {
    a.into()
}
