fn main(a: u8) -> i16 {
    a.into()
}
