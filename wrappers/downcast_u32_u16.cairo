fn main(a: u32) -> Option<u16> {
    a.try_into()
}
