// class: downcast/no_overflow
// spec: downcast -20 20
// extra0: -21 -20 -19 19 20 21
#[feature("bounded-int-utils")]
use core::internal::bounded_int::{self, BoundedInt};
fn main(v: BoundedInt<-10, 10>) -> Option<BoundedInt<-20, 20>> {
    bounded_int::downcast::<BoundedInt<-10, 10>, BoundedInt<-20, 20>>(v)
}
