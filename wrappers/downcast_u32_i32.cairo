fn main(a: u32) -> Option<i32> {
    a.try_into()
}
