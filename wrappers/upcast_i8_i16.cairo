fn main(a: i8) -> i16 {
    a.into()
}
