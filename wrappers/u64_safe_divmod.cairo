#[feature("corelib-internal-use")]
fn main(a: u64, b: NonZero<u64>) -> (u64, u64) {
    core::integer::u64_safe_divmod(a, b)
}
