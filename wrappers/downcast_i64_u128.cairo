fn main(a: i64) -> Option<u128> {
    a.try_into()
}
