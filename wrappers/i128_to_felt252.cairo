fn main(a: i128) -> felt252 {
    a.into()
}
