fn main(a: u16) -> i64 {
    a.into()
}
