#[feature("corelib-internal-use")]
fn main(a: u8, b: NonZero<u8>) -> (u8, u8) {
    core::integer::u8_safe_divmod(a, b)
}
