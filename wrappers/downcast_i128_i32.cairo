fn main(a: i128) -> Option<i32> {
    a.try_into()
}
