fn main(a: u64) -> Option<i16> {
    a.try_into()
}
