fn main(a: u128) -> Option<i8> {
    a.try_into()
}
