fn main(a: u16) -> felt252 {
    a.into()
}
