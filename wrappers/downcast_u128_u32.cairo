fn main(a: u128) -> Option<u32> {
    a.try_into()
}
