#[feature("corelib-internal-use")]
fn main(a: u8, b: u8) -> u16 {
    core::integer::u8_wide_mul(a, b)
}
