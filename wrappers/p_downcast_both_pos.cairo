// class: downcast/both_pos
// spec: downcast 10 20
// extra0: 9 10 11 19 20 21
#[feature("bounded-int-utils")]
use core::internal::bounded_int::{self, BoundedInt};
fn main(v: BoundedInt<0, 1000>) -> Option<BoundedInt<10, 20>> {
    bounded_int::downcast::<BoundedInt<0, 1000>, BoundedInt<10, 20>>(v)
}
