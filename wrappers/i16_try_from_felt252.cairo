fn main(a: felt252) -> Option<i16> {
    a.try_into()
}
