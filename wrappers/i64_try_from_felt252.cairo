fn main(a: felt252) -> Option<i64> {
    a.try_into()
}
