fn main(a: u16) -> Option<i16> {
    a.try_into()
}
