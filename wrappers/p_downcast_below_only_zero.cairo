// class: downcast/below_only_zero
// spec: downcast 0 10
// extra0: -1 0 1 9 10 11
#[feature("bounded-int-utils")]
use core::internal::bounded_int::{self, BoundedInt};
fn main(v: BoundedInt<-10, 10>) -> Option<BoundedInt<0, 10>> {
    bounded_int::downcast::<BoundedInt<-10, 10>, BoundedInt<0, 10>>(v)
}
