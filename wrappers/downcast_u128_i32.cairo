fn main(a: u128) -> Option<i32> {
    a.try_into()
}
