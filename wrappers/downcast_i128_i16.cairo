fn main(a: i128) -> Option<i16> {
    a.try_into()
}
