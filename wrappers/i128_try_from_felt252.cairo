fn main(a: felt252) -> Option<i128> {
    a.try_into()
}
