fn main(a: i32) -> i128 {
    a.into()
}
