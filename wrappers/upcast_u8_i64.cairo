fn main(a: u8) -> i64 {
    a.into()
}
