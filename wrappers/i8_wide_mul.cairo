#[feature("corelib-internal-use")]
fn main(a: i8, b: i8) -> i16 {
    core::integer::i8_wide_mul(a, b)
}
