fn main(a: u32) -> felt252 {
    a.into()
}
