use core::num::traits::OverflowingAdd;
fn main(a: i16, b: i16) -> (i16, bool) {
    a.overflowing_add(b)
}
