fn main(a: i32, b: NonZero<i32>) -> (i32, i32) {
    DivRem::div_rem(a, b)
}
