fn main(a: i32) -> Option<u8> {
    a.try_into()
}
