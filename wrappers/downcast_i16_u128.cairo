fn main(a: i16) -> Option<u128> {
    a.try_into()
}
