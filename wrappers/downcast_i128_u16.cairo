fn main(a: i128) -> Option<u16> {
    a.try_into()
}
