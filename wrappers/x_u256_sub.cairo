use core::num::traits::OverflowingSub;
fn main(a: u256, b: u256) -> (u256, bool) {
    a.overflowing_sub(b)
}
