fn main(a: u32) -> u128 {
    a.into()
}
