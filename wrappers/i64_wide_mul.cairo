#[feature("corelib-internal-use")]
fn main(a: i64, b: i64) -> i128 {
    core::integer::i64_wide_mul(a, b)
}
