fn main(a: u16) -> u32 {
    a.into()
}
