// class: sub/small_signed
// spec: sub
#[feature("bounded-int-utils")]
use core::internal::bounded_int::{self, BoundedInt};
impl H of bounded_int::SubHelper<BoundedInt<-10, 10>, BoundedInt<-3, 7>> {
    type Result = BoundedInt<-17, 13>;
}
fn main(a: BoundedInt<-10, 10>, b: BoundedInt<-3, 7>) -> BoundedInt<-17, 13> {
    bounded_int::sub(a, b)
}
