fn main(a: i32) -> felt252 {
    a.into()
}
