fn main(a: u32, b: u32) -> bool {
    a == b
}
