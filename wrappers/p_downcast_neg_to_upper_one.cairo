// class: downcast/neg_to_upper_one
// spec: downcast -10 0
// extra0: -11 -10 -9 -1 0 1
#[feature("bounded-int-utils")]
use core::internal::bounded_int::{self, BoundedInt};
fn main(v: BoundedInt<-10, 10>) -> Option<BoundedInt<-10, 0>> {
    bounded_int::downcast::<BoundedInt<-10, 10>, BoundedInt<-10, 0>>(v)
}
