fn main(a: felt252) -> Option<u128> {
    a.try_into()
}
