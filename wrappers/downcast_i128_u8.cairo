fn main(a: i128) -> Option<u8> {
    a.try_into()
}
