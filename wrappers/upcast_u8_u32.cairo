fn main(a: u8) -> u32 {
    a.into()
}
