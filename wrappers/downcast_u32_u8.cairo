fn main(a: u32) -> Option<u8> {
    a.try_into()
}
