fn main(a: u128) -> u128 {
    core::integer::u128_byte_reverse(a)
}
