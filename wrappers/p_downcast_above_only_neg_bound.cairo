// class: downcast/above_only_neg_bound
// spec: downcast -10 -3
// extra0: -11 -10 -9 -4 -3 -2
#[feature("bounded-int-utils")]
use core::internal::bounded_int::{self, BoundedInt};
fn main(v: BoundedInt<-10, 10>) -> Option<BoundedInt<-10, -3>> {
    bounded_int::downcast::<BoundedInt<-10, 10>, BoundedInt<-10, -3>>(v)
}
