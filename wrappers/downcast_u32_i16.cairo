fn main(a: u32) -> Option<i16> {
    a.try_into()
}
