fn main(a: i32) -> Option<u64> {
    a.try_into()
}
