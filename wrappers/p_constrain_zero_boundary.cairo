// class: constrain/zero_boundary
// spec: constrain 0
// extra0: -1 0 1 -1 0 1 -10 -9 -8 8 9 10 0
#[feature("bounded-int-utils")]
use core::internal::bounded_int::{self, BoundedInt};
impl H of bounded_int::ConstrainHelper<BoundedInt<-10, 10>, 0> {
    type LowT = BoundedInt<-10, -1>;
    type HighT = BoundedInt<0, 10>;
}
fn main(v: BoundedInt<-10, 10>) -> Result<BoundedInt<-10, -1>, BoundedInt<0, 10>> {
    bounded_int::constrain::<BoundedInt<-10, 10>, 0>(v)
}
