use core::ec::{EcPointTrait};
fn main(x: felt252) -> Option<felt252> {
    match EcPointTrait::new_nz_from_x(x) {
        Some(p) => { let (_, y) = p.coordinates(); Some(y) },
        None => None,
    }
}
