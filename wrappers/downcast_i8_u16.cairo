fn main(a: i8) -> Option<u16> {
    a.try_into()
}
