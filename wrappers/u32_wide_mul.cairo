#[feature("corelib-internal-use")]
fn main(a: u32, b: u32) -> u64 {
    core::integer::u32_wide_mul(a, b)
}
