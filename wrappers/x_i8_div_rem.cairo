fn main(a: i8, b: NonZero<i8>) -> (i8, i8) {
    DivRem::div_rem(a, b)
}
