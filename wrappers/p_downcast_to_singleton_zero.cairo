// class: downcast/to_singleton_zero
// spec: downcast 0 0
// extra0: -1 0 1 -1 0 1
#[feature("bounded-int-utils")]
use core::internal::bounded_int::{self, BoundedInt};
fn main(v: BoundedInt<-10, 10>) -> Option<BoundedInt<0, 0>> {
    bounded_int::downcast::<BoundedInt<-10, 10>, BoundedInt<0, 0>>(v)
}
