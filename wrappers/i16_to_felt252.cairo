fn main(a: i16) -> felt252 {
    a.into()
}
