fn main(a: i16) -> i32 {
    a.into()
}
