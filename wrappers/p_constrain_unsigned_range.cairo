// class: constrain/unsigned_range
// spec: constrain 100
// extra0: 99 100 101 -101 -100 -99 0 1 2 253 254 255 0
#[feature("bounded-int-utils")]
use core::internal::bounded_int::{self, BoundedInt};
impl H of bounded_int::ConstrainHelper<BoundedInt<0, 255>, 100> {
    type LowT = BoundedInt<0, 99>;
    type HighT = BoundedInt<100, 255>;
}
fn main(v: BoundedInt<0, 255>) -> Result<BoundedInt<0, 99>, BoundedInt<100, 255>> {
    bounded_int::constrain::<BoundedInt<0, 255>, 100>(v)
}
