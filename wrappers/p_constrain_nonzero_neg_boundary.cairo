// class: constrain/nonzero_neg_boundary
// spec: constrain -5
// extra0: -6 -5 -4 4 5 6 -10 -9 -8 8 9 10 0
#[feature("bounded-int-utils")]
use core::internal::bounded_int::{self, BoundedInt};
impl H of bounded_int::ConstrainHelper<BoundedInt<-10, 10>, -5> {
    type LowT = BoundedInt<-10, -6>;
    type HighT = BoundedInt<-5, 10>;
}
fn main(v: NonZero<BoundedInt<-10, 10>>) -> Result<NonZero<BoundedInt<-10, -6>>, NonZero<BoundedInt<-5, 10>>> {
    bounded_int::constrain::<NonZero<BoundedInt<-10, 10>>, -5>(v)
}
