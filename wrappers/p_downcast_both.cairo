// class: downcast/both
// spec: downcast -5 5
// extra0: -6 -5 -4 4 5 6
#[feature("bounded-int-utils")]
use core::internal::bounded_int::{self, BoundedInt};
fn main(v: BoundedInt<-10, 10>) -> Option<BoundedInt<-5, 5>> {
    bounded_int::downcast::<BoundedInt<-10, 10>, BoundedInt<-5, 5>>(v)
}
