fn main(a: i64) -> Option<u16> {
    a.try_into()
}
