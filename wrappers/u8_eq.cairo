fn main(a: u8, b: u8) -> bool {
    a == b
}
