// class: trim_min/zero_lower
// spec: trim 0
// extra0: 0 1 2
#[feature("bounded-int-utils")]
use core::internal::bounded_int::{self, BoundedInt};
impl H of bounded_int::TrimMinHelper<BoundedInt<0, 255>> {
    type Target = BoundedInt<1, 255>;
}
fn main(v: BoundedInt<0, 255>) -> core::internal::OptionRev<BoundedInt<1, 255>> {
    bounded_int::trim_min(v)
}
