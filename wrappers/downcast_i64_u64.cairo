fn main(a: i64) -> Option<u64> {
    a.try_into()
}
