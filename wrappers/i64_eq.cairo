fn main(a: i64, b: i64) -> bool {
    a == b
}
