#[feature("corelib-internal-use")]
fn main(a: i64, b: i64) -> Result<u64, u64> {
    core::integer::i64_diff(a, b)
}
