fn main(a: i32) -> Option<i16> {
    a.try_into()
}
