fn main(a: felt252) -> Option<i32> {
    a.try_into()
}
