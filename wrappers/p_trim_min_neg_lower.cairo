// class: trim_min/neg_lower
// spec: trim -10
// extra0: -10 -9 -8
#[feature("bounded-int-utils")]
use core::internal::bounded_int::{self, BoundedInt};
impl H of bounded_int::TrimMinHelper<BoundedInt<-10, 10>> {
    type Target = BoundedInt<-9, 10>;
}
fn main(v: BoundedInt<-10, 10>) -> core::internal::OptionRev<BoundedInt<-9, 10>> {
    bounded_int::trim_min(v)
}
