fn main(a: i8, b: i8) -> bool {
    a == b
}
