fn main(a: u128, b: u128) -> bool {
    a == b
}
