fn main(a: u128) -> Option<NonZero<u128>> {
    a.try_into()
}
