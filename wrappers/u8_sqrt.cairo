#[feature("corelib-internal-use")]
fn main(a: u8) -> u8 {
    core::integer::u8_sqrt(a)
}
