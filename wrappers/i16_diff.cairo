#[feature("corelib-internal-use")]
fn main(a: i16, b: i16) -> Result<u16, u16> {
    core::integer::i16_diff(a, b)
}
