fn main(a: i16) -> i128 {
    a.into()
}
