fn main(a: u64) -> u128 {
    a.into()
}
