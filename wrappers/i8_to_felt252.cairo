fn main(a: i8) -> felt252 {
    a.into()
}
