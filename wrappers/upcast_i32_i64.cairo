fn main(a: i32) -> i64 {
    a.into()
}
