// class: constrain/boundary_upper
// spec: constrain 10
// extra0: 9 10 11 -11 -10 -9 -10 -9 -8 8 9 10 0
#[feature("bounded-int-utils")]
use core::internal::bounded_int::{self, BoundedInt};
impl H of bounded_int::ConstrainHelper<BoundedInt<-10, 10>, 10> {
    type LowT = BoundedInt<-10, 9>;
    type HighT = BoundedInt<10, 10>;
}
fn main(v: BoundedInt<-10, 10>) -> Result<BoundedInt<-10, 9>, BoundedInt<10, 10>> {
    bounded_int::constrain::<BoundedInt<-10, 10>, 10>(v)
}
