fn main(a: i16) -> i64 {
    a.into()
}
