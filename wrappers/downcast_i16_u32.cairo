fn main(a: i16) -> Option<u32> {
    a.try_into()
}
