use core::num::traits::Sqrt;
fn main(a: u256) -> u128 {
    a.sqrt()
}
