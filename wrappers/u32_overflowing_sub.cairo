#[feature("corelib-internal-use")]
fn main(a: u32, b: u32) -> Result<u32, u32> {
    core::integer::u32_overflowing_sub(a, b)
}
