use core::num::traits::OverflowingAdd;
fn main(a: i64, b: i64) -> (i64, bool) {
    a.overflowing_add(b)
}
