fn main(a: i128) -> Option<i8> {
    a.try_into()
}
