fn main(a: i32) -> Option<i8> {
    a.try_into()
}
