use core::num::traits::OverflowingSub;
fn main(a: i32, b: i32) -> (i32, bool) {
    a.overflowing_sub(b)
}
