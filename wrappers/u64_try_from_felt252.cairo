fn main(a: felt252) -> Option<u64> {
    a.try_into()
}
