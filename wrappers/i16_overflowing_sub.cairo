use core::num::traits::OverflowingSub;
fn main(a: i16, b: i16) -> (i16, bool) {
    a.overflowing_sub(b)
}
