fn main(a: i32) -> Option<u16> {
    a.try_into()
}
