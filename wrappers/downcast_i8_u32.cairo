fn main(a: i8) -> Option<u32> {
    a.try_into()
}
