fn main(a: u128) -> Option<i128> {
    a.try_into()
}
