fn main(a: felt252) -> Option<i8> {
    a.try_into()
}
