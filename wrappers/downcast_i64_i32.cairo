fn main(a: i64) -> Option<i32> {
    a.try_into()
}
