fn main(a: i64) -> Option<i8> {
    a.try_into()
}
