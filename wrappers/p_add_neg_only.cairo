// class: add/neg_only
// spec: add
#[feature("bounded-int-utils")]
use core::internal::bounded_int::{self, BoundedInt};
impl H of bounded_int::AddHelper<BoundedInt<-100, -1>, BoundedInt<-50, -2>> {
    type Result = BoundedInt<-150, -3>;
}
fn main(a: BoundedInt<-100, -1>, b: BoundedInt<-50, -2>) -> BoundedInt<-150, -3> {
    bounded_int::add(a, b)
}
