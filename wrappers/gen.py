#!/usr/bin/env python3
"""Writes the wrapper sources /verif/wrappers/*.cairo (one corelib operation each, `fn main`).
Run once by hand when the set changes; the generated files are committed."""
import os

HERE = os.path.dirname(os.path.abspath(__file__))
FEAT = '#[feature("corelib-internal-use")]\n'
W = {}

UNS = ["u8", "u16", "u32", "u64", "u128"]
SIG = ["i8", "i16", "i32", "i64", "i128"]
WIDE = {"u8": "u16", "u16": "u32", "u32": "u64", "u64": "u128"}
SQRT = {"u8": "u8", "u16": "u8", "u32": "u16", "u64": "u32", "u128": "u64"}

for t in UNS:
    W[f"{t}_overflowing_add"] = FEAT + f"fn main(a: {t}, b: {t}) -> Result<{t}, {t}> {{\n    core::integer::{t}_overflowing_add(a, b)\n}}\n"
    W[f"{t}_overflowing_sub"] = FEAT + f"fn main(a: {t}, b: {t}) -> Result<{t}, {t}> {{\n    core::integer::{t}_overflowing_sub(a, b)\n}}\n"
    W[f"{t}_eq"] = f"fn main(a: {t}, b: {t}) -> bool {{\n    a == b\n}}\n"
    W[f"{t}_is_zero"] = f"fn main(a: {t}) -> Option<NonZero<{t}>> {{\n    a.try_into()\n}}\n"
    W[f"{t}_to_felt252"] = f"fn main(a: {t}) -> felt252 {{\n    a.into()\n}}\n"
    W[f"{t}_try_from_felt252"] = f"fn main(a: felt252) -> Option<{t}> {{\n    a.try_into()\n}}\n"
    W[f"{t}_safe_divmod"] = FEAT + f"fn main(a: {t}, b: NonZero<{t}>) -> ({t}, {t}) {{\n    core::integer::{t}_safe_divmod(a, b)\n}}\n"
    W[f"{t}_sqrt"] = FEAT + f"fn main(a: {t}) -> {SQRT[t]} {{\n    core::integer::{t}_sqrt(a)\n}}\n"
for t, w in WIDE.items():
    W[f"{t}_wide_mul"] = FEAT + f"fn main(a: {t}, b: {t}) -> {w} {{\n    core::integer::{t}_wide_mul(a, b)\n}}\n"
W["u128_wide_mul"] = FEAT + "fn main(a: u128, b: u128) -> (u128, u128) {\n    core::integer::u128_wide_mul(a, b)\n}\n"
W["felt252_is_zero"] = "fn main(a: felt252) -> bool {\n    a == 0\n}\n"
W["felt252_add"] = "fn main(a: felt252, b: felt252) -> felt252 {\n    a + b\n}\n"
W["felt252_sub"] = "fn main(a: felt252, b: felt252) -> felt252 {\n    a - b\n}\n"
W["felt252_mul"] = "fn main(a: felt252, b: felt252) -> felt252 {\n    a * b\n}\n"
for t in SIG:
    W[f"{t}_overflowing_add"] = f"use core::num::traits::OverflowingAdd;\nfn main(a: {t}, b: {t}) -> ({t}, bool) {{\n    a.overflowing_add(b)\n}}\n"
    W[f"{t}_overflowing_sub"] = f"use core::num::traits::OverflowingSub;\nfn main(a: {t}, b: {t}) -> ({t}, bool) {{\n    a.overflowing_sub(b)\n}}\n"
    W[f"{t}_diff"] = FEAT + f"fn main(a: {t}, b: {t}) -> Result<u{t[1:]}, u{t[1:]}> {{\n    core::integer::{t}_diff(a, b)\n}}\n"
    W[f"{t}_eq"] = f"fn main(a: {t}, b: {t}) -> bool {{\n    a == b\n}}\n"
    W[f"{t}_to_felt252"] = f"fn main(a: {t}) -> felt252 {{\n    a.into()\n}}\n"
    W[f"{t}_try_from_felt252"] = f"fn main(a: felt252) -> Option<{t}> {{\n    a.try_into()\n}}\n"
for t in ["i8", "i16", "i32", "i64"]:
    w = "i" + str(2 * int(t[1:]))
    W[f"{t}_wide_mul"] = FEAT + f"fn main(a: {t}, b: {t}) -> {w} {{\n    core::integer::{t}_wide_mul(a, b)\n}}\n"
# casts
ALL = UNS + SIG
def bits(t): return int(t[1:])
def rng(t):
    return (0, 2**bits(t) - 1) if t[0] == "u" else (-2**(bits(t)-1), 2**(bits(t)-1) - 1)
for a in ALL:
    for b in ALL:
        if a == b: continue
        la, ha = rng(a); lb, hb = rng(b)
        if lb <= la and ha <= hb:
            W[f"upcast_{a}_{b}"] = f"fn main(a: {a}) -> {b} {{\n    a.into()\n}}\n"
        else:
            W[f"downcast_{a}_{b}"] = f"fn main(a: {a}) -> Option<{b}> {{\n    a.try_into()\n}}\n"
# explored only (outside the verified set): u256 / signed division / bitwise / gas-free misc
W["x_u256_add"] = "use core::num::traits::OverflowingAdd;\nfn main(a: u256, b: u256) -> (u256, bool) {\n    a.overflowing_add(b)\n}\n"
W["x_u256_sub"] = "use core::num::traits::OverflowingSub;\nfn main(a: u256, b: u256) -> (u256, bool) {\n    a.overflowing_sub(b)\n}\n"
W["x_u256_mul"] = "use core::num::traits::OverflowingMul;\nfn main(a: u256, b: u256) -> (u256, bool) {\n    a.overflowing_mul(b)\n}\n"
W["x_u256_divmod"] = "fn main(a: u256, b: NonZero<u256>) -> (u256, u256) {\n    DivRem::div_rem(a, b)\n}\n"
W["x_u256_sqrt"] = "use core::num::traits::Sqrt;\nfn main(a: u256) -> u128 {\n    a.sqrt()\n}\n"
W["x_u512_divmod"] = "use core::integer::{u512, u512_safe_div_rem_by_u256};\nfn main(a: u512, b: NonZero<u256>) -> (u512, u256) {\n    u512_safe_div_rem_by_u256(a, b)\n}\n"
W["x_u256_inv_mod"] = "fn main(a: u256, n: NonZero<u256>) -> Option<NonZero<u256>> {\n    core::math::u256_inv_mod(a, n)\n}\n"
W["x_u256_mul_mod_n"] = "fn main(a: u256, b: u256, n: NonZero<u256>) -> u256 {\n    core::math::u256_mul_mod_n(a, b, n)\n}\n"
for t in SIG:
    W[f"x_{t}_div_rem"] = f"fn main(a: {t}, b: NonZero<{t}>) -> ({t}, {t}) {{\n    DivRem::div_rem(a, b)\n}}\n"
W["x_u8_bitand"] = "fn main(a: u8, b: u8) -> u8 {\n    a & b\n}\n"
W["x_u128_byte_reverse"] = "fn main(a: u128) -> u128 {\n    core::integer::u128_byte_reverse(a)\n}\n"
W["x_felt252_div"] = "fn main(a: felt252, b: NonZero<felt252>) -> felt252 {\n    core::felt252_div(a, b)\n}\n"
W["x_ec_point_from_x"] = "use core::ec::{EcPointTrait};\nfn main(x: felt252) -> Option<felt252> {\n    match EcPointTrait::new_nz_from_x(x) {\n        Some(p) => { let (_, y) = p.coordinates(); Some(y) },\n        None => None,\n    }\n}\n"
W["x_ec_mul"] = "use core::ec::{EcPointTrait, EcStateTrait};\nfn main(x: felt252, k: felt252) -> Option<felt252> {\n    match EcPointTrait::new_nz_from_x(x) {\n        Some(p) => {\n            let mut s = EcStateTrait::init();\n            s.add_mul(k, p);\n            match s.finalize_nz() { Some(q) => { let (rx, _) = q.coordinates(); Some(rx) }, None => None }\n        },\n        None => None,\n    }\n}\n"
W["x_felt252_dict"] = "fn main(k: felt252, v: felt252, k2: felt252) -> felt252 {\n    let mut d: Felt252Dict<felt252> = Default::default();\n    d.insert(k, v);\n    d.insert(k2, v + 1);\n    let r = d.get(k);\n    let _ = d.squash();\n    r\n}\n"
W["x_u8_add_panicking"] = "fn main(a: u8, b: u8) -> u8 {\n    a + b\n}\n"
W["x_array_get"] = "fn main(i: u32, v: felt252) -> Option<felt252> {\n    let mut a = array![v, v + 1, v + 2];\n    match a.get(i) { Some(x) => Some(*x.unbox()), None => None }\n}\n"

if __name__ == "__main__":
    keep = set()
    for name, src in sorted(W.items()):
        p = os.path.join(HERE, name + ".cairo")
        keep.add(name + ".cairo")
        if not os.path.exists(p) or open(p).read() != src:
            open(p, "w").write(src)
    for f in os.listdir(HERE):
        if f.endswith(".cairo") and f not in keep:
            os.unlink(os.path.join(HERE, f))
    print(len(W), "wrappers")
