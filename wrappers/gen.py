#!/usr/bin/env python3
"""Writes the wrapper sources /verif/wrappers/*.cairo (one corelib operation each, `fn main`).
Run once by hand when the set changes; the generated files are committed."""
import os

HERE = os.path.dirname(os.path.abspath(__file__))
FEAT = '#[feature("corelib-internal-use")]\n'
W = {}

UNS = ["u8", "u16", "u32", "u64", "u128"]
SIG = ["i8", "i16", "i32", "i64", "i128"]
WIDE = {"u8": "u16", "u16": "u32", "u32": "u64", "u64": "u128"}
SQRT = {"u8": "u8", "u16": "u8", "u32": "u16", "u64": "u32", "u128": "u64"}

for t in UNS:
    W[f"{t}_overflowing_add"] = FEAT + f"fn main(a: {t}, b: {t}) -> Result<{t}, {t}> {{\n    core::integer::{t}_overflowing_add(a, b)\n}}\n"
    W[f"{t}_overflowing_sub"] = FEAT + f"fn main(a: {t}, b: {t}) -> Result<{t}, {t}> {{\n    core::integer::{t}_overflowing_sub(a, b)\n}}\n"
    W[f"{t}_eq"] = f"fn main(a: {t}, b: {t}) -> bool {{\n    a == b\n}}\n"
    W[f"{t}_is_zero"] = f"fn main(a: {t}) -> Option<NonZero<{t}>> {{\n    a.try_into()\n}}\n"
    W[f"{t}_to_felt252"] = f"fn main(a: {t}) -> felt252 {{\n    a.into()\n}}\n"
    W[f"{t}_try_from_felt252"] = f"fn main(a: felt252) -> Option<{t}> {{\n    a.try_into()\n}}\n"
    W[f"{t}_safe_divmod"] = FEAT + f"fn main(a: {t}, b: NonZero<{t}>) -> ({t}, {t}) {{\n    core::integer::{t}_safe_divmod(a, b)\n}}\n"
    W[f"{t}_sqrt"] = FEAT + f"fn main(a: {t}) -> {SQRT[t]} {{\n    core::integer::{t}_sqrt(a)\n}}\n"
for t, w in WIDE.items():
    W[f"{t}_wide_mul"] = FEAT + f"fn main(a: {t}, b: {t}) -> {w} {{\n    core::integer::{t}_wide_mul(a, b)\n}}\n"
W["u128_wide_mul"] = FEAT + "fn main(a: u128, b: u128) -> (u128, u128) {\n    core::integer::u128_wide_mul(a, b)\n}\n"
W["felt252_is_zero"] = "fn main(a: felt252) -> bool {\n    a == 0\n}\n"
W["felt252_add"] = "fn main(a: felt252, b: felt252) -> felt252 {\n    a + b\n}\n"
W["felt252_sub"] = "fn main(a: felt252, b: felt252) -> felt252 {\n    a - b\n}\n"
W["felt252_mul"] = "fn main(a: felt252, b: felt252) -> felt252 {\n    a * b\n}\n"
for t in SIG:
    W[f"{t}_overflowing_add"] = f"use core::num::traits::OverflowingAdd;\nfn main(a: {t}, b: {t}) -> ({t}, bool) {{\n    a.overflowing_add(b)\n}}\n"
    W[f"{t}_overflowing_sub"] = f"use core::num::traits::OverflowingSub;\nfn main(a: {t}, b: {t}) -> ({t}, bool) {{\n    a.overflowing_sub(b)\n}}\n"
    W[f"{t}_diff"] = FEAT + f"fn main(a: {t}, b: {t}) -> Result<u{t[1:]}, u{t[1:]}> {{\n    core::integer::{t}_diff(a, b)\n}}\n"
    W[f"{t}_eq"] = f"fn main(a: {t}, b: {t}) -> bool {{\n    a == b\n}}\n"
    W[f"{t}_to_felt252"] = f"fn main(a: {t}) -> felt252 {{\n    a.into()\n}}\n"
    W[f"{t}_try_from_felt252"] = f"fn main(a: felt252) -> Option<{t}> {{\n    a.try_into()\n}}\n"
for t in ["i8", "i16", "i32", "i64"]:
    w = "i" + str(2 * int(t[1:]))
    W[f"{t}_wide_mul"] = FEAT + f"fn main(a: {t}, b: {t}) -> {w} {{\n    core::integer::{t}_wide_mul(a, b)\n}}\n"
# casts
ALL = UNS + SIG
def bits(t): return int(t[1:])
def rng(t):
    return (0, 2**bits(t) - 1) if t[0] == "u" else (-2**(bits(t)-1), 2**(bits(t)-1) - 1)
for a in ALL:
    for b in ALL:
        if a == b: continue
        la, ha = rng(a); lb, hb = rng(b)
        if lb <= la and ha <= hb:
            W[f"upcast_{a}_{b}"] = f"fn main(a: {a}) -> {b} {{\n    a.into()\n}}\n"
        else:
            W[f"downcast_{a}_{b}"] = f"fn main(a: {a}) -> Option<{b}> {{\n    a.try_into()\n}}\n"
# explored only (outside the verified set): u256 / signed division / bitwise / gas-free misc
W["x_u256_add"] = "use core::num::traits::OverflowingAdd;\nfn main(a: u256, b: u256) -> (u256, bool) {\n    a.overflowing_add(b)\n}\n"
W["x_u256_sub"] = "use core::num::traits::OverflowingSub;\nfn main(a: u256, b: u256) -> (u256, bool) {\n    a.overflowing_sub(b)\n}\n"
W["x_u256_mul"] = "use core::num::traits::OverflowingMul;\nfn main(a: u256, b: u256) -> (u256, bool) {\n    a.overflowing_mul(b)\n}\n"
W["x_u256_divmod"] = "fn main(a: u256, b: NonZero<u256>) -> (u256, u256) {\n    DivRem::div_rem(a, b)\n}\n"
W["x_u256_sqrt"] = "use core::num::traits::Sqrt;\nfn main(a: u256) -> u128 {\n    a.sqrt()\n}\n"
W["x_u512_divmod"] = "use core::integer::{u512, u512_safe_div_rem_by_u256};\nfn main(a: u512, b: NonZero<u256>) -> (u512, u256) {\n    u512_safe_div_rem_by_u256(a, b)\n}\n"
W["x_u256_inv_mod"] = "fn main(a: u256, n: NonZero<u256>) -> Option<NonZero<u256>> {\n    core::math::u256_inv_mod(a, n)\n}\n"
W["x_u256_mul_mod_n"] = "fn main(a: u256, b: u256, n: NonZero<u256>) -> u256 {\n    core::math::u256_mul_mod_n(a, b, n)\n}\n"
for t in SIG:
    W[f"x_{t}_div_rem"] = f"fn main(a: {t}, b: NonZero<{t}>) -> ({t}, {t}) {{\n    DivRem::div_rem(a, b)\n}}\n"
W["x_u8_bitand"] = "fn main(a: u8, b: u8) -> u8 {\n    a & b\n}\n"
W["x_u128_byte_reverse"] = "fn main(a: u128) -> u128 {\n    core::integer::u128_byte_reverse(a)\n}\n"
W["x_felt252_div"] = "fn main(a: felt252, b: NonZero<felt252>) -> felt252 {\n    core::felt252_div(a, b)\n}\n"
W["x_ec_point_from_x"] = "use core::ec::{EcPointTrait};\nfn main(x: felt252) -> Option<felt252> {\n    match EcPointTrait::new_nz_from_x(x) {\n        Some(p) => { let (_, y) = p.coordinates(); Some(y) },\n        None => None,\n    }\n}\n"
W["x_ec_mul"] = "use core::ec::{EcPointTrait, EcStateTrait};\nfn main(x: felt252, k: felt252) -> Option<felt252> {\n    match EcPointTrait::new_nz_from_x(x) {\n        Some(p) => {\n            let mut s = EcStateTrait::init();\n            s.add_mul(k, p);\n            match s.finalize_nz() { Some(q) => { let (rx, _) = q.coordinates(); Some(rx) }, None => None }\n        },\n        None => None,\n    }\n}\n"
W["x_felt252_dict"] = "fn main(k: felt252, v: felt252, k2: felt252) -> felt252 {\n    let mut d: Felt252Dict<felt252> = Default::default();\n    d.insert(k, v);\n    d.insert(k2, v + 1);\n    let r = d.get(k);\n    let _ = d.squash();\n    r\n}\n"
W["x_u8_add_panicking"] = "fn main(a: u8, b: u8) -> u8 {\n    a + b\n}\n"
W["x_array_get"] = "fn main(i: u32, v: felt252) -> Option<felt252> {\n    let mut a = array![v, v + 1, v + 2];\n    match a.get(i) { Some(x) => Some(*x.unbox()), None => None }\n}\n"


# ---------------------------------------------------------------------------------------------
# Parametric libfuncs: one wrapper per DECISION CLASS of the Rust code that chooses constants /
# algorithms from the type parameters (cairo-lang-sierra extensions/modules/bounded_int.rs
# BoundedIntDivRemAlgorithm::try_new; sierra-to-casm invocations/int/bounded.rs build_constrain /
# build_trim / build_div_rem; casts.rs build_downcast CastType cases; range_reduction.rs), on both
# sides of every threshold, with negative / zero-crossing / 2^128-wide / far-from-zero ranges.
# Header lines are read by harness/h03:  // class: <decision class>   // spec: <kind> <ints>
# (honest-run oracle)   // extra<i>: <ints> (threshold operands of parameter i).
PRIME = 2**251 + 17 * 2**192 + 1
T1 = (PRIME - 1) // 2**128            # largest x with x * 2^128 < PRIME  (= 2^123 + 17*2^64)
BI = '#[feature("bounded-int-utils")]\nuse core::internal::bounded_int::{self, BoundedInt};\n'

def bi(lo, hi):
    return f"BoundedInt<{lo}, {hi}>"

def header(cls, spec, extras):
    h = f"// class: {cls}\n// spec: {spec}\n"
    for i, e in enumerate(extras):
        if e:
            h += f"// extra{i}: " + " ".join(str(x) for x in e) + "\n"
    return h

def near(*xs):
    out = []
    for x in xs:
        out += [x - 1, x, x + 1]
    return out

# bounded_int_constrain<T, B>
CONSTRAIN = [
    ("neg_boundary", -10, 10, -5, False), ("zero_boundary", -10, 10, 0, False), ("pos_boundary", -10, 10, 5, False),
    ("boundary_lower_plus1", -10, 10, -9, False), ("boundary_upper", -10, 10, 10, False),
    ("unsigned_range", 0, 255, 100, False), ("i128_like_neg", -2**127, 2**127 - 1, -1, False),
    ("i128_like_pos", -2**127, 2**127 - 1, 1, False), ("i128_like_far_neg", -2**127, 2**127 - 1, -2**126, False),
    ("two_full_halves", -2**128, 2**128 - 1, 0, False), ("far_positive", 2**200, 2**200 + 100, 2**200 + 50, False),
    ("far_negative", -2**200 - 100, -2**200, -2**200 - 50, False), ("nonzero_neg_boundary", -10, 10, -5, True),
    ("nonzero_pos_boundary", -10, 10, 5, True),
]
for k, (cls, lo, hi, b, nz) in enumerate(CONSTRAIN):
    T = bi(lo, hi); L = bi(lo, b - 1); H = bi(b, hi)
    TT = f"NonZero<{T}>" if nz else T
    LL = f"NonZero<{L}>" if nz else L
    HH = f"NonZero<{H}>" if nz else H
    W[f"p_constrain_{cls}"] = (
        header(f"constrain/{cls}", f"constrain {b}", [near(b, -b, lo + 1, hi - 1) + [0]]) + BI +
        f"impl H of bounded_int::ConstrainHelper<{T}, {b}> {{\n    type LowT = {L};\n    type HighT = {H};\n}}\n"
        f"fn main(v: {TT}) -> Result<{LL}, {HH}> {{\n    bounded_int::constrain::<{TT}, {b}>(v)\n}}\n")

# bounded_int_div_rem<Lhs, Rhs>: (class, lhs range, rhs range)
U128 = (0, 2**128 - 1)
DIVREM = [
    ("small_rhs_tiny", U128, (1, 255)),
    ("small_rhs_upper_T1_minus1", U128, (1, T1 - 2)), ("small_rhs_upper_T1", U128, (1, T1 - 1)),
    ("rhs_upper_T1_plus1", U128, (1, T1)), ("rhs_upper_mid_band", U128, (1, 2**124 - 2)),
    ("rhs_upper_2p124", U128, (1, 2**124 - 1)), ("rhs_upper_2p124_plus1", U128, (1, 2**124)),
    ("rhs_u128", U128, (1, 2**128 - 1)), ("rhs_upper_limit", U128, (1, 2**128)),
    ("small_quotient", U128, (2**64, 2**128 - 1)),
    ("small_quotient_upper_T1", (0, (T1 - 1) * 2**100 + 2**100 - 1), (2**100, 2**128 - 1)),
    ("quotient_upper_T1_plus1", (0, T1 * 2**100), (2**100, 2**128 - 1)),
    ("small_lhs_sqrt_T1", (0, T1 * T1 - 1), (2**120, 2**128)),
    ("small_lhs_sqrt_rounds_to_T1", (0, (T1 - 1) * (T1 - 1)), (2**120, 2**128)),
    ("lhs_min_positive", (1000, 2**64), (3, 2**32)),
]
for cls, (ll, lh), (rl, rh) in DIVREM:
    Lt, Rt = bi(ll, lh), bi(rl, rh)
    qmin, qmax = ll // rh, lh // max(rl, 1)
    D, R = bi(qmin, qmax), bi(0, rh - 1)
    ex_a = near(ll + 1, lh - 1, rh, 2 * rh) + [5, lh, ll, (lh // rh) * rh]
    ex_b = near(rl + 1, rh - 1, T1, PRIME // 2**128 + 1, 2**64) + [rl, rh]
    W[f"p_div_rem_{cls}"] = (
        header(f"div_rem/{cls}", "div_rem", [ex_a, ex_b]) + BI +
        f"impl H of bounded_int::DivRemHelper<{Lt}, {Rt}> {{\n    type DivT = {D};\n    type RemT = {R};\n}}\n"
        f"fn main(a: {Lt}, b: NonZero<{Rt}>) -> ({D}, {R}) {{\n    bounded_int::div_rem(a, b)\n}}\n")

# bounded_int_add / sub / mul
ARITH = [
    ("small_signed", (-10, 10), (-3, 7)), ("neg_only", (-100, -1), (-50, -2)), ("unsigned_128", U128, U128),
    ("wide_signed", (-2**127, 2**127 - 1), (-2**127, 2**127 - 1)), ("far", (2**200, 2**200 + 5), (-7, 7)),
]
for cls, (al, ah), (bl, bh) in ARITH:
    A, B = bi(al, ah), bi(bl, bh)
    for op, res in (("add", (al + bl, ah + bh)), ("sub", (al - bh, ah - bl)),
                    ("mul", (min(al * bl, al * bh, ah * bl, ah * bh), max(al * bl, al * bh, ah * bl, ah * bh)))):
        if res[1] - res[0] >= PRIME or (op == "mul" and cls in ("unsigned_128", "wide_signed")):
            continue
        Rr = bi(*res)
        helper = {"add": "AddHelper", "sub": "SubHelper", "mul": "MulHelper"}[op]
        W[f"p_{op}_{cls}"] = (
            header(f"{op}/{cls}", op, [[], []]) + BI +
            f"impl H of bounded_int::{helper}<{A}, {B}> {{\n    type Result = {Rr};\n}}\n"
            f"fn main(a: {A}, b: {B}) -> {Rr} {{\n    bounded_int::{op}(a, b)\n}}\n")
W["p_mul_half_width"] = (header("mul/half_width_125", "mul", [[], []]) + BI +
    f"impl H of bounded_int::MulHelper<{bi(0, 2**125)}, {bi(0, 2**125)}> {{\n    type Result = {bi(0, 2**250)};\n}}\n"
    f"fn main(a: {bi(0, 2**125)}, b: {bi(0, 2**125)}) -> {bi(0, 2**250)} {{\n    bounded_int::mul(a, b)\n}}\n")

# bounded_int_trim_min / trim_max, is_zero
for cls, lo, hi in (("neg_lower", -10, 10), ("zero_lower", 0, 255), ("far", 2**200, 2**200 + 9), ("wide", -2**127, 2**127 - 1)):
    T = bi(lo, hi)
    W[f"p_trim_min_{cls}"] = (header(f"trim_min/{cls}", f"trim {lo}", [near(lo + 1)]) + BI +
        f"impl H of bounded_int::TrimMinHelper<{T}> {{\n    type Target = {bi(lo + 1, hi)};\n}}\n"
        f"fn main(v: {T}) -> core::internal::OptionRev<{bi(lo + 1, hi)}> {{\n    bounded_int::trim_min(v)\n}}\n")
    W[f"p_trim_max_{cls}"] = (header(f"trim_max/{cls}", f"trim {hi}", [near(hi - 1)]) + BI +
        f"impl H of bounded_int::TrimMaxHelper<{T}> {{\n    type Target = {bi(lo, hi - 1)};\n}}\n"
        f"fn main(v: {T}) -> core::internal::OptionRev<{bi(lo, hi - 1)}> {{\n    bounded_int::trim_max(v)\n}}\n")
for cls, lo, hi in (("crossing", -5, 5), ("unsigned", 0, 2**128 - 1)):
    T = bi(lo, hi)
    W[f"p_is_zero_{cls}"] = (header(f"is_zero/{cls}", "is_zero", [[]]) + BI +
        f"fn main(v: {T}) -> core::zeroable::IsZeroResult<{T}> {{\n    bounded_int::is_zero(v)\n}}\n")

# downcast<From, To> between BoundedInts (casts.rs CastType cases, bounds of either sign) and from felt252
DOWN = [
    ("both", (-10, 10), (-5, 5)), ("both_pos", (0, 1000), (10, 20)), ("both_neg", (-1000, 0), (-20, -10)),
    ("above_only", (-10, 10), (-10, 3)), ("above_only_neg_bound", (-10, 10), (-10, -3)),
    ("below_only", (-10, 10), (-3, 10)), ("below_only_zero", (-10, 10), (0, 10)), ("below_only_pos", (-10, 10), (3, 10)),
    ("no_overflow", (-10, 10), (-20, 20)), ("wide_both", (-2**127, 2**127 - 1), (-2**100, 2**100)),
    ("full_128_to_half", (0, 2**128 - 1), (2**127, 2**128 - 1)), ("far_both", (2**200, 2**200 + 1000), (2**200 + 10, 2**200 + 20)),
    # target upper = 2^128 / 2^128 +- 1, lower 0 / 1 / 2^128 - 1, sources u128-like, [1, 2^128] and around 2^128
    ("u128_to_upper_2p128_lower_pos", (0, 2**128 - 1), (2**128 - 1000, 2**128 - 1)),
    ("u128_to_top_singleton", (0, 2**128 - 1), (2**128 - 1, 2**128 - 1)),
    ("u128_to_lower_one", (0, 2**128 - 1), (1, 2**128 - 1)),
    ("shifted128_both_upper_2p128", (1, 2**128), (5, 2**128 - 1)),
    ("shifted128_above_upper_2p128_plus1", (1, 2**128), (1, 2**128 - 2)),
    ("around_2p128_both", (2**128 - 5, 2**128 + 5), (2**128 - 2, 2**128 + 1)),
    ("around_2p128_above_to_upper_2p128", (2**128 - 5, 2**128 + 5), (2**128 - 5, 2**128 - 1)),
    ("around_2p128_below_from_2p128", (2**128 - 5, 2**128 + 5), (2**128, 2**128 + 5)),
    ("neg_to_upper_zero", (-10, 10), (-10, -1)), ("neg_to_upper_one", (-10, 10), (-10, 0)),
    ("to_lower_one", (-10, 10), (1, 10)), ("to_singleton_zero", (-10, 10), (0, 0)),
    ("full_signed_128_to_nonneg", (-2**127, 2**127 - 1), (0, 2**127 - 1)),
]
for cls, (fl, fh), (tl, th) in DOWN:
    F, T = bi(fl, fh), bi(tl, th)
    W[f"p_downcast_{cls}"] = (header(f"downcast/{cls}", f"downcast {tl} {th}", [near(tl, th)]) + BI +
        f"fn main(v: {F}) -> Option<{T}> {{\n    bounded_int::downcast::<{F}, {T}>(v)\n}}\n")
# felt252 -> BoundedInt<lo, hi> (range_reduction.rs::build_felt252_range_reduction, verify_optimal_range):
# every comparison of the function against a constant is a threshold -- size vs prime % u128::MAX (= T1 + 1)
# and vs 2^128, upper (= hi + 1) vs 0 and vs 2^128 (`upper_bound_fixer` 0 / the skipped second range check),
# lower vs 0 (`minus_range_lower` 0); instantiated on both sides and at equality, plus ranges touching 2^128
# from below / above and singletons.
B128 = 2**128
FELT_DOWN = [("small_crossing", -5, 5), ("size_T1", 0, T1 - 1), ("size_T1_minus1_neg", -(T1 - 1), -1),
             ("far", 2**200, 2**200 + 10), ("signed_122", -2**122, 2**122),
             ("upper_2p128_lower_pos", B128 - 1000, B128 - 1), ("upper_2p128_singleton", B128 - 1, B128 - 1),
             ("upper_2p128_size_T1", B128 - T1, B128 - 1), ("upper_2p128_minus1", B128 - 1001, B128 - 2),
             ("upper_2p128_plus1", B128 - 999, B128), ("from_2p128", B128, B128 + 10), ("above_2p128", B128 + 1, B128 + 7),
             ("upper_zero", -10, -1), ("upper_one", -10, 0), ("upper_minus1", -10, -2),
             ("lower_zero", 0, 7), ("lower_one", 1, 7), ("lower_minus1", -1, 7),
             ("singleton_zero", 0, 0), ("singleton_pos", 5, 5), ("singleton_neg", -1, -1),
             ("lower_neg_2p128", -B128, -B128 + 9), ("below_neg_2p128", -B128 - 9, -B128 - 1)]
for cls, tl, th in FELT_DOWN:
    T = bi(tl, th)
    ex = near(tl % PRIME, th % PRIME, (th + 2**128) % PRIME, (tl - 2**128) % PRIME, (tl + 2**128) % PRIME,
              (th - 2**128) % PRIME, 2**128) + [0, PRIME - 1]
    W[f"p_felt_downcast_{cls}"] = (header(f"felt_downcast/{cls}", f"felt_downcast {tl} {th}", [ex]) + BI +
        f"fn main(v: felt252) -> Option<{T}> {{\n    bounded_int::downcast::<felt252, {T}>(v)\n}}\n")

if __name__ == "__main__":
    keep = set()
    for name, src in sorted(W.items()):
        p = os.path.join(HERE, name + ".cairo")
        keep.add(name + ".cairo")
        if not os.path.exists(p) or open(p).read() != src:
            open(p, "w").write(src)
    for f in os.listdir(HERE):
        if f.endswith(".cairo") and f not in keep:
            os.unlink(os.path.join(HERE, f))
    print(len(W), "wrappers")
