fn main(a: i64) -> i128 {
    a.into()
}
