#[feature("corelib-internal-use")]
fn main(a: u128, b: u128) -> (u128, u128) {
    core::integer::u128_wide_mul(a, b)
}
