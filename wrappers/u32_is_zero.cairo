fn main(a: u32) -> Option<NonZero<u32>> {
    a.try_into()
}
