#[feature("corelib-internal-use")]
fn main(a: i128, b: i128) -> Result<u128, u128> {
    core::integer::i128_diff(a, b)
}
