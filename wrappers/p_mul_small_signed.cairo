// class: mul/small_signed
// spec: mul
#[feature("bounded-int-utils")]
use core::internal::bounded_int::{self, BoundedInt};
impl H of bounded_int::MulHelper<BoundedInt<-10, 10>, BoundedInt<-3, 7>> {
    type Result = BoundedInt<-70, 70>;
}
fn main(a: BoundedInt<-10, 10>, b: BoundedInt<-3, 7>) -> BoundedInt<-70, 70> {
    bounded_int::mul(a, b)
}
