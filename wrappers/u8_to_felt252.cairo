fn main(a: u8) -> felt252 {
    a.into()
}
