// class: add/small_signed
// spec: add
#[feature("bounded-int-utils")]
use core::internal::bounded_int::{self, BoundedInt};
impl H of bounded_int::AddHelper<BoundedInt<-10, 10>, BoundedInt<-3, 7>> {
    type Result = BoundedInt<-13, 17>;
}
fn main(a: BoundedInt<-10, 10>, b: BoundedInt<-3, 7>) -> BoundedInt<-13, 17> {
    bounded_int::add(a, b)
}
