use core::num::traits::OverflowingSub;
fn main(a: i64, b: i64) -> (i64, bool) {
    a.overflowing_sub(b)
}
