#[feature("corelib-internal-use")]
fn main(a: u128, b: NonZero<u128>) -> (u128, u128) {
    core::integer::u128_safe_divmod(a, b)
}
