fn main(a: u256, b: u256, n: NonZero<u256>) -> u256 {
    core::math::u256_mul_mod_n(a, b, n)
}
