fn main(a: u128) -> felt252 {
    a.into()
}
