use core::num::traits::OverflowingMul;
fn main(a: u256, b: u256) -> (u256, bool) {
    a.overflowing_mul(b)
}
