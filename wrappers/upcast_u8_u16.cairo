fn main(a: u8) -> u16 {
    a.into()
}
