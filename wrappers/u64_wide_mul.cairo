#[feature("corelib-internal-use")]
fn main(a: u64, b: u64) -> u128 {
    core::integer::u64_wide_mul(a, b)
}
