// class: is_zero/unsigned
// spec: is_zero
#[feature("bounded-int-utils")]
use core::internal::bounded_int::{self, BoundedInt};
fn main(v: BoundedInt<0, 340282366920938463463374607431768211455>) -> core::zeroable::IsZeroResult<BoundedInt<0, 340282366920938463463374607431768211455>> {
    bounded_int::is_zero(v)
}
