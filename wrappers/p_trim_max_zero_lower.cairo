// class: trim_max/zero_lower
// spec: trim 255
// extra0: 253 254 255
#[feature("bounded-int-utils")]
use core::internal::bounded_int::{self, BoundedInt};
impl H of bounded_int::TrimMaxHelper<BoundedInt<0, 255>> {
    type Target = BoundedInt<0, 254>;
}
fn main(v: BoundedInt<0, 255>) -> core::internal::OptionRev<BoundedInt<0, 254>> {
    bounded_int::trim_max(v)
}
