// class: add/unsigned_128
// spec: add
#[feature("bounded-int-utils")]
use core::internal::bounded_int::{self, BoundedInt};
impl H of bounded_int::AddHelper<BoundedInt<0, 340282366920938463463374607431768211455>, BoundedInt<0, 340282366920938463463374607431768211455>> {
    type Result = BoundedInt<0, 680564733841876926926749214863536422910>;
}
fn main(a: BoundedInt<0, 340282366920938463463374607431768211455>, b: BoundedInt<0, 340282366920938463463374607431768211455>) -> BoundedInt<0, 680564733841876926926749214863536422910> {
    bounded_int::add(a, b)
}
