fn main(a: i16) -> Option<i8> {
    a.try_into()
}
