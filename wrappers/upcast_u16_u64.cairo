fn main(a: u16) -> u64 {
    a.into()
}
