fn main(a: u256, n: NonZero<u256>) -> Option<NonZero<u256>> {
    core::math::u256_inv_mod(a, n)
}
