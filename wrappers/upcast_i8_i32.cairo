fn main(a: i8) -> i32 {
    a.into()
}
