fn main(a: u16) -> Option<u8> {
    a.try_into()
}
