// class: is_zero/crossing
// spec: is_zero
#[feature("bounded-int-utils")]
use core::internal::bounded_int::{self, BoundedInt};
fn main(v: BoundedInt<-5, 5>) -> core::zeroable::IsZeroResult<BoundedInt<-5, 5>> {
    bounded_int::is_zero(v)
}
