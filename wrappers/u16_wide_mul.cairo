#[feature("corelib-internal-use")]
fn main(a: u16, b: u16) -> u32 {
    core::integer::u16_wide_mul(a, b)
}
