fn main(a: i8) -> i64 {
    a.into()
}
