fn main(a: u8) -> Option<NonZero<u8>> {
    a.try_into()
}
