fn main(a: u32) -> Option<i8> {
    a.try_into()
}
