// class: downcast/below_only_pos
// spec: downcast 3 10
// extra0: 2 3 4 9 10 11
#[feature("bounded-int-utils")]
use core::internal::bounded_int::{self, BoundedInt};
fn main(v: BoundedInt<-10, 10>) -> Option<BoundedInt<3, 10>> {
    bounded_int::downcast::<BoundedInt<-10, 10>, BoundedInt<3, 10>>(v)
}
