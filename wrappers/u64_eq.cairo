fn main(a: u64, b: u64) -> bool {
    a == b
}
