fn main(a: i8) -> i128 {
    a.into()
}
