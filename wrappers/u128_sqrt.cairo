#[feature("corelib-internal-use")]
fn main(a: u128) -> u64 {
    core::integer::u128_sqrt(a)
}
