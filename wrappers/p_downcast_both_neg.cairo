// class: downcast/both_neg
// spec: downcast -20 -10
// extra0: -21 -20 -19 -11 -10 -9
#[feature("bounded-int-utils")]
use core::internal::bounded_int::{self, BoundedInt};
fn main(v: BoundedInt<-1000, 0>) -> Option<BoundedInt<-20, -10>> {
    bounded_int::downcast::<BoundedInt<-1000, 0>, BoundedInt<-20, -10>>(v)
}
