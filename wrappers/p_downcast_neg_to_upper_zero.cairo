// class: downcast/neg_to_upper_zero
// spec: downcast -10 -1
// extra0: -11 -10 -9 -2 -1 0
#[feature("bounded-int-utils")]
use core::internal::bounded_int::{self, BoundedInt};
fn main(v: BoundedInt<-10, 10>) -> Option<BoundedInt<-10, -1>> {
    bounded_int::downcast::<BoundedInt<-10, 10>, BoundedInt<-10, -1>>(v)
}
