#[feature("corelib-internal-use")]
fn main(a: u128, b: u128) -> Result<u128, u128> {
    core::integer::u128_overflowing_add(a, b)
}
