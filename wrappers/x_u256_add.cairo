use core::num::traits::OverflowingAdd;
fn main(a: u256, b: u256) -> (u256, bool) {
    a.overflowing_add(b)
}
