fn main(a: i128, b: i128) -> bool {
    a == b
}
