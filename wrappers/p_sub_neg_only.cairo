// class: sub/neg_only
// spec: sub
#[feature("bounded-int-utils")]
use core::internal::bounded_int::{self, BoundedInt};
impl H of bounded_int::SubHelper<BoundedInt<-100, -1>, BoundedInt<-50, -2>> {
    type Result = BoundedInt<-98, 49>;
}
fn main(a: BoundedInt<-100, -1>, b: BoundedInt<-50, -2>) -> BoundedInt<-98, 49> {
    bounded_int::sub(a, b)
}
