fn main(a: u32) -> i128 {
    a.into()
}
