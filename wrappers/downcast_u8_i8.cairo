fn main(a: u8) -> Option<i8> {
    a.try_into()
}
