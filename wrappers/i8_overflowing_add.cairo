use core::num::traits::OverflowingAdd;
fn main(a: i8, b: i8) -> (i8, bool) {
    a.overflowing_add(b)
}
