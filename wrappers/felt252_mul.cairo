fn main(a: felt252, b: felt252) -> felt252 {
    a * b
}
