fn main(a: i128) -> Option<i64> {
    a.try_into()
}
