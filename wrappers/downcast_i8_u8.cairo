fn main(a: i8) -> Option<u8> {
    a.try_into()
}
