fn main(a: u32) -> u64 {
    a.into()
}
