#[feature("corelib-internal-use")]
fn main(a: u64) -> u32 {
    core::integer::u64_sqrt(a)
}
