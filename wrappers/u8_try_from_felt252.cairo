fn main(a: felt252) -> Option<u8> {
    a.try_into()
}
