use core::integer::{u512, u512_safe_div_rem_by_u256};
fn main(a: u512, b: NonZero<u256>) -> (u512, u256) {
    u512_safe_div_rem_by_u256(a, b)
}
