fn main(i: u32, v: felt252) -> Option<felt252> {
    let mut a = array![v, v + 1, v + 2];
    match a.get(i) { Some(x) => Some(*x.unbox()), None => None }
}
