fn main(a: u64) -> felt252 {
    a.into()
}
