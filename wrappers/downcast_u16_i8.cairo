fn main(a: u16) -> Option<i8> {
    a.try_into()
}
