fn main(a: i16, b: i16) -> bool {
    a == b
}
