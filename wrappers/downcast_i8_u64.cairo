fn main(a: i8) -> Option<u64> {
    a.try_into()
}
