fn main(a: u64) -> Option<i32> {
    a.try_into()
}
