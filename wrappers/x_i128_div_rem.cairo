fn main(a: i128, b: NonZero<i128>) -> (i128, i128) {
    DivRem::div_rem(a, b)
}
