// class: trim_max/neg_lower
// spec: trim 10
// extra0: 8 9 10
#[feature("bounded-int-utils")]
use core::internal::bounded_int::{self, BoundedInt};
impl H of bounded_int::TrimMaxHelper<BoundedInt<-10, 10>> {
    type Target = BoundedInt<-10, 9>;
}
fn main(v: BoundedInt<-10, 10>) -> core::internal::OptionRev<BoundedInt<-10, 9>> {
    bounded_int::trim_max(v)
}
