fn main(a: u128) -> Option<u8> {
    a.try_into()
}
