#[feature("corelib-internal-use")]
fn main(a: u16) -> u8 {
    core::integer::u16_sqrt(a)
}
