fn main(k: felt252, v: felt252, k2: felt252) -> felt252 {
    let mut d: Felt252Dict<felt252> = Default::default();
    d.insert(k, v);
    d.insert(k2, v + 1);
    let r = d.get(k);
    let _ = d.squash();
    r
}
