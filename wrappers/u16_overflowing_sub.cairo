#[feature("corelib-internal-use")]
fn main(a: u16, b: u16) -> Result<u16, u16> {
    core::integer::u16_overflowing_sub(a, b)
}
