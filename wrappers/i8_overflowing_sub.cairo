use core::num::traits::OverflowingSub;
fn main(a: i8, b: i8) -> (i8, bool) {
    a.overflowing_sub(b)
}
