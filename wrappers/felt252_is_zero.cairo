fn main(a: felt252) -> bool {
    a == 0
}
