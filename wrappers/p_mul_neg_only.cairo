// class: mul/neg_only
// spec: mul
#[feature("bounded-int-utils")]
use core::internal::bounded_int::{self, BoundedInt};
impl H of bounded_int::MulHelper<BoundedInt<-100, -1>, BoundedInt<-50, -2>> {
    type Result = BoundedInt<2, 5000>;
}
fn main(a: BoundedInt<-100, -1>, b: BoundedInt<-50, -2>) -> BoundedInt<2, 5000> {
    bounded_int::mul(a, b)
}
