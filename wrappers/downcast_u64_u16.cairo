fn main(a: u64) -> Option<u16> {
    a.try_into()
}
