use core::ec::{EcPointTrait, EcStateTrait};
fn main(x: felt252, k: felt252) -> Option<felt252> {
    match EcPointTrait::new_nz_from_x(x) {
        Some(p) => {
            let mut s = EcStateTrait::init();
            s.add_mul(k, p);
            match s.finalize_nz() { Some(q) => { let (rx, _) = q.coordinates(); Some(rx) }, None => None }
        },
        None => None,
    }
}
