fn main(a: u16) -> Option<NonZero<u16>> {
    a.try_into()
}
