// class: constrain/boundary_lower_plus1
// spec: constrain -9
// extra0: -10 -9 -8 8 9 10 -10 -9 -8 8 9 10 0
#[feature("bounded-int-utils")]
use core::internal::bounded_int::{self, BoundedInt};
impl H of bounded_int::ConstrainHelper<BoundedInt<-10, 10>, -9> {
    type LowT = BoundedInt<-10, -10>;
    type HighT = BoundedInt<-9, 10>;
}
fn main(v: BoundedInt<-10, 10>) -> Result<BoundedInt<-10, -10>, BoundedInt<-9, 10>> {
    bounded_int::constrain::<BoundedInt<-10, 10>, -9>(v)
}
