fn main(a: i128) -> Option<u64> {
    a.try_into()
}
