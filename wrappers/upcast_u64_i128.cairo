fn main(a: u64) -> i128 {
    a.into()
}
