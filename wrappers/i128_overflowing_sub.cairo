use core::num::traits::OverflowingSub;
fn main(a: i128, b: i128) -> (i128, bool) {
    a.overflowing_sub(b)
}
