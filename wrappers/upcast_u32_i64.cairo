fn main(a: u32) -> i64 {
    a.into()
}
