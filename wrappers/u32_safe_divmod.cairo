#[feature("corelib-internal-use")]
fn main(a: u32, b: NonZero<u32>) -> (u32, u32) {
    core::integer::u32_safe_divmod(a, b)
}
