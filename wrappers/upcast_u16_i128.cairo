fn main(a: u16) -> i128 {
    a.into()
}
