fn main(a: u8) -> u128 {
    a.into()
}
