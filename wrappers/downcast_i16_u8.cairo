fn main(a: i16) -> Option<u8> {
    a.try_into()
}
