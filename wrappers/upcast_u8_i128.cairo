fn main(a: u8) -> i128 {
    a.into()
}
