fn main(a: u128) -> Option<u64> {
    a.try_into()
}
