fn main(a: i32, b: i32) -> bool {
    a == b
}
