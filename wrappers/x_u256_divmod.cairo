fn main(a: u256, b: NonZero<u256>) -> (u256, u256) {
    DivRem::div_rem(a, b)
}
