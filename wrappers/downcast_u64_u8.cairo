fn main(a: u64) -> Option<u8> {
    a.try_into()
}
