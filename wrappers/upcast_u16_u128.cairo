fn main(a: u16) -> u128 {
    a.into()
}
