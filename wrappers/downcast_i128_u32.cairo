fn main(a: i128) -> Option<u32> {
    a.try_into()
}
