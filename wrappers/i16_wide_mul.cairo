#[feature("corelib-internal-use")]
fn main(a: i16, b: i16) -> i32 {
    core::integer::i16_wide_mul(a, b)
}
