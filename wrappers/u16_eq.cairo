fn main(a: u16, b: u16) -> bool {
    a == b
}
