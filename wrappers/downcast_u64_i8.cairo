fn main(a: u64) -> Option<i8> {
    a.try_into()
}
