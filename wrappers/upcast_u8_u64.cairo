fn main(a: u8) -> u64 {
    a.into()
}
