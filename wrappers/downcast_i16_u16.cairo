fn main(a: i16) -> Option<u16> {
    a.try_into()
}
