fn main(a: i64) -> felt252 {
    a.into()
}
