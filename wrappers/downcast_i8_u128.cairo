fn main(a: i8) -> Option<u128> {
    a.try_into()
}
