#[feature("corelib-internal-use")]
fn main(a: u32) -> u16 {
    core::integer::u32_sqrt(a)
}
