fn main(a: i16, b: NonZero<i16>) -> (i16, i16) {
    DivRem::div_rem(a, b)
}
