fn main(a: u8) -> i32 {
    a.into()
}
