fn main(a: u64) -> Option<NonZero<u64>> {
    a.try_into()
}
