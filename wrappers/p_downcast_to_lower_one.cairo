// class: downcast/to_lower_one
// spec: downcast 1 10
// extra0: 0 1 2 9 10 11
#[feature("bounded-int-utils")]
use core::internal::bounded_int::{self, BoundedInt};
fn main(v: BoundedInt<-10, 10>) -> Option<BoundedInt<1, 10>> {
    bounded_int::downcast::<BoundedInt<-10, 10>, BoundedInt<1, 10>>(v)
}
