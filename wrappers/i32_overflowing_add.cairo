use core::num::traits::OverflowingAdd;
fn main(a: i32, b: i32) -> (i32, bool) {
    a.overflowing_add(b)
}
