fn main(a: u128) -> Option<i64> {
    a.try_into()
}
