fn main(a: i32) -> Option<u128> {
    a.try_into()
}
