// class: constrain/pos_boundary
// spec: constrain 5
// extra0: 4 5 6 -6 -5 -4 -10 -9 -8 8 9 10 0
#[feature("bounded-int-utils")]
use core::internal::bounded_int::{self, BoundedInt};
impl H of bounded_int::ConstrainHelper<BoundedInt<-10, 10>, 5> {
    type LowT = BoundedInt<-10, 4>;
    type HighT = BoundedInt<5, 10>;
}
fn main(v: BoundedInt<-10, 10>) -> Result<BoundedInt<-10, 4>, BoundedInt<5, 10>> {
    bounded_int::constrain::<BoundedInt<-10, 10>, 5>(v)
}
