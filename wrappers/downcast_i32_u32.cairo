fn main(a: i32) -> Option<u32> {
    a.try_into()
}
