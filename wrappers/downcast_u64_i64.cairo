fn main(a: u64) -> Option<i64> {
    a.try_into()
}
