fn main(a: u128) -> Option<i16> {
    a.try_into()
}
