#[feature("corelib-internal-use")]
fn main(a: i32, b: i32) -> i64 {
    core::integer::i32_wide_mul(a, b)
}
