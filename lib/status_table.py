#!/usr/bin/env python3
"""Prints a markdown status table from MANIFEST.json + evidence/*.json (for DESIGN.md §9)."""
import json, os
ROOT = os.path.dirname(os.path.dirname(os.path.abspath(__file__)))
man = json.load(open(os.path.join(ROOT, "MANIFEST.json")))
print("| id | level | Coq statements (cone) | property theorems | cases explored per quick run | distinct non-trivial | known findings printed | quick wall s |")
print("|----|-------|-----------------------|-------------------|------------------------------|----------------------|------------------------|--------------|")
for c in man["checks"]:
    p = c["property_id"]
    try:
        ev = json.load(open(os.path.join(ROOT, "evidence", p + ".json")))
    except Exception:
        continue
    cov = ev["coverage"]
    th = cov.get("property_theorems") or cov.get("theorems") or []
    if isinstance(th, dict):
        th = list(th)
    th = ", ".join(str(x) for x in th[:8]) + (" …" if len(th) > 8 else "")
    print("| %s | %s | %s/%s | %s | %s | %s | %s | %s |" % (
        p, ev["level"], cov.get("discharged", "-"), cov.get("obligations", "-"), th or "-",
        cov.get("evaluations", "-"), cov.get("distinct_nontrivial", "-"),
        len(ev.get("known_findings_reported", []) or []), ev.get("wall_s")))
