"""Shared machinery of the /verif checks: process running, Coq builds and hygiene gate, sharded
evaluation of case files inside Coq, evidence and violation reporting, known findings."""
import glob
import json
import os
import re
import subprocess
import sys
import time
from concurrent.futures import ThreadPoolExecutor

ROOT = os.path.dirname(os.path.dirname(os.path.abspath(__file__)))
COQ = os.path.join(ROOT, "coq")
HARNESS = os.path.join(ROOT, "harness")
OUT = os.path.join(ROOT, "out")
EVID = os.path.join(ROOT, "evidence")
NCPU = os.cpu_count() or 8

# axioms of Coq's standard library that the brief allows; anything else fails the gate
ALLOWED_AXIOMS = {
    "functional_extensionality_dep",
    "FunctionalExtensionality.functional_extensionality_dep",
    "proof_irrelevance",
    "ProofIrrelevance.proof_irrelevance",
    "Eqdep.Eq_rect_eq.eq_rect_eq",
    "eq_rect_eq",
    "JMeq_eq",
    "JMeq.JMeq_eq",
    "classic",
    "Classical_Prop.classic",
}

FORBIDDEN = re.compile(
    r"\b(Admitted|admit|Axiom|Axioms|Parameter|Parameters|Conjecture|Abort All|"
    r"Unset Guard Checking|Unset Positivity Checking|Unset Universe Checking|bypass_check|"
    r"Admit Obligations|native_compute)\b"
)


def env_offline():
    e = dict(os.environ)
    e.update(CARGO_NET_OFFLINE="true", GOPROXY="off", PIP_NO_INDEX="1")
    return e


def run(cmd, cwd=None, timeout=3600, env=None, stdin=None):
    """Runs cmd (list or shell string); returns (rc, combined output). rc=124 on timeout."""
    shell = isinstance(cmd, str)
    try:
        p = subprocess.run(
            cmd, cwd=cwd, shell=shell, timeout=timeout, env=env or env_offline(),
            stdout=subprocess.PIPE, stderr=subprocess.STDOUT, input=stdin, text=True, errors="replace",
        )
        return p.returncode, p.stdout
    except subprocess.TimeoutExpired as ex:
        out = ex.stdout if isinstance(ex.stdout, str) else (ex.stdout or b"").decode(errors="replace")
        return 124, out + "\n[timeout after %ss]" % timeout


class Ctx:
    """One run of one property check."""

    def __init__(self, pid, tier, seed):
        self.pid, self.tier, self.seed = pid, tier, seed
        self.t0 = time.time()
        self.out = os.path.join(OUT, pid)
        os.makedirs(self.out, exist_ok=True)
        os.makedirs(EVID, exist_ok=True)
        self.violations = []        # (replay_path, suffix)
        self.known = []             # messages
        self.cov = {}
        self.assumptions = []
        self.log_lines = []
        self.n_replay = 0
        self.known_findings = load_known_findings()

    @property
    def thorough(self):
        return self.tier == "thorough"

    def log(self, *a):
        s = " ".join(str(x) for x in a)
        self.log_lines.append(s)
        print("[%s %6.1fs] %s" % (self.pid, time.time() - self.t0, s), flush=True)

    # ---------- violations ----------
    def violation(self, what, replay, found_input=True, fingerprint=None):
        """Records a violation. `replay` is a JSON-able dict. If a known finding matches
        `fingerprint`, prints KNOWN-FINDING instead."""
        if fingerprint:
            for kf in self.known_findings:
                if kf["kind"] == "known" and kf["property"] == self.pid and kf["fingerprint"] in fingerprint:
                    msg = "KNOWN-FINDING: property=%s %s" % (self.pid, kf["text"])
                    if msg not in self.known:
                        self.known.append(msg)
                        print(msg, flush=True)
                    return
        self.n_replay += 1
        path = os.path.join(self.out, "replay-%d.json" % self.n_replay)
        replay = dict(replay)
        replay.update(property=self.pid, what=what, found_failing_input=found_input,
                      seed=self.seed, tier=self.tier)
        with open(path, "w") as f:
            json.dump(replay, f, indent=1, default=str)
        self.violations.append((path, "" if found_input else " no-failing-input-found"))
        self.log("violation:", what)

    # ---------- evidence ----------
    def finish(self, level, explanation, trusted_base, checker_cmd, extra_assumptions=()):
        cov = dict(self.cov)
        cov.setdefault("explanation", explanation)
        cov.setdefault("trusted_base", list(trusted_base))
        cov.setdefault("checker_cmd", checker_cmd)
        ev = {
            "property_id": self.pid, "tier": self.tier, "seed": self.seed, "level": level,
            "coverage": cov,
            "assumptions": (list(self.assumptions) + list(extra_assumptions)) or list(cov.get("trusted_base", [])),
            "wall_s": round(time.time() - self.t0, 1), "violations": len(self.violations),
            "known_findings_reported": self.known,
        }
        with open(os.path.join(EVID, self.pid + ".json"), "w") as f:
            json.dump(ev, f, indent=1, default=str)
        for path, suffix in self.violations:
            print("VIOLATION property=%s replay=%s%s" % (self.pid, path, suffix), flush=True)
        return 1 if self.violations else 0


def load_known_findings():
    """known_findings.txt lines:
         known: property=Cxx fingerprint=<token> <free text>
         fixed: property=Cxx <commit> <free text>          (suppresses nothing)"""
    res = []
    p = os.path.join(ROOT, "known_findings.txt")
    if not os.path.exists(p):
        return res
    for line in open(p):
        line = line.strip()
        if not line or line.startswith("#"):
            continue
        m = re.match(r"(known|fixed):\s+property=(C\d+)\s+(?:fingerprint=(\S+)\s+)?(.*)", line)
        if m:
            res.append({"kind": m.group(1), "property": m.group(2), "fingerprint": m.group(3) or "",
                        "text": m.group(4)})
    return res


# ---------- cargo ----------
def cargo_build(ctx, pkg, timeout=3000):
    """Builds one harness package against /repo's working tree (hooks on via harness/.cargo)."""
    t = time.time()
    rc, out = run(["cargo", "build", "--offline", "-p", pkg], cwd=HARNESS, timeout=timeout)
    ctx.log("cargo build -p %s: rc=%d (%.0fs)" % (pkg, rc, time.time() - t))
    if rc != 0:
        tail = "\n".join(out.splitlines()[-40:])
        ctx.log(tail)
    return rc == 0, out


def harness_bin(pkg):
    return os.path.join(HARNESS, "target", "debug", pkg)


# ---------- Coq ----------
# Layout: coq/<Dir>/*.v is one library with logical name <Dir> (Base, C16, ...), built by its own
# coq_makefile Makefile; coq/<Dir>/DEPS lists the other libraries it imports (one per line).
# coq/Props/Cxx.v (leaf property files) and generated files are compiled directly by the driver.
def coq_dirs():
    ds = []
    for d in sorted(os.listdir(COQ)):
        p = os.path.join(COQ, d)
        if os.path.isdir(p) and d not in ("Props", "gen") and glob.glob(os.path.join(p, "*.v")):
            ds.append(d)
    return ds


def qflags():
    fl = []
    for d in coq_dirs():
        fl += ["-Q", os.path.join(COQ, d), d]
    return fl


def coq_deps(d):
    p = os.path.join(COQ, d, "DEPS")
    deps = ["Base"] if d != "Base" else []
    if os.path.exists(p):
        for line in open(p):
            line = line.strip()
            if line and not line.startswith("#") and line not in deps:
                deps.append(line)
    return deps


def _dep_order(d, seen=None):
    seen = seen if seen is not None else []
    for x in coq_deps(d):
        _dep_order(x, seen)
    if d not in seen:
        seen.append(d)
    return seen


def coq_files(d):
    """The .v files of library d, in the order given by coq/<d>/FILES if present (else all)."""
    return sorted(glob.glob(os.path.join(COQ, d, "*.v")))


def cone_files(d):
    fs = []
    for x in _dep_order(d):
        fs += coq_files(x)
    return fs


def coq_make(ctx, d, timeout=3000):
    """Full .vo build (never -vos) of library d and, first, of the libraries it depends on."""
    import fcntl
    out_all = ""
    for x in _dep_order(d):
        t = time.time()
        dirp = os.path.join(COQ, x)
        if not os.path.isdir(dirp):
            ctx.log("coq/%s does not exist (a generated library whose translator has not run yet?)" % x)
            return False, out_all
        with open(os.path.join(dirp, ".lock"), "w") as lk:
            fcntl.flock(lk, fcntl.LOCK_EX)
            lines = []
            for y in _dep_order(x):
                lines.append("-Q %s %s" % ("." if y == x else os.path.join("..", y), y))
            lines += [os.path.basename(f) for f in coq_files(x)]
            proj = "\n".join(lines) + "\n"
            pp = os.path.join(dirp, "_CoqProject")
            if not os.path.exists(pp) or open(pp).read() != proj or not os.path.exists(os.path.join(dirp, "Makefile")):
                open(pp, "w").write(proj)
                rc, out = run("coq_makefile -f _CoqProject -o Makefile", cwd=dirp, timeout=120)
                if rc != 0:
                    ctx.log(out)
                    return False, out
            rc, out = run(["make", "-j%d" % NCPU], cwd=dirp, timeout=timeout)
        out_all += out
        ctx.log("make coq/%s: rc=%d (%.0fs)" % (x, rc, time.time() - t))
        if rc != 0:
            ctx.log("\n".join(out.splitlines()[-30:]))
            return False, out_all
    return True, out_all


def coqc_file(path, timeout=1200, extra_q=()):
    """Compiles one .v directly (used for the leaf Properties files and generated files)."""
    return run(["coqc", "-q", "-noglob"] + qflags() + list(extra_q) + [path],
               cwd=os.path.dirname(path), timeout=timeout)


def hygiene(ctx, files):
    """No Admitted/admit/Axiom/... anywhere in the given .v files (comments stripped)."""
    bad = []
    for f in files:
        src = strip_coq_comments(open(f).read())
        for m in FORBIDDEN.finditer(src):
            bad.append("%s: %s" % (os.path.relpath(f, ROOT), m.group(0)))
    if bad:
        ctx.log("hygiene gate failed: " + "; ".join(bad[:10]))
    return bad


def strip_coq_comments(s):
    out, depth, i = [], 0, 0
    while i < len(s):
        if s.startswith("(*", i):
            depth += 1
            i += 2
        elif s.startswith("*)", i) and depth > 0:
            depth -= 1
            i += 2
        else:
            if depth == 0:
                out.append(s[i])
            i += 1
    return "".join(out)


def count_obligations(files):
    n = 0
    names = []
    for f in files:
        src = strip_coq_comments(open(f).read())
        for m in re.finditer(r"^\s*(?:Local\s+|Global\s+|#\[[^\]]*\]\s*)*(Theorem|Lemma|Corollary|Fact|Example|Proposition)\s+([A-Za-z0-9_']+)", src, re.M):
            n += 1
            names.append(m.group(2))
    return n, names


def parse_assumptions(output):
    """Splits coqc output into Print Assumptions blocks; returns (closed_count, set of axioms)."""
    closed = len(re.findall(r"Closed under the global context", output))
    axioms = set()
    for blk in re.findall(r"Axioms:\n((?:.+\n?)+?)(?:\n|\Z)", output):
        for line in blk.splitlines():
            m = re.match(r"^([A-Za-z_][\w.']*)\s*:", line)
            if m:
                axioms.add(m.group(1))
    return closed, axioms


def check_properties_file(ctx, vfile, cone_files, timeout=1800):
    """Compiles Properties/Cxx.v (always from scratch), checks the hygiene gate on the cone and the
    Print Assumptions allow-list. Returns dict(ok, obligations, discharged, axioms, log)."""
    t = time.time()
    bad = hygiene(ctx, cone_files + [vfile])
    rc, out = coqc_file(vfile, timeout=timeout)
    closed, axioms = parse_assumptions(out)
    unknown = sorted(a for a in axioms if a.split(".")[-1] not in {x.split(".")[-1] for x in ALLOWED_AXIOMS})
    n, names = count_obligations(cone_files + [vfile])
    ok = rc == 0 and not bad and not unknown
    ctx.log("coqc %s: rc=%d, %d statements in cone, %d closed assumption blocks, axioms=%s (%.0fs)"
            % (os.path.relpath(vfile, ROOT), rc, n, closed, sorted(axioms), time.time() - t))
    if rc != 0:
        ctx.log("\n".join(out.splitlines()[-25:]))
    return {"ok": ok, "rc": rc, "hygiene": bad, "unknown_axioms": unknown, "obligations": n,
            "discharged": n if ok else 0, "axioms": sorted(axioms), "closed_blocks": closed,
            "log": out, "names": names}


def coqchk_lib(ctx, lib, modules, timeout=2400):
    """Thorough tier: re-checks the compiled library with Coq's independent checker and returns the
    axioms it reports (`coqchk -o`).  `modules` are the top modules of the cone, e.g. ["Sem"]."""
    t = time.time()
    q = []
    for d in _dep_order(lib):
        q += ["-Q", os.path.join(COQ, d), d]
    rc, out = run(["coqchk", "-o", "-silent"] + q + ["%s.%s" % (lib, m) for m in modules], cwd=COQ,
                  timeout=timeout)
    m = re.search(r"\* Axioms:\s*(.*?)\n\s*\n\* Constants", out, re.S)
    axioms = m.group(1).strip() if m else "?"
    ok = rc == 0 and axioms == "<none>" and "type-in-type: <none>" in out and "positivity is assumed: <none>" in out \
        and "unsafe (co)fixpoints: <none>" in out
    ctx.log("coqchk -o %s: rc=%d axioms=%s (%.0fs)" % (lib, rc, axioms[:200], time.time() - t))
    return {"ok": ok, "rc": rc, "axioms": axioms, "tail": out[-1500:]}


def run_case_shards(ctx, case_dir, pattern="*.v", timeout=1500, extra_q=()):
    """Evaluates every shard written by a harness (each ends in `Print bad.`) inside Coq, in
    parallel. Returns list of (shard, ok, output)."""
    shards = sorted(glob.glob(os.path.join(case_dir, pattern)))
    q = qflags() + list(extra_q)

    def one(p):
        rc, out = run(["coqc", "-q", "-noglob"] + q + [p], cwd=case_dir, timeout=timeout)
        ok = rc == 0 and re.search(r"^bad\s*=\s*\[\]", out, re.M) is not None
        return (p, ok, out)

    t = time.time()
    with ThreadPoolExecutor(max_workers=NCPU) as ex:
        res = list(ex.map(one, shards))
    ctx.log("evaluated %d case shards in Coq (%.0fs), %d disagree" % (
        len(res), time.time() - t, sum(1 for r in res if not r[1])))
    return res


def clean_dir(d):
    os.makedirs(d, exist_ok=True)
    for f in os.listdir(d):
        p = os.path.join(d, f)
        if os.path.isfile(p):
            os.unlink(p)


def repo_head():
    rc, out = run("git -C /repo rev-parse --short HEAD; git -C /repo status --porcelain | wc -l")
    return " ".join(out.split())
