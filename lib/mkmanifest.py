#!/usr/bin/env python3
"""Assembles /verif/MANIFEST.json from props/cXX.manifest.json (one proposed entry per property).
A property without such a file is listed under not_applicable with the reason in NOT_BUILT."""
import glob
import json
import os
import subprocess

ROOT = os.path.dirname(os.path.dirname(os.path.abspath(__file__)))
props = [json.loads(l) for l in open(os.path.join(ROOT, "properties.jsonl"))]
NA_REASONS = {}
na_file = os.path.join(ROOT, "props", "not_applicable.json")
if os.path.exists(na_file):
    NA_REASONS = json.load(open(na_file))

# only properties listed in props/enabled.txt are claimed (their check passes on the unchanged tree)
enabled = set(open(os.path.join(ROOT, "props", "enabled.txt")).read().split())
checks, claimed = [], []
for p in props:
    pid = p["id"]
    if pid not in enabled:
        continue
    f = os.path.join(ROOT, "props", pid.lower() + ".manifest.json")
    if not os.path.exists(f) or not os.path.exists(os.path.join(ROOT, "props", pid.lower() + ".py")):
        continue
    e = json.load(open(f))
    if isinstance(e.get("level_claimed"), str):
        e["level_claimed"] = {"category": e["level_claimed"], "text": e.get("level_text", e.get("level_note", ""))}
    entry = {
        "property_id": pid,
        "quick_cmd": "./check %s --tier quick" % pid,
        "thorough_cmd": "./check %s --tier thorough" % pid,
        "evidence_file": "/verif/evidence/%s.json" % pid,
        "replay_cmd_template": "./check %s --replay {path}" % pid,
        "engine": "coq-proof+correspondence",
        "level_claimed": e["level_claimed"],
        "level_note": e["level_note"],
        "technique": e.get("technique", "Coq proof over a Gallina model + model/implementation correspondence"),
    }
    entry["level_claimed"].setdefault("design_ref", "DESIGN.md §3 " + pid)
    checks.append(entry)
    claimed.append(pid)

hooks = subprocess.run("git -C /repo log --format=%h --grep='^verif hook' ", shell=True, capture_output=True,
                       text=True).stdout.split()
man = {
    "version": 1,
    "setup_cmd": "./setup.sh",
    "hooks": {
        "guard": "cairo_verif",
        "enable": "RUSTFLAGS=\"--cfg cairo_verif\" (set in /verif/harness/.cargo/config.toml; every harness build "
                  "of /repo's crates uses it)",
        "baseline_off_cmd": "cd /repo && cargo nextest run --workspace --no-fail-fast --tool-config-file "
                            "pb:/w/lib/nextest.toml --profile pb --test-threads 8 --offline || cargo test "
                            "--workspace --no-fail-fast --offline",
        "source_commits": hooks,
        "add_only": True,
    },
    "engines": [{
        "name": "coq-proof+correspondence", "path": "/verif/check", "serves_properties": claimed,
        "kind_free_text": "Coq 8.16 theorems over hand-written Gallina models (coq/), tied to /repo on every run by "
                          "Rust correspondence/translator harnesses (harness/) whose cases are evaluated inside Coq "
                          "with vm_compute; impl-level oracles search for concrete failing inputs",
    }],
    "checks": checks,
    "notes": "See DESIGN.md. Known findings: known_findings.txt. Repairs of genuine defects are `fix:` commits in /repo.",
    "not_applicable": [
        {"property_id": p["id"],
         "reason": NA_REASONS.get(p["id"], "machinery not built yet in this round (planned, DESIGN.md §6); not a claim "
                                           "that the technique cannot apply")}
        for p in props if p["id"] not in claimed],
}
json.dump(man, open(os.path.join(ROOT, "MANIFEST.json"), "w"), indent=1)
print("claimed:", " ".join(claimed))
