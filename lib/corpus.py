"""Corpus extraction from /repo's current tree (run at check time, nothing cached across runs)."""
import glob
import os
import re

REPO = os.environ.get("VERIF_REPO", "/repo")


def _sections(path):
    """Parses a cairo-lang test file (`//! > name` sections, tests separated by ====)."""
    tests, cur, name = [], {}, None
    for line in open(path, errors="replace"):
        if line.startswith("//! > ===="):
            if cur:
                tests.append(cur)
            cur, name = {}, None
        elif line.startswith("//! > "):
            name = line[6:].strip()
            cur.setdefault(name, "")
        elif name is not None:
            cur[name] += line
    if cur:
        tests.append(cur)
    return tests


def sierra_corpus(out_dir, max_files=None):
    """Writes every Sierra program found in /repo (standalone *.sierra files and the `sierra_code`
    sections of the e2e test data) to out_dir/*.sierra; returns the number of programs."""
    os.makedirs(out_dir, exist_ok=True)
    for f in glob.glob(os.path.join(out_dir, "*.sierra")):
        os.unlink(f)
    n = 0
    files = []
    for pat in (REPO + "/crates/cairo-lang-sierra/examples/*.sierra", REPO + "/tests/test_data/*.sierra",
                REPO + "/examples/*.sierra", REPO + "/crates/cairo-lang-starknet/test_data/*.sierra"):
        files += sorted(glob.glob(pat))
    for f in files:
        base = re.sub(r"[^A-Za-z0-9_]", "_", os.path.splitext(os.path.basename(f))[0])
        dst = os.path.join(out_dir, "f_%s.sierra" % base)
        open(dst, "w").write(open(f).read())
        n += 1
    for f in sorted(glob.glob(REPO + "/tests/e2e_test_data/**/*", recursive=True)):
        if not os.path.isfile(f):
            continue
        rel = re.sub(r"[^A-Za-z0-9_]", "_", os.path.relpath(f, REPO + "/tests/e2e_test_data"))
        for k, t in enumerate(_sections(f)):
            code = t.get("sierra_code", "").strip()
            if code:
                open(os.path.join(out_dir, "e_%s_%03d.sierra" % (rel, k)), "w").write(code + "\n")
                n += 1
    return n


def cairo_sources(dirs=(REPO + "/corelib", REPO + "/examples", REPO + "/tests")):
    res = []
    for d in dirs:
        res += sorted(glob.glob(os.path.join(d, "**/*.cairo"), recursive=True))
    return res


def test_data_cairo_snippets():
    """`cairo_code` / `cairo` sections of test-data files under /repo/crates/**/test_data."""
    out = []
    for f in sorted(glob.glob(REPO + "/crates/**/test_data/**/*", recursive=True)):
        if os.path.isfile(f) and not f.endswith((".json", ".sierra", ".casm", ".cairo")):
            try:
                for t in _sections(f):
                    for key in ("cairo_code", "cairo", "module_code", "function"):
                        if t.get(key, "").strip():
                            out.append((f, key, t[key]))
            except Exception:
                pass
    return out


# ---------------------------------------------------------------------------------------------
# Negative templates: small hand-shaped Sierra programs that each violate exactly one clause of the
# acceptance discipline (C15) and therefore MUST be rejected by the real compiler; they are fed to
# the Sierra harnesses next to the corpus (the structured "mostly invalid" stream).  If a change
# to /repo makes the real pipeline accept one of them, the verified model checker still rejects it
# and the check reports the program.
_HDR = """type felt252 = felt252;
type u8 = u8;
type u128 = u128;
type Unit = Struct<ut@Tuple>;
type U2 = Struct<ut@verif::U2>;
type NZ = NonZero<felt252>;
type Unf = Uninitialized<felt252>;
libfunc branch_align = branch_align;
libfunc jump = jump;
libfunc felt252_is_zero = felt252_is_zero;
libfunc drop_nz = drop<NZ>;
libfunc dup_felt = dup<felt252>;
libfunc drop_felt = drop<felt252>;
libfunc store_felt = store_temp<felt252>;
libfunc felt252_add = felt252_add;
"""
_CTORS = {
    "felt252": ("felt252_const<7>", True),
    "u8": ("u8_const<7>", True),
    "u128": ("u128_const<7>", True),
    "Unit": ("struct_construct<Unit>", False),
    "U2": ("struct_construct<U2>", False),
}


def _merge_template(t1, t2):
    """Two paths define [2] with types t1 / t2 and merge; afterwards [2] is consumed as t1."""
    c1, _ = _CTORS[t1]
    c2, _ = _CTORS[t2]
    return _HDR + f"""libfunc mk1 = {c1};
libfunc mk2 = {c2};
libfunc st1 = store_temp<{t1}>;
libfunc st2 = store_temp<{t2}>;
libfunc drop1 = drop<{t1}>;

felt252_is_zero([0]) {{ fallthrough() B([1]) }};
branch_align() -> ();
mk1() -> ([2]);
st1([2]) -> ([2]);
jump() {{ M() }};
B:
branch_align() -> ();
drop_nz([1]) -> ();
mk2() -> ([2]);
st2([2]) -> ([2]);
M:
drop1([2]) -> ();
return();

verif::merge@0([0]: felt252) -> ();
"""


def negative_sierra_templates(out_dir):
    """Writes the negative templates into out_dir as n_*.sierra; returns their number."""
    os.makedirs(out_dir, exist_ok=True)
    progs = {}
    ts = list(_CTORS)
    for a in ts:
        for b in ts:
            if a != b:
                progs["merge_%s_%s" % (a, b)] = _merge_template(a, b)
    body = {
        # a result id used twice in one branch (second put overrides the first)
        "dup_result_ids": "dup_felt([0]) -> ([1], [1]);\ndrop_felt([1]) -> ();\nreturn();\n\nverif::f@0([0]: felt252) -> ();\n",
        # a result overriding a live variable
        "override_live": "dup_felt([0]) -> ([0], [1]);\ndup_felt([1]) -> ([0], [2]);\ndrop_felt([0]) -> ();\ndrop_felt([2]) -> ();\nreturn();\n\nverif::f@0([0]: felt252) -> ();\n",
        # use after move
        "use_after_move": "drop_felt([0]) -> ();\ndrop_felt([0]) -> ();\nreturn();\n\nverif::f@0([0]: felt252) -> ();\n",
        # the same variable twice in one argument list
        "same_arg_twice": "felt252_add([0], [0]) -> ([1]);\nstore_felt([1]) -> ([1]);\nreturn([1]);\n\nverif::f@0([0]: felt252) -> (felt252);\n",
        # a variable left over at return
        "dangling": "dup_felt([0]) -> ([0], [1]);\nstore_felt([0]) -> ([0]);\nreturn([0]);\n\nverif::f@0([0]: felt252) -> (felt252);\n",
        # wrong argument type
        "wrong_arg_type": "libfunc u8_const7 = u8_const<7>;\nlibfunc drop_u8 = drop<u8>;\nu8_const7() -> ([1]);\ndrop_felt([1]) -> ();\ndrop_felt([0]) -> ();\nreturn();\n\nverif::f@0([0]: felt252) -> ();\n",
        # wrong return type
        "wrong_ret_type": "libfunc u8_const7 = u8_const<7>;\nlibfunc store_u8 = store_temp<u8>;\nu8_const7() -> ([1]);\nstore_u8([1]) -> ([1]);\ndrop_felt([0]) -> ();\nreturn([1]);\n\nverif::f@0([0]: felt252) -> (felt252);\n",
        # a multi-branch libfunc whose explicit target is not a branch_align
        "no_branch_align": "felt252_is_zero([0]) { fallthrough() B([1]) };\nbranch_align() -> ();\nreturn();\nB:\ndrop_nz([1]) -> ();\nreturn();\n\nverif::f@0([0]: felt252) -> ();\n",
        # variable count mismatch at a merge
        "merge_count": "felt252_is_zero([0]) { fallthrough() B([1]) };\nbranch_align() -> ();\njump() { M() };\nB:\nbranch_align() -> ();\nM:\nreturn();\n\nverif::f@0([0]: felt252) -> ();\n",
        # flow converging into a branch target
        "converge_into_branch_target": "felt252_is_zero([0]) { fallthrough() B([1]) };\nbranch_align() -> ();\ndup_felt([2]) -> ([2], [1]);\njump() { B() };\nB:\nbranch_align() -> ();\ndrop_felt([2]) -> ();\nreturn();\n\nverif::f@0([0]: felt252, [2]: felt252) -> ();\n",
        # a call whose argument has a different type than the callee's parameter (the mutants of this template make the
        # two copies of the callee's parameter types - signature.param_types and params[..].ty - disagree, so that the
        # caller is consistent with one and the body with the other)
        "call_arg_type": "libfunc call_g = function_call<user@verif::g>;\nlibfunc drop_u8 = drop<u8>;\nstore_felt([0]) -> ([0]);\ncall_g([0]) -> ();\nreturn();\ndrop_u8([0]) -> ();\nreturn();\n\nverif::f@0([0]: felt252) -> ();\nverif::g@3([0]: u8) -> ();\n",
        # a backward jump that changes the variable set (loop head sees an extra variable)
        "loop_changes_vars": "L:\ndup_felt([0]) -> ([0], [1]);\njump() { L() };\n\nverif::f@0([0]: felt252) -> ();\n",
    }
    # return statements whose arity differs from the declared return types (the common prefix is well typed)
    body["return_too_few"] = "store_felt([0]) -> ([0]);\nreturn([0]);\n\nverif::f@0([0]: felt252) -> (felt252, felt252);\n"
    body["return_too_many"] = "dup_felt([0]) -> ([0], [1]);\nstore_felt([0]) -> ([0]);\nstore_felt([1]) -> ([1]);\nreturn([0], [1]);\n\nverif::f@0([0]: felt252) -> (felt252);\n"
    body["return_none_of_one"] = "drop_felt([0]) -> ();\nreturn();\n\nverif::f@0([0]: felt252) -> (felt252);\n"
    body["return_one_of_none"] = "store_felt([0]) -> ([0]);\nreturn([0]);\n\nverif::f@0([0]: felt252) -> ();\n"
    # the path that arrives LATER at a merge carries fewer variables than the first one (use after drop behind the merge)
    body["merge_count_fewer_later"] = ("dup_felt([0]) -> ([0], [2]);\nfelt252_is_zero([0]) { fallthrough() B([1]) };\nbranch_align() -> ();\njump() { M() };\n"
                                       "B:\nbranch_align() -> ();\ndrop_nz([1]) -> ();\ndrop_felt([2]) -> ();\nM:\ndrop_felt([2]) -> ();\nreturn();\n\nverif::f@0([0]: felt252) -> ();\n")
    # a multi-branch libfunc whose explicit target is a return statement (no branch_align)
    body["branch_to_return"] = "felt252_is_zero([0]) { fallthrough() B([1]) };\nbranch_align() -> ();\nreturn();\nB:\nreturn();\n\nverif::f@0([0]: felt252) -> ();\n"
    # the FALLTHROUGH branch of a multi-branch libfunc lands on a return / on an ordinary statement (no branch_align)
    body["branch_fallthrough_to_return"] = "felt252_is_zero([0]) { fallthrough() B([1]) };\nreturn();\nB:\nbranch_align() -> ();\ndrop_nz([1]) -> ();\nreturn();\n\nverif::f@0([0]: felt252) -> ();\n"
    body["branch_fallthrough_no_align"] = ("dup_felt([0]) -> ([0], [2]);\nfelt252_is_zero([0]) { fallthrough() B([1]) };\ndrop_felt([2]) -> ();\nreturn();\n"
                                           "B:\nbranch_align() -> ();\ndrop_nz([1]) -> ();\ndrop_felt([2]) -> ();\nreturn();\n\nverif::f@0([0]: felt252) -> ();\n")
    # ---- one template per acceptance error variant that had none (annotations.rs / compiler.rs / environment / registry)
    # a statement reachable from two functions (f jumps into the body of g)
    body["flow_into_other_function"] = ("jump() { G() };\nG:\ndrop_felt([0]) -> ();\nreturn();\n\nverif::f@0([0]: felt252) -> ();\nverif::g@1([0]: felt252) -> ();\n")
    # falling through into a statement that is also the target of a branch (no jump / return in between)
    body["fallthrough_into_branch_target"] = ("dup_felt([0]) -> ([0], [2]);\nfelt252_is_zero([0]) { fallthrough() B([1]) };\nbranch_align() -> ();\nstore_felt([2]) -> ([2]);\n"
                                              "B:\nbranch_align() -> ();\ndrop_felt([2]) -> ();\nreturn();\n\nverif::f@0([0]: felt252) -> ();\n")
    # merge: the same variable is a parameter cell on one path and a fresh temporary on the other
    body["merge_expression_mismatch"] = ("dup_felt([0]) -> ([0], [2]);\nfelt252_is_zero([0]) { fallthrough() B([1]) };\nbranch_align() -> ();\njump() { M() };\n"
                                         "B:\nbranch_align() -> ();\ndrop_nz([1]) -> ();\nstore_felt([2]) -> ([2]);\nM:\ndrop_felt([2]) -> ();\nreturn();\n\nverif::f@0([0]: felt252) -> ();\n")
    # merge: two temporaries pushed in opposite orders on the two paths
    body["merge_stack_order_mismatch"] = ("dup_felt([0]) -> ([0], [2]);\ndup_felt([2]) -> ([2], [3]);\nfelt252_is_zero([0]) { fallthrough() B([1]) };\nbranch_align() -> ();\n"
                                          "store_felt([2]) -> ([2]);\nstore_felt([3]) -> ([3]);\njump() { M() };\n"
                                          "B:\nbranch_align() -> ();\ndrop_nz([1]) -> ();\nstore_felt([3]) -> ([3]);\nstore_felt([2]) -> ([2]);\nM:\ndrop_felt([2]) -> ();\nstore_felt([3]) -> ([3]);\nreturn([3]);\n\nverif::f@0([0]: felt252) -> (felt252);\n")
    # merge: ap tracking disabled on one path only
    body["merge_ap_tracking_mismatch"] = ("libfunc disable_ap_tracking = disable_ap_tracking;\nfelt252_is_zero([0]) { fallthrough() B([1]) };\nbranch_align() -> ();\ndisable_ap_tracking() -> ();\njump() { M() };\n"
                                          "B:\nbranch_align() -> ();\ndrop_nz([1]) -> ();\nM:\nreturn();\n\nverif::f@0([0]: felt252) -> ();\n")
    body["enable_ap_tracking_twice"] = ("libfunc enable_ap_tracking = enable_ap_tracking;\nlibfunc disable_ap_tracking = disable_ap_tracking;\ndisable_ap_tracking() -> ();\nenable_ap_tracking() -> ();\nenable_ap_tracking() -> ();\ndrop_felt([0]) -> ();\nreturn();\n\nverif::f@0([0]: felt252) -> ();\n")
    # a return value that is not on the top of the stack (a parameter cell)
    body["return_not_on_stack"] = "return([0]);\n\nverif::f@0([0]: felt252) -> (felt252);\n"
    body["return_wrong_stack_order"] = "store_felt([0]) -> ([0]);\nstore_felt([1]) -> ([1]);\nreturn([1], [0]);\n\nverif::f@0([0]: felt252, [1]: felt252) -> (felt252, felt252);\n"
    # merge: locals finalized on one path only
    body["merge_frame_state_mismatch"] = ("libfunc finalize_locals = finalize_locals;\nfelt252_is_zero([0]) { fallthrough() B([1]) };\nbranch_align() -> ();\nfinalize_locals() -> ();\njump() { M() };\n"
                                          "B:\nbranch_align() -> ();\ndrop_nz([1]) -> ();\nM:\nreturn();\n\nverif::f@0([0]: felt252) -> ();\n")
    # registry-level structure
    body["duplicate_function_id"] = "drop_felt([0]) -> ();\nreturn();\n\nverif::f@0([0]: felt252) -> ();\nverif::f@0([0]: felt252) -> ();\n"
    body["entry_point_out_of_range"] = "drop_felt([0]) -> ();\nreturn();\n\nverif::f@7([0]: felt252) -> ();\n"
    body["invocation_arg_count"] = "felt252_add([0]) -> ([1]);\nstore_felt([1]) -> ([1]);\nreturn([1]);\n\nverif::f@0([0]: felt252) -> (felt252);\n"
    body["invocation_result_count"] = "dup_felt([0]) -> ([0]);\ndrop_felt([0]) -> ();\nreturn();\n\nverif::f@0([0]: felt252) -> ();\n"
    body["invocation_branch_count"] = "felt252_is_zero([0]) { fallthrough() };\nreturn();\n\nverif::f@0([0]: felt252) -> ();\n"
    body["fallthrough_branch_misplaced"] = "felt252_is_zero([0]) { B() fallthrough([1]) };\nbranch_align() -> ();\ndrop_nz([1]) -> ();\nreturn();\nB:\nbranch_align() -> ();\nreturn();\n\nverif::f@0([0]: felt252) -> ();\n"
    body["jump_out_of_range"] = "jump() { 99() };\n\nverif::f@0() -> ();\n"
    body["two_branches_same_target"] = "felt252_is_zero([0]) { B() B([1]) };\nB:\nbranch_align() -> ();\nreturn();\n\nverif::f@0([0]: felt252) -> ();\n"
    body["missing_libfunc"] = "undeclared_libfunc([0]) -> ();\nreturn();\n\nverif::f@0([0]: felt252) -> ();\n"
    body["unstorable_param"] = "libfunc drop_unf = drop<Unf>;\ndrop_unf([0]) -> ();\nreturn();\n\nverif::f@0([0]: Unf) -> ();\n"

    for k, v in body.items():
        progs[k] = _HDR + v
    # frame state (environment/frame_state.rs): where alloc_local / finalize_locals are allowed.  Not part of the Coq
    # model (DESIGN §3 C15: "the real check is stricter there"), so these are decided by the rule that every negative
    # template must be REJECTED by the real pipeline.
    fs_hdr = ("type felt252 = felt252;\ntype UF = Uninitialized<felt252>;\nlibfunc alloc_f = alloc_local<felt252>;\n"
              "libfunc finalize_locals = finalize_locals;\nlibfunc store_f = store_temp<felt252>;\n"
              "libfunc local_f = store_local<felt252>;\nlibfunc drop_f = drop<felt252>;\nlibfunc drop_uf = drop<UF>;\n"
              "libfunc disable_ap_tracking = disable_ap_tracking;\nlibfunc enable_ap_tracking = enable_ap_tracking;\n")
    tail = "\n\nverif::f@0([0]: felt252, [1]: felt252) -> (felt252);\n"
    use_local = "local_f([2], [1]) -> ([2]);\ndrop_f([0]) -> ();\nstore_f([2]) -> ([2]);\nreturn([2]);"
    fs = {
        # an ap change between the first alloc_local and finalize_locals (the local's slot is no longer where fp+k says)
        "fs_ap_change_before_finalize": "alloc_f() -> ([2]);\nstore_f([0]) -> ([0]);\nfinalize_locals() -> ();\n" + use_local,
        # ... and between two alloc_locals
        "fs_ap_change_between_allocs": "alloc_f() -> ([2]);\nstore_f([0]) -> ([0]);\nalloc_f() -> ([3]);\ndrop_uf([3]) -> ();\nfinalize_locals() -> ();\n" + use_local,
        "fs_alloc_after_finalize": "finalize_locals() -> ();\nalloc_f() -> ([2]);\n" + use_local,
        "fs_double_finalize": "alloc_f() -> ([2]);\nfinalize_locals() -> ();\nfinalize_locals() -> ();\n" + use_local,
        "fs_missing_finalize": "alloc_f() -> ([2]);\ndrop_uf([2]) -> ();\ndrop_f([1]) -> ();\nstore_f([0]) -> ([0]);\nreturn([0]);",
        "fs_finalize_untracked": "alloc_f() -> ([2]);\ndisable_ap_tracking() -> ();\nfinalize_locals() -> ();\n" + use_local,
        "fs_alloc_untracked": "disable_ap_tracking() -> ();\nalloc_f() -> ([2]);\nfinalize_locals() -> ();\n" + use_local,
        "fs_finalize_after_enable": "alloc_f() -> ([2]);\ndisable_ap_tracking() -> ();\nenable_ap_tracking() -> ();\nfinalize_locals() -> ();\n" + use_local,
    }
    for k, v in fs.items():
        progs[k] = fs_hdr + v + tail
    # declared type infos (`type T = G<..> [storable: .., drop: .., dup: .., zero_sized: ..]`) that lie about a flag:
    # the registry must compare every declared info with the one it computes (TypeInfoDeclarationMismatch)
    def ti(decl_name, long_id, st, dr, du, zs, extra_types, libs, body, sig):
        return ("type felt252 = felt252;\n" + extra_types
                + "type %s = %s [storable: %s, drop: %s, dup: %s, zero_sized: %s];\n" % (decl_name, long_id, st, dr, du, zs)
                + libs + body + "\n\n" + sig + "\n")
    T, F = "true", "false"
    tis = {
        "ti_array_dup": ti("Arr", "Array<felt252>", T, T, T, F, "", "libfunc dup_a = dup<Arr>;\nlibfunc drop_a = drop<Arr>;\n",
                           "dup_a([0]) -> ([0], [1]);\ndrop_a([0]) -> ();\ndrop_a([1]) -> ();\nreturn();", "verif::f@0([0]: Arr) -> ();"),
        "ti_array_dup_inherited": ti("Arr", "Array<felt252>", T, T, T, F, "", "type W = Struct<ut@verif::W, Arr>;\nlibfunc dup_w = dup<W>;\nlibfunc drop_w = drop<W>;\n",
                           "dup_w([0]) -> ([0], [1]);\ndrop_w([0]) -> ();\ndrop_w([1]) -> ();\nreturn();", "verif::f@0([0]: W) -> ();"),
        "ti_rangecheck_drop": ti("RC", "RangeCheck", T, T, F, F, "", "libfunc drop_rc = drop<RC>;\n", "drop_rc([0]) -> ();\nreturn();", "verif::f@0([0]: RC) -> ();"),
        "ti_gas_dup": ti("GB", "GasBuiltin", T, F, T, F, "", "libfunc dup_g = dup<GB>;\n", "dup_g([0]) -> ([0], [1]);\nreturn([0], [1]);", "verif::f@0([0]: GB) -> (GB, GB);"),
        "ti_dict_drop": ti("D", "Felt252Dict<felt252>", T, T, F, F, "", "libfunc drop_d = drop<D>;\n", "drop_d([0]) -> ();\nreturn();", "verif::f@0([0]: D) -> ();"),
        "ti_uninit_storable": ti("U", "Uninitialized<felt252>", T, T, F, F, "", "libfunc drop_u = drop<U>;\n", "drop_u([0]) -> ();\nreturn();", "verif::f@0([0]: U) -> ();"),
        "ti_nonzero_zero_sized": ti("NZ", "NonZero<felt252>", T, T, T, T, "", "libfunc drop_nz = drop<NZ>;\n", "drop_nz([0]) -> ();\nreturn();", "verif::f@0([0]: NZ) -> ();"),
        "ti_unit_not_zero_sized": ti("U0", "Struct<ut@Tuple>", T, T, T, F, "", "libfunc drop_u0 = drop<U0>;\n", "drop_u0([0]) -> ();\nreturn();", "verif::f@0([0]: U0) -> ();"),
        "ti_user_struct_dup": ti("W", "Struct<ut@verif::W, Arr>", T, T, T, F, "type Arr = Array<felt252>;\n", "libfunc dup_w = dup<W>;\nlibfunc drop_w = drop<W>;\n",
                           "dup_w([0]) -> ([0], [1]);\ndrop_w([0]) -> ();\ndrop_w([1]) -> ();\nreturn();", "verif::f@0([0]: W) -> ();"),
        "ti_box_not_dup": ti("B", "Box<felt252>", T, T, F, F, "", "libfunc drop_b = drop<B>;\n", "drop_b([0]) -> ();\nreturn();", "verif::f@0([0]: B) -> ();"),
        "ti_snapshot_of_array_not_dup": ti("S", "Snapshot<Arr>", T, T, F, F, "type Arr = Array<felt252>;\n", "libfunc drop_s = drop<S>;\n", "drop_s([0]) -> ();\nreturn();", "verif::f@0([0]: S) -> ();"),
    }
    progs.update(tis)
    # constants whose data does not fit their declared type
    progs["const_out_of_range"] = ("type u8 = u8;\ntype C300 = Const<u8, 300>;\nlibfunc c300 = const_as_immediate<C300>;\nlibfunc store_u8 = store_temp<u8>;\n"
                                   "c300() -> ([0]);\nstore_u8([0]) -> ([0]);\nreturn([0]);\n\nverif::f@0() -> (u8);\n")
    progs["const_negative_unsigned"] = ("type u8 = u8;\ntype Cm1 = Const<u8, -1>;\nlibfunc cm1 = const_as_immediate<Cm1>;\nlibfunc store_u8 = store_temp<u8>;\n"
                                        "cm1() -> ([0]);\nstore_u8([0]) -> ([0]);\nreturn([0]);\n\nverif::f@0() -> (u8);\n")
    progs["const_struct_wrong_arity"] = ("type u8 = u8;\ntype P = Struct<ut@verif::P, u8, u8>;\ntype C1 = Const<u8, 1>;\ntype CP = Const<P, C1>;\ntype BP = Box<P>;\nlibfunc cp = const_as_box<CP, 0>;\n"
                                         "libfunc store_bp = store_temp<BP>;\ncp() -> ([0]);\nstore_bp([0]) -> ([0]);\nreturn([0]);\n\nverif::f@0() -> (BP);\n")
    # references (references.rs / cell_expression.rs): a value whose location is ap-relative must not survive a statement
    # with an unknown ap change (call of a recursive function): temporaries, deferred additions, deferred double derefs
    r_hdr = ("type felt252 = felt252;\ntype NZ = NonZero<felt252>;\ntype BoxF = Box<felt252>;\n"
             "libfunc call_r = function_call<user@verif::r>;\nlibfunc felt252_is_zero = felt252_is_zero;\nlibfunc branch_align = branch_align;\n"
             "libfunc drop_f = drop<felt252>;\nlibfunc drop_nz = drop<NZ>;\nlibfunc store_f = store_temp<felt252>;\nlibfunc dup_f = dup<felt252>;\n"
             "libfunc felt252_add = felt252_add;\nlibfunc unbox_f = unbox<felt252>;\nlibfunc one = felt252_const<1>;\nlibfunc felt252_sub = felt252_sub;\n"
             "libfunc disable_ap_tracking = disable_ap_tracking;\n")
    # r: a recursive function (unknown ap change): r(n) = if n == 0 { 0 } else { r(n - 1) }
    r_body = ("disable_ap_tracking() -> ();\nfelt252_is_zero([0]) { fallthrough() RNZ([1]) };\nbranch_align() -> ();\none() -> ([2]);\nstore_f([2]) -> ([2]);\nreturn([2]);\n"
              "RNZ:\nbranch_align() -> ();\ndrop_nz([1]) -> ();\none() -> ([3]);\nstore_f([3]) -> ([3]);\ncall_r([3]) -> ([4]);\nreturn([4]);\n")
    def rf(f_body, f_sig, n_f):
        return r_hdr + f_body + r_body + "\n" + f_sig + "\nverif::r@%d([0]: felt252) -> (felt252);\n" % n_f
    refs = {
        # a temporary ([ap-1]) live across the call
        "ref_temp_across_unknown_ap": rf("store_f([0]) -> ([2]);\nstore_f([1]) -> ([1]);\ncall_r([1]) -> ([3]);\ndrop_f([3]) -> ();\nstore_f([2]) -> ([2]);\nreturn([2]);\n",
                                         "verif::f@0([0]: felt252, [1]: felt252) -> (felt252);", 6),
        # a deferred addition of two temporaries live across the call
        "ref_deferred_add_across_unknown_ap": rf("store_f([0]) -> ([0]);\ndup_f([0]) -> ([0], [5]);\nfelt252_add([0], [5]) -> ([2]);\nstore_f([1]) -> ([1]);\ncall_r([1]) -> ([3]);\ndrop_f([3]) -> ();\nstore_f([2]) -> ([2]);\nreturn([2]);\n",
                                         "verif::f@0([0]: felt252, [1]: felt252) -> (felt252);", 8),
        # a deferred double dereference ([[ap-1]]) live across the call
        "ref_double_deref_across_unknown_ap": rf("store_temp_box([0]) -> ([0]);\nunbox_f([0]) -> ([2]);\nstore_f([1]) -> ([1]);\ncall_r([1]) -> ([3]);\ndrop_f([3]) -> ();\nstore_f([2]) -> ([2]);\nreturn([2]);\n",
                                         "verif::f@0([0]: BoxF, [1]: felt252) -> (felt252);", 7).replace("libfunc one =", "libfunc store_temp_box = store_temp<BoxF>;\nlibfunc one ="),
    }
    progs.update(refs)
    # an ap-relative temporary pushed out of the 16-bit offset range by ONE known ap change of more than 2^15 cells (a
    # call of a function that stores a 16384-cell value twice): must be refused with "Offset overflow", not wrapped around
    chain = "type T0 = felt252;\n" + "".join("type T%d = Struct<ut@verif::T%d, T%d, T%d>;\n" % (k, k, k - 1, k - 1) for k in range(1, 15))
    progs["ref_offset_overflow_by_one_big_call"] = (
        chain + "libfunc store_f = store_temp<T0>;\nlibfunc store_big = store_temp<T14>;\nlibfunc drop_big = drop<T14>;\nlibfunc dup_big = dup<T14>;\n"
        "libfunc call_g = function_call<user@verif::g>;\n"
        "store_f([1]) -> ([2]);\nstore_big([0]) -> ([0]);\ncall_g([0]) -> ();\nstore_f([2]) -> ([2]);\nreturn([2]);\n"
        "dup_big([0]) -> ([0], [1]);\nstore_big([0]) -> ([0]);\ndrop_big([0]) -> ();\nstore_big([1]) -> ([1]);\ndrop_big([1]) -> ();\nreturn();\n\n"
        "verif::f@0([0]: T14, [1]: T0) -> (T0);\nverif::g@5([0]: T14) -> ();\n")
    # local_into_box takes the address of the FIRST cell of its operand: the cells must be contiguous fp-relative cells
    # (a struct built from two parameters in swapped order is not) - otherwise the box covers foreign stack cells
    progs["local_into_box_noncontiguous"] = (
        "type felt252 = felt252;\ntype Pair = Struct<ut@Pair, felt252, felt252>;\ntype BoxPair = Box<Pair>;\n"
        "libfunc struct_construct_pair = struct_construct<Pair>;\nlibfunc local_into_box_pair = local_into_box<Pair>;\nlibfunc store_temp_box = store_temp<BoxPair>;\n"
        "struct_construct_pair([1], [0]) -> ([2]);\nlocal_into_box_pair([2]) -> ([3]);\nstore_temp_box([3]) -> ([3]);\nreturn([3]);\n\n"
        "verif::f@0([0]: felt252, [1]: felt252) -> (BoxPair);\n")
    progs["local_into_box_gap"] = (
        "type felt252 = felt252;\ntype Pair = Struct<ut@Pair, felt252, felt252>;\ntype BoxPair = Box<Pair>;\n"
        "libfunc struct_construct_pair = struct_construct<Pair>;\nlibfunc local_into_box_pair = local_into_box<Pair>;\nlibfunc store_temp_box = store_temp<BoxPair>;\nlibfunc drop_f = drop<felt252>;\n"
        "struct_construct_pair([0], [2]) -> ([3]);\ndrop_f([1]) -> ();\nlocal_into_box_pair([3]) -> ([4]);\nstore_temp_box([4]) -> ([4]);\nreturn([4]);\n\n"
        "verif::f@0([0]: felt252, [1]: felt252, [2]: felt252) -> (BoxPair);\n")
    # libfunc instantiations that must be refused at specialization: the generated code would be wrong for them
    def divrem(name, lhs_hi, rhs_lo, rhs_hi):
        q_hi = lhs_hi // rhs_lo
        if q_hi == lhs_hi:
            q_hi -= 0  # same range as the dividend: reuse its declaration below
        progs[name] = (
            "type RangeCheck = RangeCheck;\ntype L = BoundedInt<0, %d>;\ntype R = BoundedInt<%d, %d>;\ntype NZR = NonZero<R>;\ntype Q = BoundedInt<0, %d>;\ntype Rem = BoundedInt<0, %d>;\n"
            "libfunc div = bounded_int_div_rem<L, R>;\nlibfunc store_rc = store_temp<RangeCheck>;\nlibfunc store_q = store_temp<Q>;\nlibfunc store_rem = store_temp<Rem>;\n"
            "div([0], [1], [2]) -> ([3], [4], [5]);\nstore_rc([3]) -> ([3]);\nstore_q([4]) -> ([4]);\nstore_rem([5]) -> ([5]);\nreturn([3], [4], [5]);\n\n"
            "verif::f@0([0]: RangeCheck, [1]: L, [2]: NZR) -> (RangeCheck, Q, Rem);\n" % (lhs_hi, rhs_lo, rhs_hi, q_hi, rhs_hi - 1))
        if q_hi == lhs_hi:
            progs[name] = progs[name].replace("type Q = BoundedInt<0, %d>;\n" % q_hi, "").replace("<Q>", "<L>").replace(", Q, Rem)", ", L, Rem)")
    divrem("divrem_small_rhs_quotient_over_2p128", 2**200 - 1, 1, 255)      # KnownSmallRhs, but the quotient does not fit a range check
    divrem("divrem_quotient_exactly_2p128", 2**136, 256, 300)
    divrem("divrem_rhs_over_2p128", 2**250, 2**128 + 2, 2**129)
    divrem("divrem_everything_big", 2**250, 2**100, 2**126)
    for f in glob.glob(os.path.join(out_dir, "n_*.sierra")):
        os.unlink(f)
    for k, v in progs.items():
        open(os.path.join(out_dir, "n_%s.sierra" % k), "w").write(v)
    return len(progs)


def extra_sierra_corpus(out_dir):
    """Copies /verif/corpus/sierra/*.sierra (programs compiled once from the .cairo next to them, for
    libfunc families the repository's own Sierra corpus does not exercise) into out_dir."""
    root = os.path.join(os.path.dirname(os.path.dirname(os.path.abspath(__file__))), "corpus", "sierra")
    n = 0
    for f in sorted(glob.glob(os.path.join(root, "*.sierra"))):
        open(os.path.join(out_dir, "x_" + os.path.basename(f)), "w").write(open(f).read())
        n += 1
    return n
