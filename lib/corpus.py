"""Corpus extraction from /repo's current tree (run at check time, nothing cached across runs)."""
import glob
import os
import re

REPO = os.environ.get("VERIF_REPO", "/repo")


def _sections(path):
    """Parses a cairo-lang test file (`//! > name` sections, tests separated by ====)."""
    tests, cur, name = [], {}, None
    for line in open(path, errors="replace"):
        if line.startswith("//! > ===="):
            if cur:
                tests.append(cur)
            cur, name = {}, None
        elif line.startswith("//! > "):
            name = line[6:].strip()
            cur.setdefault(name, "")
        elif name is not None:
            cur[name] += line
    if cur:
        tests.append(cur)
    return tests


def sierra_corpus(out_dir, max_files=None):
    """Writes every Sierra program found in /repo (standalone *.sierra files and the `sierra_code`
    sections of the e2e test data) to out_dir/*.sierra; returns the number of programs."""
    os.makedirs(out_dir, exist_ok=True)
    for f in glob.glob(os.path.join(out_dir, "*.sierra")):
        os.unlink(f)
    n = 0
    files = []
    for pat in (REPO + "/crates/cairo-lang-sierra/examples/*.sierra", REPO + "/tests/test_data/*.sierra",
                REPO + "/examples/*.sierra", REPO + "/crates/cairo-lang-starknet/test_data/*.sierra"):
        files += sorted(glob.glob(pat))
    for f in files:
        base = re.sub(r"[^A-Za-z0-9_]", "_", os.path.splitext(os.path.basename(f))[0])
        dst = os.path.join(out_dir, "f_%s.sierra" % base)
        open(dst, "w").write(open(f).read())
        n += 1
    for f in sorted(glob.glob(REPO + "/tests/e2e_test_data/**/*", recursive=True)):
        if not os.path.isfile(f):
            continue
        rel = re.sub(r"[^A-Za-z0-9_]", "_", os.path.relpath(f, REPO + "/tests/e2e_test_data"))
        for k, t in enumerate(_sections(f)):
            code = t.get("sierra_code", "").strip()
            if code:
                open(os.path.join(out_dir, "e_%s_%03d.sierra" % (rel, k)), "w").write(code + "\n")
                n += 1
    return n


def cairo_sources(dirs=(REPO + "/corelib", REPO + "/examples", REPO + "/tests")):
    res = []
    for d in dirs:
        res += sorted(glob.glob(os.path.join(d, "**/*.cairo"), recursive=True))
    return res


def test_data_cairo_snippets():
    """`cairo_code` / `cairo` sections of test-data files under /repo/crates/**/test_data."""
    out = []
    for f in sorted(glob.glob(REPO + "/crates/**/test_data/**/*", recursive=True)):
        if os.path.isfile(f) and not f.endswith((".json", ".sierra", ".casm", ".cairo")):
            try:
                for t in _sections(f):
                    for key in ("cairo_code", "cairo", "module_code", "function"):
                        if t.get(key, "").strip():
                            out.append((f, key, t[key]))
            except Exception:
                pass
    return out
