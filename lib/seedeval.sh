#!/bin/sh
# Isolated evaluation of a seeded change: ./lib/seedeval.sh <patch.diff> <Cxx> [Cyy ...]
# Applies the patch to a scratch worktree of /repo (never to /repo itself), points a scratch
# worktree of /verif at it, and runs the given checks there.  Scratch dirs are kept between calls
# (build cache) until `./lib/seedeval.sh --clean`.
EV_REPO=/tmp/ev_repo; EV_VERIF=/tmp/ev_verif
if [ "$1" = "--clean" ]; then
  git -C /repo worktree remove --force $EV_REPO 2>/dev/null; git -C /verif worktree remove --force $EV_VERIF 2>/dev/null
  rm -rf $EV_REPO $EV_VERIF; exit 0
fi
PATCH=$(readlink -f "$1"); shift
# one evaluation at a time: the scratch worktrees are shared (concurrent callers reset each other's patch)
exec 9>/tmp/seedeval.lock; flock 9
[ -d $EV_REPO ] || git -C /repo worktree add -q --detach $EV_REPO HEAD
git -C $EV_REPO checkout -q --detach $(git -C /repo rev-parse HEAD) && git -C $EV_REPO checkout -q -- . && git -C $EV_REPO clean -qfd -e target
sleep 2   # keep restored and patched files strictly newer than any earlier build output (cargo freshness is by mtime)
git -C $EV_REPO apply "$PATCH" || { echo "PATCH DOES NOT APPLY"; exit 2; }
git -C $EV_REPO diff --name-only | (cd $EV_REPO && xargs -r touch); sleep 2
[ -d $EV_VERIF ] || git -C /verif worktree add -q --detach $EV_VERIF HEAD
git -C $EV_VERIF checkout -q -- . && git -C $EV_VERIF checkout -q --detach $(git -C /verif rev-parse HEAD)
sed -i "s|/repo/crates|$EV_REPO/crates|g" $EV_VERIF/harness/Cargo.toml
for P in "$@"; do
  echo "=== $P with $(basename $(dirname $PATCH))"
  ( cd $EV_VERIF && VERIF_REPO=$EV_REPO timeout 3600 ./check $P --tier ${SEEDEVAL_TIER:-quick} > /tmp/ev_last_$P.log 2>&1; echo "check exit=$?";
    grep -E "VIOLATION|KNOWN-FINDING|violation:|rc=[1-9]|disagree" /tmp/ev_last_$P.log | cut -c1-300 | head -40 )
done
git -C $EV_REPO checkout -q -- .
