"""Instantiation zoo: Cairo sources, generated deterministically, whose only purpose is to make the CURRENT compiler
emit libfunc instantiations that no pinned golden file contains (generic containers / boxes / nullables / dicts /
enums / structs / locals over types of size 0,1,2,3,4,5; enums with 1..10 variants; multi-limb integers; bounded
ints; builtins).  The compiled Sierra is added to the corpus of the static legs of C15/C17/C04 (harness/h15: per
statement CASM layout, ap movement, step/builtin cost of every path against the declared numbers) and the sources
are run by harness/h14run (C02/C04/C17 run-time formulas).

    import zoo; zoo.write(dst_dir) -> number of files written (each a single-file crate, name z_*.cairo)
"""
import os

PRELUDE = """
#[derive(Copy, Drop, PartialEq, Serde)]
struct S5 { a: u8, b: felt252, c: u64, d: u256 }
#[derive(Copy, Drop, PartialEq, Serde)]
enum E1 { A: felt252 }
#[derive(Copy, Drop, PartialEq, Serde)]
enum E3 { A, B: u256, C: felt252 }
#[derive(Copy, Drop, PartialEq, Serde)]
enum E10 { V0, V1: u8, V2: u16, V3: (u8, u8), V4: u256, V5, V6: felt252, V7: S5, V8: bool, V9: u128 }
use core::dict::{Felt252DictEntryTrait, SquashedFelt252DictTrait};
#[inline(never)]
fn burn(n: u8) -> u8 { if n == 0 { 0 } else { burn(n - 1) + 1 } }
"""

# name, type, constructor from `x: u8`, flags
TYPES = [
    ("u8", "u8", "x", "copy eq serde dict"),
    ("u16", "u16", "x.into() * 257_u16", "copy eq serde dict"),
    ("u32", "u32", "x.into() * 16843009_u32", "copy eq serde dict"),
    ("u64", "u64", "x.into() * 72340172838076673_u64", "copy eq serde dict"),
    ("u128", "u128", "x.into() * 1334440654591915542993625911497130241_u128", "copy eq serde dict"),
    ("i8", "i8", "{ let v: i16 = x.into(); (v - 128).try_into().unwrap() }", "copy eq serde"),
    ("i64", "i64", "{ let v: i64 = x.into(); v * -36170086419038336_i64 }", "copy eq serde"),
    ("i128", "i128", "{ let v: i128 = x.into(); (v - 128) * 1329227995784915872903807060280344576_i128 }", "copy eq serde"),
    ("felt", "felt252", "x.into() * 0x800000000000011000000000000000000000000000000000000000000000000", "copy eq serde dict"),
    ("bool", "bool", "x > 100", "copy eq serde"),
    ("u256", "u256", "u256 { low: x.into(), high: 0xffffffffffffffffffffffffffffffff }", "copy eq serde"),
    ("u512", "core::integer::u512",
     "core::integer::u512 { limb0: x.into(), limb1: 1, limb2: 0xffffffffffffffffffffffffffffffff, limb3: 3 }", "copy eq serde"),
    ("t2", "(u8, u16)", "(x, 300)", "copy eq serde"),
    ("t3", "(felt252, felt252, felt252)", "(x.into(), 2, 3)", "copy eq serde"),
    ("s5", "S5", "S5 { a: x, b: 2, c: 3, d: 4 }", "copy eq serde"),
    ("e1", "E1", "E1::A(x.into())", "copy eq serde"),
    ("e3", "E3", "if x < 50 { E3::A } else if x < 150 { E3::B(u256 { low: x.into(), high: 1 }) } else { E3::C(x.into()) }",
     "copy eq serde"),
    ("e10", "E10",
     "if x < 20 { E10::V0 } else if x < 40 { E10::V1(x) } else if x < 60 { E10::V2(x.into()) } else if x < 80 { E10::V3((x, x)) } "
     "else if x < 100 { E10::V4(x.into()) } else if x < 120 { E10::V5 } else if x < 140 { E10::V6(x.into()) } "
     "else if x < 160 { E10::V7(S5 { a: x, b: 2, c: 3, d: 4 }) } else if x < 180 { E10::V8(true) } else { E10::V9(x.into()) }",
     "copy eq serde"),
    ("optu256", "Option<u256>", "if x < 128 { Option::Some(x.into()) } else { Option::None }", "copy eq serde"),
    ("nz", "NonZero<u32>", "{ let v: u32 = x.into() + 1; v.try_into().unwrap() }", "copy"),
    ("arr", "Array<felt252>", "array![x.into(), 5]", "serde"),
    ("span", "Span<felt252>", "array![x.into(), 5].span()", "copy serde"),
    ("b31", "bytes31", "{ let f: felt252 = x.into(); f.try_into().unwrap() }", "copy eq serde"),
    ("box", "Box<u256>", "BoxTrait::new(x.into())", "copy"),
    ("nul", "Nullable<u128>", "NullableTrait::new(x.into())", "copy"),
    ("arrarr", "Array<Array<u8>>", "array![array![x], array![]]", ""),
    ("snap", "@Array<u64>", "@array![x.into()]", "copy"),
]


def per_type(n, t, mk, flags):
    f = set(flags.split())
    o = [PRELUDE]
    o.append("#[inline(never)]\nfn mk(x: u8) -> %s { %s }\n" % (t, mk))
    o.append("""
fn arr_roundtrip(x: u8, y: u8) -> Option<%(t)s> {
    let mut a = ArrayTrait::<%(t)s>::new();
    a.append(mk(x));
    a.append(mk(y));
    let _ = a.pop_front();
    a.pop_front()
}
fn arr_get(x: u8, i: u32) -> usize {
    let a = array![mk(x), mk(x), mk(x)];
    let r = match a.get(i) {
        Option::Some(b) => { let _v: @%(t)s = b.unbox(); 1_usize },
        Option::None => 0_usize,
    };
    r + a.len()
}
fn arr_at(x: u8, i: u32) -> usize {
    let a = array![mk(x), mk(x)];
    let _v: @%(t)s = a.at(i);
    a.len()
}
fn arr_consume(x: u8) -> usize {
    let a = array![mk(x), mk(x)];
    match a.pop_front_consume() {
        Option::Some((rest, _v)) => rest.len(),
        Option::None => 7,
    }
}
fn span_ops(x: u8, i: u32, j: u32) -> usize {
    let a = array![mk(x), mk(x), mk(x), mk(x)];
    let mut s = a.span();
    let _ = s.pop_front();
    let _ = s.pop_back();
    let s2 = s.slice(i %% 2, j %% 2);
    let g = match s.get(i) { Option::Some(_) => 1_usize, Option::None => 0_usize };
    s2.len() + g
}
fn span_multi_pop(x: u8) -> usize {
    let a = array![mk(x), mk(x), mk(x), mk(x)];
    let mut s = a.span();
    let f = match s.multi_pop_front::<2>() { Option::Some(_) => 1_usize, Option::None => 0_usize };
    let b = match s.multi_pop_back::<3>() { Option::Some(_) => 10_usize, Option::None => 0_usize };
    s.len() + f + b
}
fn boxed(x: u8) -> %(t)s { BoxTrait::new(mk(x)).unbox() }
fn nullable(x: u8) -> %(t)s {
    let n: Nullable<%(t)s> = if x > 10 { NullableTrait::new(mk(x)) } else { Default::default() };
    match core::nullable::match_nullable(n) {
        core::nullable::FromNullableResult::Null => mk(0),
        core::nullable::FromNullableResult::NotNull(b) => b.unbox(),
    }
}
fn option(x: u8) -> %(t)s {
    let o = if x > 10 { Option::Some(mk(x)) } else { Option::None };
    match o { Option::Some(v) => v, Option::None => mk(0) }
}
#[inline(never)]
fn result(x: u8) -> Result<%(t)s, felt252> { if x > 10 { Result::Ok(mk(x)) } else { Result::Err('small') } }
fn unwrap(x: u8) -> %(t)s { result(x).unwrap() }
fn question(x: u8) -> Result<(%(t)s, u8), felt252> { let v = result(x)?; Result::Ok((v, x)) }
fn locals(x: u8, y: u8) -> (%(t)s, u8, %(t)s) {
    let a = mk(x);
    let k = burn(y %% 4);
    let b = mk(y);
    let k2 = burn(k);
    (a, k2, b)
}
fn tuple(x: u8) -> (%(t)s, u8, %(t)s, u256) { (mk(x), x, mk(x), 5) }
#[derive(Drop)]
struct W { p: u8, v: %(t)s, q: u256 }
fn wrap(x: u8) -> u256 { let w = W { p: 1, v: mk(x), q: 2 }; let W { p: _p, v: _v, q } = w; q }
fn member(x: u8) -> %(t)s { let w = W { p: 1, v: mk(x), q: 2 }; w.v }
#[derive(Drop)]
enum EW { A: %(t)s, B, C: (u8, %(t)s) }
fn enum_wrap(x: u8) -> u8 {
    let e = if x < 80 { EW::A(mk(x)) } else if x < 160 { EW::B } else { EW::C((x, mk(x))) };
    match e { EW::A(_) => 1, EW::B => 2, EW::C((k, _)) => k }
}
fn snap_enum(x: u8) -> u8 {
    let e = if x < 80 { EW::A(mk(x)) } else { EW::B };
    match @e { EW::A(_) => 1, EW::B => 2, EW::C(_) => 3 }
}
fn looped(x: u8, n: u8) -> Array<%(t)s> {
    let mut a = array![];
    let mut i = 0_u8;
    while i != n %% 5 { a.append(mk(x)); i += 1; };
    a
}
fn fixed(x: u8) -> usize { let f: [%(t)s; 3] = [mk(x), mk(x), mk(x)]; let [_a, _b, _c] = f; 3 }
fn fixed_span(x: u8) -> usize { let f: [%(t)s; 2] = [mk(x), mk(x)]; f.span().len() }
fn closure(x: u8) -> %(t)s { let c = |y: u8| mk(y); c(x) }
""" % {"t": t})
    if "copy" in f:
        o.append("""
fn dup3(x: u8) -> (%(t)s, %(t)s, %(t)s) { let v = mk(x); (v, v, v) }
fn desnap(x: u8) -> %(t)s { let v = mk(x); let s = @v; *s }
fn span_deref(x: u8, i: u32) -> %(t)s { let a = array![mk(x), mk(x)]; *a.span()[i] }
""" % {"t": t})
    if "eq" in f:
        o.append("fn equal(x: u8, y: u8) -> bool { mk(x) == mk(y) }\n")
        # self-checking functions: `true` for every argument by construction (oracle: harness/h14run, leg C01).
        # x2 is a second seed different from x, so that values at different positions can differ.
        o.append("""
fn chk_arr(x: u8) -> bool {
    let x2 = x ^ 0x55;
    let mut a = ArrayTrait::<%(t)s>::new();
    a.append(mk(x)); a.append(mk(x2)); a.append(mk(x));
    let l = a.len();
    let p0 = a.pop_front();
    let p1 = a.pop_front();
    let p2 = a.pop_front();
    let p3 = a.pop_front();
    l == 3 && p0 == Option::Some(mk(x)) && p1 == Option::Some(mk(x2)) && p2 == Option::Some(mk(x)) && p3.is_none()
}
fn chk_index(x: u8) -> bool {
    let x2 = x ^ 0x55;
    let a = array![mk(x), mk(x2), mk(x), mk(x2), mk(x2)];
    let s = a.span();
    *s[0] == mk(x) && *s[1] == mk(x2) && *a[2] == mk(x) && *a.at(3) == mk(x2) && *s.at(4) == mk(x2)
        && match s.get(1) { Option::Some(b) => *b.unbox() == mk(x2), Option::None => false }
        && s.get(5).is_none()
}
fn chk_span(x: u8) -> bool {
    let x2 = x ^ 0x55;
    let a = array![mk(x), mk(x2), mk(x2), mk(x), mk(x2)];
    let mut s = a.span();
    let f = s.pop_front();
    let b = s.pop_back();
    let sl = s.slice(1, 2);
    let ok1 = match f { Option::Some(v) => *v == mk(x), Option::None => false };
    let ok2 = match b { Option::Some(v) => *v == mk(x2), Option::None => false };
    ok1 && ok2 && s.len() == 3 && sl.len() == 2 && *sl[0] == mk(x2) && *sl[1] == mk(x) && *s[0] == mk(x2)
}
fn chk_multi_pop(x: u8) -> bool {
    let x2 = x ^ 0x55;
    let a = array![mk(x), mk(x2), mk(x2), mk(x), mk(x)];
    let mut s = a.span();
    let ok1 = match s.multi_pop_front::<2>() { Option::Some(b) => { let [p, q] = (*b).unbox(); p == mk(x) && q == mk(x2) }, Option::None => false };
    let ok2 = match s.multi_pop_back::<2>() { Option::Some(b) => { let [p, q] = (*b).unbox(); p == mk(x) && q == mk(x) }, Option::None => false };
    ok1 && ok2 && s.len() == 1 && *s[0] == mk(x2) && s.multi_pop_front::<2>().is_none()
}
fn chk_box(x: u8) -> bool {
    let b = BoxTrait::new(mk(x));
    let c = BoxTrait::new((mk(x ^ 0x55), 7_u8, mk(x)));
    let (p, k, q) = c.unbox();
    b.unbox() == mk(x) && p == mk(x ^ 0x55) && k == 7 && q == mk(x)
}
fn chk_nullable(x: u8) -> bool {
    let n: Nullable<%(t)s> = NullableTrait::new(mk(x));
    let z: Nullable<%(t)s> = Default::default();
    !n.is_null() && z.is_null() && n.deref() == mk(x)
}
fn chk_option(x: u8) -> bool {
    let o = if x %% 2 == 0 { Option::Some(mk(x)) } else { Option::None };
    let r: Result<%(t)s, (u8, %(t)s)> = if x %% 3 == 0 { Result::Ok(mk(x)) } else { Result::Err((x, mk(x ^ 0x55))) };
    let ok1 = match o { Option::Some(v) => x %% 2 == 0 && v == mk(x), Option::None => x %% 2 == 1 };
    let ok2 = match r { Result::Ok(v) => x %% 3 == 0 && v == mk(x), Result::Err((k, v)) => x %% 3 != 0 && k == x && v == mk(x ^ 0x55) };
    ok1 && ok2
}
fn chk_locals(x: u8) -> bool {
    let x2 = x ^ 0x55;
    let a = mk(x);
    let k = burn(x %% 4);
    let b = mk(x2);
    let k2 = burn(k);
    let c = (mk(x), b, 9_u8);
    let k3 = burn(k2);
    let (c0, c1, c2) = c;
    a == mk(x) && b == mk(x2) && c0 == mk(x) && c1 == mk(x2) && c2 == 9 && k3 == x %% 4
}
#[derive(Copy, Drop, PartialEq)]
struct CW { p: u8, v: %(t)s, q: u256, w: %(t)s }
#[derive(Copy, Drop, PartialEq)]
enum CE { A: %(t)s, B, C: (u8, %(t)s), D: CW }
fn chk_struct(x: u8) -> bool {
    let x2 = x ^ 0x55;
    let w = CW { p: x, v: mk(x), q: 0x1_00000000000000000000000000000002, w: mk(x2) };
    let CW { p, v, q, w: ww } = w;
    let w2 = CW { v: mk(x2), ..w };
    p == x && v == mk(x) && q.high == 1 && q.low == 2 && ww == mk(x2) && w.v == mk(x) && w.w == mk(x2)
        && w2.v == mk(x2) && w2.w == mk(x2) && w2.p == x && w == CW { p: x, v: mk(x), q: w.q, w: mk(x2) } && (w != w2) == (mk(x) != mk(x2))
}
fn chk_enum(x: u8) -> bool {
    let x2 = x ^ 0x55;
    let e = if x < 64 { CE::A(mk(x)) } else if x < 128 { CE::B } else if x < 192 { CE::C((x, mk(x2))) } else {
        CE::D(CW { p: 1, v: mk(x2), q: 5, w: mk(x) })
    };
    let ok = match e {
        CE::A(v) => x < 64 && v == mk(x),
        CE::B => x >= 64 && x < 128,
        CE::C((k, v)) => x >= 128 && x < 192 && k == x && v == mk(x2),
        CE::D(w) => x >= 192 && w.p == 1 && w.v == mk(x2) && w.q == 5 && w.w == mk(x),
    };
    let ok2 = match @e { CE::A(v) => *v == mk(x), CE::B => true, CE::C((k, v)) => *k == x && *v == mk(x2), CE::D(w) => *w.v == mk(x2) };
    ok && ok2 && e == e
}
fn chk_loop(x: u8) -> bool {
    let mut a: Array<%(t)s> = array![];
    let mut i = 0_u8;
    while i != 5 { a.append(mk(x ^ i)); i += 1; };
    let mut ok = a.len() == 5;
    let mut j = 0_u8;
    for v in a.span() { ok = ok && *v == mk(x ^ j); j += 1; };
    ok && j == 5
}
fn chk_fixed(x: u8) -> bool {
    let x2 = x ^ 0x55;
    let f: [%(t)s; 3] = [mk(x), mk(x2), mk(x)];
    let s = f.span();
    let [a, b, c] = f;
    a == mk(x) && b == mk(x2) && c == mk(x) && s.len() == 3 && *s[1] == mk(x2)
}
fn chk_closure(x: u8) -> bool {
    let cap = mk(x ^ 0x55);
    let c = |y: u8| (mk(y), cap);
    let (p, q) = c(x);
    p == mk(x) && q == cap
}
fn chk_dup(x: u8) -> bool { let v = mk(x); let s = @v; let (a, b, c) = (v, *s, v); a == b && b == c && c == mk(x) }
#[inline(never)]
fn pass(a: %(t)s, k: u8, b: %(t)s) -> (%(t)s, u8, %(t)s) { (b, k + 1, a) }
#[inline(never)]
fn swap(t: (%(t)s, u8, %(t)s)) -> (%(t)s, u8, %(t)s) { let (a, k, b) = t; (b, k, a) }
#[inline(never)]
fn dupe(t: (%(t)s, u8, %(t)s)) -> (%(t)s, u8, %(t)s) { let (a, k, _b) = t; (a, k, a) }
fn swap_inl(t: CW) -> CW { let CW { p, v, q, w } = t; CW { p, v: w, q, w: v } }
fn chk_swap(x: u8) -> bool {
    let x2 = x ^ 0x55;
    let (p, k, q) = swap((mk(x), 5, mk(x2)));
    let (p2, _k2, q2) = dupe((mk(x), 5, mk(x2)));
    let s = swap_inl(CW { p: 3, v: mk(x), q: 9, w: mk(x2) });
    p == mk(x2) && k == 5 && q == mk(x) && p2 == mk(x) && q2 == mk(x) && s.v == mk(x2) && s.w == mk(x) && s.p == 3 && s.q == 9
}
#[inline(never)]
fn opaque(c: bool) -> bool { c }
#[inline(never)]
fn pick_a(b: Box<%(t)s>, c: bool, other: %(t)s) -> Box<%(t)s> { let v = if c { b.unbox() } else { other }; BoxTrait::new(v) }
#[inline(never)]
fn pick_b(b: Box<%(t)s>, c: bool, other: %(t)s) -> Box<%(t)s> { let v = if c { other } else { b.unbox() }; BoxTrait::new(v) }
#[inline(never)]
fn pick_m(b: Box<CW>, k: u8) -> Box<%(t)s> {
    let v = match k %% 3 { 0 => b.unbox().v, 1 => b.unbox().w, _ => { let CW { p: _, v: _, q: _, w } = b.unbox(); w } };
    BoxTrait::new(v)
}
fn chk_rebox(x: u8) -> bool {
    let x2 = x ^ 0x55;
    let c = opaque(x %% 2 == 0);
    let a = pick_a(BoxTrait::new(mk(x)), c, mk(x2)).unbox();
    let b = pick_b(BoxTrait::new(mk(x)), c, mk(x2)).unbox();
    let m = pick_m(BoxTrait::new(CW { p: 1, v: mk(x), q: 2, w: mk(x2) }), x).unbox();
    a == (if c { mk(x) } else { mk(x2) }) && b == (if c { mk(x2) } else { mk(x) }) && m == (if x %% 3 == 0 { mk(x) } else { mk(x2) })
}
fn chk_call(x: u8) -> bool {
    let x2 = x ^ 0x55;
    let (p, k, q) = pass(mk(x), 5, mk(x2));
    p == mk(x2) && k == 6 && q == mk(x)
}
""" % {"t": t})
        if "serde" in f:
            o.append("""
fn chk_serde(x: u8) -> bool {
    let v = (mk(x), 3_u8, mk(x ^ 0x55));
    let mut out = array![];
    v.serialize(ref out);
    let mut sp = out.span();
    let r = Serde::<(%(t)s, u8, %(t)s)>::deserialize(ref sp);
    match r { Option::Some((a, k, b)) => a == mk(x) && k == 3 && b == mk(x ^ 0x55) && sp.len() == 0, Option::None => false }
}
""" % {"t": t})
        if "dict" in f:
            o.append("""
fn chk_dict(x: u8, k: felt252) -> bool {
    let mut d: Felt252Dict<%(t)s> = Default::default();
    d.insert(k, mk(x));
    d.insert(k + 1, mk(x ^ 0x55));
    d.insert(k, mk(x ^ 0x55));
    d.insert(k, mk(x));
    let z: %(t)s = Default::default();
    d.get(k) == mk(x) && d.get(k + 1) == mk(x ^ 0x55) && d.get(k + 2) == z
}
""" % {"t": t})
        if n not in ("arr", "arrarr", "snap", "span"):
            o.append("""
fn chk_dict_nullable(x: u8, k: felt252) -> bool {
    let mut d: Felt252Dict<Nullable<%(t)s>> = Default::default();
    d.insert(k, NullableTrait::new(mk(x)));
    d.insert(k + 1, NullableTrait::new(mk(x ^ 0x55)));
    let a = d.get(k);
    let b = d.get(k + 1);
    let c = d.get(k + 2);
    !a.is_null() && a.deref() == mk(x) && b.deref() == mk(x ^ 0x55) && c.is_null()
}
""" % {"t": t})
    if "serde" in f:
        o.append("""
fn serde(x: u8) -> Option<%(t)s> {
    let v = mk(x);
    let mut out = array![];
    v.serialize(ref out);
    let mut sp = out.span();
    Serde::<%(t)s>::deserialize(ref sp)
}
""" % {"t": t})
    if "dict" in f:
        o.append("""
fn dict(x: u8, k: felt252) -> %(t)s {
    let mut d: Felt252Dict<%(t)s> = Default::default();
    d.insert(k, mk(x));
    d.insert(k + 1, mk(x));
    let r = d.get(k);
    let _ = d.get(5);
    r
}
fn chk_dict_single_key(x: u8, k: felt252) -> bool {
    let mut d: Felt252Dict<%(t)s> = Default::default();
    d.insert(k, mk(x ^ 0x55));
    d.insert(k, mk(x));
    d.get(k) == mk(x)
}
fn dict_entry(x: u8, k: felt252) -> %(t)s {
    let mut d: Felt252Dict<%(t)s> = Default::default();
    let (e, prev) = d.entry(k);
    let mut d = e.finalize(mk(x));
    let _ = prev;
    d.get(k)
}
""" % {"t": t})
    if n not in ("arr", "arrarr", "snap", "span"):
        o.append("""
fn dict_nullable(x: u8, k: felt252) -> bool {
    let mut d: Felt252Dict<Nullable<%(t)s>> = Default::default();
    d.insert(k, NullableTrait::new(mk(x)));
    let a = d.get(k).is_null();
    let b = d.get(k + 1).is_null();
    a && b
}
""" % {"t": t})
    return "".join(o)


INTS = [("u8", 8, False), ("u16", 16, False), ("u32", 32, False), ("u64", 64, False), ("u128", 128, False),
        ("i8", 8, True), ("i16", 16, True), ("i32", 32, True), ("i64", 64, True), ("i128", 128, True)]


def int_ops():
    o = ["use core::num::traits::{WideMul, OverflowingAdd, OverflowingSub, OverflowingMul, WrappingAdd, WrappingSub, "
         "WrappingMul, CheckedAdd, CheckedSub, CheckedMul, SaturatingAdd, SaturatingSub, SaturatingMul, Sqrt, Bounded, "
         "Zero, One};\n"]
    for t, bits, signed in INTS:
        o.append("""
fn %(t)s_arith(a: %(t)s, b: %(t)s) -> (%(t)s, %(t)s, %(t)s) { (a + b, a - b, a * b) }
fn %(t)s_div(a: %(t)s, b: %(t)s) -> (%(t)s, %(t)s) { (a / b, a %% b) }
""" % {"t": t})
        if signed:
            o.append("""
fn %(t)s_ovf(a: %(t)s, b: %(t)s) -> ((%(t)s, bool), (%(t)s, bool)) { (a.overflowing_add(b), a.overflowing_sub(b)) }
fn %(t)s_wrap(a: %(t)s, b: %(t)s) -> (%(t)s, %(t)s) { (a.wrapping_add(b), a.wrapping_sub(b)) }
fn %(t)s_chk(a: %(t)s, b: %(t)s) -> (Option<%(t)s>, Option<%(t)s>) { (a.checked_add(b), a.checked_sub(b)) }
fn %(t)s_sat(a: %(t)s, b: %(t)s) -> (%(t)s, %(t)s) { (a.saturating_add(b), a.saturating_sub(b)) }
""" % {"t": t})
        else:
            o.append("""
fn %(t)s_ovf(a: %(t)s, b: %(t)s) -> ((%(t)s, bool), (%(t)s, bool), (%(t)s, bool)) {
    (a.overflowing_add(b), a.overflowing_sub(b), a.overflowing_mul(b))
}
fn %(t)s_wrap(a: %(t)s, b: %(t)s) -> (%(t)s, %(t)s, %(t)s) { (a.wrapping_add(b), a.wrapping_sub(b), a.wrapping_mul(b)) }
fn %(t)s_chk(a: %(t)s, b: %(t)s) -> (Option<%(t)s>, Option<%(t)s>, Option<%(t)s>) {
    (a.checked_add(b), a.checked_sub(b), a.checked_mul(b))
}
fn %(t)s_sat(a: %(t)s, b: %(t)s) -> (%(t)s, %(t)s, %(t)s) { (a.saturating_add(b), a.saturating_sub(b), a.saturating_mul(b)) }
""" % {"t": t})
        o.append("""
fn %(t)s_cmp(a: %(t)s, b: %(t)s) -> (bool, bool, bool, bool, bool, bool) { (a < b, a <= b, a > b, a >= b, a == b, a != b) }
fn %(t)s_felt(a: %(t)s) -> felt252 { a.into() }
fn %(t)s_from_felt(a: felt252) -> Option<%(t)s> { a.try_into() }
fn %(t)s_minmax() -> (%(t)s, %(t)s) { (Bounded::<%(t)s>::MIN, Bounded::<%(t)s>::MAX) }
""" % {"t": t})
        if not signed:
            o.append("""
fn %(t)s_bits(a: %(t)s, b: %(t)s) -> (%(t)s, %(t)s, %(t)s, %(t)s) { (a & b, a | b, a ^ b, ~a) }
fn %(t)s_sqrt(a: %(t)s) -> felt252 { a.sqrt().into() }
fn %(t)s_divrem(a: %(t)s, b: %(t)s) -> (%(t)s, %(t)s) {
    match b.try_into() { Option::Some(nz) => DivRem::div_rem(a, nz), Option::None => (0, 0) }
}
""" % {"t": t})
        else:
            o.append("fn %(t)s_neg(a: %(t)s) -> %(t)s { -a }\n" % {"t": t})
        if bits < 128:
            o.append("fn %(t)s_wide(a: %(t)s, b: %(t)s) -> felt252 { let w = a.wide_mul(b); w.into() }\n" % {"t": t})
    return "".join(o)


def casts():
    o = []
    for s, sb, ss in INTS:
        fs = []
        for d, db, ds in INTS:
            if s == d:
                continue
            fs.append("fn %s_to_%s(a: %s) -> Option<%s> { a.try_into() }\n" % (s, d, s, d))
        o.append(("cast_" + s, "".join(fs)))
    return o


BIG = """
use core::num::traits::{WideMul, OverflowingAdd, OverflowingSub, OverflowingMul, Sqrt, WrappingAdd, WrappingSub, WrappingMul};
use core::integer::{u512, u512_safe_div_rem_by_u256, u256_wide_mul};
use core::math::{u256_mul_mod_n, u256_inv_mod, u256_div_mod_n, egcd, inv_mod};
fn u256_arith(a: u256, b: u256) -> (u256, u256, u256) { (a + b, a - b, a * b) }
fn u256_div(a: u256, b: u256) -> (u256, u256) { (a / b, a % b) }
fn u256_ovf(a: u256, b: u256) -> ((u256, bool), (u256, bool), (u256, bool)) {
    (a.overflowing_add(b), a.overflowing_sub(b), a.overflowing_mul(b))
}
fn u256_wrap(a: u256, b: u256) -> (u256, u256, u256) { (a.wrapping_add(b), a.wrapping_sub(b), a.wrapping_mul(b)) }
fn u256_cmp(a: u256, b: u256) -> (bool, bool, bool, bool, bool) { (a < b, a <= b, a > b, a >= b, a == b) }
fn u256_bits(a: u256, b: u256) -> (u256, u256, u256, u256) { (a & b, a | b, a ^ b, ~a) }
fn u256_sqrt(a: u256) -> u128 { a.sqrt() }
fn u256_wide(a: u256, b: u256) -> u512 { a.wide_mul(b) }
fn u256_wide2(a: u256, b: u256) -> u512 { u256_wide_mul(a, b) }
fn u512_divrem(a0: u128, a1: u128, a2: u128, a3: u128, b: u256) -> (u512, u256) {
    match b.try_into() {
        Option::Some(nz) => u512_safe_div_rem_by_u256(u512 { limb0: a0, limb1: a1, limb2: a2, limb3: a3 }, nz),
        Option::None => (u512 { limb0: 0, limb1: 0, limb2: 0, limb3: 0 }, 0),
    }
}
fn u256_mulmod(a: u256, b: u256, n: u256) -> u256 {
    match n.try_into() { Option::Some(nz) => u256_mul_mod_n(a, b, nz), Option::None => 0 }
}
fn u256_invmod(a: u256, n: u256) -> Option<u256> {
    match n.try_into() { Option::Some(nz) => match u256_inv_mod(a, nz) { Option::Some(r) => Option::Some(r.into()), Option::None => Option::None }, Option::None => Option::None }
}
fn u256_divmod(a: u256, b: u256, n: u256) -> Option<u256> {
    match (b.try_into(), n.try_into()) {
        (Option::Some(bz), Option::Some(nz)) => u256_div_mod_n(a, bz, nz),
        _ => Option::None,
    }
}
fn u128_invmod(a: u128, n: u128) -> Option<u128> {
    match (a.try_into(), n.try_into()) {
        (Option::Some(az), Option::Some(nz)) => inv_mod::<u128>(az, nz),
        _ => Option::None,
    }
}
fn u64_egcd(a: u64, b: u64) -> (u64, u64, u64, bool) {
    match (a.try_into(), b.try_into()) {
        (Option::Some(az), Option::Some(bz)) => egcd::<u64>(az, bz),
        _ => (0, 0, 0, false),
    }
}
fn u256_felt(a: felt252) -> u256 { a.into() }
fn u256_to_felt(a: u256) -> Option<felt252> { a.try_into() }
fn u128_wide(a: u128, b: u128) -> u256 { a.wide_mul(b) }
fn u128_bytes(a: u128) -> u128 { core::integer::u128_byte_reverse(a) }
fn felt_ops(a: felt252, b: felt252) -> (felt252, felt252, felt252, bool) { (a + b, a - b, a * b, a == b) }
fn felt_div(a: felt252, b: felt252) -> felt252 {
    match b.try_into() { Option::Some(nz) => core::felt252_div(a, nz), Option::None => 0 }
}
"""

HASH = """
use core::pedersen::pedersen;
use core::poseidon::{hades_permutation, poseidon_hash_span, PoseidonTrait};
use core::hash::{HashStateTrait, HashStateExTrait};
use core::ec::{EcPointTrait, EcStateTrait, ec_point_unwrap, NonZeroEcPoint};
fn ped(a: felt252, b: felt252) -> felt252 { pedersen(a, pedersen(b, a)) }
fn hades(a: felt252, b: felt252, c: felt252) -> (felt252, felt252, felt252) { hades_permutation(a, b, c) }
fn pos_span(a: felt252, b: felt252, n: u8) -> felt252 {
    let mut v = array![];
    let mut i = 0_u8;
    while i != n % 7 { v.append(a + i.into()); i += 1; };
    v.append(b);
    poseidon_hash_span(v.span())
}
fn pos_state(a: felt252, b: u256, c: (u8, u64)) -> felt252 {
    PoseidonTrait::new().update(a).update_with(b).update_with(c).finalize()
}
fn ped_state(a: felt252, b: u256) -> felt252 {
    core::pedersen::PedersenTrait::new(a).update_with(b).update_with((a, a)).finalize()
}
fn ec_mul(k: felt252, m: felt252) -> (felt252, felt252) {
    let g = EcPointTrait::new(
        0x1ef15c18599971b7beced415a40f0c7deacfd9b0d1819e03d723d8bc943cfca,
        0x5668060aa49730b7be4801df46ec62de53ecd11abe43a32873000c36e8dc1f,
    ).unwrap();
    let mut s = EcStateTrait::init();
    s.add_mul(k, g.try_into().unwrap());
    s.add(g.try_into().unwrap());
    s.add_mul(m, g.try_into().unwrap());
    match s.finalize_nz() {
        Option::Some(p) => ec_point_unwrap(p),
        Option::None => (0, 0),
    }
}
fn ec_misc(x: felt252) -> (bool, felt252) {
    match EcPointTrait::new_from_x(x) {
        Option::Some(p) => {
            let q = -p;
            let r = p + q;
            let rz: Option<NonZeroEcPoint> = r.try_into();
            let qz: Option<NonZeroEcPoint> = q.try_into();
            (rz.is_none(), match qz { Option::Some(nz) => nz.x(), Option::None => 0 })
        },
        Option::None => (false, 0),
    }
}
fn bitwise3(a: u128, b: u128) -> (u128, u128, u128) { core::integer::bitwise(a, b) }
fn u64_bitwise(a: u64, b: u64) -> (u64, u64, u64) { (a & b, a ^ b, a | b) }
fn sha(a: u32, n: u8) -> [u32; 8] {
    let mut v: Array<u32> = array![];
    let mut i = 0_u8;
    while i != n % 40 { v.append(a + i.into()); i += 1; };
    core::sha256::compute_sha256_u32_array(v, a % 256, n.into() % 4)
}
fn ba(a: felt252, n: u8, w: u8) -> usize {
    let mut b: ByteArray = "";
    let mut i = 0_u8;
    while i != n % 70 { b.append_byte(w); i += 1; };
    b.append_word(a, 31);
    b.append_word(7, (w % 31).into());
    let c = b.clone() + b.rev();
    c.len() + match c.at(3) { Option::Some(x) => x.into(), Option::None => 0 }
}
fn fmt(a: u256, b: i32, c: felt252) -> ByteArray { format!("{a}/{b:?}/{c}:{}", a + 1) }
"""

GAS = """
use core::gas::{withdraw_gas, withdraw_gas_all, get_builtin_costs, redeposit_gas};
use core::dict::{Felt252DictEntryTrait, SquashedFelt252DictTrait};
fn wg(n: u8) -> u8 {
    match withdraw_gas() { Option::Some(_) => {}, Option::None => { return 255; } }
    if n == 0 { 0 } else { wg(n - 1) + 1 }
}
fn wg_all(n: u8, a: felt252) -> felt252 {
    match withdraw_gas_all(get_builtin_costs()) { Option::Some(_) => {}, Option::None => { return 'oog'; } }
    if n == 0 { a } else { core::pedersen::pedersen(wg_all(n - 1, a), a) }
}
fn redeposit(n: u8) -> u8 {
    let r = if n < 100 { wg(n % 7) } else { 3 };
    redeposit_gas();
    r
}
fn nested_loops(n: u8, m: u8) -> u32 {
    let mut t = 0_u32;
    let mut i = 0_u8;
    while i != n % 6 {
        let mut j = 0_u8;
        loop {
            if j == m % 5 { break; }
            t += (i * j).into();
            j += 1;
        };
        i += 1;
    };
    t
}
fn mutual_a(n: u8) -> u8 { if n == 0 { 1 } else { mutual_b(n - 1) + 1 } }
fn mutual_b(n: u8) -> u8 { if n == 0 { 2 } else { mutual_a(n - 1) * 2 % 200 } }
fn match_felt(a: felt252) -> u8 { match a { 0 => 10, 1 => 11, 2 => 12, 3 => 13, 4 => 14, 5 => 15, _ => 99 } }
fn match_u8(a: u8) -> u8 { match a { 0 => 10, 1 => 11, 2 => 12, 3 => 13, 4 => 14, 5 => 15, 6 => 16, 7 => 17, _ => 99 } }
fn match_u32_sparse(a: u32) -> u8 { match a { 0 => 1, 1 | 2 => 2, 3 => 4, _ => 0 } }
fn for_range(n: u8) -> u32 { let mut s = 0_u32; for i in 0..(n % 9) { s += i.into(); }; s }
fn for_span(a: u16, n: u8) -> u16 {
    let mut v = array![];
    for i in 0..(n % 5) { v.append(a % 100 + i.into()); };
    let mut s = 0_u16;
    for x in v.span() { s += *x; };
    s
}
fn early(a: u8, b: u8) -> Option<u8> {
    let x = if a > b { Option::Some(a - b) } else { Option::None }?;
    if x > 100 { return Option::None; }
    Option::Some(x + b)
}
fn panic_data(a: u8) -> u8 { assert!(a < 200, "too big: {}", a); assert(a != 7, 'seven'); a }
fn squash(n: u8, k: felt252) -> u128 {
    let mut d: Felt252Dict<u128> = Default::default();
    let mut i = 0_u8;
    while i != n % 9 { d.insert(k + (i % 3).into(), i.into()); i += 1; };
    let v = d.get(k);
    let sq = d.squash();
    let mut d2 = sq.into_entries();
    v + d2.len().into()
}
"""

CONSTS = """
#[derive(Copy, Drop)]
struct P { x: u8, y: u256, z: (felt252, i16) }
#[derive(Copy, Drop)]
enum Q { A: P, B, C: u64 }
const CP: P = P { x: 3, y: 0x100000000000000000000000000000001, z: (-1, -5) };
const CQ: Q = Q::A(CP);
const CQ2: Q = Q::C(77);
const CT: (u8, (u16, u32), [u64; 3]) = (1, (2, 3), [4, 5, 6]);
const CI: i128 = -170141183460469231731687303715884105728;
const CF: felt252 = -1;
const CN: NonZero<u128> = 5;
const CB: bool = true;
const fn sq(a: u32) -> u32 { a * a }
const CS: u32 = sq(9) + 1;
fn get_p(a: u8) -> (u8, u256, felt252, i16) { let p = CP; let (f, i) = p.z; (p.x + a % 2, p.y, f, i) }
fn get_q(a: u8) -> u64 { let q = if a > 9 { CQ } else { CQ2 }; match q { Q::A(p) => p.x.into(), Q::B => 0, Q::C(v) => v } }
fn get_t(a: u8) -> u64 { let (x, (y, z), [p, q, r]) = CT; x.into() + y.into() + z.into() + p + q + r + a.into() }
fn get_misc(a: u128) -> (i128, felt252, u128, bool, u32) { { let (q, _r) = DivRem::div_rem(a, CN); (CI, CF, q, CB, CS) } }
fn boxed_const(a: u8) -> u256 { let b = BoxTrait::new(CP); b.unbox().y + a.into() }
fn big_lits(a: u8) -> (u256, felt252, i64) {
    (0xffffffffffffffffffffffffffffffffffffffffffffffffffffffffffffffff, 0x800000000000011000000000000000000000000000000000000000000000000 + a.into(), -9223372036854775808)
}
"""

BOUNDED = """
#[feature("bounded-int-utils")]
use core::internal::bounded_int::{self, BoundedInt, AddHelper, SubHelper, MulHelper, DivRemHelper, ConstrainHelper, TrimMinHelper, TrimMaxHelper, upcast, downcast};
type B0_10 = BoundedInt<0, 10>;
type Bm5_5 = BoundedInt<-5, 5>;
type B1_7 = BoundedInt<1, 7>;
type BBig = BoundedInt<0, 0xffffffffffffffffffffffffffffffffffffffff>;
impl A1 of AddHelper<B0_10, Bm5_5> { type Result = BoundedInt<-5, 15>; }
impl S1 of SubHelper<B0_10, Bm5_5> { type Result = BoundedInt<-5, 15>; }
impl M1 of MulHelper<B0_10, Bm5_5> { type Result = BoundedInt<-50, 50>; }
impl M2 of MulHelper<BBig, B0_10> { type Result = BoundedInt<0, 0x9fffffffffffffffffffffffffffffffffffffff6>; }
impl D1 of DivRemHelper<B0_10, B1_7> { type DivT = BoundedInt<0, 10>; type RemT = BoundedInt<0, 6>; }
impl D2 of DivRemHelper<u128, B1_7> { type DivT = BoundedInt<0, 0xffffffffffffffffffffffffffffffff>; type RemT = BoundedInt<0, 6>; }
type BMid = BoundedInt<0x10000000000000000, 0x10000000000000000000000000>;
impl D3 of DivRemHelper<BBig, BMid> { type DivT = BoundedInt<0, 0xffffffffffffffffffffffff>; type RemT = BoundedInt<0, 0xfffffffffffffffffffffffff>; }
impl D4 of DivRemHelper<u128, BoundedInt<1, 0xffffffffffffffffffffffffffffffff>> { type DivT = BoundedInt<0, 0xffffffffffffffffffffffffffffffff>; type RemT = BoundedInt<0, 0xfffffffffffffffffffffffffffffffe>; }
impl C1 of ConstrainHelper<Bm5_5, 0> { type LowT = BoundedInt<-5, -1>; type HighT = BoundedInt<0, 5>; }
impl C2 of ConstrainHelper<Bm5_5, -3> { type LowT = BoundedInt<-5, -4>; type HighT = BoundedInt<-3, 5>; }
impl C3 of ConstrainHelper<B0_10, 4> { type LowT = BoundedInt<0, 3>; type HighT = BoundedInt<4, 10>; }
impl C5 of ConstrainHelper<i128, -7> { type LowT = BoundedInt<-0x80000000000000000000000000000000, -8>; type HighT = BoundedInt<-7, 0x7fffffffffffffffffffffffffffffff>; }
impl C6 of ConstrainHelper<u128, 0x80000000000000000000000000000000> { type LowT = BoundedInt<0, 0x7fffffffffffffffffffffffffffffff>; type HighT = BoundedInt<0x80000000000000000000000000000000, 0xffffffffffffffffffffffffffffffff>; }
#[allow(extern_outside_corelib)]
extern fn bounded_int_wrap_non_zero<T>(v: T) -> NonZero<T> nopanic;
fn mk10(a: u8) -> B0_10 { downcast::<u8, B0_10>(a % 11).unwrap() }
fn mk5(a: u8) -> Bm5_5 { let v: i8 = (a % 11).try_into().unwrap(); downcast::<i8, Bm5_5>(v - 5).unwrap() }
fn mk7(a: u8) -> B1_7 { downcast::<u8, B1_7>(a % 7 + 1).unwrap() }
fn f(x: felt252) -> felt252 { x }
fn add(a: u8, b: u8) -> felt252 { upcast::<_, felt252>(bounded_int::add(mk10(a), mk5(b))) }
fn sub(a: u8, b: u8) -> felt252 { upcast::<_, felt252>(bounded_int::sub(mk10(a), mk5(b))) }
fn mul(a: u8, b: u8) -> felt252 { upcast::<_, felt252>(bounded_int::mul(mk10(a), mk5(b))) }
fn mul_big(a: u128, b: u8) -> felt252 { upcast::<_, felt252>(bounded_int::mul(upcast::<u128, BBig>(a), mk10(b))) }
fn divrem(a: u8, b: u8) -> (felt252, felt252) {
    let (q, r) = bounded_int::div_rem(mk10(a), bounded_int_wrap_non_zero(mk7(b)));
    (upcast(q), upcast(r))
}
fn divrem_u128(a: u128, b: u8) -> (felt252, felt252) {
    let (q, r) = bounded_int::div_rem(a, bounded_int_wrap_non_zero(mk7(b)));
    (upcast(q), upcast(r))
}
fn divrem_big(a: u128, b: u128) -> (felt252, felt252) {
    match downcast::<u128, BMid>(b) {
        Option::Some(y) => { let (q, r) = bounded_int::div_rem(upcast::<u128, BBig>(a), bounded_int_wrap_non_zero(y)); (upcast(q), upcast(r)) },
        Option::None => (0, 0),
    }
}
fn divrem_u128_u128(a: u128, b: u128) -> (felt252, felt252) {
    match downcast::<u128, BoundedInt<1, 0xffffffffffffffffffffffffffffffff>>(b) {
        Option::Some(y) => { let (q, r) = bounded_int::div_rem(a, bounded_int_wrap_non_zero(y)); (upcast(q), upcast(r)) },
        Option::None => (0, 0),
    }
}
fn constrain0(a: u8) -> felt252 { match bounded_int::constrain::<Bm5_5, 0>(mk5(a)) { Result::Ok(l) => upcast(l), Result::Err(h) => upcast::<_, felt252>(h) + 100 } }
fn constrain_m3(a: u8) -> felt252 { match bounded_int::constrain::<Bm5_5, -3>(mk5(a)) { Result::Ok(l) => upcast(l), Result::Err(h) => upcast::<_, felt252>(h) + 100 } }
fn constrain4(a: u8) -> felt252 { match bounded_int::constrain::<B0_10, 4>(mk10(a)) { Result::Ok(l) => upcast(l), Result::Err(h) => upcast::<_, felt252>(h) + 100 } }
fn constrain_i8(a: i8) -> felt252 { match bounded_int::constrain::<i8, 0>(a) { Result::Ok(l) => upcast(l), Result::Err(h) => upcast::<_, felt252>(h) + 1000 } }
fn constrain_i128(a: i128) -> felt252 { match bounded_int::constrain::<i128, -7>(a) { Result::Ok(l) => upcast(l), Result::Err(h) => upcast::<_, felt252>(h) + 1000 } }
fn constrain_u128(a: u128) -> felt252 { match bounded_int::constrain::<u128, 0x80000000000000000000000000000000>(a) { Result::Ok(l) => upcast(l), Result::Err(h) => upcast::<_, felt252>(h) + 1 } }
fn is_zero(a: u8) -> bool { match bounded_int::is_zero(mk5(a)) { core::zeroable::IsZeroResult::Zero => true, core::zeroable::IsZeroResult::NonZero(_) => false } }
fn trims(a: u8) -> felt252 {
    let x = match bounded_int::trim_min::<u8>(a) { core::internal::OptionRev::None => 0, core::internal::OptionRev::Some(v) => upcast::<_, felt252>(v) };
    let y = match bounded_int::trim_max::<u8>(a) { core::internal::OptionRev::None => 0, core::internal::OptionRev::Some(v) => upcast::<_, felt252>(v) };
    let z = match bounded_int::trim_min::<i8>(-128) { core::internal::OptionRev::None => 5, core::internal::OptionRev::Some(v) => upcast::<_, felt252>(v) };
    x + y + z
}
fn downs(a: felt252) -> (bool, bool, bool) {
    (downcast::<felt252, Bm5_5>(a).is_some(), downcast::<felt252, B1_7>(a).is_some(), downcast::<felt252, BoundedInt<-0x8000000000000000000000, 0x7fffffffffffffffffffffffff>>(a).is_some())
}
"""


def circuits():
    """Self-checking circuits: every gate DAG of depth <= 3 over {add, sub, mul} on two inputs (plus an inverse), all
    intermediate gates exposed as outputs and compared with u256 modular arithmetic computed in Cairo (modulus 2^64-59,
    inputs reduced below it, so the u256 products cannot overflow)."""
    ops = ["add", "sub", "mul"]
    o = ["use core::circuit::{AddInputResultTrait, CircuitElement, CircuitInput, CircuitInputs, CircuitModulus, "
         "CircuitOutputsTrait, EvalCircuitTrait, circuit_add, circuit_inverse, circuit_mul, circuit_sub, u384, u96};\n"
         "const P: u256 = 18446744073709551557;\n"
         "fn m_add(a: u256, b: u256) -> u256 { (a + b) % P }\nfn m_sub(a: u256, b: u256) -> u256 { (a + P - b) % P }\n"
         "fn m_mul(a: u256, b: u256) -> u256 { (a * b) % P }\n"
         "fn lim(v: u256) -> [u96; 4] { let f: felt252 = v.low.into(); [f.try_into().unwrap(), 0, 0, 0] }\n"
         "fn eq(a: u384, v: u256) -> bool { let w: u256 = a.try_into().unwrap(); w == v }\n"]
    k = 0
    import itertools
    # shapes: g1 = op1(x, y); g2 = op2(g1, z2) with z2 in {x, y, g1}; g3 = op3(g2, z3) with z3 in {x, g1, g2}
    triples = [("add", "add", "add"), ("add", "add", "mul"), ("add", "sub", "add"), ("sub", "add", "sub"), ("sub", "sub", "mul"),
               ("mul", "add", "add"), ("mul", "sub", "add"), ("add", "mul", "add"), ("mul", "mul", "mul"), ("sub", "mul", "sub")]
    for op1, op2, op3 in triples:
        for z2, z3 in [("x", "g1"), ("g1", "g2")]:
            k += 1
            def ce(z):
                return {"x": "in0", "y": "in1", "g1": "g1", "g2": "g2"}[z]
            def me(z):
                return {"x": "x", "y": "y", "g1": "v1", "g2": "v2"}[z]
            o.append(
                "fn chk_c%d(a: u64, b: u64) -> bool {\n"
                "    let x: u256 = a.into() %% P; let y: u256 = b.into() %% P;\n"
                "    let in0 = CircuitElement::<CircuitInput<0>> {}; let in1 = CircuitElement::<CircuitInput<1>> {};\n"
                "    let g1 = circuit_%s(in0, in1); let g2 = circuit_%s(g1, %s); let g3 = circuit_%s(g2, %s);\n"
                "    let v1 = m_%s(x, y); let v2 = m_%s(v1, %s); let v3 = m_%s(v2, %s);\n"
                "    let modulus = TryInto::<_, CircuitModulus>::try_into([18446744073709551557, 0, 0, 0]).unwrap();\n"
                "    let outs = (g3, g2, g1).new_inputs().next(lim(x)).next(lim(y)).done().eval(modulus).unwrap();\n"
                "    eq(outs.get_output(g1), v1) && eq(outs.get_output(g2), v2) && eq(outs.get_output(g3), v3)\n"
                "}\n" % (k, op1, op2, ce(z2), op3, ce(z3), op1, op2, me(z2), op3, me(z3)))
    # an inverse in the middle: inv(x + y) * (x - y), defined when x + y != 0 mod P
    o.append(
        "fn chk_cinv(a: u64, b: u64) -> bool {\n"
        "    let x: u256 = a.into() % P; let y: u256 = b.into() % P;\n"
        "    let in0 = CircuitElement::<CircuitInput<0>> {}; let in1 = CircuitElement::<CircuitInput<1>> {};\n"
        "    let s = circuit_add(in0, in1); let i = circuit_inverse(s); let d = circuit_sub(in0, in1); let m = circuit_mul(i, d);\n"
        "    let modulus = TryInto::<_, CircuitModulus>::try_into([18446744073709551557, 0, 0, 0]).unwrap();\n"
        "    match (m, i, s).new_inputs().next(lim(x)).next(lim(y)).done().eval(modulus) {\n"
        "        Result::Ok(outs) => { let ivv: u256 = outs.get_output(i).try_into().unwrap();\n"
        "            m_add(x, y) != 0 && m_mul(ivv, m_add(x, y)) == 1 && eq(outs.get_output(m), m_mul(ivv, m_sub(x, y))) },\n"
        "        Result::Err(_) => m_add(x, y) == 0,\n"
        "    }\n}\n")
    return "".join(o)


def ranges():
    """Self-checking range iteration (`for i in lo..hi`, `lo..=hi`, reversed and empty ranges included) for every integer
    type and u256: number of iterations and sum against the closed form."""
    o = []
    for t, signed in [("u8", 0), ("u16", 0), ("u32", 0), ("u64", 0), ("u128", 0), ("u256", 0), ("i8", 1), ("i16", 1), ("i32", 1), ("i64", 1), ("i128", 1)]:
        off = " - 3" if signed else ""
        mk = "{ let v: %s = (%%s %%%% 7).try_into().unwrap(); v%s }" % (t, off)
        o.append("""
fn chk_range_%(t)s(a: u8, b: u8) -> bool {
    let lo: %(t)s = %(lo)s; let hi: %(t)s = %(hi)s;
    let mut n: u32 = 0; let mut first: Option<%(t)s> = Option::None; let mut last: Option<%(t)s> = Option::None;
    for i in lo..hi { if n == 0 { first = Option::Some(i); } last = Option::Some(i); n += 1; if n > 20 { break; } };
    let mut rev: u32 = 0; for _i in (hi + 2)..hi { rev += 1; if rev > 20 { break; } };
    if rev != 0 { return false; }
    if hi > lo { let d: felt252 = (hi - lo).try_into().unwrap(); n.into() == d && first == Option::Some(lo) && last == Option::Some(hi - 1) } else { n == 0 && first.is_none() }
}
fn chk_range_incl_%(t)s(a: u8, b: u8) -> bool {
    let lo: %(t)s = %(lo)s; let hi: %(t)s = %(hi)s;
    let mut n: u32 = 0; let mut first: Option<%(t)s> = Option::None; let mut last: Option<%(t)s> = Option::None;
    for i in lo..=hi { if n == 0 { first = Option::Some(i); } last = Option::Some(i); n += 1; if n > 20 { break; } };
    let mut rev: u32 = 0; for _i in (hi + 2)..=hi { rev += 1; if rev > 20 { break; } };
    if rev != 0 { return false; }
    if hi >= lo { let d: felt252 = (hi - lo + 1).try_into().unwrap(); n.into() == d && first == Option::Some(lo) && last == Option::Some(hi) } else { n == 0 && first.is_none() }
}
""" % {"t": t, "lo": mk % "a", "hi": mk % "b"})
    return "".join(o)


BOXED_MATCH = """
// matching on a boxed enum without unboxing it (`enum_boxed_match`), for enums of 1, 2, 3 and 5 variants
#[derive(Copy, Drop)]
enum E1 { A: felt252 }
#[derive(Copy, Drop)]
enum E3 { A: felt252, B: u256, C: () }
#[derive(Copy, Drop)]
enum E5 { A: felt252, B: u256, C: (), D: u8, E: (u8, u8) }
enum B1 { A: Box<felt252> }
enum B2 { Some: Box<felt252>, None: Box<()> }
enum B3 { A: Box<felt252>, B: Box<u256>, C: Box<()> }
enum B5 { A: Box<felt252>, B: Box<u256>, C: Box<()>, D: Box<u8>, E: Box<(u8, u8)> }
mod x1 { #[allow(extern_outside_corelib)] pub extern fn enum_boxed_match<T>(e: Box<T>) -> super::B1 nopanic; }
mod x2 { #[allow(extern_outside_corelib)] pub extern fn enum_boxed_match<T>(e: Box<T>) -> super::B2 nopanic; }
mod x3 { #[allow(extern_outside_corelib)] pub extern fn enum_boxed_match<T>(e: Box<T>) -> super::B3 nopanic; }
mod x5 { #[allow(extern_outside_corelib)] pub extern fn enum_boxed_match<T>(e: Box<T>) -> super::B5 nopanic; }
#[inline(never)]
fn m1(e: Box<E1>) -> felt252 { match x1::enum_boxed_match(e) { B1::A(b) => b.unbox() } }
#[inline(never)]
fn m2(e: Box<Option<felt252>>) -> felt252 { match x2::enum_boxed_match(e) { B2::Some(b) => b.unbox(), B2::None(_) => 1000 } }
#[inline(never)]
fn m3(e: Box<E3>) -> felt252 { match x3::enum_boxed_match(e) { B3::A(b) => b.unbox(), B3::B(b) => b.unbox().low.into(), B3::C(_) => 3000 } }
#[inline(never)]
fn m5(e: Box<E5>) -> felt252 {
    match x5::enum_boxed_match(e) {
        B5::A(b) => b.unbox(), B5::B(b) => b.unbox().high.into(), B5::C(_) => 5000, B5::D(b) => b.unbox().into(),
        B5::E(b) => { let (p, q) = b.unbox(); p.into() + q.into() },
    }
}
fn chk_boxed_match(x: u8) -> bool {
    let f: felt252 = x.into();
    let t = f * f;
    let r1 = m1(BoxTrait::new(E1::A(f)));
    let r2 = m2(BoxTrait::new(if x % 2 == 0 { Option::Some(f) } else { Option::None }));
    let r3 = m3(BoxTrait::new(if x % 3 == 0 { E3::A(f) } else if x % 3 == 1 { E3::B(u256 { low: 77, high: 5 }) } else { E3::C(()) }));
    let r5 = m5(BoxTrait::new(if x % 5 == 0 { E5::A(f) } else if x % 5 == 1 { E5::B(u256 { low: 1, high: 9 }) } else if x % 5 == 2 { E5::C(()) } else if x % 5 == 3 { E5::D(x) } else { E5::E((x, 1)) }));
    r1 == f && r2 == (if x % 2 == 0 { f } else { 1000 }) && r3 == (if x % 3 == 0 { f } else if x % 3 == 1 { 77 } else { 3000 })
        && r5 == (if x % 5 == 0 { f } else if x % 5 == 1 { 9 } else if x % 5 == 2 { 5000 } else if x % 5 == 3 { f } else { f + 1 }) && t == f * f
}
"""


def files():
    out = []
    for n, t, mk, flags in TYPES:
        out.append(("z_ty_" + n, per_type(n, t, mk, flags)))
    out.append(("z_int_ops", int_ops()))
    for name, body in casts():
        out.append(("z_" + name, body))
    out.append(("z_big", BIG))
    out.append(("z_hash", HASH))
    out.append(("z_gas", GAS))
    out.append(("z_consts", CONSTS))
    out.append(("z_bounded", BOUNDED))
    out.append(("z_circuit", circuits()))
    out.append(("z_range", ranges()))
    out.append(("z_boxed_match", BOXED_MATCH))
    return out


def write(dst):
    os.makedirs(dst, exist_ok=True)
    n = 0
    for name, body in files():
        open(os.path.join(dst, name + ".cairo"), "w").write(body)
        n += 1
    return n


if __name__ == "__main__":
    import sys
    print(write(sys.argv[1]))
