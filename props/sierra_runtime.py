"""Run-time legs shared by C02 / C04 / C17: compile corpus Cairo programs with /repo's current compiler and
run them on the real VM through harness/h14's second binary `h14run`.

    from props import sierra_runtime as rt
    res = rt.run_runtime(ctx)          # builds h14, prepares the sources, runs h14run (cached per ctx.out)
    res["summary"]                     # counts (see below)
    res["failures"]                    # list of {leg: "C02"|"C04"|"C17", program, function, args, gas, solver, what}
    rt.failures_of(res, "C04")         # the entries of one leg

CLI of the binary (what this module calls):
    harness/target/debug/h14run <sources_dir> <out_dir> <quick|thorough>
  env: VERIF_SEED (inputs), H14_WORKERS (default min(12, cores)), H14_DEADLINE_S (batches not started by then are
  skipped and counted in summary["batches_skipped_by_deadline"]).
  <sources_dir>/*.cairo : one single-file crate each (crate name = file stem).
  writes <out_dir>/summary.json, runtime_failures.json, not_compiled.json, samples.txt (+ batch_*/result_* scratch).

What is run: every function of the source's own crate whose user parameters are scalars (uN/iN/felt252/bool/u256/
bytes31/BoundedInt, tuples/structs/snapshots/NonZero of those, arrays of integers), for BOTH metadata
configurations (linear solvers; equation solvers with skip_non_linear_solver_comparisons), on argument vectors
all-min / all-max / zero-one / seeded mixes incl. near-boundary values, with gas budgets: entry cost (-1, +0, +1, +100,
+3000), 0, the exact consumption of the large run (-1, +0, +1) and entry cost + 10^7.

Accepted mutants: for every compiled program of at most 400 statements, seeded single-point mutants (harness/h14's
mutation engine; function table left as the compiler emitted it, because the runner places the gas counter and the
builtins by the compiler's convention) that the real pipeline accepts are run as well (linear configuration, 3
argument vectors, 2 budgets) under the same three oracles; a failing mutant's program is written to
<out_dir>/mutant_<hash>.json and named in the failure's `what`.

Oracles (impl-level, written from the property texts):
  C02  casm_run::run_function returns Err (what SierraCasmRunner turns into RunnerError::CairoRunError), or anything
       panics / hangs -> failure.  Sierra-level panic values and out-of-gas panics are fine;
       RunnerError::NotEnoughGasToCall (budget below the entry cost) is counted, not a failure.
  C04  100*n_steps + 70*range_check uses + 56*range_check96 uses + sum token_gas_cost(b)*uses(b)
       <= (gas_given - gas_counter_left) + 100, with n_steps as SierraCasmRunner computes it (header/footer steps
       removed) and uses(b) = used_resources.builtin_instance_counter; gas_given is the `available_gas` argument
       (the runner deducts the function's entry cost from it before the run, so the left side of the subtraction
       already contains the entry cost); for a function without a GasBuiltin parameter: <= entry cost + 100.
  C17  from the relocated trace + debug_info.sierra_statement_info + metadata.ap_change_info.function_ap_change:
       every traced pc of the program lies in the recorded range of exactly one statement (or on a const-segment
       `ret`; the runner's header is recognised by pc <= pc of the last trace entry); for every dynamic call
       instance of a function f (entered by a call: fp changed and ap == fp at f's entry offset; left by the `ret` of a
       Return statement with the same fp) with a declared change k: ap_at_ret - ap_at_entry == k.
"""
import glob
import json
import os
import re

import corpus
import vlib
import zoo

_ATTR = re.compile(r"^\s*#\[(test|should_panic[^\]]*|available_gas[^\]]*|ignore)\]\s*$", re.M)


def _ident(s):
    s = re.sub(r"[^A-Za-z0-9_]", "_", s)
    return s if re.match(r"[A-Za-z_]", s) else "x" + s


def prepare_sources(dst, e2e=True):
    """Writes the corpus sources as single-file crates into dst; returns {kind: count}."""
    os.makedirs(dst, exist_ok=True)
    for f in glob.glob(os.path.join(dst, "*.cairo")):
        os.unlink(f)
    counts = {"examples": 0, "e2e_cairo_code": 0, "bug_samples": 0}
    R = corpus.REPO
    for f in sorted(glob.glob(R + "/examples/*.cairo")):
        name = "x_" + _ident(os.path.splitext(os.path.basename(f))[0])
        open(os.path.join(dst, name + ".cairo"), "w").write(_ATTR.sub("", open(f).read()))
        counts["examples"] += 1
    for f in sorted(glob.glob(R + "/tests/bug_samples/*.cairo")):
        if os.path.basename(f) == "lib.cairo":
            continue
        name = "b_" + _ident(os.path.splitext(os.path.basename(f))[0])
        # test functions become plain parameterless functions of the crate
        open(os.path.join(dst, name + ".cairo"), "w").write(_ATTR.sub("", open(f).read()))
        counts["bug_samples"] += 1
    if not e2e:
        counts["zoo"] = zoo.write(dst)
        return counts
    for f in sorted(glob.glob(R + "/tests/e2e_test_data/**/*", recursive=True)):
        if not os.path.isfile(f):
            continue
        rel = _ident(os.path.relpath(f, R + "/tests/e2e_test_data"))
        for k, t in enumerate(corpus._sections(f)):
            code = t.get("cairo_code", "").strip()
            if code:
                name = "e_%s_%03d" % (rel, k)
                # sections refer to their own items as `test::...` (the crate name in the e2e runner)
                code = re.sub(r"\btest::", name + "::", code)
                open(os.path.join(dst, name + ".cairo"), "w").write(code + "\n")
                counts["e2e_cairo_code"] += 1
    # the instantiation zoo (lib/zoo.py): libfunc instantiations no golden file pins
    counts["zoo"] = zoo.write(dst)
    return counts


_dump_cache = {}


def compile_fresh_corpus(ctx, cdir):
    """Compiles examples, bug samples and the instantiation zoo with the CURRENT compiler (h14run, compile only) and
    adds the Sierra text of every program as cc_<name>.sierra to cdir (corpus of the static legs of C15/C17/C04).
    The e2e cairo_code sections are left out: their Sierra is the pinned sierra_code already in the corpus.
    Returns dict(ok, compiled, not_compiled=[...])."""
    key = (ctx.out, ctx.tier)
    res = {"ok": False, "compiled": 0, "not_compiled": []}
    ok_build, _ = vlib.cargo_build(ctx, "h14")
    if not ok_build:
        res["error"] = "harness h14 does not build against the tree under test"
        return res
    src = os.path.join(ctx.out, "cc_sources")
    out = os.path.join(ctx.out, "cc_run")
    res["sources"] = prepare_sources(src, e2e=False)
    vlib.clean_dir(out)
    env = vlib.env_offline()
    env["H14_SIERRA_DUMP"] = cdir
    env["H14_COMPILE_ONLY"] = "1"
    rc, o = vlib.run([os.path.join(vlib.HARNESS, "target", "debug", "h14run"), src, out, ctx.tier], timeout=1200, env=env)
    sp = os.path.join(out, "summary.json")
    if rc != 0 or not os.path.exists(sp):
        res["error"] = "h14run (compile only) failed: " + o[-800:]
        return res
    res["ok"] = True
    res["compiled"] = json.load(open(sp)).get("compiled", 0)
    res["not_compiled"] = json.load(open(os.path.join(out, "not_compiled.json")))
    return res


_cache = {}


def run_runtime(ctx, deadline_s=None):
    """Builds h14, runs h14run over the corpus sources; returns dict(ok, summary, failures, not_compiled, sources)."""
    key = (ctx.out, ctx.tier, ctx.seed)
    if key in _cache:
        return _cache[key]
    res = {"ok": False, "summary": {}, "failures": [], "not_compiled": [], "sources": {}, "samples": []}
    ok_build, _ = vlib.cargo_build(ctx, "h14")
    if not ok_build:
        res["error"] = "harness h14 does not build against /repo's working tree"
        _cache[key] = res
        return res
    src = os.path.join(ctx.out, "rt_sources")
    out = os.path.join(ctx.out, "rt_run")
    res["sources"] = prepare_sources(src)
    vlib.clean_dir(out)
    env = vlib.env_offline()
    env.setdefault("H14_DEADLINE_S", str(deadline_s or (1500 if ctx.thorough else 170)))
    rc, o = vlib.run([os.path.join(vlib.HARNESS, "target", "debug", "h14run"), src, out, ctx.tier],
                     timeout=4000 if ctx.thorough else 1200, env=env)
    sp = os.path.join(out, "summary.json")
    if rc != 0 or not os.path.exists(sp):
        res["error"] = "h14run failed to run: " + o[-1500:]
        _cache[key] = res
        return res
    res["ok"] = True
    res["summary"] = json.load(open(sp))
    res["failures"] = json.load(open(os.path.join(out, "runtime_failures.json")))
    res["not_compiled"] = json.load(open(os.path.join(out, "not_compiled.json")))
    res["samples"] = [l for l in open(os.path.join(out, "samples.txt")).read().splitlines() if l]
    ctx.log("h14run: %s" % json.dumps({k: v for k, v in res["summary"].items()
                                       if isinstance(v, (int, float)) and k != "seconds"}))
    _cache[key] = res
    return res


def failures_of(res, leg):
    return [f for f in res.get("failures", []) if f.get("leg") == leg]
