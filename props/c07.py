"""C07 - compile-time evaluation agrees with run-time evaluation.
Proof: Props/C07.v over C07/ConstEval.v (model of constant.rs), C07/Fold.v (model of const_folding.rs)
and C07/Rt.v (run-time meaning).  Tie + impl-level oracle: harness/h07."""
import json
import os

import vlib

TRUSTED = [
    "Coq 8.16.1 kernel + vm_compute (no native_compute)",
    "axioms: none (Print Assumptions: Closed under the global context for every C07 theorem)",
    "hand models C07/ConstEval.v (constant.rs evaluate_function_call / evaluate_const_function_call / "
    "validate_literal), C07/Fold.v (const_folding.rs handle_statement_call / handle_extern_block_end) and "
    "the run-time specification C07/Rt.v, tied to /repo by the correspondence run only",
    "harness/h07 (case generator, program text, decoding of run results, Coq printer, impl-level oracle), "
    "cairo-lang-runner + cairo-vm as the notion of 'run time', lib/vlib.py",
]
THEOREMS = ["C07_const_eval", "C07_error_iff_panic", "C07_const_bool", "C07_const_cast", "C07_fold_call",
            "C07_fold_call_int", "C07_fold_call_div_partial", "C07_fold_match", "C07_identity_rewrites",
            "C07_partial_fold_incdec"]


def run(ctx):
    ok_build, _ = vlib.cargo_build(ctx, "h07")
    ok_make, _ = vlib.coq_make(ctx, "C07")
    cone = vlib.cone_files("C07")
    pr = vlib.check_properties_file(ctx, os.path.join(vlib.COQ, "Props/C07.v"), cone) if ok_make else None

    corr_bad, oracle_bad, summary = [], [], {}
    cases = os.path.join(ctx.out, "cases")
    if ok_build:
        vlib.clean_dir(cases)
        rc, out = vlib.run([vlib.harness_bin("h07"), cases, ctx.tier], timeout=3000)
        ctx.log(out.strip().splitlines()[-1] if out.strip() else "h07: no output")
        if rc != 0 or not os.path.exists(os.path.join(cases, "summary.json")):
            ctx.violation("harness h07 failed to run (a generated program does not compile, or the "
                          "compiler/runner crashed)", {"output": out[-4000:]}, found_input=False)
        if os.path.exists(os.path.join(cases, "summary.json")):
            summary = json.load(open(os.path.join(cases, "summary.json")))
            oracle_bad = json.load(open(os.path.join(cases, "oracle_failures.json")))
            if ok_make:
                for shard, ok, o in vlib.run_case_shards(ctx, cases):
                    if not ok:
                        corr_bad.append((shard, o[:3000]))
    else:
        ctx.violation("harness does not build against /repo's working tree",
                      {"theorem_or_correspondence": "correspondence C07 (h07 build)"}, found_input=False)

    # --- decide ---
    # impl-level oracle: each failure is a concrete (program, operands) on which the compile-time
    # answer and the run-time answer differ.  One violation per fingerprint (class of inputs).
    by_fp = {}
    for f in oracle_bad:
        by_fp.setdefault(f["fingerprint"], []).append(f)
    n_unknown = 0
    for fp, fs in sorted(by_fp.items()):
        before = len(ctx.violations)
        ctx.violation("compile-time evaluation disagrees with run-time evaluation: " + fs[0]["why"],
                      dict(fs[0], other_inputs_of_the_class=[x["case"] for x in fs[1:8]],
                           replay_cmd="./check C07 --tier quick"),
                      found_input=True, fingerprint=fp)
        n_unknown += len(ctx.violations) - before
    if corr_bad and not n_unknown:
        kinds = sorted({os.path.basename(s).split("_")[0] for s, _ in corr_bad})
        ctx.violation(
            "model and implementation disagree (%s legs); the C07 theorems no longer transfer to the code "
            "and the impl-level oracle found no input violating the property" % ",".join(kinds),
            {"correspondence": "C07/Corr.v check_" + "/".join(kinds),
             "shards": [{"file": s, "coq_output": o} for s, o in corr_bad[:4]],
             "replay_cmd": "./check C07 --tier quick"},
            found_input=False)
    if not ok_make or (pr and not pr["ok"]):
        ctx.violation("Coq development for C07 does not check",
                      {"theorem_or_correspondence": "Props/C07.v (%s)" % ", ".join(THEOREMS),
                       "detail": (pr or {}).get("log", "")[-2000:],
                       "hygiene": (pr or {}).get("hygiene"), "unknown_axioms": (pr or {}).get("unknown_axioms")},
                      found_input=False)

    samples = []
    sp = os.path.join(cases, "samples.txt")
    if os.path.exists(sp):
        samples = open(sp).read().splitlines()[:12]
    ctx.cov.update({
        "obligations": pr["obligations"] if pr else 0,
        "discharged": pr["discharged"] if pr else 0,
        "property_theorems": THEOREMS,
        "print_assumptions": (pr or {}).get("axioms", []),
        "operator_set": OPERATOR_SET,
        "evaluations": summary.get("const_items", 0) + summary.get("runs", 0),
        "distinct_nontrivial": summary.get("distinct_nontrivial", 0),
        "rule": "a case = (leg, operator/libfunc, type(s), operand tuple); operands from the per-type boundary set "
                "{0,1,2,3,-1,-2,MIN,MIN+1,MAX-1,MAX,2^k,2^k+-1 (k = 7,8,bits/2,bits-2,bits-1,63,64,127,128), "
                "felt252: +-(P-1), around +-P/2} x seeded random (random bit length, random sign), plus the fixed "
                "corner pairs (MIN,-1), (MAX,1), (+-7,+-3), top-up of result classes below 2 % per (operator,type). "
                "distinct_nontrivial = distinct case tuples with at least one operand outside {0,1}, counted by the "
                "harness; each case is evaluated as 2 const items (direct, through a const fn) and up to 5 runs "
                "(operands passed at run time / literal in the body, each with const folding on / off; and, when "
                "the const evaluated, a function returning the const item = materialisation of the value); the lf "
                "leg has no const item and runs literal/run-time operand mixes with folding on / off; the part leg "
                "runs f_lit(x) and f_args(x, LIT) with folding on / off.",
        "input_distribution": summary.get("distribution", {}),
        "cases": summary.get("cases_evaluated", 0),
        "const_items_evaluated_by_impl": summary.get("const_items", 0),
        "runs_by_impl": summary.get("runs", 0),
        "functions_with_literal_operands": summary.get("functions_with_literal_operands", 0),
        "of_which_smaller_with_const_folding": summary.get("of_which_smaller_with_const_folding", 0),
        "correspondence_disagreements": len(corr_bad),
        "oracle_failures": summary.get("oracle_failures", len(oracle_bad)),
        "oracle_failure_classes": sorted(by_fp),
        "samples": samples or ["(no samples: harness did not run)"],
    })
    return ctx.finish(
        "proof",
        "Theorems (Coq, unbounded in the operands; ranges are hypotheses): the model of the compile-time "
        "evaluator returns exactly the image of the run-time meaning for every listed operator on every numeric "
        "type, compile-time error <=> run-time panic (C07_const_eval, C07_error_iff_panic; the finding iN::MIN % -1 "
        "of this check is repaired in /repo and kept as regression example C07_min_rem_minus_one). Exploration (not proof): the models are compared with the implementation on "
        "the same inputs inside Coq, and an impl-level oracle compares const values/diagnostics read from the "
        "semantic db with runs of the non-const twins (with and without const folding).",
        TRUSTED,
        "make -C coq/C07 && coqc coq/Props/C07.v (Print Assumptions); harness/h07 -> coqc out/C07/cases/*.v",
    )


OPERATOR_SET = {
    "const_eval (constant.rs evaluate_function_call) vs Rt, theorem C07_const_eval":
        "neg add sub mul div rem bitand bitor bitxor eq ne lt le gt ge div_rem on u8 u16 u32 u64 u128 u256 i8 i16 "
        "i32 i64 i128 felt252 (where the corelib implements the operator); bool not and or xor eq ne && || "
        "(C07_const_bool, complete enumeration)",
    "const_cast (constant.rs evaluate_const_function_call) vs Rt, theorem C07_const_cast":
        "Into: upcast (30 Upcastable pairs), uN/iN_to_felt252, uN->u256, felt252->u256 (u128s_from_felt252); "
        "TryInto: downcast between the 10 integer types, uN/iN_try_from_felt252 (felt252_for_downcast), "
        "u128_try_from_felt252; TryInto<T,NonZero<T>> (T_is_zero incl. u256); generic bounded_int::downcast",
    "fold (const_folding.rs handle_statement_call / handle_extern_block_end) vs Rt, theorems C07_fold_call*, "
    "C07_fold_match, C07_identity_rewrites":
        "felt252 add sub mul (const/const and the 0/1 shortcuts), felt252 div (shortcuts; const/const under the "
        "inverse hypothesis), wide_mul / bounded_int_mul, bounded_int_add/sub, div_rem (uN_safe_divmod, "
        "bounded_int_div_rem), upcast; is_zero, uN/iN eq (+ rewrite to is_zero), uN_overflowing_add/sub, "
        "iN_overflowing_add/sub_impl, iN_diff (TypeRange::normalized, arm selection, x+0/0+x/x-0), downcast "
        "(known value incl. felt252, range subsumption), bounded_int_constrain, bounded_int_trim_min/max",
    "partial-constant rewrites (one literal operand, one run-time operand), leg `part`":
        "every rule of const_folding.rs that looks at one known operand: felt252 x-0, 0+x, x+0, x*0, 0*x, x*1, 1*x, "
        "x/1, 0/x; wide_mul by 0; div_rem of 0; uN/iN overflowing add/sub with x+-0, 0+x and x+-1 -> "
        "core::internal::num::T_inc/T_dec (theorems C07_fold_match incl. MIncDec, C07_partial_fold_incdec); "
        "eq against 0 -> is_zero; downcast range subsumption; plus whatever try_specialize_call specialises. "
        "Explored for add sub mul div rem and or xor eq ne lt le gt ge and wrapping_/overflowing_/checked_/"
        "saturating_ add sub mul on all 12 types x literal {0,1,2,-1,MIN,MIN+1,MAX-1,MAX} on either side x "
        "run-time x in {MIN,MIN+1,-1,0,1,MAX-1,MAX} + seeded: f_lit(x)=op(x,LIT) vs f_args(x,y)=op(x,y) with "
        "y=LIT at run time, const folding on/off, all four equal and equal to Rt (Corr.check_part). The "
        "wrapping/overflowing/checked/saturating run-time spec (Rt.rt_variant) is exploration-tied only.",
    "structural part of the evaluator (evaluate / destructure_pattern), leg `aggr`, oracle + expected tuple, "
    "no Coq model":
        "every Expr arm (Var, Constant incl. other consts' members, Block with let/let-else/shadowing, "
        "FunctionCall incl. generic const fn, Literal, Tuple, StructCtor with fields in all 6 orders and ..base, "
        "EnumVariantCtor, MemberAccess chains and tuple index, FixedSizeArray items and [v; n], Snapshot, Desnap, "
        "LogicalOperator, Match incl. nested variants / or-patterns / _, If incl. if-let) and every Pattern arm "
        "(Otherwise, Literal, Variable, Struct in all 6 field permutations plain / renamed / with .. / nested, "
        "Tuple, FixedSizeArray, EnumVariant with and without inner pattern), on felt252 u8 i16 u64 u128 u256 "
        "i128; both directions (overflow inside an aggregate and a failing let-else must be diagnosed <=> the twin "
        "panics). Explicit list of constructs accepted as not const-evaluable (a diagnostic on the const item or "
        "on the const fn declaration is the expected answer, a correct value is accepted too): assignment to a "
        "`let mut`, `loop`, `while`, a block without tail expression (unit `if` body).",
    "libfunc-specific folding rules with a numeric bound (ConstFoldingLibfuncInfo table), leg `lfn`, oracle + "
    "expected value, no Coq model":
        "storage_base_address_from_felt252 (+ from_base_and_offset) around ADDR_BOUND = 2^251-256; contract_address / "
        "class_hash try_from_felt252 + to_felt252 around 2^251 (also as const items / const fn); array_new/append/"
        "len/get/at/pop_front with known contents (index vs known length, u32::MAX); panic_with_felt252 of a "
        "constant; panic_with_byte_array for lengths 0,1,30,31,32,61,62,63; into_box/unbox of a constant. Operands "
        "{b-1,b,b+1,2b,2b+-1, the same written as negative literals (b-P), 0,1,2,-1,P-1,1-P} for b in {ADDR_BOUND, "
        "2^251, 2^128} + seeded. A generated program that does not compile or crashes the compiler is bisected to "
        "the offending case and reported as a failing input.",
    "explored by the impl-level oracle only (no Coq model)":
        "u256 -> uN / felt252 TryInto, compound const expressions (tuples, structs, enums, if, match, &&, ||, "
        "let-destructuring) through the evaluator's interpreter, const fn calls",
}
