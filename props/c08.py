"""C08 - error-free programs always compile; ownership violations are always rejected.
Proof (second half): Props/C08.v - the model of the borrow checker (C08/Borrow.v) is sound for the
declarative ownership semantics C08/Spec.v: no diagnostic => on no path a non-copyable value is used
after it was moved, and no never-used value goes out of scope that can be neither dropped nor
destructed.  Tie: translator (the Lowered every function's borrow check receives, printed from the db
on every run) + comparison of the model's diagnostics with the real ones (C08/Corr.v).
The extra borrow_check_possible_withdraw_gas (parameters of functions on a Cost cycle) is modelled
and compared as well.
Exploration, impl-level oracle in harness/h08 (decides the property on the code):
 (i)   every crate without error diagnostics goes through Sierra generation, ProgramRegistry,
       metadata and CASM under four configurations without error or panic (incl. crates with
       hand-written Destruct / PanicDestruct impls that drop several members implicitly);
 (ii)  every crate with an injected violation (use after move incl. re-binding of a match / if-let /
       let-else scrutinee; missing drop over {no capability, PanicDestruct only} x {return, panic,
       panicable call}; out-of-gas drops in loops / recursion when gas is on) has an error;
       also a family over hand-written Copy / Drop / Destruct / PanicDestruct impls (simpl.rs: generic
       or specialised, correct / missing / wrong bounds, wrappers of T, tuples, Array, Box, Span,
       snapshots, Nullable, nested generics, at capable and incapable arguments): a use that needs a
       capability the instantiated type truly lacks must be diagnosed, at the impl or at the use;
       every violation shape is also placed in every kind of function body the compiler lowers
       (place.rs: free / impl / trait-default fns called, never called or without impl, generic fns
       and generic impl / trait-default fns, nested inline modules, closure, loop / while / for bodies,
       inline attributes, #[generate_trait] impls, traits with associated items), each container with
       a benign control that must be accepted and compile; and every function-level borrow-check
       error (functions enumerated by the translator) must reach the crate's diagnostics;
 (iii) path oracle (spec.rs): no function of a crate without error diagnostics has a path with a
       double move or an undroppable unused value (forward value semantics, from the property text)."""
import json
import os

import vlib

TRUSTED = [
    "Coq 8.16.1 kernel + vm_compute (no native_compute)",
    "hand model C08/Borrow.v of borrow_check/{mod,demand}.rs + analysis/backward.rs (OrderedHashMap order "
    "abstracted), tied to the code by the per-run comparison of diagnostics on the translated Lowered of every "
    "function; declarative semantics C08/Spec.v (what a use after move / an undroppable drop is)",
    "harness/h08 (translator of Lowered into Coq terms, program generator and mutations, compile oracle, path "
    "oracle spec.rs - a Rust transcription of C08/Spec.v run on the real Lowered), "
    "lib/vlib.py",
]
THEOREMS = ["C08_borrow_sound", "C08_moved_detected", "C08_example_moved_detected_applies", "C08_example_use_after_move", "C08_example_not_dropped", "C08_example_diamond"]


def run(ctx):
    ok_build, _ = vlib.cargo_build(ctx, "h08")
    ok_make, _ = vlib.coq_make(ctx, "C08")
    cone = vlib.cone_files("C08")
    pr = vlib.check_properties_file(ctx, os.path.join(vlib.COQ, "Props/C08.v"), cone) if ok_make else None

    corr_bad, oracle_bad, summary = [], [], {}
    cases = os.path.join(ctx.out, "cases")
    if ok_build:
        vlib.clean_dir(cases)
        rc, out = vlib.run([vlib.harness_bin("h08"), cases, ctx.tier], timeout=5400)
        ctx.log(out.strip().splitlines()[-1] if out.strip() else "h08: no output")
        if rc != 0:
            ctx.violation("harness h08 failed to run", {"output": out[-3000:]}, found_input=False)
        else:
            summary = json.load(open(os.path.join(cases, "summary.json")))
            oracle_bad = json.load(open(os.path.join(cases, "oracle_failures.json")))
            if ok_make:
                for shard, ok, o in vlib.run_case_shards(ctx, cases, pattern="bc_*.v"):
                    if not ok:
                        corr_bad.append((shard, o[:3000]))
    else:
        ctx.violation("harness does not build against /repo's working tree",
                      {"theorem_or_correspondence": "translator + correspondence C08 (h08 build)"}, found_input=False)

    # --- decide ---
    # the impl-level oracle decides the property on the code; at most 3 replays per kind
    per_kind = {}
    for f in oracle_bad:
        per_kind.setdefault((f["kind"], f.get("fingerprint", "")), []).append(f)
    for (kind, fp), fs in per_kind.items():
        if kind == "translator_out_of_date":
            # not a failing input of the property: the translator no longer matches the IR
            ctx.violation("translator of the Lowered IR is out of date: " + fs[0]["why"],
                          {"theorem_or_correspondence": "translator harness/h08/src/trans.rs vs objects.rs",
                           "example": fs[0]}, found_input=False)
            continue
        for f in fs[:1 if fp else 3]:
            what = {
                "error_free_program_does_not_compile": "a program without error diagnostics does not compile: ",
                "ownership_violation_accepted": "a program with an injected use-after-move / missing drop has no error diagnostic: ",
                "panic_while_computing_diagnostics": "the compiler panics while computing diagnostics: ",
                "panic_in_borrow_check": "borrow_check panics: ",
            }.get(kind, kind + ": ") + f["why"][:300] + " [config " + str(f.get("config")) + "]"
            ctx.violation(what, dict(f, replay_cmd="./check C08 --tier %s" % ctx.tier), found_input=True,
                          fingerprint=fp or None)
    if corr_bad and not [f for f in oracle_bad if not f.get("fingerprint") and f["kind"] != "translator_out_of_date"]:
        ctx.violation(
            "model of the borrow checker and the real borrow_check disagree on a translated function; "
            "C08_borrow_sound no longer transfers to the code",
            {"correspondence": "C08/Corr.v check_cases",
             "shards": [{"file": s, "coq_output": o} for s, o in corr_bad[:4]],
             "replay_cmd": "./check C08 --tier %s" % ctx.tier},
            found_input=False)
    if not ok_make or (pr and not pr["ok"]):
        ctx.violation("Coq development for C08 does not check",
                      {"theorem_or_correspondence": "Props/C08.v (" + ", ".join(THEOREMS) + ")",
                       "detail": (pr or {}).get("log", "")[-2000:],
                       "hygiene": (pr or {}).get("hygiene"), "unknown_axioms": (pr or {}).get("unknown_axioms")},
                      found_input=False)

    samples = []
    sp = os.path.join(cases, "samples.txt")
    if os.path.exists(sp):
        samples = [l[:1500] for l in open(sp).read().splitlines()[:6]]
    cfgs = summary.get("configs", [])
    ctx.cov.update({
        "obligations": pr["obligations"] if pr else 0,
        "discharged": pr["discharged"] if pr else 0,
        "property_theorems": THEOREMS,
        "print_assumptions": (pr or {}).get("axioms", []),
        "evaluations": summary.get("function_cases_after_dedup", 0)
        + sum(c.get("units_without_errors_compiled", 0) for c in cfgs) + 4 * summary.get("injected_units", 0),
        "distinct_nontrivial": summary.get("functions_nontrivial_distinct", 0),
        "rule": "evaluations = distinct translated functions compared in Coq + (crate, configuration) pairs compiled "
                "end to end + (injected crate, configuration) pairs checked for an error. distinct_nontrivial = "
                "translated functions with distinct Lowered (structural hash of the printed term) that have at least "
                "one non-copyable variable and at least one match or panicable call, counted by the harness.",
        "input_distribution": summary,
        "correspondence_disagreements": len(corr_bad),
        "oracle_failures": len(oracle_bad),
        "samples": samples or ["(no samples: harness did not run)"],
    })
    return ctx.finish(
        "proof",
        "Theorem (Coq, all lowered functions, all paths): if the modelled borrow checker reports nothing (and remapped "
        "variables have equal capabilities, checked on every translated function) then on no path a non-copyable "
        "value is used after a move and no unused value that is neither droppable nor destructible (panic-"
        "destructible on panicking paths) goes out of scope. Partial: this covers the second sentence of the "
        "property, over the model; the model is tied to the code by translating the Lowered of every function of "
        "every input crate and comparing diagnostics. First sentence (no ICE; Sierra, registry, metadata, CASM "
        "succeed under four configurations) and 'injected violations are rejected' on the real compiler: "
        "exploration by the impl-level oracle.",
        TRUSTED,
        "make -C coq/C08 && coqc Props/C08.v (Print Assumptions) ; harness/h08 -> coqc out/C08/cases/bc_*.v",
    )
