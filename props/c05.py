"""C05 - observable behaviour is invariant under optimisation and lowering configuration.
The property itself is checked on the real pipeline (harness/h01, mode c05): generated programs,
/repo/examples, the #[test]s of /repo/tests/bug_samples (thorough: the core library's tests too) are
compiled and run under a matrix of configurations (Optimizations Disabled/Enabled x InliningStrategy x
skip_const_folding x numeric-match threshold flag x {linear, non-linear} metadata solver); values and panic
data must be identical.  Kernel (Coq): coq/C05 models ONE lowering pass (branch_inversion) with a small
semantics of the lowered IR fragment and proves it semantics-preserving; the model of the pass is tied to
the code by comparing its output with the real pass on real lowerings (case shards)."""
import json
import os

import vlib

TRUSTED = [
    "Coq 8.16.1 kernel + vm_compute (no native_compute)",
    "axioms: none expected (Print Assumptions output is checked against the allow-list on every run)",
    "coq/C05: hand model of optimizations/branch_inversion.rs and of the lowered-IR fragment it touches, with a "
    "small semantics written for this purpose (not the compiler's); tied to the code by the pass-output comparison only",
    "harness/h01 (configuration matrix, discovery of runnable functions, comparison, printer of lowerings), "
    "cairo-lang-runner + cairo-vm as the notion of 'running'",
    "lib/vlib.py",
]


def theorem_names():
    import re
    p = os.path.join(vlib.COQ, "Props/C05.v")
    if not os.path.exists(p):
        return []
    src = vlib.strip_coq_comments(open(p).read())
    return re.findall(r"^\s*Theorem\s+([A-Za-z0-9_']+)", src, re.M)


def run(ctx):
    ok_build, _ = vlib.cargo_build(ctx, "h01")
    have_kernel = os.path.exists(os.path.join(vlib.COQ, "Props/C05.v")) and os.path.isdir(os.path.join(vlib.COQ, "C05"))
    ok_make, pr = True, None
    if have_kernel:
        ok_make, _ = vlib.coq_make(ctx, "C05")
        cone = vlib.cone_files("C05")
        pr = vlib.check_properties_file(ctx, os.path.join(vlib.COQ, "Props/C05.v"), cone) if ok_make else None

    summary, failures, corr_bad = {}, [], []
    cases = os.path.join(ctx.out, "cases")
    if ok_build:
        vlib.clean_dir(cases)
        d = os.path.join(cases, "src")
        if os.path.isdir(d):
            vlib.clean_dir(d)
        # one process per group of legs: the compiler's databases of a leg are returned to the OS when
        # its process exits (the core-library leg alone needs > 10 GB)
        groups = ["gen,pass", "examples", "bug_samples"] + (["corelib"] if ctx.thorough else [])
        summary = {"legs": {}, "items": 0, "comparisons": 0, "samples": [], "reference_checked": 0,
                   "reference_disagreements": 0}
        ran_all = True
        for g in groups:
            env = vlib.env_offline()
            env["H01_C05_LEGS"] = g
            rc, out = vlib.run([vlib.harness_bin("h01"), cases, ctx.tier, "c05"], timeout=5000, env=env)
            ctx.log(out.strip().splitlines()[-1] if out.strip() else "h01 (%s): no output" % g)
            sfx = "_" + g.replace(",", "_")
            sp = os.path.join(cases, "c05_summary%s.json" % sfx)
            if rc != 0 or not os.path.exists(sp):
                ctx.violation("harness h01 (c05, legs %s) failed to run" % g, {"output": out[-4000:], "rc": rc},
                              found_input=False)
                ran_all = False
                continue
            part = json.load(open(sp))
            failures += json.load(open(os.path.join(cases, "c05_failures%s.json" % sfx)))
            summary["legs"].update(part.get("legs", {}))
            summary["configurations"] = part.get("configurations")
            for k in ("items", "comparisons", "reference_checked", "reference_disagreements"):
                summary[k] += part.get(k, 0)
            summary["samples"] += part.get("samples", [])
            if part.get("pass_cases"):
                summary["pass_cases"] = part["pass_cases"]
            if part.get("gen_programs") and "gen" in g:
                summary["gen_programs"] = part["gen_programs"]
                summary["gen_constructs"] = part.get("gen_constructs")
                summary["gen_random_programs"] = part.get("gen_random_programs")
                summary["gen_shape_programs"] = part.get("gen_shape_programs")
        if ran_all or summary["comparisons"]:
            if have_kernel and ok_make:
                for shard, ok, o in vlib.run_case_shards(ctx, cases, pattern="c05_pass_*.v"):
                    if not ok:
                        corr_bad.append((shard, o[:3000]))
    else:
        ctx.violation("harness does not build against /repo's working tree",
                      {"theorem_or_correspondence": "C05 matrix (h01 build)"}, found_input=False)

    # --- decide ---
    # a difference between two configurations on a concrete (program, input) IS the violation
    seen = set()
    for f in failures:
        key = (f.get("leg"), f.get("why"), f.get("config_b"))
        if key in seen or len(seen) >= 6:
            continue
        seen.add(key)
        concrete = "item" in f
        ctx.violation("C05: " + f["why"], dict(f, replay_cmd="./check C05 --tier " + ctx.tier),
                      found_input=concrete, fingerprint=f.get("error", "") + " " + f.get("item", ""))
    if corr_bad:
        ctx.violation(
            "the Coq model of branch_inversion and the real pass disagree on a real lowering: "
            "C05_pass_preserves no longer transfers to the code",
            {"correspondence": "C05/Corr.v check_pass",
             "shards": [{"file": s, "coq_output": o} for s, o in corr_bad[:4]],
             "replay_cmd": "./check C05 --tier " + ctx.tier},
            found_input=False)
    if have_kernel and (not ok_make or (pr and not pr["ok"])):
        ctx.violation("Coq development for C05 does not check",
                      {"theorem_or_correspondence": "Props/C05.v", "detail": (pr or {}).get("log", "")[-2000:],
                       "hygiene": (pr or {}).get("hygiene"), "unknown_axioms": (pr or {}).get("unknown_axioms")},
                      found_input=False)
    if ok_build and summary and summary.get("comparisons", 0) == 0:
        ctx.violation("the configuration matrix compared nothing", {"summary": summary.get("legs")}, found_input=False)

    legs = summary.get("legs", {})
    ctx.cov.update({
        "obligations": pr["obligations"] if pr else 0,
        "discharged": pr["discharged"] if pr else 0,
        "property_theorems": theorem_names(),
        "print_assumptions": (pr or {}).get("axioms", []),
        "evaluations": summary.get("comparisons", 0) + summary.get("reference_checked", 0),
        "programs": summary.get("gen_programs", 0),
        "distinct_nontrivial": summary.get("items", 0),
        "rule": "an item = (function or #[test], argument vector) of one of the legs (generated programs: the enumerated "
                "pass-shape family of harness/h01/src/shapes.rs - trigger patterns and near misses of every optimisation "
                "pass, run-time and literal operands - plus typed random programs of the C01 "
                "generator; every function of /repo/examples with felt-sized scalar parameters and a pointer-free "
                "result on 7 small argument vectors; every non-ignored #[test] of /repo/tests/bug_samples with a "
                "pointer-free result and not observing gas; thorough: the core library's tests).  Each item is run "
                "under every configuration of the matrix and compared with the first configuration of its gas class "
                "(gas on / off); generated items are also compared with the reference semantics under every "
                "configuration.  distinct_nontrivial = number of distinct items that ran (keyed by name + arguments); "
                "evaluations = pairwise comparisons + comparisons with the reference.",
        "input_distribution": {
            "configurations": summary.get("configurations"),
            "legs": {k: {kk: v.get(kk) for kk in ("items", "comparisons", "inconclusive_step_limit_or_solver",
                                                   "nonlinear_solver_not_applicable", "configs", "run_errors")}
                     for k, v in legs.items()},
            "gen_constructs": summary.get("gen_constructs"),
            "gen_random_programs": summary.get("gen_random_programs"),
            "gen_shape_programs": summary.get("gen_shape_programs"),
            "pass_cases": summary.get("pass_cases"),
        },
        "traces_validated_against_impl": summary.get("pass_cases", {}).get("functions_where_pass_fires", 0)
        if isinstance(summary.get("pass_cases"), dict) else 0,
        "configuration_differences": len(failures),
        "pass_model_disagreements": len(corr_bad),
        "samples": summary.get("samples") or ["(no samples: harness did not run)"],
    })
    return ctx.finish(
        "other",
        "The property is explored on the real pipeline: every item is compiled and executed under each configuration "
        "of the matrix and the results (values, panic data; not gas/steps) must be identical; generated programs "
        "must in addition equal the reference semantics (which has no configuration parameter) under every "
        "configuration.  Kernel proved in Coq: " + (
            "the modelled branch_inversion pass preserves the semantics of the modelled lowered-IR fragment "
            "(C05_pass_preserves), and the modelled pass reproduces the real pass's output on the real lowerings "
            "printed in this run." if have_kernel else
            "none yet - the only formal fact is that the reference semantics of C01 takes no configuration.") +
        "  NOT proved: that any other pass, inlining, const folding, match lowering or the gas solvers preserve "
        "behaviour - that is what the matrix explores.",
        TRUSTED,
        "harness/h01 <out> <tier> c05 (matrix) ; make -C coq/C05 && coqc Props/C05.v ; coqc out/C05/cases/c05_pass_*.v",
    )
