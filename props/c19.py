"""C19 - a compiled Starknet class is consistent and reproducible from its Sierra.
Proof: Props/C19.v over the model C19/Class.v (segment lengths, selector order, builtin protocol
order, entry offsets, hint offsets, size limit, canonical words).
Tie: harness/h19 runs CasmContractClass::from_contract_class on every test-data class and on
generated variations; (a) impl-level oracle on every result, (b) model vs implementation in Coq."""
import json
import os

import vlib

TRUSTED = [
    "Coq 8.16.1 kernel + vm_compute (no native_compute)",
    "axioms: none (Print Assumptions: Closed under the global context for every C19 theorem)",
    "hand model C19/Class.v of contract_segmentation.rs, the checks/canonicalisation/entry point tables of "
    "casm_contract_class.rs::from_contract_class_with_debug_info, and the offset accumulation of "
    "sierra-to-casm compile/ConstsInfo::new/assemble_ex; tied to /repo by the correspondence run only",
    "not modelled (inputs of the model, supplied by the harness from the real run): instruction sizes and "
    "hint flags of each compiled statement, TypeResolver's is_felt252_span / "
    "is_valid_entry_point_return_type (re-implemented in the harness), ProgramRegistry, gas/ap metadata",
    "harness/h19 (case generator, Coq term printer, impl-level oracle, repeated compile), lib/vlib.py",
]

THEOREMS = [
    "C19_segments_sum", "C19_segments_sum_layout", "C19_selectors_sorted", "C19_builtins_protocol_order",
    "C19_builtins_protocol_order_complete", "C19_entry_offset", "C19_entry_offset_first_instruction",
    "C19_class_accepted", "C19_hint_offsets", "C19_bytecode_limit", "C19_words_canonical",
    "C19_words_canonical_value", "C19_words_canonical_regression", "C19_example",
]

LEGS = {1: "seg (compute_bytecode_segment_lengths)", 2: "lay (statement/const/hint offsets, size limit)",
        3: "canon (bytecode canonicalisation)", 4: "ep (entry point checks and tables)",
        5: "const (ENTRY_POINT_BUILTIN_ORDER, constructor selector)", 6: "ver (segmentation version gate)"}


def run(ctx):
    ok_build, _ = vlib.cargo_build(ctx, "h19")
    ok_make, _ = vlib.coq_make(ctx, "C19")
    cone = vlib.cone_files("C19")
    pr = vlib.check_properties_file(ctx, os.path.join(vlib.COQ, "Props/C19.v"), cone) if ok_make else None

    corr_bad, oracle_bad, summary = [], [], {}
    cases = os.path.join(ctx.out, "cases")
    n_shards = 0
    if ok_build:
        vlib.clean_dir(cases)
        rc, out = vlib.run([vlib.harness_bin("h19"), cases, ctx.tier], timeout=3000)
        last = [x for x in out.strip().splitlines() if x.startswith("{")]
        ctx.log((last[-1][:300] + " ...") if last else "h19: no summary line")
        if rc != 0 or not os.path.exists(os.path.join(cases, "summary.json")):
            ctx.violation("harness h19 failed to run", {"output": out[-2000:]}, found_input=False)
        else:
            summary = json.load(open(os.path.join(cases, "summary.json")))
            oracle_bad = json.load(open(os.path.join(cases, "oracle_failures.json")))
            if ok_make:
                res = vlib.run_case_shards(ctx, cases, timeout=2400)
                n_shards = len(res)
                for shard, ok, o in res:
                    if not ok:
                        corr_bad.append((shard, o[-3000:]))
    else:
        ctx.violation("harness does not build against /repo's working tree",
                      {"theorem_or_correspondence": "correspondence C19 (h19 build)"}, found_input=False)

    # --- decide ---
    # (a) the impl-level oracle: a concrete contract class / program on which the produced class
    #     breaks an invariant of the property statement
    seen = set()
    for f in oracle_bad:
        key = (f["fingerprint"], f["class"])
        if key in seen or len(seen) >= 8:
            continue
        seen.add(key)
        ctx.violation("compiled class violates C19: %s [%s, %s]" % (f["why"], f["class"], f["variation"]),
                      dict(f, replay_cmd="./check C19 --tier %s" % ctx.tier), found_input=True,
                      fingerprint=f["fingerprint"])
    # (b) model and implementation disagree, oracle silent: the theorems no longer transfer
    if corr_bad and not oracle_bad:
        legs = set()
        for _, o in corr_bad:
            import re
            m = re.search(r"bad\s*=\s*\[(.*?)\]\s*:", o, re.S)
            if m:
                legs |= {int(x) for x in re.findall(r"\((\d+),", m.group(1))}
        ctx.violation(
            "model and implementation disagree (%s); the C19 theorems no longer transfer to the code"
            % (", ".join(LEGS.get(x, str(x)) for x in sorted(legs)) or "shard did not evaluate"),
            {"correspondence": "C19/Corr.v", "legs": sorted(legs),
             "shards": [{"file": s, "coq_output": o} for s, o in corr_bad[:4]],
             "replay_cmd": "./check C19 --tier %s" % ctx.tier},
            found_input=False)
    elif corr_bad:
        ctx.log("correspondence also disagrees on %d shards (oracle failures reported)" % len(corr_bad))
    if not ok_make or (pr and not pr["ok"]):
        ctx.violation("Coq development for C19 does not check",
                      {"theorem_or_correspondence": "Props/C19.v (%s)" % ", ".join(THEOREMS),
                       "detail": (pr or {}).get("log", "")[-2000:],
                       "hygiene": (pr or {}).get("hygiene"), "unknown_axioms": (pr or {}).get("unknown_axioms")},
                      found_input=False)

    samples = []
    sp = os.path.join(cases, "samples.txt")
    if os.path.exists(sp):
        lines = open(sp).read().splitlines()
        for pref, n in (("ep ", 2), ("canon ", 4), ("seg ", 3)):
            samples += [x[:500] for x in lines if x.startswith(pref)][:n]
        samples += [x[:500] for x in lines if x.startswith("ep ") and " base:" not in x][:3]
    n_cases = sum(summary.get(k, 0) for k in ("seg_cases", "lay_cases", "canon_cases", "ep_cases", "ver_cases"))
    ctx.cov.update({
        "obligations": pr["obligations"] if pr else 0,
        "discharged": pr["discharged"] if pr else 0,
        "property_theorems": THEOREMS,
        "print_assumptions": (pr or {}).get("axioms", []),
        "closed_assumption_blocks": (pr or {}).get("closed_blocks", 0),
        "evaluations": n_cases + summary.get("impl_runs", 0),
        "distinct_nontrivial": summary.get("distinct_cases", 0),
        "rule": "inputs: every *.contract_class.json under crates/cairo-lang-starknet/test_data (loaded with "
                "ContractClass's serde, extract_sierra_program); contracts GENERATED as Cairo source (>= 3 externals, "
                ">= 3 l1 handlers, constructor present/absent, declaration order != selector order, stand-alone / "
                "per_item / embed_v0 / embeddable / component entry points, bodies needing pedersen, poseidon, bitwise, "
                "ec_op, segment arena, circuit builtins; several contracts per crate) and compiled by "
                "cairo_lang_starknet::compile in this run (twice: same class and hashes), checked against their ABI, "
                "Sierra wrapper names and source, then required to be ACCEPTED by from_contract_class; in the thorough "
                "tier also every contract of cairo_level_tests compiled from source; all x variations {no pythonic hints; swapped/"
                "reversed/duplicated/aliased/subset/moved entry points; constructor variants; function index out "
                "of range or random; 14 kinds of mutated entry function signatures; 6 Sierra versions; bytecode "
                "size limits around the exact length}; hand-built programs with felt252_const<v> for boundary v; "
                "random programs/offsets for compute_bytecode_segment_lengths through the verif_exports hook "
                "(incl. inputs on which it errs or panics). evaluations = Coq cases + runs of "
                "from_contract_class. distinct_nontrivial = number of distinct Coq case texts (hash set in the "
                "harness, per class); every case carries an implementation answer (a class, an error kind or a "
                "panic), none is empty.",
        "input_distribution": summary,
        "programs": summary.get("classes", 0),
        "traces_validated_against_impl": summary.get("oracle_checked_results", 0),
        "case_shards": n_shards,
        "correspondence_disagreements": len(corr_bad),
        "oracle_failures": len(oracle_bad),
        "samples": samples or ["(no samples: harness did not run)"],
    })
    return ctx.finish(
        "proof",
        "Theorems (Coq, all inputs): segment lengths positive and summing to the bytecode length under the "
        "monotone-offsets precondition, which the modelled offset accumulation provides (no panic); selector "
        "check = strictly increasing; accepted entry point = builtins a duplicate-free subsequence of the "
        "protocol order followed by gas, system, span, names in that order (check exact); entry offset = start "
        "of the first instruction of the function's entry statement; hint offsets = instruction starts, "
        "strictly increasing; size limit exact; every bytecode word is the canonical representative in [0,P) "
        "of the assembled word (incl. negative multiples of P, fixed in /repo 5d200f2). Exploration (not proof): model vs implementation on the inputs above "
        "(incl. which error), and an impl-level oracle checks every invariant of the property statement on each "
        "produced class (words < P, decoded instruction starts, entry offsets, builtins = signature, sorted "
        "selectors, segment boundaries = function/const starts, JSON and hash round trips, re-published class "
        "compiles to the same class).",
        TRUSTED,
        "make -C coq/C19 && coqc Props/C19.v (Print Assumptions) ; harness/h19 -> coqc out/C19/cases/*.v",
    )
