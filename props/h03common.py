"""Helpers shared by props/c03.py and props/c06.py (both use harness/h03 and coq/GenC03)."""
import fcntl
import json
import os
import re
import time

import vlib

WRAPPERS = os.path.join(vlib.ROOT, "wrappers")
GEN = os.path.join(vlib.COQ, "GenC03")


def h03(ctx, args, timeout=3000):
    t = time.time()
    rc, out = vlib.run([vlib.harness_bin("h03")] + args, timeout=timeout)
    last = out.strip().splitlines()[-1] if out.strip() else "(no output)"
    ctx.log("h03 %s: rc=%d (%.0fs) %s" % (args[0], rc, time.time() - t, last[:300]))
    return rc, out


def translate(ctx):
    """Runs the translator on /verif/wrappers with the compiler of /repo's current tree and syncs
    coq/GenC03 (files are rewritten only when their content changes, so `make` caches)."""
    out = os.path.join(ctx.out, "gen-%d" % os.getpid())     # private to this run
    os.makedirs(out, exist_ok=True)
    rc, log = h03(ctx, ["translate", WRAPPERS, out])
    if rc != 0 or not os.path.exists(os.path.join(out, "translate.json")):
        return {"ok": False, "errors": log[-2000:], "summary": {}}
    tr = json.load(open(os.path.join(out, "translate.json")))
    errors = [r for r in tr if not r["ok"]]
    os.makedirs(GEN, exist_ok=True)
    changed, kept = [], 0
    with open(os.path.join(GEN, ".sync.lock"), "w") as lk:
        fcntl.flock(lk, fcntl.LOCK_EX)
        deps = os.path.join(GEN, "DEPS")
        if not os.path.exists(deps) or open(deps).read() != "Vmx\n":
            open(deps, "w").write("Vmx\n")
        want = set()
        names = ["W_%s.v" % r["name"] for r in tr if r["ok"]] + ["All.v"]
        for fn in names:
            want.add(fn)
            src = open(os.path.join(out, fn)).read()
            dst = os.path.join(GEN, fn)
            if not os.path.exists(dst) or open(dst).read() != src:
                open(dst, "w").write(src)
                changed.append(fn)
            else:
                kept += 1
        for f in os.listdir(GEN):
            if f.endswith(".v") and f not in want:
                base = os.path.join(GEN, f[:-2])
                for ext in (".v", ".vo", ".vok", ".vos", ".glob"):
                    if os.path.exists(base + ext):
                        os.unlink(base + ext)
    summary = {
        "wrappers": len(tr), "translated": len(tr) - len(errors), "coq_files": len(want),
        "rewritten_this_run": len(changed), "unchanged": kept,
        "instructions_total": sum(r.get("instructions", 0) for r in tr if r["ok"]),
        "hints_total": sum(r.get("hints", 0) for r in tr if r["ok"]),
        "repo_head": vlib.repo_head(),
    }
    ctx.log("translator: %d wrappers, %d failed, %d Coq files rewritten" % (len(tr), len(errors), len(changed)))
    if not errors:
        import shutil
        shutil.rmtree(out, ignore_errors=True)
    return {"ok": not errors, "errors": [(r["name"], r.get("error", "")[:500]) for r in errors],
            "summary": summary, "per_wrapper": {r["name"]: r for r in tr}}


def run_fault(ctx):
    out = os.path.join(ctx.out, "fault-%d" % os.getpid())   # private to this run
    os.makedirs(out, exist_ok=True)
    p = os.path.join(out, "fault.json")
    rc, log = h03(ctx, ["fault", WRAPPERS, out, ctx.tier], timeout=3000)
    if rc != 0 or not os.path.exists(p):
        return {"error": log[-2000:], "summary": {}, "violations": [], "samples": []}
    r = json.load(open(p))
    if r.get("errors"):
        r["error"] = "; ".join(r["errors"][:5])
    if not r.get("violations") and not r.get("errors"):
        import shutil
        shutil.rmtree(out, ignore_errors=True)
    return r


def props_text(pid):
    return vlib.strip_coq_comments(open(os.path.join(vlib.COQ, "Props", pid + ".v")).read())


def theorem_names(pid):
    return re.findall(r"^\s*(?:Theorem|Example)\s+(%s_[A-Za-z0-9_']+)" % pid, props_text(pid), re.M)


def verified_set(pid):
    """Wrapper names with a theorem `Cxx_<wrapper>` (optionally suffixed _complete) in Props/Cxx.v."""
    names = set()
    ws = {f[:-6] for f in os.listdir(WRAPPERS) if f.endswith(".cairo")}
    for t in theorem_names(pid):
        n = t[len(pid) + 1:]
        for suf in ("", "_complete", "_sound"):
            if suf and n.endswith(suf) and n[: -len(suf)] in ws:
                names.add(n[: -len(suf)])
            elif not suf and n in ws:
                names.add(n)
    return sorted(names)


def broken_theorems(log):
    """Names of the Coq files / theorems mentioned in error messages of a make or coqc log."""
    out = []
    for m in re.finditer(r'File "([^"]+)", line (\d+)', log):
        out.append("%s:%s" % (os.path.basename(m.group(1)), m.group(2)))
    return sorted(set(out))[:8]


def proof_times(make_out):
    """`time "name" tac` lines printed by the Libfuncs proofs when they are (re)built."""
    t = {}
    for m in re.finditer(r"Tactic call\s+([A-Za-z0-9_]+)\s+ran\s+for\s+([0-9.]+)\s+secs", make_out or ""):
        t[m.group(1)] = float(m.group(2))
    cache = os.path.join(vlib.OUT, "libfunc_proof_times.json")
    old = {}
    if os.path.exists(cache):
        try:
            old = json.load(open(cache))
        except Exception:
            old = {}
    if t:
        old.update(t)
        json.dump(old, open(cache, "w"), indent=1)
    return {"measured_this_run": t, "last_measured": old}


def libfunc_ap_cost(ctx, cone=None):
    """Builds coq/Paths (ApCost.v over GenC03/All.v) and compiles Props/C17_libfuncs.v (per-libfunc ap /
    cost obligations cited by C17 and C04); returns a summary for the evidence file."""
    ok, out = vlib.coq_make(ctx, "Paths")
    if not ok:
        return {"ok": False, "log": out[-3000:], "theorems": [], "axioms": []}
    pr = vlib.check_properties_file(ctx, os.path.join(vlib.COQ, "Props/C17_libfuncs.v"), vlib.cone_files("Paths"),
                                    timeout=900)
    log = pr.get("log", "")

    def names(key):
        m = re.search(key + r" =\s*\[(.*?)\]\s*:\s*list string", log, re.S)
        if not m:
            return []
        return re.findall(r'"([^"]*)"', m.group(1))
    cov, unc = names("covered_libfuncs"), names("uncovered_libfuncs")
    gen = lambda l: sorted({x.split("<")[0] for x in l})
    return {"ok": pr["ok"], "log": "" if pr["ok"] else pr.get("log", "")[-3000:],
            "theorems": ["C17_libfunc_ap_exact", "C04_libfunc_steps_bound", "C04_libfunc_cost_bound"],
            "statements_covered": len(cov), "statements_not_covered": len(unc),
            "libfunc_instantiations_covered": len(set(cov)),
            "generic_libfuncs_covered": gen(cov), "generic_libfuncs_not_covered": gen(unc),
            "axioms": pr.get("axioms", [])}


def run_shards(ctx, case_dir, workers=6, timeout=2400):
    """As vlib.run_case_shards, with a bounded number of coqc processes (shared machine) and only
    the libraries the case files need on the load path."""
    import glob
    from concurrent.futures import ThreadPoolExecutor
    shards = sorted(glob.glob(os.path.join(case_dir, "*.v")))
    q = ["-Q", os.path.join(vlib.COQ, "Base"), "Base", "-Q", os.path.join(vlib.COQ, "Spec"), "Spec"]

    def one(p):
        rc, out = vlib.run(["coqc", "-q", "-noglob"] + q + [p], cwd=case_dir, timeout=timeout)
        ok = rc == 0 and re.search(r"^bad\s*=\s*\[\]", out, re.M) is not None
        return (p, ok, out)

    t = time.time()
    with ThreadPoolExecutor(max_workers=workers) as ex:
        res = list(ex.map(one, shards))
    ctx.log("evaluated %d case shards in Coq with <= %d coqc (%.0fs), %d disagree" % (
        len(res), workers, time.time() - t, sum(1 for r in res if not r[1])))
    return res


GENZOO = os.path.join(vlib.COQ, "GenZoo")

_ZOO_DIAG = """From Coq Require Import String.
From Vmx Require Import Range.
From PathsZoo Require Import ZooCost.
From GenZoo Require Import Zoo.
Definition bad_ap := Eval vm_compute in
  flat_map (fun w : string * code * list stmt_info => let '(n, c, sts) := w in
    map (fun s => (n, c, stmt_paths c s, si_branches s)) (filter (fun s => negb (stmt_ap_ok c s)) sts)) zoo_programs.
Definition bad_steps := Eval vm_compute in
  flat_map (fun w : string * code * list stmt_info => let '(n, c, sts) := w in
    map (fun s => (n, c, stmt_paths c s, si_branches s))
        (filter (fun s => plain_cost s && negb (stmt_steps_ok c s)) sts)) zoo_programs.
Print bad_ap.
Print bad_steps.
"""


def path_theorems(ctx, sierra_dir, wrappers=True):
    """Coq side of the libfunc-level premise `branch_dyn` of C17 / C04, over code regenerated from the tree
    under test on this run: (a) the C03/C06 wrapper set (GenC03/All.v -> Paths/ApCost.v -> Props/C17_libfuncs.v),
    (b) every invoke statement of the freshly compiled examples / bug samples / instantiation zoo whose Sierra
    text is in `sierra_dir` as cc_*.sierra (h03 zoo -> GenZoo/Zoo.v -> PathsZoo/ZooCost.v -> Props/C17_zoo.v).
    Records counts under ctx.cov["libfunc_path_theorems"]; reports a violation when a theorem no longer checks,
    with the offending statements (libfunc, emitted CASM, declared data) as the failing input."""
    cov = {"ok": False}
    ctx.cov["libfunc_path_theorems"] = cov
    ok_build, _ = vlib.cargo_build(ctx, "h03")
    if not ok_build:
        ctx.violation("harness h03 (translator of the libfunc path theorems) does not build against the tree under test",
                      {"theorem_or_correspondence": "Props/C17_libfuncs.v, Props/C17_zoo.v (h03 build)"}, found_input=False)
        return cov
    if wrappers:
        gen = translate(ctx)
        if not gen["ok"]:
            ctx.violation("translator failed: a wrapper no longer compiles with the compiler under test",
                          {"theorem_or_correspondence": "translator", "detail": gen.get("errors")}, found_input=False)
        else:
            w = libfunc_ap_cost(ctx)
            cov["wrappers"] = {k: v for k, v in w.items() if k != "log"}
            if not w["ok"]:
                ctx.violation("per-libfunc ap / cost theorems over the wrapper set no longer check "
                              "(Props/C17_libfuncs.v): emitted CASM contradicts the declared ApChange / Const cost",
                              {"theorem_or_correspondence": "C17_libfunc_ap_exact / C04_libfunc_steps_bound / "
                               "C04_libfunc_cost_bound", "detail": w.get("log")}, found_input=False)
    out = os.path.join(ctx.out, "zoo-%d" % os.getpid())
    os.makedirs(out, exist_ok=True)
    n_sierra = len([f for f in os.listdir(sierra_dir) if f.startswith("cc_") and f.endswith(".sierra")]) \
        if os.path.isdir(sierra_dir) else 0
    if n_sierra == 0:
        ctx.violation("no freshly compiled Sierra (cc_*.sierra) found for the zoo path theorems in %s" % sierra_dir,
                      {"theorem_or_correspondence": "Props/C17_zoo.v (input missing)"}, found_input=False)
        return cov
    rc, log = h03(ctx, ["zoo", sierra_dir, out], timeout=1200)
    zj = os.path.join(out, "zoo.json")
    if rc != 0 or not os.path.exists(zj):
        ctx.violation("h03 zoo failed to run", {"output": log[-2000:]}, found_input=False)
        return cov
    zs = json.load(open(zj))
    os.makedirs(GENZOO, exist_ok=True)
    with open(os.path.join(GENZOO, ".sync.lock"), "w") as lk:
        fcntl.flock(lk, fcntl.LOCK_EX)
        deps = os.path.join(GENZOO, "DEPS")
        if not os.path.exists(deps) or open(deps).read() != "Vmx\n":
            open(deps, "w").write("Vmx\n")
        src = open(os.path.join(out, "Zoo.v")).read()
        dst = os.path.join(GENZOO, "Zoo.v")
        rewritten = not os.path.exists(dst) or open(dst).read() != src
        if rewritten:      # content-addressed cache: make rebuilds only when the table changed
            open(dst, "w").write(src)
    ok_make, make_out = vlib.coq_make(ctx, "PathsZoo")
    pr = vlib.check_properties_file(ctx, os.path.join(vlib.COQ, "Props/C17_zoo.v"), vlib.cone_files("PathsZoo"),
                                    timeout=900) if ok_make else None
    ok = bool(pr and pr["ok"])
    zlog = (pr or {}).get("log", "")

    def names(key):
        m = re.search(key + r" =\s*\[(.*?)\]\s*:\s*list string", zlog, re.S)
        return re.findall(r'"([^"]*)"', m.group(1)) if m else []
    covd, unc = names("zoo_covered_libfuncs"), names("zoo_uncovered_libfuncs")
    gen_ = lambda l: sorted({x.split("<")[0] for x in l})
    mp = re.search(r"zoo_paths_total = (\d+)", zlog)
    cov.update({
        "ok": ok and (not wrappers or cov.get("wrappers", {}).get("ok", False)),
        "zoo": {
            "ok": ok, "theorems": ["C17_zoo_ap_exact", "C04_zoo_steps_bound"],
            "programs": zs.get("programs"), "programs_not_translated": zs.get("not_compiled"),
            "invoke_statements": zs.get("statements"), "distinct_obligations": zs.get("distinct_obligations"),
            "generic_libfuncs": zs.get("generic_libfuncs"),
            "obligations_with_builtin_cost_tokens": zs.get("obligations_with_builtin_cost_tokens"),
            "obligations_covered": len(covd), "obligations_not_covered": len(unc),
            "paths_enumerated": int(mp.group(1)) if mp else None,
            "generic_libfuncs_not_covered": gen_(unc), "generic_libfuncs_covered": len(gen_(covd)),
            "table_rewritten_this_run": rewritten, "axioms": (pr or {}).get("axioms", []),
            "dedup_rule": "one obligation per (generic libfunc, control skeleton of the emitted CASM: kinds, sizes, "
                          "ap++, jump / ap+= immediates, failing-assert and double-deref shapes, declared branch "
                          "data incl. relative target offsets); statements containing call/ret: one per generic libfunc",
        }})
    if not ok:
        # which statements: evaluate the table without the theorems
        detail = (make_out + zlog)[-2500:]
        bad = ""
        if os.path.exists(os.path.join(GENZOO, "Zoo.vo")):
            dp = os.path.join(out, "ZooDiag.v")
            open(dp, "w").write(_ZOO_DIAG)
            rc2, o2 = vlib.coqc_file(dp, timeout=900)
            bad = o2[:6000]
        found = "bad_ap" in bad and not re.search(r"bad_ap =\s*\[\]", bad) or \
                ("bad_steps" in bad and not re.search(r"bad_steps =\s*\[\]", bad))
        ctx.violation(
            "libfunc-level premise of C17/C04 fails on freshly compiled code: a statement's emitted CASM moves ap "
            "differently from its declared ApChange::Known or executes more steps than its declared Const cost "
            "(Props/C17_zoo.v no longer checks)",
            {"theorem_or_correspondence": "C17_zoo_ap_exact / C04_zoo_steps_bound", "offending_statements": bad,
             "detail": detail, "replay_cmd": "./check %s --tier %s" % (ctx.pid, ctx.tier)}, found_input=bool(found))
    else:
        import shutil
        shutil.rmtree(out, ignore_errors=True)
    return cov
