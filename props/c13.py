"""C13 - incremental recompilation equals compiling the final sources from scratch.

Proved (coq/Props/C13.v over coq/C13): syntax-node ids are injective within a tree, unchanged outside
a replaced subtree when key fields are preserved, offsets are the width of the text before the node in
the current tree (model of cairo-lang-syntax node/mod.rs), and a verifying-trace memo engine with
back-dating answers every query with the from-scratch value after every history (model of the
algorithm salsa documents; salsa is an external crate).
Tie: real trees' SyntaxNodeId/offset data vs the model (legs ids, reid) evaluated in Coq.
Explored (decides the property on the code): seeded edit histories on ONE RootDatabase vs a FRESH one
per step: diagnostics text, Sierra text, syntax-node offsets must be equal after every step."""
import json
import os

import vlib

THEOREMS = ["C13_ids_injective", "C13_ids_edit_stable", "C13_offsets_current", "C13_memo_correct"]

TRUSTED = [
    "Coq 8.16.1 kernel + vm_compute (no native_compute)",
    "axioms: none expected (Print Assumptions of every C13 theorem is recorded in print_assumptions)",
    "hand model C13/RedIds.v of cairo-lang-syntax node/mod.rs (SyntaxNodeId, collect_children_into, absolute_offset) "
    "with the per-kind key-field table as a parameter; tied by the correspondence legs ids/reid only",
    "hand model C13/Memo.v of the verifying-trace algorithm salsa documents (verified_at/changed_at, deep "
    "verification in dependency order, back-dating on equal value); salsa 0.28 itself is an external crate and is tied "
    "to this model only through the differential runs (one live database vs a fresh one)",
    "the end-to-end sentence (every query of the compiler is a function of its declared inputs) is NOT proved: it is "
    "explored by the impl-level oracle of harness/h13 on seeded edit histories",
    "harness/h13 (tree printer, edit generator, oracle), lib/vlib.py",
]


def run(ctx):
    ok_build, bout = vlib.cargo_build(ctx, "h13")
    ok_make, _ = vlib.coq_make(ctx, "C13")
    cone = vlib.cone_files("C13")
    pr = vlib.check_properties_file(ctx, os.path.join(vlib.COQ, "Props/C13.v"), cone) if ok_make else None

    corr_bad, oracle_bad, summary, n_shards = [], [], {}, 0
    cases = os.path.join(ctx.out, "cases")
    ocases = os.path.join(ctx.out, "oracle")
    ran = False
    h13 = os.path.join(vlib.HARNESS, "target", "debug", "h13")
    if ok_build:
        import threading
        vlib.clean_dir(cases)
        vlib.clean_dir(ocases)
        # phase 1 (seconds): the case shards of the legs ids/reid; they are evaluated in Coq while the oracle runs
        env = vlib.env_offline()
        env["H13_LEGS"] = "ids,reid"
        rc1, out1 = vlib.run([h13, cases, ctx.tier], timeout=900, env=env)
        shard_res = []

        def eval_shards():
            shard_res.extend(vlib.run_case_shards(ctx, cases))

        th = None
        if rc1 == 0 and ok_make:
            th = threading.Thread(target=eval_shards)
            th.start()
        env = vlib.env_offline()
        env["H13_LEGS"] = "oracle,disk"
        rc, out = vlib.run([h13, ocases, ctx.tier], timeout=3300, env=env)
        ctx.log((out1.strip().splitlines() or ["h13 (ids,reid): no output"])[-1])
        ctx.log((out.strip().splitlines() or ["h13 (oracle): no output"])[-1])
        if th is not None:
            th.join()
        if rc != 0 or rc1 != 0 or not os.path.exists(os.path.join(ocases, "summary.json")) \
                or not os.path.exists(os.path.join(cases, "summary.json")):
            ctx.violation("harness h13 failed to run", {"output": (out1 + out)[-3000:], "rc": [rc1, rc]}, found_input=False)
        else:
            ran = True
            summary = json.load(open(os.path.join(cases, "summary.json")))
            summary.update(json.load(open(os.path.join(ocases, "summary.json"))))
            oracle_bad = json.load(open(os.path.join(ocases, "oracle_failures.json")))
            n_shards = len(shard_res)
            for shard, ok, o in shard_res:
                if not ok:
                    corr_bad.append((shard, o[:3000]))
    else:
        ctx.violation("harness h13 does not build against /repo's working tree",
                      {"theorem_or_correspondence": "correspondence C13 (h13 build)", "detail": bout[-3000:]},
                      found_input=False)

    # ---- decide ----
    for i, f in enumerate(oracle_bad[:5]):
        # the property's own formula failed on the real compiler: a live database answers differently
        # from a fresh one on the same contents
        rp = os.path.join(ctx.out, "history-%d.json" % (i + 1))
        json.dump(f, open(rp, "w"), indent=1)
        ctx.violation("incremental != from scratch: " + f["why"],
                      dict(f, replay_cmd="%s replay %s" % (os.path.join(vlib.HARNESS, "target", "debug", "h13"), rp)),
                      found_input=True)
    if ran and summary.get("oracle_histories", 0) > 0 and (
            summary.get("oracle_steps_with_diagnostics", 0) == 0 or summary.get("oracle_steps_with_sierra_program", 0) == 0
            or summary.get("oracle_distinct_outputs", 0) < 3
            or min((summary.get("oracle_steps_with_2plus_diagnostics_of_phase") or {"x": 0}).values()) == 0):
        ctx.violation("oracle machinery is blind: the edits had no observable effect on diagnostics/Sierra",
                      {"summary": summary}, found_input=False)
    if ran and summary.get("disk_histories", 0) > 0 and (
            summary.get("disk_steps_required_to_match", 0) == 0 or summary.get("disk_distinct_outputs", 0) < 3
            or summary.get("disk_steps_with_sierra_program", 0) == 0):
        ctx.violation("oracle machinery is blind: the on-disk histories had no observable effect", {"summary": summary},
                      found_input=False)
    if corr_bad and not oracle_bad:
        legs = sorted({os.path.basename(s).split("_")[0] for s, _ in corr_bad})
        ctx.violation(
            "model and implementation disagree (%s legs): the C13 id/offset theorems no longer transfer to "
            "cairo-lang-syntax; the differential oracle found no history on which the live database differs from a "
            "fresh one" % ",".join(legs),
            {"correspondence": "C13/Corr.v check_" + "/".join(legs), "theorems": THEOREMS[:3],
             "shards": [{"file": s, "coq_output": o} for s, o in corr_bad[:4]],
             "replay_cmd": "./check C13 --tier " + ctx.tier},
            found_input=False)
    if not ok_make or (pr and not pr["ok"]):
        ctx.violation("Coq development for C13 does not check",
                      {"theorem_or_correspondence": "Props/C13.v (" + ", ".join(THEOREMS) + ")",
                       "detail": (pr or {}).get("log", "")[-2000:], "hygiene": (pr or {}).get("hygiene"),
                       "unknown_axioms": (pr or {}).get("unknown_axioms")}, found_input=False)

    samples = []
    for d in (cases, ocases):
        sp = os.path.join(d, "samples.txt")
        if os.path.exists(sp):
            samples += [l[:1200] for l in open(sp).read().splitlines() if l][:6]
    names = [n for n in (pr or {}).get("names", []) if n.startswith("C13_")]
    n_cmp = sum(summary.get(k, 0) for k in ("oracle_diagnostics_compared", "oracle_sierra_compared",
                                             "oracle_tree_offsets_compared"))
    ctx.cov.update({
        "obligations": pr["obligations"] if pr else 0,
        "discharged": pr["discharged"] if pr else 0,
        "property_theorems": names,
        "print_assumptions": (pr or {}).get("axioms", []),
        "closed_assumption_blocks": (pr or {}).get("closed_blocks", 0),
        "evaluations": summary.get("oracle_steps", 0) + summary.get("disk_steps", 0) + summary.get("ids_files", 0)
        + summary.get("reid_cases", 0),
        "distinct_nontrivial": summary.get("oracle_distinct_project_states", 0),
        "rule": "permutation histories (project corpus/C13/order, 2 of 9 histories): two elements of a list change places "
                "(adjacent or distant) - struct members, enum variants, params, generic params, module / impl / trait "
                "items, match arms, ctor and pattern fields, statements, use lists, attributes, arguments - on a program "
                "where order is observable (layouts, Serde/derive order, variant indices, signatures), often followed by "
                "the swap back; same multiset, other order is the one change an order-insensitive Eq/Hash hides from "
                "salsa's back-dating, so this family is the empirical check, on the real queries, of the hypothesis "
                "`veq a b = true -> a = b` of C13_memo_correct for order-carrying values (ordered maps, lists). "
                "on-disk histories (leg disk): a scratch project (two crate roots, modules, a directory module) whose files "
                "are really created / deleted / rewritten / renamed on disk between the steps - `mod x;` declared before "
                "its file exists, file missing at the first query then created, deleted then re-created with other "
                "content, a module gaining a submodule file, the second crate root rewritten - interleaved with override "
                "sets (also of files that do not exist on disk) and unsets (falling back to the disk). Each disk step is "
                "followed by (a) nothing, (b) an unrelated override edit or (c) a no-op re-set of an override. The live "
                "database is REQUIRED to equal a fresh database on the same disk + overrides after every step that "
                "contains an input change ((b), (c), every override set/unset): disk_steps_required_to_match. After (a) "
                "salsa may serve the memoized answer (no input changed, no new revision): compared, counted in "
                "disk_only_steps_stale, never an alarm. "
                "oracle: histories are generated from VERIF_SEED over five projects (corpus/C13/gen: diagnostics that "
                "originate in generated code - inline macros println!/format!/assert!/array!, user-defined macros, derives "
                "on a type lacking the traits, generate_trait, `?` - whose histories (2 of 7) mostly edit INSIDE the macro "
                "invocations / attributes: a space moved inside (same extent and length), delete-then-insert elsewhere "
                "(cancelling lengths), inserted trivia, identifier renamed to one of the same length, two equal-length "
                "arguments swapped, the same before the invocation on its line; corpus/C13/multi: 4 files with "
                "traits/generics/impls/consts/inline fn; corpus/C13/single; a copy of /repo/examples: 21 files; "
                "corpus/C13/diags: a project that carries >= 2 diagnostics of every phase - parser, semantic incl. inline "
                "macros, lowering/borrow-check incl. inside loops/while/for/closures, warnings, plugin - whose histories "
                "(2 of 5) mostly insert further diagnostic-carrying statements/items before and between the existing ones "
                "(as expression statements and as `let` initialisers), duplicate, move and delete them; the full ordered "
                "diagnostics text is compared). Each step "
                "is one edit chosen with the real parser's landmarks: trivia (space/newline/comment/tab at a token "
                "boundary), identifier rename (all occurrences across files, or a single one), statement/item insertion, "
                "deletion, duplication, item move, syntax-breaking (delete a punctuation terminal, insert a stray token, "
                "truncate inside a token, garbage), repair (restore the pre-break text), override set-identical / "
                "unset-revert / save-to-disk-and-unset; followed by a random query choice (diagnostics then Sierra, Sierra "
                "then diagnostics, one of them, none) and optionally a walk of all syntax nodes. The same contents are "
                "given to a fresh RootDatabase; DiagnosticsReporter text (with line:col), Sierra text (debug names) and "
                "the (kind, offset, width, span) dump of every node must be equal. distinct_nontrivial = number of "
                "DISTINCT project contents (hash of all file texts) reached after an edit, counted by the harness; "
                "evaluations = edit steps + corpus trees (leg ids) + re-parse cases (leg reid).",
        "input_distribution": summary,
        "comparisons_live_vs_fresh": n_cmp,
        "traces_validated_against_impl": summary.get("ids_nodes", 0) + summary.get("reid_nodes", 0),
        "coq_case_shards": n_shards,
        "correspondence_disagreements": len(corr_bad),
        "oracle_failures": len(oracle_bad),
        "samples": samples or ["(no samples: harness did not run)"],
    })
    return ctx.finish(
        "other",
        "Proved in Coq over hand models (not over the compiler): syntax-node ids are injective, stable outside an "
        "edited subtree when key fields are preserved, offsets are a function of the current tree; a verifying-trace "
        "memo engine with back-dating returns from-scratch answers for every history. The models are compared with "
        "the real SyntaxNodeId / offset / node identity data of corpus trees inside Coq on every run. The property "
        "itself (diagnostics and Sierra of a live database equal those of a fresh one after every edit) is explored "
        "by the differential oracle, not proved; salsa is tied to Memo.v only through these runs.",
        TRUSTED,
        "make -C coq/C13 && coqc Props/C13.v (Print Assumptions); harness/target/debug/h13 out/C13/cases <tier> -> "
        "coqc out/C13/cases/{ids,reid}_*.v; oracle inside h13",
    )
