"""C17 - static ap-change metadata equals the run-time movement of the allocation pointer."""
import vlib
from props import sierra_common as sc
from props import sierra_runtime as rt


def run(ctx):
    r = sc.run_common(ctx, "C17.v", ["C17_ap_exact"])
    # Coq side of the libfunc-level premise branch_dyn: path theorems over the wrapper set and over the freshly
    # compiled examples / bug samples / zoo (props/h03common.py; evidence key libfunc_path_theorems)
    from props import h03common as hc
    hc.path_theorems(ctx, ctx.out + "/corpus")
    apf = [f for f in r["static_failures"] if f["why"].startswith(("libfunc_ap_ok", "layout"))]
    for f in apf[:5]:
        # concrete statement whose emitted CASM moves ap differently from its declared ApChange::Known,
        # or whose recorded byte range is not the range its instructions occupy
        ctx.violation("CASM emitted for a Sierra statement contradicts the recorded ap change / range: " + f["why"],
                      dict(f, replay_cmd="./check C17 --tier %s" % ctx.tier), found_input=True)
    for f in [f for f in r.get("negatives_accepted", []) if f["program"].startswith(("n_ref_", "n_fs_"))][:5]:
        # ap-tracking dependent acceptance rules (references surviving an unknown ap change, frame state of locals):
        # the template is invalid by construction, the real pipeline must reject it
        ctx.violation("the real compiler accepts a Sierra program that breaks an ap-tracking rule (negative template %s)"
                      % f["program"], dict(f, replay_cmd="./check C17 --tier %s" % ctx.tier), found_input=True)
    if r["model_rejects"] and not apf:
        m = r["model_rejects"][0]
        ctx.violation("the real compiler accepts programs whose ap-tracking annotations the verified checker rejects: %s"
                      % ", ".join(m["programs"][:5]),
                      dict(m, theorem_or_correspondence="correspondence accept(real) => accept(model), C17_ap_exact",
                           replay_cmd="./check C17 --tier %s" % ctx.tier), found_input=False)
    ctx.cov["static_branch_paths_checked"] = r["summary"].get("static_branch_paths", 0)
    ctx.cov["static_failures"] = len(apf)
    # run-time leg: the property's own formula on real VM runs of corpus Cairo programs (both solvers)
    rres = rt.run_runtime(ctx)
    if not rres["ok"]:
        ctx.violation("run-time leg did not run: " + rres.get("error", "?")[:300],
                      {"theorem_or_correspondence": "run-time leg (harness/h14 h14run)", "detail": rres.get("error")},
                      found_input=False)
    for f in rt.failures_of(rres, "C17")[:5]:
        ctx.violation("run-time ap movement / pc range contradicts the recorded metadata in a real run: " + str(f.get("what"))[:300], dict(f, replay_cmd="./check C17 --tier %s" % ctx.tier),
                      found_input=True)
    ctx.cov["runtime_leg"] = {k: v for k, v in rres.get("summary", {}).items() if isinstance(v, (int, float, str))}
    ctx.cov["runtime_failures"] = len(rt.failures_of(rres, "C17"))
    return ctx.finish(
        "proof",
        "Theorem (Coq): for every accepted program, every complete execution of a function whose metadata declares "
        "ap change k - any path, any recursion depth - moves ap by exactly k (C17_ap_exact), provided every libfunc "
        "branch moves ap by its declared Known amount (libfunc_ap_ok; calls are derived from the callee, not assumed). "
        "Checked every run (exploration): (a) real-accepted programs are accepted by the model; (b) libfunc_ap_ok and "
        "the statement byte ranges are checked statically on the CASM the compiler emits now, for every statement of "
        "every corpus program: all internal paths are enumerated, each path's ap movement must equal the declared "
        "ApChange::Known, statement ranges must be contiguous and equal to the size of their instructions.",
        sc.TRUSTED + ["libfunc-level premises (branch_dyn) are additionally PROVED, for the 2164 statements of the C03/C06 "
                      "wrapper set (503 libfunc instantiations), over the translator-regenerated code objects: "
                      "coq/Props/C17_libfuncs.v (C17_libfunc_ap_exact, C04_libfunc_steps_bound, C04_libfunc_cost_bound), "
                      "re-checked by ./check C03",
                      "static path enumeration in harness/h15 (straight-line-with-branches libfunc code; statements with "
                      "internal loops/abs jumps are skipped and counted)"],
        "make coq/Sierra && coqc Props/C17.v ; harness/h15 <corpus> -> coqc out/C17/cases/acc_*.v",
    )
