"""C17 - static ap-change metadata equals the run-time movement of the allocation pointer."""
import vlib
from props import sierra_common as sc


def run(ctx):
    r = sc.run_common(ctx, "C17.v", ["C17_ap_exact"])
    apf = [f for f in r["static_failures"] if f["why"].startswith(("libfunc_ap_ok", "layout"))]
    for f in apf[:5]:
        # concrete statement whose emitted CASM moves ap differently from its declared ApChange::Known,
        # or whose recorded byte range is not the range its instructions occupy
        ctx.violation("CASM emitted for a Sierra statement contradicts the recorded ap change / range: " + f["why"],
                      dict(f, replay_cmd="./check C17 --tier %s" % ctx.tier), found_input=True)
    if r["model_rejects"] and not apf:
        m = r["model_rejects"][0]
        ctx.violation("the real compiler accepts programs whose ap-tracking annotations the verified checker rejects: %s"
                      % ", ".join(m["programs"][:5]),
                      dict(m, theorem_or_correspondence="correspondence accept(real) => accept(model), C17_ap_exact",
                           replay_cmd="./check C17 --tier %s" % ctx.tier), found_input=False)
    ctx.cov["static_branch_paths_checked"] = r["summary"].get("static_branch_paths", 0)
    ctx.cov["static_failures"] = len(apf)
    return ctx.finish(
        "proof",
        "Theorem (Coq): for every accepted program, every complete execution of a function whose metadata declares "
        "ap change k - any path, any recursion depth - moves ap by exactly k (C17_ap_exact), provided every libfunc "
        "branch moves ap by its declared Known amount (libfunc_ap_ok; calls are derived from the callee, not assumed). "
        "Checked every run (exploration): (a) real-accepted programs are accepted by the model; (b) libfunc_ap_ok and "
        "the statement byte ranges are checked statically on the CASM the compiler emits now, for every statement of "
        "every corpus program: all internal paths are enumerated, each path's ap movement must equal the declared "
        "ApChange::Known, statement ranges must be contiguous and equal to the size of their instructions.",
        sc.TRUSTED + ["static path enumeration in harness/h15 (straight-line-with-branches libfunc code; statements with "
                      "internal loops/abs jumps are skipped and counted)"],
        "make coq/Sierra && coqc Props/C17.v ; harness/h15 <corpus> -> coqc out/C17/cases/acc_*.v",
    )
