"""C01 - compiled programs compute exactly what the Cairo source means.
Kernel (Coq): C01/Ref.v reference semantics + Props/C01.v theorems ABOUT THAT SEMANTICS.  No theorem
relates it to the compiler.  The relation to /repo is the correspondence run: harness/h01 generates
typed random programs (Cairo text + the same AST as a Coq term), runs the text through the real pipeline
and Coq compares `eval` with the observed RunResultValue (C01/Corr.v).  An independent interpreter in the
harness is the impl-level oracle (and shrinker)."""
import json
import os

import vlib

TRUSTED = [
    "Coq 8.16.1 kernel + vm_compute (no native_compute)",
    "axioms: none expected (Print Assumptions output is checked against the allow-list on every run)",
    "the reference semantics C01/Ref.v is a hand-written reading of the language (docs + corelib text); "
    "NO theorem relates it to the compiler - only the differential run does",
    "C01/Corr.v flatten = the Sierra value layout (enum selector/padding from sierra-to-casm enm.rs)",
    "harness/h01: generator, Cairo printer, Coq printer, independent interpreter (oracle), shrinker; "
    "cairo-lang-runner + cairo-vm as the notion of 'running the compiled program'",
    "lib/vlib.py",
]
THEOREMS = ["C01_panic_data_exact_add", "C01_panic_data_exact_sub", "C01_panic_data_exact_mul",
            "C01_panic_data_exact_div", "C01_div_rem_exact"]


def theorem_names():
    src = vlib.strip_coq_comments(open(os.path.join(vlib.COQ, "Props/C01.v")).read())
    import re
    return re.findall(r"^\s*Theorem\s+([A-Za-z0-9_']+)", src, re.M)


def run(ctx):
    ok_build, _ = vlib.cargo_build(ctx, "h01")
    ok_make, _ = vlib.coq_make(ctx, "C01")
    cone = vlib.cone_files("C01")
    pr = vlib.check_properties_file(ctx, os.path.join(vlib.COQ, "Props/C01.v"), cone) if ok_make else None

    corr_bad, oracle_bad, summary = [], [], {}
    cases = os.path.join(ctx.out, "cases")
    if ok_build:
        vlib.clean_dir(cases)
        for sub in ("src", "shrink"):
            d = os.path.join(cases, sub)
            if os.path.isdir(d):
                vlib.clean_dir(d)
        rc, out = vlib.run([vlib.harness_bin("h01"), cases, ctx.tier, "c01"], timeout=3000)
        ctx.log(out.strip().splitlines()[-1] if out.strip() else "h01: no output")
        if rc != 0 or not os.path.exists(os.path.join(cases, "summary.json")):
            ctx.violation("harness h01 failed to run", {"output": out[-4000:]}, found_input=False)
        else:
            summary = json.load(open(os.path.join(cases, "summary.json")))
            oracle_bad = json.load(open(os.path.join(cases, "oracle_failures.json")))
            if ok_make:
                for shard, ok, o in vlib.run_case_shards(ctx, cases, pattern="c01_*.v"):
                    if not ok:
                        corr_bad.append((shard, o[:3000]))
    else:
        ctx.violation("harness does not build against /repo's working tree",
                      {"theorem_or_correspondence": "correspondence C01 (h01 build)"}, found_input=False)

    # --- exploration leg without reference semantics: the self-checking instantiation zoo (lib/zoo.py,
    # harness/h14run): every chk_* function is `true` for every argument by construction
    from props import zoo_selfcheck
    z = zoo_selfcheck.run_leg(ctx)
    if not z["ok"]:
        ctx.violation("zoo self-check leg did not run: " + z.get("error", "?"),
                      {"error": z.get("error"), "not_compiled": z.get("not_compiled", [])[:5]}, found_input=False)
    for f in z["failures"][:6]:
        ctx.violation("C01: compiled program computes a wrong value: %s(%s) [%s] %s"
                      % (f.get("function"), f.get("args"), f.get("solver"), f.get("what")),
                      dict(f, replay_cmd="python3 lib/zoo.py /tmp/zoo_replay  # then run the function with cairo-run"),
                      found_input=True)

    # --- decide ---
    # impl-level oracle: the independent interpreter and the pipeline differ on a concrete
    # (program, input), or the compiler panics on a well-typed generated program.
    for f in oracle_bad[:6]:
        fp = f.get("panic", "") + " " + f.get("why", "")
        ctx.violation("C01: " + f["why"], dict(f, replay_cmd="./check C01 --tier " + ctx.tier,
                                               how_to_replay="write `shrunk_source` (or `source`) to a file with "
                                               "`fn main() -> .. { <entry>(<args>) }` and run cairo-run"),
                      found_input=True, fingerprint=fp)
    if corr_bad and not oracle_bad:
        # the Coq reference semantics disagrees with the pipeline although the independent interpreter
        # agrees with it: no failing input of the property was found
        ctx.violation(
            "Coq reference semantics and the real pipeline disagree (and the harness interpreter does not "
            "confirm a miscompilation): the correspondence C01/Corr.check_run no longer checks",
            {"correspondence": "C01/Corr.v check_run",
             "shards": [{"file": s, "coq_output": o} for s, o in corr_bad[:4]],
             "replay_cmd": "./check C01 --tier " + ctx.tier},
            found_input=False)
    if not ok_make or (pr and not pr["ok"]):
        ctx.violation("Coq development for C01 does not check",
                      {"theorem_or_correspondence": "Props/C01.v", "detail": (pr or {}).get("log", "")[-2000:],
                       "hygiene": (pr or {}).get("hygiene"), "unknown_axioms": (pr or {}).get("unknown_axioms")},
                      found_input=False)
    # generator health: programs the compiler rejects with diagnostics are generator defects (or C08
    # material); they are reported, and too many of them means the exploration is hollow
    rej = summary.get("rejected_by_compiler", 0)
    progs = summary.get("programs", 0)
    if ok_build and summary and (progs == 0 or rej > max(3, progs // 10)):
        ctx.violation("the generated programs do not reach the pipeline (rejected by the compiler: %d, run: %d)"
                      % (rej, progs), {"rejected": summary.get("rejected", [])[:3]}, found_input=False)

    samples = []
    sp = os.path.join(cases, "samples.txt")
    if os.path.exists(sp):
        txt = open(sp).read()
        samples = [x.strip()[:1800] for x in txt.split("--- program ")[1:4]]
    ctx.cov.update({
        "obligations": pr["obligations"] if pr else 0,
        "discharged": pr["discharged"] if pr else 0,
        "property_theorems": theorem_names(),
        "print_assumptions": (pr or {}).get("axioms", []),
        "closed_assumption_blocks": (pr or {}).get("closed_blocks", 0),
        "evaluations": summary.get("cases", 0),
        "programs": summary.get("programs", 0),
        "distinct_nontrivial": summary.get("distinct_nontrivial", 0),
        "rule": "TWO program families.  (1) pass-shape family (harness/h01/src/shapes.rs): programs ENUMERATED, not sampled, "
                "per optimisation pass of cairo-lang-lowering (const folding rules incl. 0 / 1 / inc / dec / both-constant / "
                "upcast / downcast with felt252 literals near P, return_optimization + split_structs on destructure/"
                "reconstruct in every permutation and duplication, enum re-wrap, reboxing merges, branch inversion / match "
                "optimizer / dedup_blocks shapes, cse / reorder / variable forwarding, trim_unused_params / specialisation / "
                "inline attributes, array rules, loop-carried variables): the trigger pattern and its near misses, with "
                "run-time operands (boundary argument vectors MIN, MIN+1, -1, 0, 1, 2, MAX-1, MAX) and literal operands.  "
                "(2) typed random programs (grammar- and type-directed; 0-3 helper functions + entry; budgets on nodes, "
                "depth and static cost; loops bounded by a counter the body cannot assign, recursion by a depth "
                "parameter) x argument vectors (benign small values, zeros, type extremes, seeded boundary/uniform "
                "mixes).  A case = (program, argument vector) run once on the real pipeline and once in Coq.  "
                "distinct = distinct (program text, arguments); non-trivial = the program has a loop, a match or a "
                "helper call and at least 3 statements; counted by the harness.",
        "input_distribution": {k: summary.get(k) for k in (
            "programs", "cases", "programs_panic_free_on_some_input", "programs_panicking_on_some_input",
            "panic_free_pct", "panicking_pct", "panic_cases", "panic_kinds", "constructs", "generated_nodes",
            "max_block_depth", "regenerated_for_cost", "generator_interp_stuck", "rejected_by_compiler",
            "shape_programs", "shape_families",
            "sierra_statements", "crates")},
        "traces_validated_against_impl": summary.get("cases", 0),
        "correspondence_disagreements": len(corr_bad),
        "oracle_failures": len(oracle_bad),
        "zoo_selfchecks": z.get("selfchecks", 0),
        "zoo_failures": len(z.get("failures", [])),
        "zoo_files_not_compiled": len(z.get("not_compiled", [])),
        "samples": samples or ["(no samples: harness did not run)"],
    })
    return ctx.finish(
        "other",
        "Proved (Coq, about the reference semantics only): exact panic data of every checked integer operator, "
        "division specification, and the theorems listed in property_theorems.  NOT proved: any relation between "
        "the reference semantics and the compiler.  That relation is explored: every generated (program, input) is "
        "run through the real pipeline (Cairo -> Sierra -> CASM -> cairo-vm) and compared inside Coq with "
        "`eval` (values flattened by the Sierra layout, panic data felt by felt); an independent interpreter in "
        "the harness arbitrates and shrinks failing programs.  A further exploration leg WITHOUT reference semantics: the "
        "self-checking instantiation zoo (lib/zoo.py: chk_* functions that are `true` for every argument by construction, "
        "compiled with and without gas, run by harness/h14run); any other result is a wrong value computed by the "
        "compiled program.",
        TRUSTED,
        "make -C coq/C01 && coqc Props/C01.v (Print Assumptions) ; harness/h01 <out> <tier> c01 -> coqc out/C01/cases/c01_*.v",
    )
