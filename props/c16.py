"""C16 - assembled bytecode means exactly what the CASM instruction says.
Proof: Props/C16.v (roundtrip decode.encode.assemble for every shape/offset/immediate, op_size).
Tie: hand model (C16/Casm.v, C16/Vm.v) vs cairo-lang-casm and cairo-vm on the same inputs (h16)."""
import json
import os

import vlib

TRUSTED = [
    "Coq 8.16.1 kernel + vm_compute (no native_compute)",
    "axioms: none (Print Assumptions: Closed under the global context for every C16 theorem)",
    "hand model C16/Casm.v of cairo-lang-casm assemble/encode/op_size and C16/Vm.v of cairo-vm 3.2.0 "
    "decode_instruction + one Stone step (Blake2s/QM31 step arithmetic not modelled) + C16/Run.v write-once "
    "memory insertion and the fetch/decode/execute/insert loop (vm_trace), tied by the correspondence run "
    "only (one-step leg and whole-run leg: real cairo-vm stepped up to 14 times over loaded programs)",
    "harness/h16 (case generator, Coq term printer, impl-level oracle), lib/vlib.py",
]


def run(ctx):
    ok_build, _ = vlib.cargo_build(ctx, "h16")
    ok_make, _ = vlib.coq_make(ctx, "C16")
    cone = vlib.cone_files("C16")
    pr = vlib.check_properties_file(ctx, os.path.join(vlib.COQ, "Props/C16.v"), cone) if ok_make else None

    corr_bad, oracle_bad, summary = [], [], {}
    cases = os.path.join(ctx.out, "cases")
    if ok_build:
        vlib.clean_dir(cases)
        rc, out = vlib.run([vlib.harness_bin("h16"), cases, ctx.tier], timeout=1800)
        ctx.log(out.strip().splitlines()[-1] if out.strip() else "h16: no output")
        if rc != 0:
            ctx.violation("harness h16 failed to run", {"output": out[-2000:]}, found_input=False)
        else:
            summary = json.load(open(os.path.join(cases, "summary.json")))
            oracle_bad = json.load(open(os.path.join(cases, "oracle_failures.json")))
            if ok_make:
                for shard, ok, o in vlib.run_case_shards(ctx, cases):
                    if not ok:
                        corr_bad.append((shard, o[:3000]))
    else:
        ctx.violation("harness does not build against /repo's working tree",
                      {"theorem_or_correspondence": "correspondence C16 (h16 build)"}, found_input=False)

    chk = None
    if ctx.thorough and ok_make:
        chk = vlib.coqchk_lib(ctx, "C16", ["Roundtrip", "Step", "Run", "Fresh", "Commit", "Layout", "Corr"])
        ctx.cov["coqchk"] = {"axioms": chk["axioms"], "ok": chk["ok"]}
        if not chk["ok"]:
            ctx.violation("coqchk does not accept the compiled C16 library or reports axioms",
                          {"theorem_or_correspondence": "coqchk -o C16.*", "detail": chk["tail"]}, found_input=False)

    # --- decide ---
    for f in oracle_bad[:5]:
        # a concrete machine state on which the real VM does not do what the instruction denotes
        ctx.violation("encoded instruction executed by cairo-vm does not do what the CASM says: " + f["why"],
                      dict(f, replay_cmd="./check C16 --tier quick"), found_input=True)
    if corr_bad and not oracle_bad:
        kinds = sorted({os.path.basename(s).split("_")[0] for s, _ in corr_bad})
        # the search for a concrete failing input of the property itself is the impl-level oracle
        # (real VM step vs the CASM reading, encoded length vs op_size, VM accepts the word); it found
        # nothing, so the violation is reported as no-failing-input-found.
        ctx.violation(
            "model and implementation disagree (%s legs); C16_roundtrip no longer transfers to the code"
            % ",".join(kinds),
            {"correspondence": "C16/Corr.v check_" + "/".join(kinds),
             "shards": [{"file": s, "coq_output": o} for s, o in corr_bad[:4]],
             "replay_cmd": "./check C16 --tier quick"},
            found_input=False)
    if not ok_make or (pr and not pr["ok"]):
        ctx.violation("Coq development for C16 does not check",
                      {"theorem_or_correspondence": "Props/C16.v (C16_roundtrip, C16_assemble_total, "
                       "C16_qm31_rejected, C16_step_sound)", "detail": (pr or {}).get("log", "")[-2000:],
                       "hygiene": (pr or {}).get("hygiene"), "unknown_axioms": (pr or {}).get("unknown_axioms")},
                      found_input=False)

    n_cases = sum(summary.get(k, 0) for k in ("enc_cases", "dec_cases", "step_cases", "run_cases"))
    samples = []
    sp = os.path.join(cases, "samples.txt")
    if os.path.exists(sp):
        samples = open(sp).read().splitlines()[:6]
    ctx.cov.update({
        "obligations": pr["obligations"] if pr else 0,
        "discharged": pr["discharged"] if pr else 0,
        "property_theorems": ["C16_roundtrip", "C16_assemble_total", "C16_qm31_rejected", "C16_step_sound", "C16_run_sound", "C16_trace_compose", "C16_program_run_sound", "C16_program_example", "C16_step_writes_fresh", "C16_step_commit_total",
                              "C16_example", "C16_step_example", "C16_run_example"],
        "print_assumptions": (pr or {}).get("axioms", []),
        "evaluations": n_cases,
        "distinct_nontrivial": summary.get("enc_cases", 0) - summary.get("enc_rejected_by_impl", 0)
        + summary.get("dec_ok", 0) + summary.get("step_ok", 0),
        "rule": "cases: every instruction shape (8 bodies x operand kinds x registers x inc_ap) x boundary/"
                "random i16 offsets x boundary/random immediates; decoder on encoded words, single-bit flips and "
                "random u128; one real cairo-vm step from seeded states (3/4 arranged to be executable); whole runs "
                "(up to 14 real VM steps, run_steps_histogram = how many steps the VM accepted) of generated 3-8 "
                "instruction programs with loops, calls, rets, deductions, conflicting inserts and off-boundary jumps. "
                "distinct_nontrivial = cases the implementation accepted (assembled / decoded / stepped "
                "successfully), counted by the harness; generated cases are distinct by construction of the "
                "enumeration except for random collisions.",
        "input_distribution": summary,
        "traces_validated_against_impl": summary.get("step_cases", 0) + summary.get("run_cases", 0),
        "correspondence_disagreements": len(corr_bad),
        "oracle_failures": len(oracle_bad),
        "casm_macro_spellings_checked": summary.get("macro_spellings", 0),
        "samples": samples or ["(no samples: harness did not run)"],
    })
    return ctx.finish(
        "proof",
        "Theorems (Coq, unbounded in offsets/immediates/states): decode(encode(assemble i)) = flags/offsets of i, "
        "|encode| = op_size = VM instruction size, immediate = 2nd word, QM31 side condition is exact "
        "(C16_roundtrip, C16_qm31_rejected); one step of the modelled VM on those flags, from any machine state "
        "(unknown cells, relocatables), does what the instruction denotes when read off its syntax (C16_step_sound, "
        "Stone extension; premise: the defining equation of the field inverse used for product deductions); "
        "C16_run_sound lifts this to executions of any length over the write-once memory: every step that starts at "
        "a loaded assembled instruction does what it denotes, read in the final memory. "
        "Exploration (not proof): the hand model is compared with cairo-lang-casm and cairo-vm on the same "
        "inputs (assemble/encode/op_size, decode_instruction incl. error cases, one VM step incl. deduction, whole runs of loaded programs: same "
        "states after every step, same final memory, same first failing step), "
        "and impl-level oracles check that each real VM step does what the CASM syntax denotes, that a Blake2s word "
        "decodes to the byte_count/state/message cells it names, and that the casm! macro (inline.rs) produces the "
        "instruction its text spells (49 spellings: every cell_ref/res!/control-flow arm).",
        TRUSTED,
        "make -C coq C16/*.vo && coqc Props/C16.v (Print Assumptions) ; harness/h16 -> coqc out/C16/cases/*.v",
    )
