(* Props/C06.v -- the property theorems of C06 (primitive integer / felt252 operations are exact),
   CASM layer, and nothing else.  For each verified libfunc, over the CASM that the compiler in
   /repo emits NOW (GenC03, regenerated on every check):
   * soundness (the C03 shape): every accepted run returns [Spec.op args];
   * completeness: with the HONEST hint answers (VmRun.honest, transcribed from
     cairo-lang-runner's execute_core_hint) the executable VM never fails on in-range arguments
     and returns [Spec.op args] -- for 8-bit types by a complete sweep of the 65 536 operand pairs.
   The user-visible operators (corelib glue, lowering, Sierra generation) are tied to
   Spec/Ops.v by the pipeline leg (exploration, not proof): see evidence/C06.json.
   Not covered: libfuncs outside the list; VmRun.v is a hand model of cairo-vm (flat addresses). *)
From Vmx Require Import VmRun.
From Spec Require Import Int Ops.
