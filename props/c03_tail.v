(* the statement, unfolded once, so that the reader sees what [uarith_sound] says *)
Theorem C03_u8_overflowing_add_unfolded : forall (m : mem) (pb : Z) (s0 s' : st),
  mem_canonical m ->
  pc s0 = pb + entry_u8_overflowing_add ->
  reaches m pb code_u8_overflowing_add 0 s0 s' ->
  let rc := m (fp s0 - 5) in let a := m (fp s0 - 4) in let b := m (fp s0 - 3) in
  0 <= a < 2 ^ 8 -> 0 <= b < 2 ^ 8 -> rc + 1 < P ->
  (forall x, rc <= x < rc + 1 -> 0 <= m x < 2 ^ 128) ->
  fp s' = fp s0 /\
  m (ap s' - 3) = rc + 1 /\
  (if a + b <? 2 ^ 8
   then m (ap s' - 2) = 0 /\ m (ap s' - 1) = a + b
   else m (ap s' - 2) = 1 /\ m (ap s' - 1) = a + b - 2 ^ 8).
Proof.
  intros m pb s0 s' Hm Hpc Hr rc a b Ha Hb Hrc Hrck.
  pose proof (u8_overflowing_add_sound m pb s0 s' Hm Hpc Hr Ha Hb Hrc Hrck) as H.
  cbv zeta in H. fold rc a b in H. unfold uadd in H.
  destruct (a + b <? 2 ^ 8); exact H.
Qed.

(* non-vacuity: a concrete memory and a concrete run (200 + 100 on u8: Err(44)) meeting every
   hypothesis of the theorem; the run is accepted by the step relation (checked by [exec]). *)
Example C03_example :
  let m := mem_of [(95, 1000); (96, 200); (97, 100); (100, 0); (101, 300); (102, 44);
                   (1000, 44); (103, 1001); (104, 1); (105, 44)] in
  let s0 := {| pc := 7000; ap := 100; fp := 100 |} in
  let s' := {| pc := 7023; ap := 106; fp := 100 |} in
  mem_canonical m /\
  reaches m 7000 code_u8_overflowing_add 0 s0 s' /\
  0 <= m (fp s0 - 4) < 2 ^ 8 /\ 0 <= m (fp s0 - 3) < 2 ^ 8 /\ m (fp s0 - 5) + 1 < P /\
  rc_ok m (m (fp s0 - 5)) (m (fp s0 - 5) + 1) /\
  m (ap s' - 2) = 1 /\ m (ap s' - 1) = 44.
Proof.
  cbv zeta. split; [apply mem_of_canonical; vm_compute; reflexivity|].
  split; [apply (exec_sound _ _ _ 64%nat); vm_compute; reflexivity|].
  split; [vm_compute; split; congruence|]. split; [vm_compute; split; congruence|].
  split; [vm_compute; reflexivity|].
  split; [|split; vm_compute; reflexivity].
  intros x Hx. change (1000 <= x < 1001) in Hx. assert (x = 1000) as -> by lia.
  vm_compute. split; congruence.
Qed.

