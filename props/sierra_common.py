"""Shared driver for the Sierra acceptance-pass properties (C15 / C17 / C04): builds h15 and the
Sierra Coq library, extracts the Sierra corpus from /repo, runs the real pipeline on corpus programs
and mutants, evaluates the proved-sound model checker on every accepted program inside Coq."""
import json
import os

import corpus
import vlib

TRUSTED = [
    "Coq 8.16.1 kernel + vm_compute (no native_compute)",
    "axioms: none (Print Assumptions: Closed under the global context)",
    "hand model Sierra/Annot.v of compiler.rs::compile + annotations.rs + environment/* acceptance logic "
    "(variable/type map, function id, convergence, branch_align, ap tracking, gas wallet, in-order pass with "
    "backward clones); dropped: reference expressions, stack indices, introduction points, frame state "
    "(the real check is stricter there)",
    "translator harness/h15: prints each accepted program with libfunc signatures from the real ProgramRegistry and "
    "per-branch ap/gas/tracking changes from the real compile's debug info",
    "abstract machine Sierra/Sem.v: libfunc branches behave within their declared ap change / cost (branch_dyn); "
    "function calls are derived from the callee's execution, coupon calls are opaque libfunc steps",
    "lib/vlib.py, lib/corpus.py (corpus extraction from /repo at run time)",
]


def run_common(ctx, prop_file, theorem_names):
    ok_build, _ = vlib.cargo_build(ctx, "h15")
    ok_make, _ = vlib.coq_make(ctx, "Sierra")
    cone = vlib.cone_files("Sierra")
    pr = vlib.check_properties_file(ctx, os.path.join(vlib.COQ, "Props", prop_file), cone) if ok_make else None
    res = {"ok_build": ok_build, "ok_make": ok_make, "pr": pr, "summary": {}, "model_rejects": [],
           "static_failures": [], "panics": [], "dump_errors": [], "negatives_accepted": []}
    cases = os.path.join(ctx.out, "cases")
    if ok_build:
        cdir = os.path.join(ctx.out, "corpus")
        n = corpus.sierra_corpus(cdir)
        n_extra = corpus.extra_sierra_corpus(cdir)
        n_neg = corpus.negative_sierra_templates(cdir)
        from props import sierra_runtime
        cc = sierra_runtime.compile_fresh_corpus(ctx, cdir)
        res["fresh"] = cc
        ctx.log("extracted %d Sierra programs from /repo, %d extra corpus programs, %d negative templates, "
                "%d programs compiled now from examples / bug samples / the instantiation zoo (%d not compiled)"
                % (n, n_extra, n_neg, cc.get("compiled", 0), len(cc.get("not_compiled", []))))
        if not cc["ok"]:
            ctx.violation("the fresh-compile corpus could not be produced: " + cc.get("error", "?"),
                          {"theorem_or_correspondence": "translator (h14run compile-only)"}, found_input=False)
        for nc in cc.get("not_compiled", []):
            if nc.startswith("z_"):
                # the zoo compiles on the unchanged tree; a zoo program the compiler now refuses or panics on
                ctx.violation("the compiler no longer compiles an instantiation-zoo program: " + nc[:400],
                              {"program": nc.split(":")[0], "detail": nc,
                               "replay_cmd": "python3 lib/zoo.py /tmp/zoo_replay && %s/target/debug/cairo-compile --single-file /tmp/zoo_replay/%s.cairo"
                                             % (corpus.REPO, nc.split(":")[0])},
                              found_input=True)
        vlib.clean_dir(cases)
        rc, out = vlib.run([vlib.harness_bin("h15"), cdir, cases, ctx.tier], timeout=3000)
        if rc != 0 or not os.path.exists(os.path.join(cases, "summary.json")):
            ctx.violation("harness h15 failed to run", {"output": out[-2000:]}, found_input=False)
            res["ok_build"] = False
        else:
            res["summary"] = json.load(open(os.path.join(cases, "summary.json")))
            ctx.log(json.dumps(res["summary"]))
            res["static_failures"] = json.load(open(os.path.join(cases, "static_failures.json")))
            res["panics"] = json.load(open(os.path.join(cases, "panics.json")))
            res["dump_errors"] = [l for l in open(os.path.join(cases, "dump_errors.txt")).read().splitlines() if l]
            nv = os.path.join(cases, "negatives_verdicts.txt")
            if os.path.exists(nv):
                unparsed = [l.split(":")[0] for l in open(nv).read().splitlines() if l.endswith(": ParseError")]
                for u in unparsed[:3]:
                    ctx.violation("negative template %s is not parsed by the Sierra text parser of the tree under test "
                                  "(it parses on the pinned tree): it can no longer be decided" % u,
                                  {"theorem_or_correspondence": "negative templates (lib/corpus.py) / ProgramParser", "template": u},
                                  found_input=False)
            na = os.path.join(cases, "negatives_accepted.json")
            res["negatives_accepted"] = json.load(open(na)) if os.path.exists(na) else []
            if ok_make:
                for shard, ok, o in vlib.run_case_shards(ctx, cases, "acc_*.v"):
                    if not ok:
                        names = open(shard.replace(".v", ".names")).read().splitlines()
                        import re
                        idx = [int(x) for x in re.findall(r"\((\d+), \d+\)", o.split(":")[0])]
                        progs = [names[i] for i in idx if i < len(names)]
                        texts = {}
                        try:
                            allt = json.load(open(shard.replace(".v", ".sierra.json")))
                            texts = {k: allt.get(k, "") for k in progs[:3]}
                        except Exception:
                            pass
                        res["model_rejects"].append({"shard": shard, "programs": progs, "sierra": texts,
                                                     "coq_output": o[:1500]})
    else:
        ctx.violation("harness h15 does not build against /repo's working tree",
                      {"theorem_or_correspondence": "translator/correspondence (h15 build)"}, found_input=False)
    if not ok_make or (pr and not pr["ok"]):
        ctx.violation("Coq development (Sierra/*, Props/%s) does not check" % prop_file,
                      {"theorem_or_correspondence": "Props/%s: %s" % (prop_file, ", ".join(theorem_names)),
                       "detail": (pr or {}).get("log", "")[-2000:], "hygiene": (pr or {}).get("hygiene"),
                       "unknown_axioms": (pr or {}).get("unknown_axioms")}, found_input=False)
    if ctx.thorough and ok_make:
        chk = vlib.coqchk_lib(ctx, "Sierra", ["Sem", "Corr", "Examples"])
        ctx.cov["coqchk"] = {"axioms": chk["axioms"], "ok": chk["ok"]}
        if not chk["ok"]:
            ctx.violation("coqchk does not accept the compiled Sierra library or reports axioms",
                          {"theorem_or_correspondence": "coqchk -o Sierra.*", "detail": chk["tail"]},
                          found_input=False)
    for e in res["dump_errors"][:3]:
        ctx.violation("translator could not print an accepted program: " + e,
                      {"theorem_or_correspondence": "translator h15 (dump)", "detail": e}, found_input=False)
    s = res["summary"]
    samples = []
    sp = os.path.join(cases, "samples.txt")
    if os.path.exists(sp):
        samples = open(sp).read().splitlines()
    ctx.cov.update({
        "obligations": pr["obligations"] if pr else 0,
        "discharged": pr["discharged"] if pr else 0,
        "property_theorems": theorem_names,
        "print_assumptions": (pr or {}).get("axioms", []),
        "programs": s.get("corpus_programs", 0),
        "evaluations": s.get("corpus_programs", 0) + s.get("mutants", 0),
        "distinct_nontrivial": s.get("accepted_dumped", 0),
        "rule": "every Sierra program in /repo (standalone .sierra files + sierra_code sections of tests/e2e_test_data), "
                "the Sierra the CURRENT compiler emits for /repo/examples, tests/bug_samples and the instantiation zoo "
                "(lib/zoo.py: containers/boxes/nullables/dicts/enums/locals over 27 types, integer ops and casts, u256/u512, "
                "bounded ints, builtins, gas, consts - instantiations no golden file pins) "
                "and seeded single-point mutants of the smaller ones (statement delete/swap/duplicate, arg/result/return "
                "variable edits, branch retarget incl. self/backward/out of range, branch swap, libfunc swap, entry point "
                "move, signature swaps, declaration reorder; deduplicated by program text) run through the real "
                "ProgramRegistryInfo::new -> calc_metadata -> compile; distinct_nontrivial = programs the real compiler "
                "ACCEPTED and that were re-checked by the model checker in Coq",
        "input_distribution": s,
        "traces_validated_against_impl": s.get("accepted_dumped", 0),
        "model_rejects_of_accepted_programs": len(res["model_rejects"]),
        "negative_templates": s.get("negative_templates", None),
        "negative_templates_accepted": len(res.get("negatives_accepted", [])),
        "fresh_compiled_programs": (res.get("fresh") or {}).get("compiled", 0),
        "fresh_sources": (res.get("fresh") or {}).get("sources", {}),
        "fresh_not_compiled": len((res.get("fresh") or {}).get("not_compiled", [])),
        "samples": samples or ["(harness did not run)"],
    })
    return res
