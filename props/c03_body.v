(* the once-and-for-all link between the symbolic executor and the step relation *)
Theorem C03_symex_sound : forall (m : mem) (pb : Z) (c : code) (entry : Z) (fuel : nat) (ps : paths)
    (Q : Z -> Prop) (s0 s' : st),
  symex c fuel [] (sinit entry) = Some ps ->
  all_paths m (ap s0) (fp s0) ps Q ->
  pc s0 = pb + entry ->
  reaches m pb c 0 s0 s' ->
  Q (ap s') /\ fp s' = fp s0.
Proof. exact symex_sound. Qed.

