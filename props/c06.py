"""C06 - primitive integer and felt252 operations are exact on every operand.
Proof (CASM layer): per-libfunc soundness + completeness theorems (coq/Libfuncs, pinned in
coq/Props/C06.v) over the CASM the compiler in /repo emits NOW (translator leg of harness/h03).
Tie of Spec to the code + impl-level oracle: pipeline leg of harness/h03 -- one Cairo function per
(operation, type) through the user-visible operators, compiled with the current compiler and run with
SierraCasmRunner; RunResultValue compared with Spec.Ops.eval inside Coq (vm_compute case files) and
with an independent big-integer oracle in Rust."""
import json
import os
import re

import vlib
from props import h03common as hc

TRUSTED = [
    "Coq 8.16.1 kernel + vm_compute (no native_compute)",
    "axioms: none (Print Assumptions: Closed under the global context for every C06 theorem)",
    "coq/Vmx/Sem.v (algebraic CASM semantics) and coq/Vmx/VmRun.v (executable VM after cairo-vm, honest hints "
    "transcribed from execute_core_hint): hand-written, flat address space",
    "coq/Spec/Ops.v, coq/Spec/Int.v: the mathematical meaning; tied to the implementation by the pipeline run only",
    "harness/h03 (translator, case generator, Coq printer, independent Rust oracle), lib/vlib.py, props/c06.py",
]


def run(ctx):
    ok_build, _ = vlib.cargo_build(ctx, "h03")
    gen = hc.translate(ctx) if ok_build else None
    ok_make, make_out, pr = False, "", None
    if gen and gen["ok"]:
        ok_make, make_out = vlib.coq_make(ctx, "Libfuncs")
        if ok_make:
            pr = vlib.check_properties_file(ctx, os.path.join(vlib.COQ, "Props/C06.v"),
                                            vlib.cone_files("Libfuncs"), timeout=900)
    else:
        # Spec is needed for the case files even when the translator is broken
        vlib.coq_make(ctx, "Spec")
    proof_ok = bool(pr and pr["ok"])

    pipe = os.path.join(ctx.out, "pipe-%d" % os.getpid())   # private to this run (checks may run concurrently)
    cases = os.path.join(pipe, "cases")     # written by the harness into <pipe>/cases
    summary, oracle_bad, corr_bad = {}, [], []
    ran = False
    if ok_build:
        os.makedirs(cases, exist_ok=True)
        rc, out = hc.h03(ctx, ["pipeline", pipe, ctx.tier], timeout=3000)
        if rc != 0 or not os.path.exists(os.path.join(pipe, "summary.json")):
            ctx.violation("pipeline leg of h03 failed to run", {"output": out[-2000:]}, found_input=False)
        else:
            ran = True
            summary = json.load(open(os.path.join(pipe, "summary.json")))
            oracle_bad = json.load(open(os.path.join(pipe, "oracle_failures.json")))
            for shard, ok, o in hc.run_shards(ctx, cases):
                if not ok:
                    corr_bad.append((shard, o[:4000]))

    # ---------------- decide ----------------
    if not ok_build:
        ctx.violation("harness h03 does not build against /repo's working tree",
                      {"theorem_or_correspondence": "translator + pipeline (h03 build)"}, found_input=False)
    elif not gen or not gen["ok"]:
        errs = (gen or {}).get("errors")
        if isinstance(errs, list) and errs:
            # a wrapper (one instantiation of a libfunc) that compiled when it was added no longer does:
            # the wrapper itself is the failing input (compiler panic / rejection on valid code)
            for name, err in errs[:6]:
                src = ""
                try:
                    src = open(os.path.join(hc.WRAPPERS, name + ".cairo")).read()
                except OSError:
                    pass
                ctx.violation("wrapper %s no longer compiles with the compiler under test: %s" % (name, err[:300]),
                              {"wrapper": name, "source": src, "error": err,
                               "replay_cmd": "./check %s --tier %s" % (ctx.pid, ctx.tier)},
                              found_input=True, fingerprint="wrapper_does_not_compile:%s" % name)
        else:
            ctx.violation("translator failed to run", {"theorem_or_correspondence": "translator", "detail": errs},
                          found_input=False)
    for e in summary.get("errors", [])[:5]:
        ctx.violation("a pipeline function does not compile / run: " + e[:300], {"detail": e}, found_input=False)
    reported = set()
    for f in oracle_bad:
        # a concrete operand tuple on which the real pipeline does not return the mathematical result
        key = (f["op"].split("__")[-1], f["op"].split("__")[0])
        fp = "C06:%s:%s" % (f["op"], ",".join(f["args"]))
        if key[0] == "rem" and key[1].startswith("i") and f["args"][1] == "-1":
            fp = "C06:rem_MIN_by_minus1:%s" % key[1]
        if fp in reported or len(reported) >= 8:
            continue
        reported.add(fp)
        ctx.violation("operation is not exact: " + f["why"][:400],
                      dict(f, replay_cmd="./check C06 --tier %s" % ctx.tier), found_input=True, fingerprint=fp)
    only_known = bool(oracle_bad) and not ctx.violations
    if corr_bad and not oracle_bad:
        ctx.violation(
            "Spec.Ops (Coq) and the implementation disagree on %d case shard(s) while the independent oracle sees "
            "no wrong result" % len(corr_bad),
            {"correspondence": "Spec/Corr.v check_cases / check_rows",
             "shards": [{"file": s, "coq_output": o} for s, o in corr_bad[:4]],
             "replay_cmd": "./check C06 --tier %s" % ctx.tier}, found_input=False)
    elif corr_bad and oracle_bad:
        # the Coq side sees the same inputs as the oracle: make sure it sees nothing else
        extra = []
        known = {(f["op"], tuple(f["args"])) for f in oracle_bad}
        for s, o in corr_bad:
            for m in re.finditer(r"\(\s*(O\w+)[^\[]*\[([-0-9; \n]+)\]", o):
                args = tuple(x.strip() for x in m.group(2).replace("\n", " ").split(";"))
                if not any(k[1] == args for k in known):
                    extra.append((s, m.group(0)[:200]))
        if extra:
            ctx.violation("Spec.Ops (Coq) and the implementation disagree on inputs the Rust oracle accepts",
                          {"cases": extra[:10]}, found_input=False)
    if ok_build and gen and gen["ok"] and not proof_ok:
        ctx.violation(
            "Coq development for C06 does not check over the code the compiler emits now (%s)"
            % ", ".join(hc.broken_theorems(make_out + ((pr or {}).get("log") or ""))),
            {"theorem_or_correspondence": "Props/C06.v / Libfuncs",
             "detail": (make_out + ((pr or {}).get("log") or ""))[-3000:],
             "hygiene": (pr or {}).get("hygiene"), "unknown_axioms": (pr or {}).get("unknown_axioms"),
             "pipeline_oracle_failures": len(oracle_bad)},
            found_input=False)

    samples = []
    sp = os.path.join(pipe, "samples.txt")
    if os.path.exists(sp):
        samples = open(sp).read().splitlines()[:10]
    if not ctx.violations:
        import shutil
        shutil.rmtree(pipe, ignore_errors=True)
    ctx.cov.update({
        "obligations": pr["obligations"] if pr else 0,
        "discharged": pr["discharged"] if pr else 0,
        "property_theorems": hc.theorem_names("C06"),
        "verified_libfuncs": hc.verified_set("C06"),
        "print_assumptions": (pr or {}).get("axioms", []),
        "translator": (gen or {}).get("summary", {}),
        "proof_times_s": hc.proof_times(make_out),
        "evaluations": summary.get("evaluations", 0),
        "distinct_nontrivial": summary.get("distinct_cases", 0),
        "exhaustive": False,
        "exhaustive_8bit_evaluations": summary.get("exhaustive_8bit_evaluations", 0),
        "multi_limb_cases": sum(v for k, v in summary.get("cases_per_type", {}).items() if "u256" in k or "u512" in k),
        "rule": "pipeline: one generated Cairo function per (operation, type) -- u256 wide_mul / wide_square / "
                "mul_mod_n / inv_mod / div_mod_n / u512 div_rem_by_u256 on the FULL cross product of per-limb "
                "boundary values {0,1,2^64,2^128-2,2^128-1} (thorough: + {2^64-1,2^127}) and on perfect squares "
                "+-2, r^2+2r(+1), (2^127+k)^2+2k(+-1); operators + - * / % == != < <= > >= "
                "& | ^ ~ unary -, checked_/wrapping_/saturating_/overflowing_ add sub mul, wide_mul, sqrt, DivRem, "
                "Into/TryInto between all integer types, u256 and felt252, felt252 + - * neg div -- run through "
                "SierraCasmRunner on the cross product of the boundary sets {0,1,2,MAX-2..MAX,MIN..MIN+2,-1,-2,2^k,"
                "2^k+-1} (sampled when larger than the cap), seeded random tuples and random adjacent pairs; thorough "
                "adds all 65 536 operand pairs of every binary operation on u8 and i8. A case is distinct by "
                "(function, operand tuple), counted by the harness; every case executes real compiled code, so all are "
                "non-trivial.",
        "input_distribution": {k: v for k, v in summary.items() if k != "errors"},
        "correspondence_disagreements": len(corr_bad),
        "oracle_failures": len(oracle_bad),
        "only_known_findings": only_known,
        "traces_validated_against_impl": summary.get("evaluations", 0) if ran else 0,
        "samples": samples or ["(pipeline did not run)"],
    })
    return ctx.finish(
        "proof",
        "Theorems (Coq), CASM layer: for the verified libfunc set, over the CASM regenerated from /repo on this run, "
        "soundness (every accepted run returns Spec.op args) and completeness (with honest hints the executable VM "
        "never fails and returns Spec.op args; complete 65 536-pair sweeps for 8-bit types). Exploration (not "
        "proof): the user-visible operators are run through the real pipeline and compared with Spec.Ops.eval inside "
        "Coq and with an independent Rust oracle.",
        TRUSTED,
        "h03 translate -> coq/GenC03 ; make coq/{Vmx,Spec,GenC03,Libfuncs} ; coqc Props/C06.v ; h03 pipeline -> "
        "coqc out/C06/pipe/cases/*.v",
    )
