"""Self-checking instantiation zoo (leg of C01): every `chk_*` function of lib/zoo.py is written so that its source-level
result is `true` for every argument (containers, boxes, nullables, dicts, structs, enums, locals across calls, closures,
tuple permutations, re-boxing ... over 27 types of size 1..5); harness/h14run compiles the zoo with the compiler of the
tree under test, runs each `chk_*` on 5 (quick) / 40 (thorough) argument vectors under both metadata configurations and
reports every result other than `true` (leg "C01").  No reference semantics is involved: the oracle is the program.

    from props import zoo_selfcheck
    r = zoo_selfcheck.run_leg(ctx)   # dict(ok, selfchecks, failures=[{program, function, args, what, ...}], error?)
"""
import json
import os

import vlib
import zoo


def run_leg(ctx):
    res = {"ok": False, "selfchecks": 0, "failures": [], "not_compiled": []}
    ok_build, _ = vlib.cargo_build(ctx, "h14")
    if not ok_build:
        res["error"] = "harness h14 does not build against the tree under test"
        return res
    src = os.path.join(ctx.out, "zoo_sources")
    os.makedirs(src, exist_ok=True)
    for f in os.listdir(src):
        if f.endswith(".cairo"):
            os.unlink(os.path.join(src, f))
    res["sources"] = zoo.write(src)
    res["ok"] = True
    for mode in ("gas", "nogas"):
        out = os.path.join(ctx.out, "zoo_run_" + mode)
        vlib.clean_dir(out)
        env = vlib.env_offline()
        if mode == "nogas":
            # second compilation of the same sources without the gas statements (as `cairo-run` without --available-gas):
            # optimisation passes see different block structures; only the chk_* functions are run
            env["H14_NO_GAS"] = "1"
        rc, o = vlib.run([os.path.join(vlib.HARNESS, "target", "debug", "h14run"), src, out, ctx.tier],
                         timeout=3000, env=env)
        sp = os.path.join(out, "summary.json")
        if rc != 0 or not os.path.exists(sp):
            res["ok"] = False
            res["error"] = "h14run (%s) failed on the zoo: %s" % (mode, o[-800:])
            return res
        s = json.load(open(sp))
        res["selfchecks"] += s.get("selfchecks", 0)
        res["runs_" + mode] = s.get("runs", 0)
        res["functions_runnable_" + mode] = s.get("functions_runnable", 0)
        res["not_compiled"] += json.load(open(os.path.join(out, "not_compiled.json")))
        res["failures"] += [f for f in json.load(open(os.path.join(out, "runtime_failures.json"))) if f.get("leg") == "C01"]
    ctx.log("zoo self-checks (with and without gas): %d chk runs, %d failures, %d zoo files not compiled"
            % (res["selfchecks"], len(res["failures"]), len(res["not_compiled"])))
    return res
