"""C20 - compiling against a crate cache equals compiling the crate from source.

Proved (coq/Props/C20.v): over the description of the `*Cached` mirror types that the translator
(harness/h13, binary h20, `syn`) regenerates from /repo's working tree on every run into
coq/GenC20/Shape.v: every variant/field of every mirror is produced when saving and consumed when
loading, no arm is hidden behind a catch-all, the saving variant mapping is inverted by loading, and
the only exceptions are the explicit ones of C20/ShapeExceptions.v (each must still be needed);
plus the id-table scheme and the cached lowered IR round trip (C20/Intern.v, C20/IR.v).
Explored (decides the property on the code): two RootDatabases differing only in the cache_file of
dependency crates (corelib, corpus/C20/lib): diagnostics, Sierra and CASM text of dependent programs
must be identical for three optimisation configurations."""
import json
import os

import vlib

TRUSTED = [
    "Coq 8.16.1 kernel + vm_compute (no native_compute)",
    "axioms: none expected (Print Assumptions of every C20 theorem is recorded in print_assumptions)",
    "translator harness/h13/src/shape.rs (syn 2): reads defs/semantic/lowering src/cache/mod.rs of /repo's working "
    "tree and prints variants/fields and the produce/consume/arm mapping of new/from_raw/embed/get_embedded; the "
    "theorem is over what it prints (a syntactic abstraction of the Rust functions, not their semantics)",
    "explicit exception list C20/ShapeExceptions.v (unreachable! arms, fields restored as defaults), hand-justified",
    "hand models C20/Intern.v (id tables) and C20/IR.v (cached lowered IR) are not tied by a correspondence run; they "
    "are tied to the code only through the differential oracle",
    "the end-to-end sentence is NOT proved: it is explored by the impl-level oracle of harness/h13 (h20)",
    "harness/h13 (program generator, oracle), lib/vlib.py",
]
H20 = os.path.join(vlib.HARNESS, "target", "debug", "h20")


def run(ctx):
    ok_build, bout = vlib.cargo_build(ctx, "h13")
    cases = os.path.join(ctx.out, "cases")
    summary, oracle_bad, ran = {}, [], False
    gen_dir = os.path.join(vlib.COQ, "GenC20")
    os.makedirs(gen_dir, exist_ok=True)
    deps = os.path.join(gen_dir, "DEPS")
    if not os.path.exists(deps) or open(deps).read().strip() != "C20":
        open(deps, "w").write("C20\n")
    if ok_build:
        vlib.clean_dir(cases)
        rc, out = vlib.run([H20, cases, ctx.tier], timeout=3300)
        ctx.log(out.strip().splitlines()[-1] if out.strip() else "h20: no output")
        if rc != 0 or not os.path.exists(os.path.join(cases, "summary.json")):
            ctx.violation("harness h20 failed to run", {"output": out[-3000:], "rc": rc}, found_input=False)
        else:
            ran = True
            summary = json.load(open(os.path.join(cases, "summary.json")))
            oracle_bad = json.load(open(os.path.join(cases, "oracle_failures.json")))
    else:
        ctx.violation("harness h13/h20 does not build against /repo's working tree",
                      {"theorem_or_correspondence": "translator + oracle C20 (h13 build)", "detail": bout[-3000:]},
                      found_input=False)

    # Coq: C20 (hand files), GenC20 (generated now), then the leaf file
    ok_make, mout = vlib.coq_make(ctx, "GenC20") if os.path.exists(os.path.join(gen_dir, "Shape.v")) else (False, "no Shape.v")
    cone = vlib.cone_files("GenC20")
    pr = vlib.check_properties_file(ctx, os.path.join(vlib.COQ, "Props/C20.v"), cone) if ok_make else None

    # ---- decide ----
    for i, f in enumerate(oracle_bad[:5]):
        rp = os.path.join(ctx.out, "program-%d.json" % (i + 1))
        json.dump(f, open(rp, "w"), indent=1)
        ctx.violation("cache != source: " + f["why"], dict(f, replay_cmd="%s replay %s" % (H20, rp)), found_input=True)
    if ran and "programs" in summary:
        blind = []
        if summary.get("control_programs_changed_by_wrong_blob", 0) == 0:
            blind.append("a blob generated from an altered library did not change any dependent: the cache is not consulted "
                         "(%s)" % summary.get("control_error", "no error"))
        if summary.get("programs_with_sierra", 0) == 0 or summary.get("programs_with_casm", 0) == 0:
            blind.append("no program produced Sierra/CASM")
        if blind:
            ctx.violation("oracle machinery is blind: " + "; ".join(blind), {"summary": summary}, found_input=False)
    if (not ok_make or (pr and not pr["ok"])) and not oracle_bad:
        # the shape theorem no longer checks over the regenerated description: a variant/field is not produced or
        # not consumed, a new unreachable! arm, a new defaulted field, or a stale exception. The oracle above is the
        # search for a dependent program that observes it; it found none.
        detail = ((pr or {}).get("log", "") or mout)[-2500:]
        ctx.violation("the cached mirror types of /repo are no longer bijective up to the listed exceptions "
                      "(C20_shape_bijective does not check over the regenerated coq/GenC20/Shape.v), or the Coq "
                      "development broke",
                      {"theorem_or_correspondence": "Props/C20.v C20_shape_bijective / C20_shape_complete / "
                                                    "C20_intern_roundtrip / C20_ir_roundtrip",
                       "detail": detail, "hygiene": (pr or {}).get("hygiene"),
                       "unknown_axioms": (pr or {}).get("unknown_axioms"),
                       "how_to_read": "coqc a file with `Eval vm_compute in report exceptions_now shapes.` (C20.ShapeCheck) "
                                      "to list the mirror types and the failing component",
                       "replay_cmd": "./check C20 --tier " + ctx.tier},
                      found_input=False)

    samples = []
    sp = os.path.join(cases, "samples.txt")
    if os.path.exists(sp):
        samples = [l[:1500] for l in open(sp).read().splitlines() if l][:6]
    names = [n for n in (pr or {}).get("names", []) if n.startswith("C20_")]
    shape = summary.get("shape", {})
    ctx.cov.update({
        "obligations": pr["obligations"] if pr else 0,
        "discharged": pr["discharged"] if pr else 0,
        "property_theorems": names,
        "print_assumptions": (pr or {}).get("axioms", []),
        "closed_assumption_blocks": (pr or {}).get("closed_blocks", 0),
        "evaluations": summary.get("comparisons", 0),
        "distinct_nontrivial": summary.get("distinct_outputs", 0),
        "programs": summary.get("programs", 0),
        "rule": "crate graph: program -> c20lib (cached) -> c20util v1 and program -> c20util v2: every crate is registered "
                "with a discriminator, two crates share the name c20util, crates differ in edition / version / cfg set / "
                "experimental features. c20lib exposes every visibility on every item kind (fn, const, struct + members, "
                "enum, mod, use, glob use, trait, impl, type alias, impl alias), feature kinds (unstable / deprecated / "
                "internal with and without note), must_use / phantom / doc(hidden), const generics, negative impls, impl "
                "aliases, trait types/consts/impls, declared macros, cfg-dependent items, re-exports of the third crate. "
                "programs: corpus/C20/progs (hand-written dependents incl. ones that must be rejected: E2099 visibility, "
                "feature warnings, mixed crate versions, cfg-absent items, generic bounds), generated diagnostics programs "
                "(30 kinds of accesses that must be rejected or warned about because of what the cache stores), a seeded "
                "sample (all in the thorough tier) of /repo/examples and /repo/tests/bug_samples files as dependents of the "
                "core library, and programs generated from VERIF_SEED out of 72 snippet kinds that instantiate the "
                "library's generics/impls/trait default functions/associated items/consts/inline functions/loops/closures "
                "and core-library generics (dict, u256, byte arrays, hashes, conversions). For each optimisation "
                "configuration (default inlining, inlining avoided, optimisations disabled) one database compiles all "
                "programs with every crate from source, and one per cached set (corelib+lib; and corelib only / lib only "
                "for a seeded configuration, all nine combinations in the thorough tier) with the cache_file blobs of "
                "generate_crate_cache; diagnostics text, Sierra text (debug names) and CASM text are compared per "
                "program. evaluations = number of text comparisons; distinct_nontrivial = number of DISTINCT "
                "(Sierra, diagnostics) outputs over programs x configurations, counted by hash in the harness. A control "
                "(blob of an altered library) checks that the cache is really consulted.",
        "input_distribution": summary,
        "translated_types": shape.get("types", 0),
        "translated_members": shape.get("members", 0),
        "translated_functions": shape.get("functions", 0),
        "oracle_failures": len(oracle_bad),
        "samples": samples or ["(no samples: harness did not run)"],
    })
    return ctx.finish(
        "other",
        "Proved in Coq: over the description of the *Cached mirror types regenerated from /repo on this run, every "
        "variant/field is produced when saving and consumed when loading, arms map back, exceptions are explicit and "
        "needed (finite check by vm_compute lifted with forallb_forall); id-table and cached-IR round trip over hand "
        "models. This is a syntactic bijection of the mirrors, not a proof that a cached crate compiles dependents "
        "identically: that sentence is explored by the differential oracle (cache_file vs source, three optimisation "
        "configurations, diagnostics + Sierra + CASM).",
        TRUSTED,
        "harness/target/debug/h20 out/C20/cases <tier> (writes coq/GenC20/Shape.v, runs the oracle); make -C coq/C20, "
        "coq/GenC20; coqc Props/C20.v (Print Assumptions)",
    )
