"""C15 - Sierra acceptance implies well-typedness and exact-once use of every value."""
import vlib
from props import sierra_common as sc


def run(ctx):
    r = sc.run_common(ctx, "C15.v", ["C15_sound", "C15_merge", "C15_closed"])
    dd = [f for f in r["static_failures"] if f["why"].startswith("dup_drop")]
    for f in dd[:5]:
        # an accepted program in which a value can be discarded/copied although its type forbids it
        ctx.violation("accepted Sierra program declares drop/dup for a type that does not allow it: " + f["why"],
                      dict(f, replay_cmd="./check C15 --tier %s" % ctx.tier), found_input=True)
    ctx.cov["dup_drop_failures"] = len(dd)
    for f in r.get("negatives_accepted", [])[:5]:
        # every negative template violates one acceptance rule by construction (typing, linearity, merge, branch_align,
        # frame state of locals): the real pipeline must reject it
        ctx.violation("the real compiler accepts an invalid Sierra program (negative template %s)" % f["program"],
                      dict(f, replay_cmd="./check C15 --tier %s" % ctx.tier), found_input=True)
    for m in r["model_rejects"][:5]:
        # the property's own formula: compile(s) == Ok  but the (proved sound) independent checker rejects s
        ctx.violation("the real compiler accepts Sierra programs that the verified typing/linearity checker rejects: %s"
                      % ", ".join(m["programs"][:5]),
                      dict(m, replay_cmd="./check C15 --tier %s" % ctx.tier,
                           note="program names are <corpus file>~<mutation>; the Coq term is in the shard"),
                      found_input=True)
    return ctx.finish(
        "proof",
        "Theorem (Coq): if the model of the acceptance pass accepts a program then, in an independent abstract "
        "machine, on every path of every function each statement finds its arguments present with exactly the declared "
        "types and consumes them, results are fresh, merging paths agree on live variables and types, multi-branch "
        "targets are branch_align statements, and returns leave nothing behind (C15_sound, C15_merge), via the closure "
        "theorem C15_closed about the in-order pass. Tie (checked every run, exploration): every program the REAL "
        "compiler accepts - corpus programs and mutants - must be accepted by the model (the property's formula "
        "compile(s)=Ok => checker(s)=Ok). That drop/dup are specialised only for droppable/duplicatable types is not "
        "part of the Coq model; it is checked on every accepted program (corpus and mutants, incl. mutants that "
        "re-type libfunc declarations) against the registry's TypeInfo. The frame-state rules of locals (where alloc_local / "
        "finalize_locals are allowed) are not in the Coq model either: they are covered by negative templates, each of which "
        "the real pipeline must reject.",
        sc.TRUSTED,
        "make coq/Sierra && coqc Props/C15.v ; harness/h15 <corpus> -> coqc out/C15/cases/acc_*.v",
    )
