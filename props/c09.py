"""C09 - the front end is total: any source text yields diagnostics, never a crash.

Theorems (coq/Props/C09.v over coq/Syntax): the lexer *model* terminates with exactly one EndOfFile,
every other terminal consumes >= 1 character, no fuel runs out; diagnostics produced by the token
plumbing model lie inside the file.  Totality of the Rust code is explored, not proved: harness/h10
runs the real lexer, Parser::parse_file (+ expr / statement-list file kinds), diagnostics rendering
and the formatter on every input in watched child processes (panic = catch_unwind, hang = timeout +
kill, stack overflow / abort = child death), minimises failing inputs by delta debugging."""
import os

import vlib
from props import c10 as common


def run_sem(ctx):
    """Optional leg: semantic + lowering diagnostics (DiagnosticsReporter::check) on generated texts, in
    the separate binary h10sem (feature `sem`, links the whole compiler)."""
    import json
    import time
    res = {"ok_build": False, "ran": False, "summary": {}, "failures": [], "out": ""}
    cmd = ["cargo", "build", "--offline", "-p", common.PKG, "--features", "sem", "--bin", "h10sem"]
    for attempt in range(6):
        t = time.time()
        rc, out = vlib.run(cmd, cwd=vlib.HARNESS, timeout=3000)
        ctx.log("cargo build -p h10 --features sem --bin h10sem: rc=%d (%.0fs)" % (rc, time.time() - t))
        res["out"] = out
        if rc == 0:
            res["ok_build"] = True
            break
        # /repo and the harness workspace are shared: give a concurrent edit a moment to settle
        time.sleep(20)
    if not res["ok_build"]:
        ctx.log("\n".join(res["out"].splitlines()[-25:]))
        return res
    sem_dir = os.path.join(ctx.out, "sem")
    vlib.clean_dir(sem_dir)
    rc, out = vlib.run([vlib.harness_bin("h10sem"), sem_dir, ctx.tier], timeout=5400 if ctx.thorough else 1200)
    res["out"] = out
    ctx.log(out.strip().splitlines()[-1] if out.strip() else "h10sem: no output")
    if rc == 0 and os.path.exists(os.path.join(sem_dir, "sem_summary.json")):
        res["ran"] = True
        res["summary"] = json.load(open(os.path.join(sem_dir, "sem_summary.json")))
        res["failures"] = json.load(open(os.path.join(sem_dir, "sem_failures.json")))
    else:
        res["rc"] = rc
    return res


def run(ctx):
    h = common.run_harness(ctx, "C09")
    sem = run_sem(ctx)
    ok_make, pr = common.run_coq(ctx, "C09.v")
    summary = h["summary"]
    corr_bad, n_shards = [], 0
    if not h["ok_build"]:
        ctx.violation("harness h10 does not build against /repo's working tree",
                      {"theorem_or_correspondence": "correspondence C09 (h10 build)", "detail": h["out"][-3000:]},
                      found_input=False)
    elif not h["ran"]:
        ctx.violation("harness h10 failed to run (crash of the driver process, not of a watched worker)",
                      {"output": h["out"][-3000:], "rc": h.get("rc")}, found_input=False)
    else:
        n_shards, corr_bad = common.eval_shards(ctx, h["cases_dir"], ok_make)

    n_mine = n_other = n_unknown = 0
    if h["ran"]:
        n_mine, n_other, n_unknown = common.report_oracle_failures(ctx, h["failures"], "C09")
    n_sem = 0
    if not sem["ok_build"]:
        ctx.violation("the semantic-diagnostics leg h10sem does not build against /repo's working tree",
                      {"theorem_or_correspondence": "exploration leg C09 semantic (h10sem build)",
                       "detail": sem["out"][-3000:]}, found_input=False)
    elif not sem["ran"]:
        ctx.violation("h10sem failed to run (crash of its driver process, not of a watched worker)",
                      {"output": sem["out"][-3000:], "rc": sem.get("rc")}, found_input=False)
    else:
        for f in sem["failures"]:
            f.setdefault("flags", 0)
        a, _, c = common.report_oracle_failures(ctx, sem["failures"], "C09", binary="h10sem")
        n_sem, n_unknown = a, n_unknown + c
    if corr_bad and n_unknown == 0:
        legs = sorted({os.path.basename(s).split("_")[0] for s, _ in corr_bad})
        ctx.violation(
            "model and implementation disagree (%s legs); the C09 theorems no longer transfer to the code"
            % ",".join(legs),
            {"correspondence": "Syntax/Corr.v check_" + "/".join(legs), "theorems": common.C09_THEOREMS,
             "shards": [{"file": s, "coq_output": o} for s, o in corr_bad[:4]],
             "replay_cmd": "./check C09 --tier quick"},
            found_input=False)
    if not ok_make or (pr and not pr["ok"]):
        ctx.violation("Coq development for C09 does not check",
                      {"theorem_or_correspondence": "Props/C09.v (" + ", ".join(common.C09_THEOREMS) + ")",
                       "detail": (pr or {}).get("log", "")[-2000:], "hygiene": (pr or {}).get("hygiene"),
                       "unknown_axioms": (pr or {}).get("unknown_axioms")}, found_input=False)

    samples = []
    sp = os.path.join(h.get("cases_dir", ""), "samples.txt")
    if os.path.exists(sp):
        samples = [l for l in open(sp).read().splitlines() if l][:8]
    ctx.cov.update({
        "obligations": pr["obligations"] if pr else 0,
        "discharged": pr["discharged"] if pr else 0,
        "property_theorems": common.theorem_names(pr, "C09_"),
        "print_assumptions": (pr or {}).get("axioms", []),
        "closed_assumption_blocks": (pr or {}).get("closed_blocks", 0),
        "evaluations": summary.get("inputs", 0),
        "distinct_nontrivial": summary.get("distinct_nontrivial", 0),
        "rule": "inputs: every .cairo file under /repo/{corelib,examples,tests,crates}, the Cairo sections of "
                "crates/**/test_data files (+ a thin sample of their non-Cairo sections), hand-written edge cases "
                "incl. all two-character combinations of the punctuation alphabet, token soups, 1-3 rounds of "
                "char/token/range-level mutation of corpus windows (incl. NUL, form feed, lone CR, non-ASCII, "
                "unbalancing, truncation), truncation at every token boundary of sample files, 50 nesting shapes "
                "at depths up to 200. Each input runs through the real Lexer, Parser::parse_file + tree walk + "
                "Diagnostics::format, the Expr and StatementList file kinds, CairoFormatter::format_to_string and "
                "format_string, in a child process with a 1 GiB stack, under catch_unwind, with a 40 s watchdog "
                "(a hang is re-confirmed with 120 s before it counts). distinct_nontrivial = number of DISTINCT "
                "input texts whose real tree has at least one terminal besides EndOfFile (counted from the walked "
                "trees); inputs_with_parser_diagnostics in input_distribution says how many were malformed.",
        "input_distribution": summary,
        "traces_validated_against_impl": summary.get("lex_cases", 0) + summary.get("oplog_cases", 0)
        + summary.get("loops_cases", 0),
        "real_parser_loop_runs_watched": summary.get("real_parser_loop_runs_watched", 0),
        "real_parser_loop_iterations_watched": summary.get("real_parser_loop_iterations_watched", 0),
        "loop_runs_checked_in_coq_cases": summary.get("loops_cases", 0),
        "coq_case_shards": n_shards,
        "correspondence_disagreements": len(corr_bad),
        "oracle_failures_C09": n_mine,
        "semantic_leg": sem["summary"] or {"built": sem["ok_build"], "ran": sem["ran"]},
        "semantic_leg_failures": n_sem,
        "oracle_failures_of_other_property_seen": n_other,
        "oracle_failures_not_matching_a_known_finding": n_unknown,
        "samples": samples or ["(no samples: harness did not run)"],
    })
    return ctx.finish(
        "other",
        "THEOREM (Coq, about the MODEL only): C09_lexer_total_progress - for every text, lex_all ends with exactly "
        "one EndOfFile terminal, every other terminal has a non-empty token text, every trivium is non-empty, and "
        "the fuel (length+1) is never exhausted; C09_trivia_fuel_sufficient - the trivia loop's fuel is never "
        "exhausted; C09_diag_in_file - every diagnostic span produced by the token-plumbing model over any op "
        "sequence lies in [0, |source|]; C09_recovery_progress - the recovery loops parse_list, "
        "parse_separated_list_inner (incl. the missing-separator and forbid_trailing_separator paths) and "
        "skip_until, modelled over the plumbing model for an arbitrary element parser: every iteration either ends "
        "the loop or strictly decreases the unread text, so |unread|+1 fuel is never exhausted, PROVIDED the element "
        "parser keeps the plumbing invariant, never un-reads, consumes when it answers Ok (or DoNothing and the "
        "loop goes on), and should_stop holds at EndOfFile. Of these hypotheses, should_stop-at-EndOfFile is proved "
        "for all 39 stop predicates of parser.rs (C09_recovery_stop_sites), invariant/no-un-read is proved for every "
        "element parser acting through the plumbing operations (C09_recovery_element_ops), and the two consumption "
        "hypotheses are facts about ~60 unmodelled grammar functions: they are CHECKED on every iteration of the "
        "real loops of this run's Coq-leg inputs (hook loop events, Corr.v check_loops), not proved. The model is "
        "compared with the real Lexer (and the parser's op log) on this run's inputs inside Coq. The other parser "
        "loops (expression operators, paths, token trees, macro elements, modifiers, && conditions) are not "
        "modelled, only WATCHED: on every input of the run, two consecutive iterations of the same loop run must "
        "have consumed at least one byte (real_parser_loop_iterations_watched), else loop-no-progress is reported "
        "with the input; the watchdog catches any loop without an event. "
        "EXPLORATION (not proof): totality of the Rust code. Every input of the run goes through the real "
        "lexer, parser (three file kinds), diagnostics rendering and formatter in watched child processes; a "
        "panic, hang, process death, or diagnostic span outside the file / off a character boundary is a "
        "violation with the delta-debugged input as replay. Semantic and lowering diagnostics "
        "(DiagnosticsReporter::check on a one-file crate with the dev corelib) are exercised by a separate, smaller "
        "leg (h10sem: small corpus programs, one-round mutants, edge cases, and an attribute / inline-macro argument "
        "soup - every attribute and argument name found in /repo's plugin / semantic sources x ~105 argument-list "
        "forms (empty, missing parens, named, `=`, not()/and()/or() nestings with empty inner lists, every literal "
        "kind, trailing commas, duplicates, malformed) rotated over 25 placements (fn, struct, enum, member, variant, "
        "trait, trait item, impl, impl item, mod, use, const, extern, alias, statement, match arm, param, macro, ...), "
        "plus every inline macro x ~50 argument forms and malformed user macros; panic / hang / death only; the "
        "test and executable plugins are not loaded, their attribute names are exercised as unknown ones); plugins "
        "beyond the default suite and the language server are not exercised. "
        "LONG TAIL, stated plainly: the error paths of semantic analysis and lowering are not panic-free and this "
        "check does not claim they are. During construction the semantic leg was swept with 13 thorough runs "
        "(seeds 1-3 and 21-29, about 31,000 texts each, roughly 400,000 texts: small corpus programs and test-data "
        "sections <= 3 KB, one mutation each, plus the edge cases) and 10 distinct compiler panics were found "
        "(F6-F15: salsa dependency cycles, unwrap on Err(DiagnosticAdded), unreachable! in lowering, a diagnostic "
        "span past the end of the file); 6 were repaired in /repo, 4 salsa cycles (F7, F9, F12, F14) are listed "
        "in known_findings.txt and reported as KNOWN-FINDING by the panicking query. Almost every new seed found "
        "a new panic, so a seed not yet run may well find another one: a clean run of this leg means 'none in "
        "the texts of this run' (see semantic_leg in the coverage), nothing more. The parser / formatter side was "
        "swept with about 1.2 million texts (8 thorough runs) and has been clean since F1-F5, F1 being known.",
        common.TRUSTED,
        "make -C coq/Syntax && coqc coq/Props/C09.v (Print Assumptions); harness/target/debug/h10 out/C09/cases "
        "<tier> C09 -> coqc out/C09/cases/*.v",
    )
