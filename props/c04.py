"""C04 - gas charged always covers the actual execution cost."""
import vlib
from props import sierra_common as sc
from props import sierra_runtime as rt


def run(ctx):
    r = sc.run_common(ctx, "C04.v", ["C04_cost_bound"])
    # Coq side of the libfunc-level premise branch_dyn: path theorems over the wrapper set and over the freshly
    # compiled examples / bug samples / zoo (props/h03common.py; evidence key libfunc_path_theorems)
    from props import h03common as hc
    hc.path_theorems(ctx, ctx.out + "/corpus")
    cf = [f for f in r["static_failures"] if f["why"].startswith("libfunc_cost_ok")]
    for f in cf[:5]:
        ctx.violation("a libfunc branch executes more steps than its declared cost pays for: " + f["why"],
                      dict(f, replay_cmd="./check C04 --tier %s" % ctx.tier), found_input=True)
    if r["model_rejects"] and not cf:
        m = r["model_rejects"][0]
        ctx.violation("the real compiler accepts programs whose gas-wallet annotations the verified checker rejects: %s"
                      % ", ".join(m["programs"][:5]),
                      dict(m, theorem_or_correspondence="correspondence accept(real) => accept(model), C04_cost_bound",
                           replay_cmd="./check C04 --tier %s" % ctx.tier), found_input=False)
    ctx.cov["static_cost_paths_checked"] = r["summary"].get("static_cost_paths", 0)
    ctx.cov["static_failures"] = len(cf)
    # nested Starknet calls: self-checking gas tests (corpus/C04/gasproj) run by the test runner of the tree under test -
    # between two readings of the gas counter an inner contract / library call executes n loop iterations and then
    # succeeds or FAILS; the counter must drop by at least 100 gas per executed step either way
    import os
    ok_sn, _ = vlib.cargo_build(ctx, "h04sn")
    if not ok_sn:
        ctx.violation("harness h04sn does not build against the tree under test",
                      {"theorem_or_correspondence": "nested-call gas leg (harness/h04sn)"}, found_input=False)
    else:
        proj = os.path.join(vlib.ROOT, "corpus", "C04", "gasproj")
        rc, o = vlib.run([vlib.harness_bin("h04sn"), proj], timeout=1200, env=vlib.env_offline())
        tests = [l for l in o.splitlines() if l.startswith("test ") and " ... " in l]
        ctx.cov["nested_call_gas_tests"] = len(tests)
        ctx.cov["nested_call_gas_tests_failed"] = len([l for l in tests if " ... fail" in l])
        ctx.log("h04sn: %d nested-call gas tests, rc=%d" % (len(tests), rc))
        if rc == 1:
            fails = [l for l in o.splitlines() if " - Panicked" in l or " ... fail" in l]
            ctx.violation("gas charged does not cover the steps of an inner Starknet call: " + "; ".join(fails)[:600],
                          {"project": proj, "output": o[-3000:], "replay_cmd": "harness/target/debug/h04sn corpus/C04/gasproj"},
                          found_input=True)
        elif rc != 0 or not tests:
            ctx.violation("the nested-call gas project no longer compiles or runs with the tree under test",
                          {"theorem_or_correspondence": "nested-call gas leg (harness/h04sn)", "output": o[-3000:]},
                          found_input=False)
    # run-time leg: the property's own formula on real VM runs of corpus Cairo programs (both solvers)
    rres = rt.run_runtime(ctx)
    if not rres["ok"]:
        ctx.violation("run-time leg did not run: " + rres.get("error", "?")[:300],
                      {"theorem_or_correspondence": "run-time leg (harness/h14 h14run)", "detail": rres.get("error")},
                      found_input=False)
    for f in rt.failures_of(rres, "C04")[:5]:
        ctx.violation("gas charged does not cover the measured cost of a real run: " + str(f.get("what"))[:300], dict(f, replay_cmd="./check C04 --tier %s" % ctx.tier),
                      found_input=True)
    ctx.cov["runtime_leg"] = {k: v for k, v in rres.get("summary", {}).items() if isinstance(v, (int, float, str))}
    ctx.cov["runtime_failures"] = len(rt.failures_of(rres, "C04"))
    return ctx.finish(
        "proof",
        "Theorem (Coq): for every accepted program and every execution of any function f, at every point, actual cost "
        "minus gas withdrawn from the counter <= declared entry cost of f (C04_cost_bound; wallet-potential argument, "
        "nested calls derived from the callee's execution, call+ret = 2 steps checked against the callee's cost), for "
        "any non-negative token prices and whichever solver produced the metadata, provided each libfunc branch costs at "
        "most its declared branch cost (libfunc_cost_ok). Checked every run (exploration): (a) real-accepted programs "
        "(corpus + mutants; thorough tier: both solvers) are accepted by the model; (b) a necessary part of "
        "libfunc_cost_ok on the CASM the compiler emits now: 90*steps(path) <= declared Const cost for every internal "
        "path of every statement (range checks/holes are not counted statically).",
        sc.TRUSTED + ["libfunc-level premises (branch_dyn) are additionally PROVED, for the 2164 statements of the C03/C06 "
                      "wrapper set (503 libfunc instantiations), over the translator-regenerated code objects: "
                      "coq/Props/C17_libfuncs.v (C17_libfunc_ap_exact, C04_libfunc_steps_bound, C04_libfunc_cost_bound), "
                      "re-checked by ./check C03",
                      "static step count per path in harness/h15; builtin-token branches and gas/coupon libfuncs excluded"],
        "make coq/Sierra && coqc Props/C04.v ; harness/h15 <corpus> -> coqc out/C04/cases/acc_*.v",
    )
