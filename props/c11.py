"""C11 - formatting is idempotent and changes layout only, never code or comments.
Proof: Props/C11.v (comment re-wrapper keeps every word and comment kind; line breaker keeps every
token and comment for every tree and width; C09_linebreak_terminates).
Tie: hand models (C11/CommentWrap.v, C11/LineBreak.v) vs the implementation through the
cfg(cairo_verif) hook of cairo-lang-formatter (h11: cw_*.v, lb_*.v case shards).
Oracle (always on, decides the property on the code): for error-free inputs and every sampled
FormatterConfig: output parses, f(f(t)) == f(t), code tokens and tree shape unchanged modulo
optional tokens, comments unchanged as tagged word sequence."""
import hashlib
import json
import os
import sys

import vlib

sys.path.insert(0, os.path.join(vlib.ROOT, "lib"))
import corpus  # noqa: E402

TRUSTED = [
    "Coq 8.16.1 kernel + vm_compute (no native_compute)",
    "axioms: none (Print Assumptions: Closed under the global context for every C11 theorem)",
    "hand models C11/CommentWrap.v (CommentLine, format_leading_comment) and C11/LineBreak.v (LineComponent, "
    "LineBuilder, break_line_tree, build) of crates/cairo-lang-formatter/src/formatter_impl.rs, tied to the code "
    "by the correspondence run only; char::is_alphanumeric is a parameter of the model (theorems hold for every "
    "table; the run uses the table the implementation reports); str::trim/lines/len modelled over code points",
    "the tree walk (format_node/format_terminal, node_properties.rs), sorting and use-merging, and "
    "parse . format are not modelled: they are covered by the impl-level oracle only",
    "harness/h11 (case generator, Coq term printer, impl-level oracle, known-finding recognisers), lib/vlib.py, "
    "the cfg(cairo_verif) hook in cairo-lang-formatter (serialises the LineBuilder tree)",
]

THEOREMS = ["C11_comment_lines_words", "C11_comment_render", "C11_comment_words",
            "C11_comment_words_unsafe_refuted", "C11_comment_idempotent_refuted",
            "C09_linebreak_terminates", "C09_linebreak_measure",
            "C11_tokens_preserved", "C11_tokens_preserved_list", "C11_comments_preserved", "C11_build_string",
            "C11_linebreak_example", "C11_k1_k2_repaired", "C11_example"]


def write_corpus(ctx):
    """Every .cairo under corelib/examples/tests, the formatter's own test files, and the cairo
    snippets of crates/**/test_data, extracted from /repo's current tree."""
    cdir = os.path.join(ctx.out, "corpus")
    vlib.clean_dir(cdir)
    import glob
    paths = list(corpus.cairo_sources())
    paths += sorted(glob.glob("/repo/crates/cairo-lang-formatter/test_data/cairo_files/*.cairo"))
    paths += sorted(glob.glob("/repo/crates/cairo-lang-formatter/test_data/expected_results/*.cairo"))
    # inputs of the fixed (K1, K2) and known (K3-K8) findings, kept as regressions
    paths += sorted(glob.glob(os.path.join(vlib.ROOT, "corpus/C11/*.cairo")))
    n_files = len(paths)
    seen, n = set(), 0
    for _f, _key, t in corpus.test_data_cairo_snippets():
        h = hashlib.sha1(t.encode()).hexdigest()
        if h in seen:
            continue
        seen.add(h)
        p = os.path.join(cdir, "s%05d.cairo" % n)
        n += 1
        with open(p, "w") as fh:
            fh.write(t)
        paths.append(p)
    lst = os.path.join(ctx.out, "corpus.list")
    with open(lst, "w") as fh:
        fh.write("\n".join(paths) + "\n")
    return lst, n_files, n


def run(ctx):
    ok_build, _ = vlib.cargo_build(ctx, "h11")
    ok_make, _ = vlib.coq_make(ctx, "C11")
    cone = vlib.cone_files("C11")
    pr = vlib.check_properties_file(ctx, os.path.join(vlib.COQ, "Props/C11.v"), cone) if ok_make else None

    corr_bad, oracle_bad, summary = [], [], {}
    cases = os.path.join(ctx.out, "cases")
    n_files = n_snips = 0
    if ok_build:
        vlib.clean_dir(cases)
        fdir = os.path.join(cases, "failing")
        if os.path.isdir(fdir):
            vlib.clean_dir(fdir)
        lst, n_files, n_snips = write_corpus(ctx)
        rc, out = vlib.run([vlib.harness_bin("h11"), cases, ctx.tier, lst], timeout=7200 if ctx.thorough else 1500)
        ctx.log(out.strip().splitlines()[-1][:600] if out.strip() else "h11: no output")
        if rc != 0:
            ctx.violation("harness h11 failed to run", {"output": out[-2000:]}, found_input=False)
        else:
            summary = json.load(open(os.path.join(cases, "summary.json")))
            oracle_bad = json.load(open(os.path.join(cases, "oracle_failures.json")))
            if ok_make:
                for shard, ok, o in vlib.run_case_shards(ctx, cases, timeout=2400):
                    if not ok:
                        corr_bad.append((shard, o[:3000]))
    else:
        ctx.violation("harness does not build against /repo's working tree",
                      {"theorem_or_correspondence": "correspondence C11 (h11 build; hook "
                       "cairo_lang_formatter::formatter_impl::verif_hook)"}, found_input=False)

    # --- decide ---
    # 1. the oracle: every failure is a concrete input of the property on the real formatter;
    #    a failure whose recogniser names a root cause listed in known_findings.txt prints
    #    KNOWN-FINDING (once per finding), everything else is a violation.
    n_viol = 0
    for f in oracle_bad:
        cls = f.get("class")
        if cls in ("hang", "crash", "panic-format", "panic-reformat"):
            # totality of the formatter is C09's sentence, not C11's: reported, not raised here
            ctx.log("C09 candidate (formatter %s) on %s: %s" % (cls, f.get("input_file"), str(f.get("why"))[:200]))
            continue
        if n_viol >= 6 and not f.get("sig"):
            continue
        what = "formatter violates C11 (%s) under [%s]: %s" % (cls, f.get("config"), str(f.get("why"))[:300])
        before = len(ctx.violations)
        ctx.violation(what, f, found_input=True, fingerprint=f.get("sig") or None)
        if len(ctx.violations) > before:
            n_viol += 1
    # the oracle's own sensitivity: tampered formatter answers (dropped `;`, swapped arguments, lost comment
    # word, `//` -> `///`, trailing space, `(a,)` -> `(a)`) must all be reported as unrecognised failures
    st = summary.get("oracle_selftest") or {}
    for u in (st.get("undetected") or [])[:3]:
        ctx.violation("impl-level oracle does not notice a tampered formatter answer (%s): the check machinery "
                      "is broken" % u.get("tamper"), u, found_input=False)
    if ok_build and summary and not any(v.get("applied") for v in (st.get("by_tamper") or {}).values()):
        ctx.violation("oracle self-test did not apply any tampering", {"selftest": st}, found_input=False)
    hook_mismatch = (summary.get("cases") or {}).get("lb_hook_vs_get_formatted_file_mismatch") or []
    for m in hook_mismatch[:3]:
        ctx.violation("get_formatted_file differs from format_node + LineBuilder::build (hook replica of "
                      "get_formatted_string): the line-breaker tie no longer covers the public entry point",
                      m, found_input=False)
    # 2. correspondence
    if corr_bad and not n_viol:
        kinds = sorted({os.path.basename(s).split("_")[0] for s, _ in corr_bad})
        ctx.violation(
            "model and implementation disagree (%s legs); the C11 theorems no longer transfer to the code"
            % ",".join(kinds),
            {"correspondence": "C11/Corr.v check_" + "/".join(kinds),
             "shards": [{"file": s, "coq_output": o} for s, o in corr_bad[:4]],
             "replay_cmd": "./check C11 --tier quick"},
            found_input=False)
    # 3. proofs
    if not ok_make or (pr and not pr["ok"]):
        ctx.violation("Coq development for C11 does not check",
                      {"theorem_or_correspondence": "Props/C11.v (%s)" % ", ".join(THEOREMS),
                       "detail": (pr or {}).get("log", "")[-2000:],
                       "hygiene": (pr or {}).get("hygiene"), "unknown_axioms": (pr or {}).get("unknown_axioms")},
                      found_input=False)

    cs = summary.get("cases") or {}
    n_cases = cs.get("cw_cases", 0) + cs.get("lb_cases", 0)
    samples = []
    sp = os.path.join(cases, "samples.txt")
    if os.path.exists(sp):
        samples = open(sp).read().splitlines()[:8]
    for f in oracle_bad[:4]:
        samples.append("oracle failure %s [%s] %s: %s" % (f.get("class"), f.get("sig") or "unrecognised",
                                                         f.get("input_file"), str(f.get("why"))[:160]))
    c09 = [f for f in oracle_bad if f.get("class") in ("hang", "crash", "panic-format", "panic-reformat")]
    ctx.cov.update({
        "obligations": pr["obligations"] if pr else 0,
        "discharged": pr["discharged"] if pr else 0,
        "property_theorems": [t for t in THEOREMS if pr and t in pr.get("names", [])],
        "print_assumptions": (pr or {}).get("axioms", []),
        "evaluations": summary.get("evaluations", 0) + n_cases,
        "distinct_nontrivial": summary.get("distinct_input_output_pairs_changed", 0) + cs.get("cw_output_differs", 0)
        + cs.get("lb_outputs_over_3_lines", 0),
        "rule": "oracle evaluation = one (error-free input, FormatterConfig) pair checked for parse/idempotence/"
                "tokens/comments on the real formatter (inputs: corpus, layout mutants, generated programs, regression "
                "inputs, and the systematic adjacency inputs of harness/h11/src/adjacency.rs - see adjacency_inputs for "
                "the measured number that parse and the token-kind-pair coverage); non-trivial = the formatter changed the text (distinct "
                "(input hash, output hash) pairs, measured). Coq cases: comment cases whose output differs from the "
                "input + line-breaker trees whose output has more than 3 lines (measured by the harness).",
        "input_distribution": summary,
        "corpus_files": n_files, "corpus_snippets": n_snips,
        "adjacency_inputs": summary.get("adjacency", {}),
        "traces_validated_against_impl": n_cases,
        "correspondence_disagreements": len(corr_bad),
        "oracle_failures": len(oracle_bad),
        "oracle_failures_by_class": summary.get("failures_by_class", {}),
        "c09_candidates": c09[:5],
        "samples": samples or ["(no samples: harness did not run)"],
    })
    return ctx.finish(
        "proof",
        "Theorem (Coq, all inputs of the model): the comment re-wrapper keeps every word and the comment kind of "
        "every word, in order, for every indent/width (string level under comment_safe; the unconditional statement "
        "and idempotence of the re-wrapper are refuted = known findings K2, K1); the line breaker keeps every code "
        "token and comment for every LineBuilder tree, width and tab size whatever break choice the search makes "
        "(modulo commas at is_comma_if_broken points), and terminates with the explicit measure #break points + "
        "#protected zones. Exploration (not proof): idempotence f(f(t)) = f(t), parse_ok(f(t)), token/structure/"
        "comment preservation of the whole formatter incl. tree walk, sorting and use merging are decided on the "
        "real formatter by the impl-level oracle over the corpus, its layout mutants and generated programs for "
        "sampled points of the option lattice (all 768 points on a few small inputs); models are compared with the "
        "implementation through the hook on every run.",
        TRUSTED,
        "make -C coq C11/*.vo && coqc Props/C11.v (Print Assumptions) ; harness/h11 <out> <tier> <corpus.list> -> "
        "coqc out/C11/cases/{cw,lb}_*.v",
    )
