"""C14 - untrusted Sierra is handled totally: accepted or rejected, never a crash.

Proved kernel (Props/C14.v): the models of the felt252 deserialiser and of decompress (C18/Serde.v,
C18/Compress.v) are total and allocate within the input (C14_de_total_bounded,
C14_decompress_total); the model of the acceptance pass is total and acceptance puts every index the
later stages use in range (C14_annot_total, C14_accepted_in_range).  These fix what the answer must be.

Decision on the code (exploration, always on): harness/h14 runs every untrusted-input entry point of
/repo's current tree under catch_unwind inside watched child processes with an address-space cap -
felt vectors and mutants of valid serialisations through ContractClass::extract_sierra_program /
sierra_from_felt252s; every kind of single-point mutation and seeded k-point mutants (k <= 4) of
every corpus Sierra program through ProgramRegistryInfo::new, calc_metadata (linear solver, equation
solver with and without the cross-check), calc_metadata_ap_change_only, compile, assemble; the
repo's contract classes with edited versions / entry-point tables / programs through
CasmContractClass::from_contract_class.  A panic (identified by file:line), an abort, an allocation
beyond the cap or a hang is a violation with a minimised witness as replay."""
import json
import os

import corpus
import vlib

TRUSTED = [
    "Coq 8.16.1 kernel + vm_compute (no native_compute); axioms: none (Print Assumptions: Closed under the "
    "global context for the four C14 theorems)",
    "hand models C18/Serde.v, C18/Compress.v (felt252_serde.rs, felt252_vec_compression.rs; tied to the code by "
    "./check C18) and Sierra/Annot.v (acceptance pass; tied by ./check C15): the theorems are about the models",
    "absence of panics / hangs / unbounded allocation in the Rust code is explored, not proved: harness/h14 "
    "(mutation engine, process pool with watchdog and RLIMIT_AS cap, minimiser), lib/corpus.py, lib/vlib.py",
    "debug-profile build with overflow checks (as in /repo's release profile); a 256 MB worker stack",
]

WITNESSES = os.path.join(vlib.ROOT, "corpus", "C14", "witnesses")


def store_witnesses(run_dir=None):
    """Copies the witnesses of the findings of the last run into corpus/C14/witnesses (one file per site)."""
    import re
    run_dir = run_dir or os.path.join(vlib.OUT, "C14", "run")
    os.makedirs(WITNESSES, exist_ok=True)
    n = 0
    for f in json.load(open(os.path.join(run_dir, "findings.json"))):
        full = json.load(open(f["file"]))
        if full.get("stored_witness"):
            continue
        has_input = full.get("entry") or (isinstance(full.get("input"), dict) and full["input"].get("entry"))
        if not has_input:
            continue
        slug = re.sub(r"[^A-Za-z0-9.]+", "_", full["fingerprint"].replace("crates/", ""))[:110]
        dst = os.path.join(WITNESSES, slug + ".json")
        if os.path.exists(dst):
            old = json.load(open(dst))
            if old.get("size", 1 << 60) <= full.get("size", 1 << 60) and old.get("entry"):
                continue
        full.pop("file", None)
        json.dump(full, open(dst, "w"), indent=1)
        n += 1
    return n


THEOREMS = ["C14_de_total_bounded", "C14_decompress_total", "C14_annot_total", "C14_accepted_in_range"]


def describe(f):
    fp = f.get("fingerprint", "")
    if fp.startswith("panic "):
        p = f.get("panic", {})
        return "%s panics at %s: %s (reached from %s; %d inputs in this run)" % (
            p.get("at", "an entry point"), p.get("loc", fp[6:]), (p.get("msg") or "")[:160],
            ", ".join(f.get("reached_from", [])[:6]), f.get("count", 1))
    if fp.startswith("hang"):
        return "an entry point does not answer: %s on %s" % (f.get("what", ""), f.get("item", ""))
    return "the process running the entry points died: %s on %s" % (f.get("what", fp), f.get("item", ""))


def run(ctx):
    # the C14 binary alone, without the package's `run` feature: the Cairo compiler and the runner (needed
    # only by h14run, the C02 / C04 / C17 legs) are neither rebuilt nor linked
    import time
    t = time.time()
    rc, bout = vlib.run(["cargo", "build", "--offline", "-p", "h14", "--bin", "h14", "--no-default-features"],
                        cwd=vlib.HARNESS, timeout=3000)
    ctx.log("cargo build -p h14 --bin h14 --no-default-features: rc=%d (%.0fs)" % (rc, time.time() - t))
    ok_build = rc == 0
    if not ok_build:
        ctx.log("\n".join(bout.splitlines()[-40:]))
    ok_make, _ = vlib.coq_make(ctx, "C14")
    cone = vlib.cone_files("C14")
    pr = vlib.check_properties_file(ctx, os.path.join(vlib.COQ, "Props/C14.v"), cone) if ok_make else None

    summary, findings, incons, samples = {}, [], [], []
    run_dir = os.path.join(ctx.out, "run")
    if ok_build:
        cdir = os.path.join(ctx.out, "corpus")
        n = corpus.sierra_corpus(cdir)
        ctx.log("extracted %d Sierra programs from /repo" % n)
        vlib.clean_dir(run_dir)
        vlib.clean_dir(os.path.join(run_dir, "jobs"))
        env = vlib.env_offline()
        # jobs not started by the deadline are skipped and counted (shared machine): the tier's wall-time budget
        env.setdefault("H14_DEADLINE_S", "1500" if ctx.thorough else "175")
        # witnesses of earlier findings are re-run first on every run (seed-independent detection of known sites)
        env.setdefault("H14_WITNESSES", WITNESSES)
        rc, out = vlib.run([vlib.harness_bin("h14"), cdir, run_dir, ctx.tier], timeout=4000 if ctx.thorough else 900,
                           env=env)
        if rc != 0 or not os.path.exists(os.path.join(run_dir, "summary.json")):
            ctx.violation("harness h14 failed to run", {"output": out[-3000:]}, found_input=False)
        else:
            summary = json.load(open(os.path.join(run_dir, "summary.json")))
            ctx.log("h14: %d items, %d finding sites, %.0fs" % (summary.get("items", 0), summary.get("finding_sites", 0),
                                                                 summary.get("seconds", 0)))
            findings = json.load(open(os.path.join(run_dir, "findings.json")))
            incons = json.load(open(os.path.join(run_dir, "consistency_failures.json")))
            samples = [l for l in open(os.path.join(run_dir, "samples.txt")).read().splitlines() if l]
    else:
        ctx.violation("harness h14 does not build against /repo's working tree",
                      {"theorem_or_correspondence": "exploration harness (h14 build)"}, found_input=False)

    # ---- decide ----
    for f in findings:
        full = f
        try:
            full = json.load(open(f["file"]))
        except Exception:
            pass
        replay = dict(full)
        replay["replay_cmd"] = "%s replay %s" % (vlib.harness_bin("h14"), f.get("file", ""))
        msg = (f.get("panic") or {}).get("class", "")
        ctx.violation(describe(f), replay, found_input=True, fingerprint="%s %s" % (f.get("fingerprint", ""), msg))
    for e in incons[:5]:
        ctx.violation("the two deserialisation entry points disagree: %s" % e.get("inconsistent"),
                      dict(e, replay_cmd="./check C14 --tier %s" % ctx.tier), found_input=True,
                      fingerprint="inconsistent-deserialisation")
    if not ok_make or (pr and not pr["ok"]):
        ctx.violation("Coq development for C14 does not check",
                      {"theorem_or_correspondence": "Props/C14.v (%s)" % ", ".join(THEOREMS),
                       "detail": (pr or {}).get("log", "")[-2000:], "hygiene": (pr or {}).get("hygiene"),
                       "unknown_axioms": (pr or {}).get("unknown_axioms")}, found_input=False)

    s = summary
    ctx.cov.update({
        "obligations": pr["obligations"] if pr else 0,
        "discharged": pr["discharged"] if pr else 0,
        "property_theorems": THEOREMS,
        "print_assumptions": (pr or {}).get("axioms", []),
        "evaluations": s.get("items", 0),
        "distinct_nontrivial": s.get("distinct_nontrivial", 0),
        "rule": "inputs: (felt level) every corpus program renumbered and serialised, and the sierra_program of every "
                "contract class in /repo: the valid vector; boundary values (old+-1, 0, 2^32, 2^63, 2^64-1, 2^64, 2^128-1, 2^128, "
                "2^251, P-1, P, len, len+1) at every / sampled positions of the packed vector and of the decompressed "
                "length-prefixed vector (re-compressed), truncation / deletion / insertion at those positions; random vectors; "
                "(program level) base + single-point mutants by 57 operators (statement delete/swap/dup, arg/result/return "
                "variable edits, branch retarget incl. self/out of range/usize::MAX, branch drop/dup/swap, libfunc swap, entry "
                "point moves, signature/param edits, function delete/dup/id swap, type/libfunc declaration "
                "delete/dup/reorder/id swap/generic id/declared info, generic-arg value edits incl. sign and magnitude up to "
                "2^1000, kind/arity edits) + k-point mutants (k=2..4); (class level) Sierra versions, entry-point table edits, "
                "bytecode limits, program mutants; (boundary templates) programs built so that a number sits at / one below / one above "
                "an arithmetic boundary: types of exactly 2^15-2..2^15+1, 2^16-1..2^16+1, halves and thirds cells (struct doubling "
                "chains + filler, flat structs, other size-1/size-2 bases), enums / wrappers (Box, Nullable, Snapshot, Uninitialized, "
                "NonZero, Array, Span) / Const over them, U96LimbsLtGuarantee limb counts at 2^14..2^128 +-1, functions moving such "
                "values (identity, locals, calls, 2 and 3 parameters, const_as_box) and, generically, EVERY libfunc of the corpus "
                "that takes a type, instantiated over 12 candidate big types and wrapped in a function synthesised from its real "
                "signature (with and without a big value carried across it), statement / parameter / enum-variant / struct-member / "
                "function / declaration counts at 2^15 and 2^16 +-1; each also serialised and pushed through extract_sierra_program "
                "and from_contract_class; (JSON level) the class files with numbers / strings / shapes at their boundaries. Quick tier samples per program, thorough enumerates all single-point "
                "mutants of programs up to 300 statements. distinct = hash of the input; non-trivial = the input got past the "
                "first validation stage (deserialised / registry built / class reached compilation), counted by the harness.",
        "input_distribution": s,
        "boundary_templates": s.get("boundary_templates", 0),
        "boundary_templates_applicable": s.get("boundary_templates_applicable", 0),
        "boundary_template_arithmetic_sites": s.get("boundary_template_sites", []),
        "finding_sites_this_run": len(findings),
        "consistency_failures": len(incons),
        "samples": samples or ["(harness did not run)"],
    })
    return ctx.finish(
        "other",
        "Proved kernel + exploration. Theorems (Coq, all inputs): the models of the felt252 deserialiser and of "
        "decompress are total, every vec_with_bounded_capacity request satisfies size <= remaining <= |input|, decompress's "
        "single allocation is <= 31 slots per input felt and its output has exactly the declared length and only in-range "
        "table reads; the model of the acceptance pass is total and acceptance implies all branch targets / entry points / "
        "callees are in range. What decides the property on the code is exploration (not proof): every untrusted-input "
        "entry point is run on mutants of every corpus program / serialisation / class in watched, memory-capped child "
        "processes; any panic, abort or hang is reported with a minimised witness.",
        TRUSTED,
        "make coq/C14 && coqc Props/C14.v (Print Assumptions) ; harness/h14 <corpus> out/C14/run <tier>",
    )
