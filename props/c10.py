"""C10 - the syntax tree is lossless: it reproduces the source byte for byte.

Proof (coq/Props/C10.v over coq/Syntax): the lexer model hands out every character exactly once and
in order (no bound on the input); green widths / red offsets index the text; the parser's token
plumbing keeps `emitted ++ pending ++ look-ahead ++ rest = source` over every op sequence.
Tie: the real Lexer, real red trees (and the plumbing op log) vs the models on the same inputs,
compared inside Coq (harness/h10 -> out/C10/cases/*.v).
Decision on the implementation: harness/h10's impl-level oracle walks the real SyntaxNode tree of
every input (watched child processes) - this is also the search on a break.

This module also holds the machinery shared with props/c09.py (same harness, other emphasis)."""
import json
import os
import shutil

import vlib

# shared machine: at most 6 coqc and 4 cargo jobs at a time (override with VERIF_COQ_JOBS / CARGO_BUILD_JOBS)
vlib.NCPU = min(vlib.NCPU, int(os.environ.get("VERIF_COQ_JOBS", "6")))
os.environ.setdefault("CARGO_BUILD_JOBS", "4")

PKG = "h10"
LIB = "Syntax"

TRUSTED = [
    "Coq 8.16.1 kernel + vm_compute (no native_compute)",
    "axioms: none expected (Print Assumptions of every theorem is reported under print_assumptions)",
    "hand models coq/Syntax/Lexer.v (lexer.rs), Green.v (green.rs, node/mod.rs offsets, generator.rs "
    "new_green width), TokenStream.v (parser.rs token plumbing), tied to /repo's working tree by the "
    "correspondence run only",
    "the cfg(cairo_verif) op-log hook in cairo-lang-parser (/repo commits 7354470 + b48894d, add-only, logging "
    "only; loop-iteration events 83d2696) and harness/h10/src/hook.rs that turns the log into Coq terms",
    "harness/h10: input generators, Coq term printers, the impl-level oracle (tree walk written from the "
    "property text), the F1 signature matcher that labels the known finding; lib/vlib.py",
    "the grammar code of parser.rs (which op comes next, and that every green handed out is placed in the "
    "tree) is not modelled: checked per input on the real tree, not proved",
]

C10_THEOREMS = ["C10_lexer_lossless", "C10_lexer_widths", "C10_widths", "C10_spans",
                "C10_plumbing_invariant", "C10_file_lossless"]
C09_THEOREMS = ["C09_lexer_total_progress", "C09_trivia_fuel_sufficient", "C09_diag_in_file",
                "C09_recovery_progress", "C09_recovery_stop_sites", "C09_recovery_element_ops",
                "C09_recovery_entry"]


def run_harness(ctx, prop):
    """Builds and runs h10 for `prop`; returns dict(ok_build, ran, summary, failures, cases_dir, out)."""
    res = {"ok_build": False, "ran": False, "summary": {}, "failures": [], "out": ""}
    ok_build, out = vlib.cargo_build(ctx, PKG)
    # the harness workspace globs its members: while another engineer's package is half-written cargo
    # cannot load the workspace at all - that says nothing about h10 or /repo; wait and retry
    import time
    tries = 0
    while (not ok_build and tries < 12 and "failed to load manifest for workspace member" in out
           and "/harness/%s`" % PKG not in out):
        tries += 1
        ctx.log("cargo workspace not loadable (another member is incomplete), retry %d" % tries)
        time.sleep(15)
        ok_build, out = vlib.cargo_build(ctx, PKG)
    res["ok_build"] = ok_build
    res["out"] = out
    cases = os.path.join(ctx.out, "cases")
    res["cases_dir"] = cases
    if not ok_build:
        return res
    vlib.clean_dir(cases)
    timeout = 7200 if ctx.thorough else 1500
    rc, out = vlib.run([vlib.harness_bin(PKG), cases, ctx.tier, prop], timeout=timeout)
    res["out"] = out
    last = out.strip().splitlines()[-1] if out.strip() else "h10: no output"
    ctx.log(last)
    if rc != 0 or not os.path.exists(os.path.join(cases, "summary.json")):
        res["rc"] = rc
        return res
    res["ran"] = True
    res["summary"] = json.load(open(os.path.join(cases, "summary.json")))
    res["failures"] = json.load(open(os.path.join(cases, "oracle_failures.json")))
    return res


def report_oracle_failures(ctx, failures, prop, binary=PKG):
    """Impl-level oracle failures of `prop` -> violations (KNOWN-FINDING when the signature is listed in
    known_findings.txt).  Returns (n_reported_as_violation_or_known, n_other_property)."""
    mine = [f for f in failures if f["property"] == prop]
    other = [f for f in failures if f["property"] != prop]
    n_unknown = 0
    for f in mine:
        # keep the failing input next to the replay file (the cases dir is cleaned on the next run)
        keep = os.path.join(ctx.out, "failing-%s-%d.txt" % (f["class"], ctx.n_replay + 1))
        try:
            shutil.copyfile(f["input_file"], keep)
        except OSError:
            open(keep, "w").write(f["input"])
        what = {
            "C10": "the real syntax tree is not lossless (%s): %s",
            "C09": "the real front end is not total (%s): %s",
        }[prop] % (f["class"], f["why"])
        fingerprint = "%s %s" % (f.get("sig") or "unclassified", f["class"])
        before = len(ctx.violations)
        if before >= 6 and not f.get("sig"):
            continue  # enough replays; the count is in the evidence
        ctx.violation(
            what,
            {"input": f["input"], "input_bytes_hex": f["input_bytes_hex"], "input_file": keep,
             "class": f["class"], "signature": f.get("sig", ""), "category": f["category"],
             "origin": f["origin"], "original_len": f["original_len"], "ddmin_tests": f["ddmin_tests"],
             "replay_cmd": "%s replay %s %d" % (vlib.harness_bin(binary), keep, f["flags"])},
            found_input=True, fingerprint=fingerprint)
        if len(ctx.violations) > before:
            n_unknown += 1
    return len(mine), len(other), n_unknown


def run_coq(ctx, props_file):
    ok_make, out = vlib.coq_make(ctx, LIB)
    cone = vlib.cone_files(LIB)
    pr = vlib.check_properties_file(ctx, os.path.join(vlib.COQ, "Props", props_file), cone) if ok_make else None
    return ok_make, pr


def eval_shards(ctx, cases, ok_make):
    bad = []
    n = 0
    if ok_make:
        for shard, ok, o in vlib.run_case_shards(ctx, cases, timeout=3000 if ctx.thorough else 1500):
            n += 1
            if not ok:
                bad.append((shard, o[:3000]))
    return n, bad


def theorem_names(pr, prefix):
    return [n for n in (pr or {}).get("names", []) if n.startswith(prefix)]


def run(ctx):
    h = run_harness(ctx, "C10")
    ok_make, pr = run_coq(ctx, "C10.v")
    summary = h["summary"]
    corr_bad, n_shards = [], 0
    if not h["ok_build"]:
        ctx.violation("harness h10 does not build against /repo's working tree",
                      {"theorem_or_correspondence": "correspondence C10 (h10 build)", "detail": h["out"][-3000:]},
                      found_input=False)
    elif not h["ran"]:
        ctx.violation("harness h10 failed to run (crash of the driver process, not of a watched worker)",
                      {"output": h["out"][-3000:], "rc": h.get("rc")}, found_input=False)
    else:
        n_shards, corr_bad = eval_shards(ctx, h["cases_dir"], ok_make)

    # ---- decide ----
    n_mine = n_other = n_unknown = 0
    if h["ran"]:
        n_mine, n_other, n_unknown = report_oracle_failures(ctx, h["failures"], "C10")
    if corr_bad and n_unknown == 0:
        legs = sorted({os.path.basename(s).split("_")[0] for s, _ in corr_bad})
        # The search for a failing input of the property itself is the impl-level oracle above (every
        # input of this run was walked on the real tree); it found nothing beyond known findings.
        ctx.violation(
            "model and implementation disagree (%s legs); the C10 theorems no longer transfer to the code"
            % ",".join(legs),
            {"correspondence": "Syntax/Corr.v check_" + "/".join(legs),
             "theorems": C10_THEOREMS,
             "shards": [{"file": s, "coq_output": o} for s, o in corr_bad[:4]],
             "replay_cmd": "./check C10 --tier quick"},
            found_input=False)
    if not ok_make or (pr and not pr["ok"]):
        ctx.violation("Coq development for C10 does not check",
                      {"theorem_or_correspondence": "Props/C10.v (" + ", ".join(C10_THEOREMS) + ")",
                       "detail": (pr or {}).get("log", "")[-2000:], "hygiene": (pr or {}).get("hygiene"),
                       "unknown_axioms": (pr or {}).get("unknown_axioms")}, found_input=False)

    samples = []
    sp = os.path.join(h.get("cases_dir", ""), "samples.txt")
    if os.path.exists(sp):
        samples = [l for l in open(sp).read().splitlines() if l][:8]
    ctx.cov.update({
        "obligations": pr["obligations"] if pr else 0,
        "discharged": pr["discharged"] if pr else 0,
        "property_theorems": theorem_names(pr, "C10_"),
        "print_assumptions": (pr or {}).get("axioms", []),
        "closed_assumption_blocks": (pr or {}).get("closed_blocks", 0),
        "evaluations": summary.get("inputs", 0),
        "distinct_nontrivial": summary.get("distinct_nontrivial", 0),
        "rule": "inputs: every .cairo file under /repo/{corelib,examples,tests,crates}, the Cairo sections of "
                "crates/**/test_data files (+ a thin sample of their non-Cairo sections), chunks of those files, "
                "hand-written edge cases incl. all two-character combinations of the punctuation alphabet, token "
                "soups from the punctuation/keyword/literal table, 1-3 rounds of char/token/range-level mutation "
                "of corpus windows (delete, insert noise incl. NUL / form feed / lone CR / non-ASCII, replace, "
                "swap, duplicate, transplant, unbalance, truncate), truncation at every token boundary of sample "
                "files, 50 nesting shapes at depths up to 200. Every input is parsed by the real "
                "Parser::parse_file in a watched child process and its real SyntaxNode tree is walked by the "
                "oracle. distinct_nontrivial = number of DISTINCT input texts whose real tree has at least one "
                "terminal besides EndOfFile (counted by the harness from the walked trees). A subset "
                "(lex_cases / tree_cases in input_distribution) is also evaluated inside Coq against the models.",
        "input_distribution": summary,
        "traces_validated_against_impl": summary.get("lex_cases", 0) + summary.get("tree_cases", 0)
        + summary.get("oplog_cases", 0) + summary.get("loops_cases", 0),
        "coq_case_shards": n_shards,
        "correspondence_disagreements": len(corr_bad),
        "oracle_failures_C10": n_mine,
        "oracle_failures_of_other_property_seen": n_other,
        "oracle_failures_not_matching_a_known_finding": n_unknown,
        "samples": samples or ["(no samples: harness did not run)"],
    })
    return ctx.finish(
        "proof",
        "THEOREM (Coq, all inputs, no size bound): C10_lexer_lossless - concatenating leading trivia ++ text ++ "
        "trailing trivia of the terminals of lex_all s gives s; C10_lexer_widths - their byte widths add up to "
        "the file length; C10_widths / C10_spans - in every well-formed green tree width = byte length of the "
        "text below, a red node's offset = bytes before it, its text = the slice of the file at its span, its "
        "span = concatenation of its children's spans, the root spans the file; C10_plumbing_invariant - for "
        "every sequence of parser token-plumbing operations (every grammar, every recovery decision) "
        "emitted ++ pending ++ look-ahead ++ unread = source and the offset bookkeeping is exact "
        "(see Props/C10.v for what is stated _partial). "
        "EXPLORATION (not proof): the models are hand-written; they are compared with the real Lexer, real red "
        "trees and the real parser's op log on the inputs of this run inside Coq. That the grammar code of "
        "parser.rs puts every green it is handed into the tree is NOT a theorem: it is checked per input by the "
        "impl-level oracle on the real tree (preorder token concatenation == input, offsets, widths, children "
        "spans, get_text, root span), which is also what decides a violation.",
        TRUSTED,
        "make -C coq/Syntax && coqc coq/Props/C10.v (Print Assumptions); harness/target/debug/h10 out/C10/cases "
        "<tier> C10 -> coqc out/C10/cases/*.v",
    )
