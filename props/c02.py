"""C02 - accepted Sierra always runs to completion: it returns, never fails in the VM.

Proved kernel (Props/C02.v, over Sierra/Annot.v + Sierra/Sem.v): C02_progress - every reachable configuration
of an accepted program is safe and, at a libfunc that is not a call, every branch has a successor; C02_cycles_pay -
in a gas-checked accepted program the declared costs around every cycle sum to zero for every price vector, so a
cycle with a positively priced branch goes through a gas-withdrawing branch.

Decision on the code (exploration, always on): harness/h14's second binary compiles the corpus Cairo programs
(/repo/examples, the cairo_code sections of tests/e2e_test_data, tests/bug_samples) with the current compiler and
runs every function with scalar parameters on the real VM (both metadata configurations, boundary and seeded inputs,
gas budgets 0 / entry cost / exact consumption +-1 / large): Err(RunnerError::CairoRunError) - a VM-level failure -,
a panic of the runner or a hang is the violation; Sierra-level panic values and out-of-gas panics are fine."""
import os

import vlib
from props import sierra_runtime as rt

TRUSTED = [
    "Coq 8.16.1 kernel + vm_compute (no native_compute); axioms: none (Print Assumptions: Closed under the global "
    "context for C02_progress, C02_cycles_pay)",
    "hand model Sierra/Annot.v of the acceptance pass and the abstract machine Sierra/Sem.v (tied to the code by "
    "./check C15): libfunc branches are opaque steps within their declared ap change / cost - that each libfunc's CASM "
    "with honest hints never fails in the VM is NOT modelled; it is explored by the runs",
    "harness/h14 (h14run: compile + run + oracles), props/sierra_runtime.py (source extraction), cairo-vm 3.2.0 and "
    "cairo-lang-runner's hint processor as the executing machine",
]
THEOREMS = ["C02_progress", "C02_cycles_pay"]


def run(ctx):
    ok_make, _ = vlib.coq_make(ctx, "C02")
    cone = vlib.cone_files("C02")
    pr = vlib.check_properties_file(ctx, os.path.join(vlib.COQ, "Props/C02.v"), cone) if ok_make else None
    res = rt.run_runtime(ctx)
    if not res["ok"]:
        ctx.violation(res.get("error", "run-time harness failed"), {"theorem_or_correspondence": "exploration (h14run)"},
                      found_input=False)
    bad = rt.failures_of(res, "C02")
    seen = set()
    for f in bad:
        key = (f["program"], f["function"], f["what"][:60])
        if key in seen or len(seen) >= 8:
            continue
        seen.add(key)
        ctx.violation("an accepted program does not run to completion: %s(%s) with gas %s [%s]: %s"
                      % (f["function"] or f["program"], f["args"], f["gas"], f["solver"], f["what"][:300]),
                      dict(f, source=os.path.join(ctx.out, "rt_sources", f["program"] + ".cairo")
                           if not f["program"].endswith(".cairo") else f["program"],
                           replay_cmd="VERIF_SEED=%d ./check C02 --tier %s" % (ctx.seed, ctx.tier)),
                      found_input=True, fingerprint="vm-failure %s %s" % (f["function"] or f["program"], f["what"][:80]))
    if not ok_make or (pr and not pr["ok"]):
        ctx.violation("Coq development for C02 does not check",
                      {"theorem_or_correspondence": "Props/C02.v (%s)" % ", ".join(THEOREMS),
                       "detail": (pr or {}).get("log", "")[-2000:], "hygiene": (pr or {}).get("hygiene"),
                       "unknown_axioms": (pr or {}).get("unknown_axioms")}, found_input=False)
    s = res["summary"]
    ctx.cov.update({
        "obligations": pr["obligations"] if pr else 0,
        "discharged": pr["discharged"] if pr else 0,
        "property_theorems": THEOREMS,
        "print_assumptions": (pr or {}).get("axioms", []),
        "programs": s.get("compiled", 0),
        "evaluations": s.get("runs", 0),
        "distinct_nontrivial": s.get("distinct_traces", 0),
        "rule": "sources: /repo/examples/*.cairo, every cairo_code section of tests/e2e_test_data, tests/bug_samples (test "
                "attributes stripped so that tests become plain functions), each a single-file crate compiled with the current "
                "compiler (auto withdraw_gas on, experimental features on, starknet + assert plugins); every function of the crate "
                "whose user parameters are scalars/tuples/arrays of integers; argument vectors all-min, all-max, zero/one, seeded "
                "mixes with near-boundary values; gas budgets entry cost -1/+0/+1/+100/+3000, 0, exact consumption -1/+0/+1, entry "
                "cost + 10^7; both metadata configurations; plus seeded single-point mutants of the compiled programs that the real "
                "pipeline accepts (function table unchanged), run the same way. evaluations = VM runs; distinct_nontrivial = number of distinct "
                "program-counter traces (hash of the relocated trace's pcs inside the program) among the completed runs.",
        "input_distribution": {k: v for k, v in s.items() if k != "configs_refused"},
        "sources": res["sources"],
        "not_compiled_sources": len(res["not_compiled"]),
        "metadata_configs_refused": s.get("configs_refused", [])[:12],
        "traces_validated_against_impl": s.get("runs_ok", 0),
        "accepted_mutants_run": s.get("mutants_accepted", 0),
        "c02_failures": len(bad),
        "samples": res["samples"] or ["(harness did not run)"],
    })
    return ctx.finish(
        "other",
        "Proved kernel + exploration. Theorems (Coq): progress of every reachable configuration of an accepted program in "
        "the abstract Sierra machine (no missing argument, no type confusion, every branch of a non-call libfunc has a "
        "successor inside the program) and the gas argument against free loops (declared costs around any cycle sum to zero "
        "for every price vector, so a positively priced cycle contains a withdrawing branch). The property itself - the VM run "
        "of the emitted CASM with honest hints never fails - depends on every libfunc's code and hint and is decided by "
        "exploration: corpus programs are compiled and run on the real VM on boundary and seeded inputs with several gas "
        "budgets; a VM-level error, runner panic or hang is the violation.",
        TRUSTED,
        "make coq/C02 && coqc Props/C02.v (Print Assumptions) ; harness/h14run <sources> out/C02/rt_run <tier>",
    )
