(* the completeness statement unfolded once *)
Theorem C06_u8_overflowing_add_complete_unfolded : forall a b,
  0 <= a < 2 ^ 8 -> 0 <= b < 2 ^ 8 ->
  outputs (run_honest code_u8_overflowing_add entry_u8_overflowing_add 200 [RC0; a; b]) 3
  = Some (if a + b <? 2 ^ 8
          then [Some (RC0 + 1); Some 0; Some (a + b)]
          else [Some (RC0 + 1); Some 1; Some (a + b - 2 ^ 8)]).
Proof.
  intros a b Ha Hb.
  pose proof (u8_overflowing_add_complete a b Ha Hb ltac:(discriminate)) as H.
  unfold run_outputs, sp_uarith, uadd in H. cbn [fst snd] in H.
  destruct (a + b <? 2 ^ 8); cbn [List.length map] in H; exact H.
Qed.

(* non-vacuity / what the objects look like: 200 + 100 on u8 *)
Example C06_example :
  outputs (run_honest code_u8_overflowing_add entry_u8_overflowing_add 200 [RC0; 200; 100]) 3
    = Some [Some (RC0 + 1); Some 1; Some 44]
  /\ eval Ops.OAdd (U 8) [200; 100] = Some (Panic [0x75385f616464204f766572666c6f77] (* the felt of the short string `u8_add Overflow` *))
  /\ eval Ops.ORem (Ops.I 8) [-128; -1] = Some (Success [0]).
Proof.
  split; [vm_compute; reflexivity|]. split; vm_compute; reflexivity.
Qed.

