#!/usr/bin/env python3
"""Writes coq/Props/C03.v and coq/Props/C06.v from the table of verified libfuncs below (the leaf
files only restate each theorem with `exact`, so they are mechanical; run by hand after adding a
theorem to coq/Libfuncs and commit the result)."""
import os

ROOT = os.path.dirname(os.path.dirname(os.path.abspath(__file__)))
WS = (8, 16, 32, 64, 128)
UPCASTS = sorted(f[:-6] for f in os.listdir(os.path.join(ROOT, "wrappers")) if f.startswith("upcast_"))

# (wrapper, statement (applied to code/entry), library file)
SOUND = []
for w in WS:
    SOUND.append((f"u{w}_overflowing_add", f"uarith_sound uadd {w}", "UAddSub"))
for w in WS:
    SOUND.append((f"u{w}_overflowing_sub", f"uarith_sound usub {w}", "UAddSub"))
for t in "ui":
    for w in WS:
        SOUND.append((f"{t}{w}_eq", "eq_sound", "Simple"))
SOUND.append(("felt252_is_zero", "felt_is_zero_sound", "Simple"))
for w in WS:
    SOUND.append((f"u{w}_is_zero", "is_zero_sound", "Simple"))
for t in "ui":
    for w in WS:
        SOUND.append((f"{t}{w}_to_felt252", "ident_sound", "Simple"))
for w in WS[:4]:
    SOUND.append((f"u{w}_wide_mul", f"uwide_mul_sound {w}", "Mul"))
for w in WS[:4]:
    SOUND.append((f"i{w}_wide_mul", f"iwide_mul_sound {w}", "Mul"))
SOUND.append(("felt252_add", "felt_binop_sound fadd", "Mul"))
SOUND.append(("felt252_sub", "felt_binop_sound fsub", "Mul"))
SOUND.append(("felt252_mul", "felt_binop_sound fmul", "Mul"))
for u in UPCASTS:
    SOUND.append((u, "ident_sound", "Mul"))
for w in WS[:4]:
    SOUND.append((f"u{w}_safe_divmod", f"udivmod_sound {w} 3", f"DivMod_u{w}"))
SOUND.append(("u128_safe_divmod", "udivmod_sound 128 4", "DivMod_u128"))
for w in WS:
    SOUND.append((f"u{w}_sqrt", f"usqrt_sound {w}", "Sqrt"))
for w in WS:
    SOUND.append((f"i{w}_overflowing_add", f"iarith_sound Z.add {w} " + ("1 1" if w == 128 else "2 1"), "IAdd"))
for w in WS:
    SOUND.append((f"i{w}_overflowing_sub", f"iarith_sound Z.sub {w} " + ("1 1" if w == 128 else "2 1"), "ISub"))

EXTRA = os.path.join(ROOT, "props", "gen_h03_props_extra.py")
UP8 = [u for u in UPCASTS if u.startswith("upcast_u8_") or u.startswith("upcast_i8_")]
COMPLETE = [
    ("u8_overflowing_add", "uarith_complete uadd 8", "C8a"),
    ("u8_overflowing_sub", "uarith_complete usub 8", "C8a"),
    ("u8_eq", "ueq_complete 8", "C8a"),
    ("u8_wide_mul", "uwide_mul_complete 8", "C8a"),
    ("u8_safe_divmod", "udivmod_complete 8 3", "C8a"),
    ("i8_overflowing_add", "iarith_complete Z.add 8 2 1", "C8b1"),
    ("i8_overflowing_sub", "iarith_complete Z.sub 8 2 1", "C8b2"),
    ("i8_eq", "ieq_complete 8", "C8b3"),
    ("i8_wide_mul", "iwide_mul_complete 8", "C8b4"),
    ("u8_is_zero", "is_zero_complete 8", "C8c"),
    ("u8_to_felt252", "uident_complete 8", "C8c"),
    ("u8_sqrt", "usqrt_complete 8", "C8c"),
    ("i8_to_felt252", "iident_complete 8", "C8c"),
] + [(u, ("uident_complete 8" if u.startswith("upcast_u8") else "iident_complete 8"), "C8c") for u in UP8]
if os.path.exists(EXTRA):
    exec(open(EXTRA).read())


def imports(entries):
    libs = []
    for _, _, l in entries:
        if l not in libs:
            libs.append(l)
    ws = sorted({w for w, _, _ in entries})
    return libs, ws


def wrap(names, prefix, width=96):
    lines, cur = [], prefix
    for n in names:
        if len(cur) + len(n) + 1 > width:
            lines.append(cur)
            cur = "  " + n
        else:
            cur += (" " if cur.strip() else "") + n if cur != prefix else n
    lines.append(cur)
    return "\n".join(lines)


def c03():
    libs, ws = imports(SOUND)
    out = open(os.path.join(ROOT, "props", "c03_header.v")).read()
    out += "From Libfuncs Require Import Stmt %s.\n" % " ".join(libs)
    out += wrap(["W_" + w for w in ws], "From GenC03 Require Import ") + ".\n\n"
    out += open(os.path.join(ROOT, "props", "c03_body.v")).read()
    for w, st, _ in SOUND:
        out += "Theorem C03_%s : %s code_%s entry_%s.\nProof. exact %s_sound. Qed.\n" % (w, st, w, w, w)
    out += "\n" + open(os.path.join(ROOT, "props", "c03_tail.v")).read()
    # one bundle holding every theorem above: its assumptions are the union of theirs
    out += "Definition C03_all_theorems :=\n  (" + ",\n   ".join(["C03_symex_sound"] + ["C03_%s" % w for w, _, _ in SOUND]
                                                             + ["C03_u8_overflowing_add_unfolded", "C03_example"]) + ").\n"
    out += "Print Assumptions C03_all_theorems.\n"
    for w in ("symex_sound", "u8_overflowing_add", "u128_safe_divmod", "i64_overflowing_sub", "u8_try_from_felt252",
              "u8_overflowing_add_unfolded", "example"):
        out += "Print Assumptions C03_%s.\n" % w
    open(os.path.join(ROOT, "coq", "Props", "C03.v"), "w").write(out)


def c06():
    sound_for = {w: (st, l) for w, st, l in SOUND}
    libs, ws = imports(COMPLETE + [(w, sound_for[w][0], sound_for[w][1]) for w, _, _ in COMPLETE])
    out = open(os.path.join(ROOT, "props", "c06_header.v")).read()
    out += "From Libfuncs Require Import Stmt CStmt %s.\n" % " ".join(libs)
    out += wrap(["W_" + w for w in ws], "From GenC03 Require Import ") + ".\n\n"
    for w, st, _ in COMPLETE:
        s_st = sound_for[w][0]
        out += "Theorem C06_%s_sound : %s code_%s entry_%s.\nProof. exact %s_sound. Qed.\n" % (w, s_st, w, w, w)
        out += "Theorem C06_%s_complete : %s code_%s entry_%s.\nProof. exact %s_complete. Qed.\n" % (w, st, w, w, w)
    out += "\n" + open(os.path.join(ROOT, "props", "c06_tail.v")).read()
    out += "Definition C06_all_theorems :=\n  (" + ",\n   ".join(
        ["C06_%s_sound, C06_%s_complete" % (w, w) for w, _, _ in COMPLETE]
        + ["C06_u8_overflowing_add_complete_unfolded", "C06_example"]) + ").\n"
    out += "Print Assumptions C06_all_theorems.\n"
    out += "Print Assumptions C06_u8_overflowing_add_complete.\nPrint Assumptions C06_i8_overflowing_sub_complete.\n"
    out += "Print Assumptions C06_u8_overflowing_add_complete_unfolded.\nPrint Assumptions C06_example.\n"
    open(os.path.join(ROOT, "coq", "Props", "C06.v"), "w").write(out)


if __name__ == "__main__":
    c03()
    c06()
    print(len(SOUND), "soundness theorems,", len(COMPLETE), "completeness theorems")
