"""C12 - compilation is deterministic: same sources, same output, on any schedule.

Level `other`: a proved kernel + correspondence + differential exploration.
* Proof (Props/C12.v over C12/Canon.v, C12/Maps.v): the canonical id replacer erases the interned ids
  (C12_canon_invariant), iteration of the ordered map is a function of the operation sequence only
  (C12_ordered_iteration), the observers of the unordered map do not reveal insertion/table order
  (C12_unordered_observers).
* Tie (harness/h12): the real CanonicalReplacer / SierraIdReplacer::apply on the Sierra corpus of /repo,
  on declaration-list mutants and on seeded injective renamings; the real OrderedHashMap/Set and
  UnorderedHashMap on seeded operation sequences; compared with the models inside Coq.  Impl-level
  oracle: canon(rename s p) == canon(p) byte for byte, canon idempotent, reference vector/BTreeMap.
* Differential exploration on the whole compiler (harness/h12c, label *explored*): projects (with several
  executables / tests / contracts / impls / generic instantiations and call cycles of every shape) compiled in
  fresh databases under rayon pools of 1/2/4/16 threads, either entry point first (with / without warm-up),
  after seeded random histories of other queries - per-function queries (Sierra, lowered body, feedback set)
  and per-module diagnostics, mostly on the SAME project - and after another project was compiled first.
  Everything the entry points return must be byte-identical (interned ids canonicalised): diagnostics, Sierra,
  CASM, statement annotations, function debug info, type names, the ProgramArtifact JSON with `executables`,
  every executable's compiled output, the TestCompilation metadata, ABI / entry points / contract class /
  CASM class with hints.  A difference that is exactly the known finding `scc-representative-intern-id`
  (only members of call cycles differ, only in where the cycle's gas withdrawal sits, AND the difference
  vanishes when the configuration is re-run with the first free member of every call cycle interned first
  in both runs, i.e. with the representative pinned) goes through the known-findings gate; any other
  difference - in particular one that persists under pinning - is a violation.  Further configurations
  pin the representatives and permute the order in which the OTHER members of dense cycles (K3, K4,
  chords, shared node) are interned; they are compared with a pinned baseline and admit no excuse.  Thread interleavings are sampled, not
  enumerated, and are not modelled in Coq."""
import json
import os
import re
import time

import corpus
import vlib

TRUSTED = [
    "Coq 8.16.1 kernel + vm_compute (no native_compute)",
    "axioms: none (Print Assumptions: Closed under the global context for every C12 theorem)",
    "hand model C12/Canon.v of canonical_id_replacer.rs (from_program, replace_*_id) and replace_ids.rs "
    "(SierraIdReplacer::apply, replace_generic_args): ids abstract, debug names dropped, the `expect` panics "
    "as a result value; tied to /repo by the correspondence run only",
    "hand model C12/Maps.v of IndexMap behind OrderedHashMap/OrderedHashSet (entries vector + index table under an "
    "arbitrary placement function) and of the UnorderedHashMap API (raw table order under an arbitrary placement); "
    "indexmap / hashbrown themselves are external crates, tied by the correspondence run only",
    "the schedule (thread interleaving, salsa intern tables, query memoisation) is NOT modelled: the theorems say "
    "why id assignment and hashing cannot matter; that nothing else leaks order is explored by h12c, not proved",
    "harness/h12 (case generator, renaming, Coq term printer, impl-level oracles), harness/h12c (compile matrix), "
    "lib/vlib.py, lib/corpus.py",
]

THEOREMS = [
    "C12_canon_invariant", "C12_canon_invariant_any", "C12_canon_total", "C12_canon_idempotent",
    "C12_canon_declared_order", "C12_ordered_iteration", "C12_ordered_iteration_sequence_only",
    "C12_unordered_observers", "C12_unordered_last_write_wins", "C12_unordered_permuted_insertions", "C12_aggregate_by_needs_commutativity",
    "C12_sorted_by_key_needs_injectivity", "C12_example", "C12_maps_example",
]

CANON_CODES = {1: "canon p <> implementation", 2: "renaming printed by the harness not injective/covering",
               3: "canon (rename s p) <> implementation's canon p", 4: "harness' renamed program <> model's rename",
               5: "canonical result is not a fixed point", 6: "well-formed program panicked / declared ids not 0..n-1"}


def static_observer_sites():
    """Lists the call sites in /repo of the UnorderedHashMap observers whose order-freedom is conditional
    (aggregate_by needs a commutative reduce, *_sorted_by_key an injective key, merge a symmetric handler).
    Informational: goes into the evidence, decides nothing."""
    rc, out = vlib.run(r"grep -rnE '\.(aggregate_by|iter_sorted_by_key|into_iter_sorted_by_key)\(' %s/crates " % os.environ.get("VERIF_REPO", "/repo") +
                       r"--include=*.rs | grep -v _test.rs | grep -v 'unordered_hash_map.rs'", timeout=120)
    return [l.strip()[:200] for l in out.splitlines() if l.strip()]


def run_compiler_matrix(ctx, ok_build):
    """Whole-compiler differential exploration (h12c). Returns (summary, diffs)."""
    if not ok_build:
        return {}, []
    d = os.path.join(ctx.out, "matrix")
    vlib.clean_dir(d)
    t = time.time()
    rc, out = vlib.run([os.path.join(vlib.HARNESS, "target", "debug", "h12c"), d, ctx.tier],
                       timeout=3000 if ctx.thorough else 600)
    ctx.log("h12c: rc=%d (%.0fs)" % (rc, time.time() - t))
    sp = os.path.join(d, "summary.json")
    if rc != 0 or not os.path.exists(sp):
        ctx.violation("harness h12c (compile matrix) failed to run", {"output": out[-3000:], "rc": rc},
                      found_input=False)
        return {}, []
    summary = json.load(open(sp))
    diffs = json.load(open(os.path.join(d, "differences.json")))
    return summary, diffs


def run(ctx):
    ok_build, _ = vlib.cargo_build(ctx, "h12")
    ok_make, _ = vlib.coq_make(ctx, "C12")
    cone = vlib.cone_files("C12")
    pr = vlib.check_properties_file(ctx, os.path.join(vlib.COQ, "Props/C12.v"), cone) if ok_make else None

    corr_bad, oracle_bad, summary = [], [], {}
    cases = os.path.join(ctx.out, "cases")
    n_shards = 0
    if ok_build:
        cdir = os.path.join(ctx.out, "corpus")
        n = corpus.sierra_corpus(cdir)
        ctx.log("extracted %d Sierra programs from /repo" % n)
        vlib.clean_dir(cases)
        rc, out = vlib.run([vlib.harness_bin("h12"), cdir, cases, ctx.tier], timeout=1800)
        if rc != 0 or not os.path.exists(os.path.join(cases, "summary.json")):
            ctx.violation("harness h12 failed to run", {"output": out[-2000:]}, found_input=False)
        else:
            summary = json.load(open(os.path.join(cases, "summary.json")))
            ctx.log(json.dumps(summary)[:600])
            oracle_bad = json.load(open(os.path.join(cases, "oracle_failures.json")))
            if ok_make:
                res = vlib.run_case_shards(ctx, cases, timeout=2400)
                n_shards = len(res)
                for shard, ok, o in res:
                    if not ok:
                        names = open(shard.replace(".v", ".names")).read().splitlines()
                        leg = os.path.basename(shard).split("_")[0]
                        idx = [(int(a), b) for a, b in re.findall(r"\((\d+), \[([\d; ]+)\]\)", o)]
                        corr_bad.append({"shard": shard, "leg": leg,
                                         "cases": [{"name": names[i] if i < len(names) else "?", "codes": c}
                                                   for i, c in idx[:10]],
                                         "coq_output": o[-1500:]})
    else:
        ctx.violation("harness does not build against /repo's working tree",
                      {"theorem_or_correspondence": "correspondence C12 (h12 build)"}, found_input=False)

    msum, mdiffs = run_compiler_matrix(ctx, ok_build)

    # ---------------- decide ----------------
    for f in oracle_bad[:6]:
        # a concrete input on which the real code breaks the kernel property itself
        ctx.violation("kernel oracle (%s): %s" % (f.get("leg"), f.get("why", "")[:300]),
                      dict(f, replay_cmd="VERIF_SEED=%d ./check C12 --tier %s" % (ctx.seed, ctx.tier)),
                      found_input=True)
    # Differences of the compile matrix.  Those the harness classified as the known finding (same
    # functions, only members of call cycles differ, only in where the cycle's gas withdrawal sits) go
    # through the known-findings gate; every other difference is the C12 violation proper.
    known_diffs = [d for d in mdiffs if d.get("known_scc_representative")]
    other_diffs = [d for d in mdiffs if not d.get("known_scc_representative")]
    seen_known = set()
    for dfr in known_diffs:
        if dfr.get("project") in seen_known:
            continue
        seen_known.add(dfr.get("project"))
        ctx.violation("compilation output depends on the schedule/history (placement of a call cycle's gas withdrawal): "
                      "project %s, artifact %s differs between [%s] and [%s]: %s" % (
                          dfr.get("project"), dfr.get("artifact"), dfr.get("config_a"), dfr.get("config_b"),
                          dfr.get("known_scc_representative", "")[:400]),
                      dict(dfr, replay_cmd="VERIF_SEED=%d ./check C12 --tier %s" % (ctx.seed, ctx.tier)),
                      found_input=True,
                      fingerprint="scc-representative-intern-id %s:%s" % (dfr.get("project"), dfr.get("artifact")))
    seen_other = set()
    for dfr in other_diffs:
        key = (dfr.get("project"), dfr.get("artifact"))
        if key in seen_other or len(seen_other) >= 8:
            continue
        seen_other.add(key)
        ctx.violation("compilation output depends on the schedule/history: project %s, artifact %s differs between "
                      "[%s] and [%s]: %s%s" % (dfr.get("project"), dfr.get("artifact"), dfr.get("config_a"),
                                               dfr.get("config_b"), dfr.get("first_difference", "")[:300],
                                               (" (not the known call-cycle finding: %s)" % dfr["not_known_because"])
                                               if dfr.get("not_known_because") else ""),
                      dict(dfr, replay_cmd="VERIF_SEED=%d ./check C12 --tier %s" % (ctx.seed, ctx.tier)),
                      found_input=True, fingerprint="%s:%s" % (dfr.get("project"), dfr.get("artifact")))
    if corr_bad and not oracle_bad:
        legs = sorted({c["leg"] for c in corr_bad})
        ctx.violation(
            "model and implementation disagree (%s legs); the C12 kernel theorems no longer transfer to the code"
            % ",".join(legs),
            {"correspondence": "C12/Corr.v check_" + "/".join(legs), "shards": corr_bad[:4],
             "reason_codes_canon": CANON_CODES, "replay_cmd": "VERIF_SEED=%d ./check C12 --tier %s" % (ctx.seed, ctx.tier)},
            found_input=False)
    if not ok_make or (pr and not pr["ok"]):
        ctx.violation("Coq development for C12 does not check",
                      {"theorem_or_correspondence": "Props/C12.v (%s)" % ", ".join(THEOREMS),
                       "detail": (pr or {}).get("log", "")[-2000:], "hygiene": (pr or {}).get("hygiene"),
                       "unknown_axioms": (pr or {}).get("unknown_axioms")}, found_input=False)

    cs = summary.get("canon", {})
    n_cases = cs.get("cases", 0) + sum(summary.get(k, {}).get("cases", 0) for k in ("omap", "oset", "umap"))
    distinct = cs.get("distinct_canonical_results", 0) + sum(
        summary.get(k, {}).get("distinct_cases", 0) for k in ("omap", "oset", "umap"))
    samples = []
    sp = os.path.join(cases, "samples.txt")
    if os.path.exists(sp):
        samples = [l[:600] for l in open(sp).read().splitlines()[:6]]
    samples += msum.get("samples", [])[:4]
    ctx.cov.update({
        "obligations": pr["obligations"] if pr else 0,
        "discharged": pr["discharged"] if pr else 0,
        "property_theorems": [t for t in THEOREMS if pr and t in pr.get("names", [])],
        "print_assumptions": (pr or {}).get("axioms", []),
        "programs": cs.get("corpus_programs", 0),
        "evaluations": n_cases + msum.get("compilations", 0),
        "distinct_nontrivial": distinct + msum.get("distinct_configurations", 0),
        "rule": "kernel: every Sierra program of /repo that parses (quick tier: all up to 2500 statements + a seeded "
                "choice of larger ones) plus 1-2 (thorough: 3) seeded mutants of its declaration lists (dup/drop/swap/reverse), each "
                "under 3 seeded injective renamings (fresh u64s / permutation of the ids in use / dense small numbers); "
                "distinct = distinct canonical results returned by the implementation (counted by the harness on the "
                "printed structure). maps: seeded operation sequences over small key spaces (3..200 keys, so overwrites "
                "and removals hit), distinct = distinct (ops, answers) cases. compiler matrix: one compilation per "
                "(project, configuration); distinct = distinct configurations (threads x first entry point x history: "
                "none / sequential or parallel prefix of per-function and per-module queries, 2 of 3 on the project itself / "
                "another project compiled first).",
        "input_distribution": summary,
        "compiler_matrix": {k: v for k, v in msum.items() if k != "samples"},
        "matrix_differences": len(mdiffs),
        "matrix_differences_known_finding_scc_representative": len(known_diffs),
        "matrix_differences_unexplained": len(other_diffs),
        "case_shards": n_shards,
        "correspondence_disagreements": len(corr_bad),
        "oracle_failures": len(oracle_bad),
        "conditional_observer_call_sites_in_repo": static_observer_sites(),
        "samples": samples or ["(no samples: harness did not run)"],
    })
    return ctx.finish(
        "other",
        "Proved kernel + correspondence + differential exploration. PROVED (Coq, all renamings / all programs / all "
        "operation sequences / all placements): the canonical id replacer's output is invariant under every injective "
        "renaming of the interned type/libfunc/function ids (so it cannot depend on what the schedule-dependent intern "
        "tables handed out), is idempotent and numbers declarations 0,1,2,.. in declaration order; iteration of the "
        "ordered map equals the list semantics of the operation sequence whatever the hashing; the unordered map's "
        "observers are invariant under permuting insertions and under the table order (aggregate_by only for "
        "commutative reduce, *_sorted_by_key only for injective keys - both shown necessary). TIED: models vs the real "
        "CanonicalReplacer/apply, OrderedHashMap/Set, UnorderedHashMap on every run, plus impl-level oracles. "
        "EXPLORED, not proved: the end-to-end sentence (Sierra with debug names and with canonical ids, CASM, "
        "diagnostics, debug info, executables, test metadata, contract classes byte-identical across rayon pools of "
        "1/2/4/16 threads, with/without warm-up, after random histories of other queries on the same database). "
        "On the unchanged tree this exploration exhibits one history/thread dependent output (KNOWN-FINDING "
        "scc-representative-intern-id). Thread interleavings cannot be exhibited by a Gallina model; they are sampled.",
        TRUSTED,
        "make -C coq/C12 && coqc Props/C12.v (Print Assumptions); harness/h12 -> coqc out/C12/cases/*.v; "
        "harness/h12c out/C12/matrix <tier>",
    )
