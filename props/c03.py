"""C03 - results do not depend on prover-supplied hint values (soundness).
Proof: per-libfunc theorems (coq/Libfuncs, pinned in coq/Props/C03.v) over the CASM that the compiler
in /repo emits NOW for /verif/wrappers/*.cairo (translator leg of harness/h03 -> coq/GenC03), in an
algebraic semantics with a total memory where hints do not exist (coq/Vmx), linked by `symex_sound`.
Exploration / search on break: harness/h03 `fault` replaces one hint answer of an honest run on the
real VM (CairoHintProcessor wrapped) and requires VM failure or the honest result."""
import json
import os

import vlib
from props import h03common as hc

TRUSTED = [
    "Coq 8.16.1 kernel + vm_compute (no native_compute)",
    "axioms: none (Print Assumptions: Closed under the global context for every C03 theorem)",
    "coq/Vmx/Sem.v: hand-written algebraic semantics of CASM over a total memory (address arithmetic in Z, "
    "values mod P, call/ret through a ghost depth); its agreement with cairo-vm / the AIR is not proved here "
    "(C16 covers the encoding; the fault-injection leg runs the real VM)",
    "coq/Spec/*.v: mathematical meaning of the operations (tied to the code by the C06 pipeline leg)",
    "harness/h03 translator: prints cairo-lang-casm Instruction values as Coq terms (offsets via op_size())",
    "lib/vlib.py, props/c03.py, props/h03common.py",
]


def run(ctx):
    ok_build, _ = vlib.cargo_build(ctx, "h03")
    gen = hc.translate(ctx) if ok_build else None
    ok_make, make_out = (False, "")
    pr = None
    if gen and gen["ok"]:
        ok_make, make_out = vlib.coq_make(ctx, "Libfuncs")
        cone = vlib.cone_files("Libfuncs")
        if ok_make:
            pr = vlib.check_properties_file(ctx, os.path.join(vlib.COQ, "Props/C03.v"), cone, timeout=900)
    proof_ok = bool(pr and pr["ok"])
    apcost = hc.libfunc_ap_cost(ctx) if ok_make else None

    fault = hc.run_fault(ctx) if ok_build else None

    # ---------------- decide ----------------
    if not ok_build:
        ctx.violation("harness h03 does not build against /repo's working tree",
                      {"theorem_or_correspondence": "translator (h03 build)"}, found_input=False)
    elif not gen or not gen["ok"]:
        errs = (gen or {}).get("errors")
        if isinstance(errs, list) and errs:
            # a wrapper (one instantiation of a libfunc) that compiled when it was added no longer does:
            # the wrapper itself is the failing input (compiler panic / rejection on valid code)
            for name, err in errs[:6]:
                src = ""
                try:
                    src = open(os.path.join(hc.WRAPPERS, name + ".cairo")).read()
                except OSError:
                    pass
                ctx.violation("wrapper %s no longer compiles with the compiler under test: %s" % (name, err[:300]),
                              {"wrapper": name, "source": src, "error": err,
                               "replay_cmd": "./check %s --tier %s" % (ctx.pid, ctx.tier)},
                              found_input=True, fingerprint="wrapper_does_not_compile:%s" % name)
        else:
            ctx.violation("translator failed to run", {"theorem_or_correspondence": "translator", "detail": errs},
                          found_input=False)
    found = 0
    if fault:
        seen = set()
        for v in fault.get("violations", []):
            key = (v["wrapper"], v["hint"], v.get("hint_index"))
            if key in seen or len(seen) >= 5:      # one replay per (wrapper, hint occurrence)
                continue
            seen.add(key)
            found += 1
            if v.get("hint_index") == -1:
                what = "honest execution of wrapper %s on %s: %s (%s)" % (
                    v["wrapper"], v["args"], v["mutation"], str(v.get("outcome"))[:200])
            else:
                what = ("a run with one altered hint answer SUCCEEDED with a different result: wrapper %s args %s "
                        "hint #%s (%s) %s" % (v["wrapper"], v["args"], v["hint_index"], v["hint"], v["mutation"]))
            ctx.violation(
                what,
                dict(v, replay_cmd="./check C03 --tier %s" % ctx.tier), found_input=True,
                fingerprint="%s:%s" % (v["wrapper"], v["hint"]))
        if fault.get("error"):
            ctx.violation("fault-injection leg failed to run", {"detail": fault["error"]}, found_input=False)
    if ok_build and gen and gen["ok"] and not proof_ok and not found:
        broken = hc.broken_theorems(make_out + ((pr or {}).get("log") or ""))
        ctx.violation(
            "Coq development for C03 does not check over the code the compiler emits now (%s); the hint-fault "
            "search on the real VM found no run with a different result" % (", ".join(broken) or "see detail"),
            {"theorem_or_correspondence": "Props/C03.v / Libfuncs (%s)" % ", ".join(broken),
             "detail": (make_out + ((pr or {}).get("log") or ""))[-3000:],
             "hygiene": (pr or {}).get("hygiene"), "unknown_axioms": (pr or {}).get("unknown_axioms"),
             "replay_cmd": "./check C03 --tier %s" % ctx.tier},
            found_input=False)

    verified = hc.verified_set("C03")
    fs = (fault or {}).get("summary", {})
    ctx.cov.update({
        "obligations": pr["obligations"] if pr else 0,
        "discharged": pr["discharged"] if pr else 0,
        "property_theorems": hc.theorem_names("C03"),
        "verified_libfuncs": verified,
        "explored_only": sorted(set(fs.get("wrappers_run", [])) - set(verified)),
        "print_assumptions": (pr or {}).get("axioms", []),
        "translator": (gen or {}).get("summary", {}),
        "libfunc_ap_cost": apcost or {"ok": False},
        "proof_times_s": hc.proof_times(make_out),
        "evaluations": fs.get("mutated_runs", 0),
        "distinct_nontrivial": fs.get("distinct_nontrivial", 0),
        "parametric_decision_classes": fs.get("parametric_decision_classes", 0),
        "parametric_decision_class_names": fs.get("parametric_decision_class_names", []),
        "hint_kind_x_lie_kind_pairs": fs.get("hint_kind_x_lie_kind_pairs", 0),
        "hint_kind_x_lie_kind": fs.get("hint_kind_x_lie_kind", {}),
        "multi_limb_operand_tuples": fs.get("multi_limb_operand_tuples", 0),
        "honest_results_checked_against_spec": fs.get("honest_results_checked_against_spec", 0),
        "rule": "wrappers: one per libfunc instance plus one per DECISION CLASS of the parametric libfuncs "
                "(bounded_int_{constrain,div_rem,add,sub,mul,trim_min,trim_max,is_zero}, downcast between BoundedInts "
                "and from felt252: both sides of every threshold of the Rust that picks constants/algorithms, negative / "
                "zero-crossing / 2^128-wide / far-from-zero ranges). Operands: boundary x boundary (+ the thresholds "
                "of the instantiation, + the full cross product of per-limb boundary values for u256/u512) + seeded "
                "random. Every tuple is run honestly (must not fail in the VM; parametric wrappers are compared with "
                "their mathematical meaning); then for every occurrence of a pure Core hint (on at most 120/500 "
                "evenly spread tuples per wrapper in quick/thorough) and every lie -- generic: flip / 0 / 1, +-1, field "
                "negation, +-2^128, swapped cells, (q+-1, r-+d), random felt/u128/small; by hint kind: DivMod "
                "divmod(a+kP, b), (q-1, r+b), (0, a); WideMul128 split of ab+kP; SquareRoot isqrt(v+kP); LinearSplit "
                "of v+kP, x=max, x=0; Uint256SquareRoot root+-1 with recomputed remainder/flag; Uint256DivMod / "
                "Uint512DivModByUint256 of a+P, a+2^128, a+b*2^128 -- the run is repeated on cairo-vm with that one "
                "answer replaced and must fail or return the honest result. "
                "distinct_nontrivial = number of distinct (wrapper, args, hint occurrence, answer) with an answer "
                "different from the honest one, counted by the harness.",
        "input_distribution": fs,
        "fault_outcomes": fs.get("outcomes", {}),
        "samples": (fault or {}).get("samples") or ["(fault leg did not run)"],
    })
    return ctx.finish(
        "proof",
        "Theorems (Coq): for the verified libfunc set, over the CASM regenerated from /repo on this run, every "
        "run of the algebraic semantics (total memory, no hints) that reaches the ret with in-range arguments and "
        "range-checked builtin cells returns exactly Spec.op (value and branch tag); symex_sound proved once. "
        "Exploration (not proof): single-hint fault injection on the real VM over all wrappers, incl. libfuncs "
        "outside the verified set (listed under explored_only).",
        TRUSTED,
        "h03 translate wrappers -> coq/GenC03 ; make coq/{Vmx,Spec,GenC03,Libfuncs} ; coqc Props/C03.v (Print "
        "Assumptions) ; h03 fault",
    )
