"""C18 - Sierra programs survive every serialization unchanged (felt252 codec proved; text/JSON
explored), plus the C14 kernel that shares the model (deserializer total, allocations bounded).

Proof: Props/C18.v over the hand model C18/Compress.v (felt252_vec_compression.rs) and C18/Serde.v
(felt252_serde.rs): C18_decompress_compress, C18_compress_felts, C18_de_ser, C18_sierra_from_to,
C18_sierra_to_felts, C14_de_total_bounded, C14_decompress_alloc_bounded.
Tie: harness/h18 runs cairo-lang-starknet-classes (verif_exports hooks: compress, decompress,
sierra_to_felt252s, sierra_from_felt252s) on corpus programs, generated programs, boundary programs,
mutated serializations and vectors; the answers are compared with the model inside Coq (C18/Corr.v).
The hypothesis of C18_de_ser (starknet_keccak injective on SERDE_SUPPORTED_LONG_IDS) is evaluated on
the list observed from the code (hyp_000.v).
Impl-level oracle (always on): felt round trip, class extract, byte-identical re-serialization of
the repo's contract classes, compress round trip, and - explored, not proved - text round trip /
display fix-point, serde_json round trip, CASM equality across id spellings and round trips, and
the debug-info paths (DebugInfo::extract/populate - modelled in C18/DebugInfo.v, theorem
C18_debug_info_roundtrip, populate correspondence leg - ContractClass::new with debug info -> JSON ->
extract_sierra_program(true) -> print -> parse -> CASM) on the e2e test data's Sierra sections and on
generated closed programs with consistent names and every GenericArg kind in type and libfunc
declarations."""
import json
import os
import re

import vlib

TRUSTED = [
    "Coq 8.16.1 kernel + vm_compute (no native_compute)",
    "axioms: none (Print Assumptions: Closed under the global context for every C18/C14 theorem); "
    "C18_de_ser/C18_sierra_from_to carry one explicit hypothesis, NoDup (map keccak long_ids), "
    "evaluated on the current SERDE_SUPPORTED_LONG_IDS by check_hyp on every run",
    "hand model C18/DebugInfo.v of cairo-lang-sierra debug_info.rs (DebugInfo::extract / populate; "
    "annotations and executables take no part), tied by the populate correspondence leg",
    "hand models C18/Compress.v (compress, decompress, pop_usize, words_per_felt) and C18/Serde.v "
    "(every Felt252Serde impl, vec_with_bounded_capacity, sierra_to/from_felt252s, Rust's "
    "BigUint::to_bytes_be/from_bytes_be and str::from_utf8 validity), tied to the code by the "
    "correspondence run only; usize is modelled as 64 bit",
    "harness/h18 (corpus loader, canonical renumbering, program/vector/mutant generators, Coq term "
    "printer, impl-level oracle), lib/vlib.py",
    "the list of supported long ids is observed from the code (core libfunc/type ids > 31 bytes "
    "that the serializer accepts), not read from the private static",
]

THEOREMS = ["C18_decompress_compress", "C18_compress_felts", "C18_de_ser", "C18_sierra_from_to",
            "C18_sierra_to_felts", "C18_debug_info_roundtrip", "C18_example_debug_info", "C14_de_total_bounded", "C14_decompress_alloc_bounded",
            "C18_example", "C18_example_compress"]

# oracle legs that have a Coq model behind them vs. legs that are exploration only
PROVED_LEGS = {"felt-roundtrip", "class-extract", "class-reserialize", "compress-roundtrip", "debug-info-populate",
               "decompress-panic", "de-panic", "ser-panic", "compress-panic"}


# Constructions outside ser_ok that the serializer accepts and that are known not to come back
# unchanged (the model reproduces each of them, see the ser/de legs and MANIFEST level_note):
# usize::MAX doubles as the Fallthrough marker; BigUint::from_bytes_be drops leading NUL bytes and
# maps "" to 0, which reads back as "\0".
EXPECTED_LOSSY = re.compile(r"^(target usize::MAX|(type|libfunc) generic id (empty|NUL ab|NUL NUL a))$")


def humanize(line):
    """(B [c0;c1;..]%uint63) chunk encoding of the case files -> hex, for the samples in the evidence."""
    def val(m):
        v = 0
        for i, c in enumerate(x for x in m.group(2).split(";") if x):
            v += int(c) << (60 * i)
        return ("-0x%x" if m.group(1) == "ZBn" else "0x%x") % v
    return re.sub(r"\((B|ZB|ZBn) \[([0-9;]*)\]%uint63\)", val, line)


def load_pending_findings(ctx):
    """props/c18.findings.txt: findings reported to the lead, same format as known_findings.txt."""
    p = os.path.join(os.path.dirname(os.path.abspath(__file__)), "c18.findings.txt")
    if not os.path.exists(p):
        return
    for line in open(p):
        m = re.match(r"(known):\s+property=(C\d+)\s+(?:fingerprint=(\S+)\s+)?(.*)", line.strip())
        if m and m.group(3):
            ctx.known_findings.append({"kind": "known", "property": m.group(2),
                                       "fingerprint": m.group(3), "text": m.group(4)})


def fingerprint_of(f):
    """leg:corpus-file for failures on a repo file, else leg + reason."""
    leg = f.get("leg", "?")
    inp = f.get("input")
    if isinstance(inp, dict) and isinstance(inp.get("corpus"), str):
        return "%s:%s" % (leg, os.path.basename(inp["corpus"]))
    if isinstance(inp, dict) and isinstance(inp.get("fresh"), str):
        return "%s:%s" % (leg, inp["fresh"])
    return "%s %s" % (leg, f.get("why", ""))


def run(ctx):
    load_pending_findings(ctx)
    ok_build, _ = vlib.cargo_build(ctx, "h18")
    ok_make, _ = vlib.coq_make(ctx, "C18")
    cone = vlib.cone_files("C18")
    pr = vlib.check_properties_file(ctx, os.path.join(vlib.COQ, "Props/C18.v"), cone) if ok_make else None

    corr_bad, oracle_bad, summary, n_ser_ok, n_shards = [], [], {}, 0, 0
    cases = os.path.join(ctx.out, "cases")
    harness_ran = False
    fresh = {}
    if ok_build:
        vlib.clean_dir(cases)
        # programs compiled right now by the tree's compiler (examples, bug samples, instantiation zoo;
        # shared helper of C02/C04/C17): the names the compiler really prints, for the text / debug-info legs
        env = vlib.env_offline()
        try:
            from props import sierra_runtime as rt
            fdir = os.path.join(ctx.out, "fresh")
            vlib.clean_dir(fdir)
            fresh = rt.compile_fresh_corpus(ctx, fdir)
            if fresh.get("ok"):
                env["H18_FRESH_DIR"] = fdir
            else:
                ctx.log("fresh corpus not available: %s" % str(fresh.get("error"))[:300])
        except Exception as ex:  # the shared helper is not this property's machinery
            fresh = {"ok": False, "error": repr(ex)}
            ctx.log("fresh corpus not available: %r" % (ex,))
        rc, out = vlib.run([vlib.harness_bin("h18"), cases, ctx.tier], timeout=3000, env=env)
        ctx.log(out.strip().splitlines()[-1] if out.strip() else "h18: no output")
        if rc != 0 or not os.path.exists(os.path.join(cases, "summary.json")):
            # a crash (abort/OOM/stack overflow cannot be caught in-process) is itself a finding
            # for the C14 kernel: the input being processed is left in inflight.json
            inflight = None
            ip = os.path.join(cases, "inflight.json")
            if os.path.exists(ip):
                try:
                    inflight = json.load(open(ip))
                except Exception:
                    inflight = open(ip).read()[:4000]
            ctx.violation("harness h18 died (rc=%d) while running the implementation" % rc,
                          {"output": out[-3000:], "inflight_input": inflight,
                           "replay_cmd": "VERIF_SEED=%d ./check C18 --tier %s" % (ctx.seed, ctx.tier)},
                          found_input=inflight is not None)
        else:
            harness_ran = True
            summary = json.load(open(os.path.join(cases, "summary.json")))
            oracle_bad = json.load(open(os.path.join(cases, "oracle_failures.json")))
            if ok_make:
                res = vlib.run_case_shards(ctx, cases)
                n_shards = len(res)
                for shard, ok, o in res:
                    if not ok:
                        corr_bad.append((shard, o[:3000]))
                    m = re.search(r"^n_ser_ok\s*=\s*(\d+)", o, re.M)
                    if m:
                        n_ser_ok += int(m.group(1))
    else:
        ctx.violation("harness does not build against /repo's working tree",
                      {"theorem_or_correspondence": "correspondence C18 (h18 build)"}, found_input=False)

    # --- decide ---
    seen = set()
    n_before = len(ctx.violations)
    for f in oracle_bad:
        leg = f.get("leg", "?")
        fp = fingerprint_of(f)
        key = fp if ":" in fp.split(" ")[0] else leg      # one replay per leg / per corpus file
        if key in seen or len(seen) >= 8:
            continue
        seen.add(key)
        label = "" if leg in PROVED_LEGS else " (explored leg: no Coq model of this format)"
        ctx.violation("a Sierra program / felt vector does not survive serialization on the "
                      "implementation: leg %s%s: %s" % (leg, label, f.get("why", "")),
                      dict(f, replay_cmd="VERIF_SEED=%d ./check C18 --tier %s" % (ctx.seed, ctx.tier)),
                      found_input=True, fingerprint=fp)
    # accepted boundary programs that do not survive, other than the documented corners of the format
    seen_b = set()
    for b in summary.get("boundary_lossy", []):
        lab = b.get("label", "?")
        if EXPECTED_LOSSY.match(lab) or lab in seen_b or len(seen_b) >= 4:
            continue
        seen_b.add(lab)
        ctx.violation("sierra_to_felt252s accepts a program that sierra_from_felt252s does not give back "
                      "(boundary construction '%s', not one of the documented lossy corners)" % lab,
                      dict(b, leg="boundary-roundtrip",
                           replay_cmd="VERIF_SEED=%d ./check C18 --tier %s" % (ctx.seed, ctx.tier)),
                      found_input=True, fingerprint="boundary-roundtrip:%s" % lab)
    oracle_new = len(ctx.violations) - n_before        # oracle failures that are not known findings
    if corr_bad and not oracle_new:
        kinds = sorted({os.path.basename(s).split("_")[0] for s, _ in corr_bad})
        # The always-on oracle above is the search for a concrete failing input of the property
        # on the implementation (round trips over corpus, generator and random vectors); it found
        # nothing, so the break is reported as no-failing-input-found.
        what = ("model and implementation disagree (%s legs); the C18/C14 theorems no longer transfer "
                "to the code" % ",".join(kinds))
        if kinds == ["hyp"]:
            what = ("hypothesis of C18_de_ser fails on the current SERDE_SUPPORTED_LONG_IDS "
                    "(keccak collision / short listed id)")
        ctx.violation(what,
                      {"correspondence": "C18/Corr.v check_" + "/".join(kinds),
                       "shards": [{"file": s, "coq_output": o} for s, o in corr_bad[:4]],
                       "replay_cmd": "VERIF_SEED=%d ./check C18 --tier %s" % (ctx.seed, ctx.tier)},
                      found_input=False)
    if not ok_make or (pr and not pr["ok"]):
        ctx.violation("Coq development for C18 does not check",
                      {"theorem_or_correspondence": "Props/C18.v (" + ", ".join(THEOREMS) + ")",
                       "detail": (pr or {}).get("log", "")[-2000:],
                       "hygiene": (pr or {}).get("hygiene"),
                       "unknown_axioms": (pr or {}).get("unknown_axioms")},
                      found_input=False)

    n_cases = sum(summary.get(k, 0) for k in ("compress_cases", "decompress_cases", "ser_cases", "de_cases",
                                              "populate_cases"))
    samples = []
    sp = os.path.join(cases, "samples.txt")
    if os.path.exists(sp):
        by_leg = {}
        for l in open(sp).read().splitlines():
            if l.strip():
                by_leg.setdefault(l.split(":")[0], []).append(humanize(l)[:600])
        for leg in sorted(by_leg):                      # three actual cases of every leg
            n = len(by_leg[leg])
            samples += [by_leg[leg][i] for i in sorted({0, n // 2, n - 1})]

    def acc_distinct(acc, cases, distinct):
        # accepted cases minus the number of repeated inputs (conservative: every repeat is
        # assumed to be an accepted one)
        return max(0, summary.get(acc, 0) - (summary.get(cases, 0) - summary.get(distinct, 0)))
    distinct_nontrivial = (summary.get("distinct_compress_inputs", 0)
                           + acc_distinct("decompress_accepted", "decompress_cases", "distinct_decompress_inputs")
                           + acc_distinct("ser_accepted", "ser_cases", "distinct_ser_programs")
                           + acc_distinct("de_accepted", "de_cases", "distinct_de_inputs")
                           + summary.get("named_programs", 0))
    ctx.cov.update({
        "obligations": pr["obligations"] if pr else 0,
        "discharged": pr["discharged"] if pr else 0,
        "property_theorems": THEOREMS,
        "print_assumptions": (pr or {}).get("axioms", []),
        "evaluations": n_cases + sum((summary.get("oracle_checks") or {}).values()),
        "correspondence_cases": n_cases,
        "case_shards": n_shards,
        "distinct_nontrivial": distinct_nontrivial,
        "rule": "correspondence cases = compress vectors + decompress inputs + (versions, program) inputs "
                "of sierra_to_felt252s + felt vectors given to sierra_from_felt252s. A case is non-trivial "
                "when the implementation accepted it (produced a serialization / a vector / a program): "
                "distinct_nontrivial = distinct compress inputs + for each of decompress/ser/de: accepted "
                "cases minus repeated inputs (cases - distinct inputs, every repeat counted against the "
                "accepted ones), plus the generated named programs of the populate leg (distinct by "
                "construction: unique names), all counted by the harness (distinctness by printed input). ser_cases_in_theorem_domain = cases with ser_ok = true, "
                "counted inside Coq.",
        "ser_cases_in_theorem_domain": n_ser_ok,
        "input_distribution": {k: v for k, v in summary.items() if k != "boundary_lossy"},
        "explored_not_proved": "text round trip (parse . display, display fix-point) and serde_json round "
                               "trip of VersionedProgram are checked on the implementation only "
                               "(oracle_checks legs text-corpus-parse, text-roundtrip, json-roundtrip); "
                               "CASM equality (leg casm-equality) is checked on the repo's stand-alone "
                               "Sierra programs only: casm(as parsed, hashed ids) = casm(canonical numeric "
                               "ids) = casm(debug names stripped) = casm(felt252 round trip) = casm(text "
                               "round trip), with the harness's own renumbering - the compiler's "
                               "replace_ids / CanonicalReplacer (cairo-lang-sierra-generator) are not linked",
        "correspondence_disagreements": len(corr_bad),
        "oracle_failures": len(oracle_bad),
        "fresh_corpus": {"ok": bool(fresh.get("ok")), "compiled": fresh.get("compiled", 0),
                         "not_compiled": len(fresh.get("not_compiled", [])), "sources": fresh.get("sources"),
                         "error": fresh.get("error")},
        "boundary_lossy_labels": sorted({b.get("label", "?") for b in summary.get("boundary_lossy", [])}),
        "samples": samples or ["(no samples: harness did not run)"],
    })
    return ctx.finish(
        "proof",
        "Theorems (Coq, unbounded in list length / program size / value magnitude): decompress(compress vs) "
        "= Some vs; compress keeps felts; Program::deserialize(Program::serialize p) = p up to debug names "
        "with nothing left over, for every p with ser_ok p; the full sierra_from_felt252s . "
        "sierra_to_felt252s; the deserializer's allocations are bounded by the unread input (C14 kernel). "
        "Exploration (not proof): the hand model is compared with the implementation on the same inputs "
        "(compress, decompress incl. malformed vectors, sierra_to_felt252s incl. refused/lossy boundary "
        "programs, sierra_from_felt252s incl. mutated serializations), and an impl-level oracle checks "
        "the felt, class, text and JSON round trips on corpus and generated programs and CASM equality on "
        "the repo's stand-alone Sierra programs.",
        TRUSTED,
        "make -C coq/C18 && coqc Props/C18.v (Print Assumptions) ; harness/h18 -> coqc out/C18/cases/*.v",
    )
