#!/bin/sh
# Builds the framework from files on disk only (offline): hand-written Coq layers (full .vo build),
# the correspondence/translator harness (against /repo's working tree, hooks on).
set -e
cd "$(dirname "$0")"
export CARGO_NET_OFFLINE=true
( cd coq && coq_makefile -f _CoqProject -o Makefile >/dev/null 2>&1 && timeout 3600 make -j16 )
( cd harness && timeout 7200 cargo build --offline --workspace )
echo "setup done"
