#!/bin/sh
# Builds the framework from files on disk only (offline): hand-written Coq libraries (full .vo
# builds) and the correspondence/translator harness (against /repo's working tree, hooks on).
# Best effort per component: every check rebuilds what it needs itself (vlib.coq_make / cargo_build),
# so a component that cannot be pre-built here (e.g. a Coq library that imports a generated library
# which only exists after its translator ran) is reported and skipped, not fatal.
cd "$(dirname "$0")"
export CARGO_NET_OFFLINE=true
python3 - <<'PY'
import os, sys
sys.path.insert(0, 'lib')
import vlib
c = vlib.Ctx('setup', 'quick', 1)
bad = []
for d in vlib.coq_dirs():
    missing = [x for x in vlib._dep_order(d) if not os.path.isdir(os.path.join(vlib.COQ, x))]
    if missing:
        c.log("skip coq/%s for now: imports %s (generated at check time)" % (d, missing))
        continue
    try:
        ok, _ = vlib.coq_make(c, d)
    except Exception as ex:
        ok = False
        c.log("coq/%s: %r" % (d, ex))
    if not ok:
        bad.append(d)
print("coq libraries that did not pre-build:", bad)
PY
( cd harness && timeout 7200 cargo build --offline --workspace ) || echo "WARNING: harness workspace did not pre-build; checks will build their own packages"
echo "setup done"
exit 0
