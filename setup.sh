#!/bin/sh
# Builds the framework from files on disk only (offline): hand-written Coq layers (full .vo build),
# the correspondence/translator harness (against /repo's working tree, hooks on).
set -e
cd "$(dirname "$0")"
export CARGO_NET_OFFLINE=true
python3 -c "import sys; sys.path.insert(0, 'lib'); import vlib; c = vlib.Ctx('setup', 'quick', 1); sys.exit(0 if all(vlib.coq_make(c, d)[0] for d in vlib.coq_dirs()) else 1)"
( cd harness && timeout 7200 cargo build --offline --workspace )
echo "setup done"
