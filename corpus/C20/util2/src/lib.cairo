//! c20util, version 2: a second crate with the SAME name and another discriminator, used directly
//! by the dependents.
pub const TAG: felt252 = 2;

pub fn tag() -> felt252 {
    TAG
}

pub fn bump(x: felt252) -> felt252 {
    x + 200
}

#[derive(Copy, Drop, PartialEq)]
pub struct Pair {
    pub a: felt252,
    pub b: felt252,
}

pub trait Summable<T> {
    fn sum(self: @T) -> felt252;
}

pub impl PairSum of Summable<Pair> {
    fn sum(self: @Pair) -> felt252 {
        *self.a * *self.b
    }
}

pub fn only_v2() -> felt252 {
    22
}
