use c20lib::generic::{arr_len, times, Describe, small_only, Container, ArrContainer, PairContainer, WrapU8, WrapPoint, Wrap,
    Outer, OuterImpl, Holder, holder3, IsSmall};
use c20lib::shapes::Point;

impl U16Small of IsSmall<u16>;

fn main() -> felt252 {
    let n = arr_len(@[1_u8, 2, 3, 4]);
    let t = times::<7>(3);
    let d = Describe::describe(@5_u8) + Describe::describe(@5_u32) + Describe::describe(@5_u16)
        + Describe::describe(@array![1_u8]);
    let s = small_only(1_u8) + small_only(2_u16);
    let c = ArrContainer::cap() + PairContainer::cap() + ArrContainer::CAP;
    let f: u16 = array![9_u16].first();
    let g: u8 = (4_u8, 5_u8).first();
    let w = match WrapU8::wrap(3) {
        Option::Some(x) => x,
        Option::None => 0,
    };
    let p = match WrapPoint::wrap(Point { x: 1, y: 2 }) {
        Option::Some(q) => q.y,
        Option::None => 0,
    };
    let o = match OuterImpl::go(11) {
        Option::Some(x) => x,
        Option::None => 0,
    };
    let h: Holder<u8, 3> = holder3(2);
    let [h0, _, _] = h.items;
    n.into() + t.into() + d + s + c.into() + f.into() + g.into() + w.into() + p.into() + o.into() + h0.into()
}
