// a three-crate graph: this program -> c20lib (cache) -> c20util v1, and this program -> c20util v2
use c20lib::graph;
#[allow(unused_imports)]
use c20lib::graph::TupleSum;
use c20util::Summable;

fn through_lib() -> felt252 {
    let p = graph::make_pair(5);
    let q = graph::UtilPair { a: 1, b: 2 };
    let m = graph::mode_of(true);
    graph::util_tag() + graph::util_bump(1) + graph::pair_sum(p) + graph::pair_sum(q) + graph::leaf()
        + graph::code_of(m) + graph::code_of(graph::Mode::Slow) + graph::sum_any(@(1, 2)) + graph::sum_any(@p)
}

fn direct_v2() -> felt252 {
    let p = c20util::Pair { a: 3, b: 4 };
    c20util::tag() + c20util::bump(1) + p.sum() + c20util::only_v2() + c20util::TAG
}

fn main() -> felt252 {
    through_lib() * 1000 + direct_v2()
}
