use c20lib::mac::{add_one, twice_sum};

fn bad_uses() -> felt252 {
    let a = 5;
    add_one!() + twice_sum!(a, 2, 3) + c20lib::mac::crate_only!(a) + c20lib::mac::no_such_macro!(a)
}

fn main() {}
