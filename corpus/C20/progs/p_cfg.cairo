fn main() -> felt252 {
    c20lib::cfgd::speed() + c20lib::cfgd::not_slow() + c20lib::cfgd::TARGET
}
