use c20lib::shapes::{Shape, HasArea};
use c20lib::algo::sum_to;

fn unused_var_and_errors() -> u64 {
    let unused = sum_to(3);
    let s = Shape::Square(2);
    let t = s.no_such_method();
    let u: u8 = sum_to(4);
    c20lib::private_thing() + s.area()
}

fn main() -> u64 {
    let s = Shape::Rect((1, 2));
    s.area()
}
