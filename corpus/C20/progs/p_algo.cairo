use c20lib::algo::{sum_to, sum_array, twice, fact, add_n, max_of, classify};
use c20lib::store::{Counter, CounterTrait, Stack, StackTrait};
use c20lib::store::nested::{Level, level_of, STEP};
use c20lib::{PRIMES, NEG, boxed_sum, snap_len, checked, must, pair_of};

fn main() -> felt252 {
    let mut c = CounterTrait::new(3);
    let mut i: u32 = 0;
    while i < 5 {
        c.bump();
        i += 1;
    };
    let mut st: Stack<u32> = StackTrait::empty();
    st.push(sum_to(c.hits));
    st.push(add_n(2, 10));
    st.push(max_of(3_u32, 4_u32));
    let arr = array![1_u32, 2, 3];
    let s = sum_array(arr.span()) + snap_len(@arr);
    let lv = match level_of(120) {
        Level::Low => 0,
        Level::Mid(x) => x.into(),
        Level::High((a, b)) => a.into() + b.into(),
    };
    let (p, q) = pair_of(*PRIMES.span()[2]);
    let b = boxed_sum(BoxTrait::new(5), BoxTrait::new(6));
    let m = must(checked(200, 55));
    let full: felt252 = if c.full() { 1 } else { 0 };
    twice(fact(5)) + s.into() + lv + p.into() + q.into() + b.into() + m.into() + classify(2) + STEP + NEG.into()
        + st.size().into() + full
}
