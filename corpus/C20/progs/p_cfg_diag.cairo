fn main() -> felt252 {
    c20lib::cfgd::only_slow()
}
