// the two crates named c20util are different crates: their types do not mix, v1-only items are not in v2
use c20lib::graph;

fn mix_versions() -> felt252 {
    let p2 = c20util::Pair { a: 3, b: 4 };
    let p1 = graph::make_pair(1);
    let same: bool = p1 == p2;
    graph::pair_sum(p2)
}

fn v1_only_items() -> felt252 {
    c20util::deep::leaf() + c20util::mode_code(graph::mode_of(false))
}

fn v2_only_in_lib() -> felt252 {
    graph::only_v2()
}

fn main() -> felt252 {
    1
}
