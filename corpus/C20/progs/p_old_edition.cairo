// the same non-public accesses from an edition that does not enforce visibility (flavor: old edition)
use c20lib::vis;

fn main() -> felt252 {
    let m = vis::mixed();
    vis::crate_fn() + vis::private_fn() + vis::CRATE_C + vis::PRIV_C + m.b + m.c + vis::crate_mod::f()
        + vis::closed::f() + vis::crate_reexport() + vis::from_g2() + vis::from_g3()
}
