use c20lib::shapes::{Shape, Point, HasArea, ShapeNamed, Named, total_area, translate};
use c20lib::{scale, scale_slow, SCALE, ORIGIN, pick};

#[derive(Copy, Drop)]
struct Circle {
    r: u32,
}

impl CircleArea of HasArea<Circle> {
    fn area(self: @Circle) -> u64 {
        let r: u64 = (*self.r).into();
        3 * r * r
    }
}

fn main() -> u64 {
    let mut items = array![];
    items.append(Shape::Square(scale(3)));
    items.append(Shape::Rect((2, scale_slow(5))));
    items.append(Shape::Dot(translate(ORIGIN, 1, SCALE)));
    items.append(Shape::Empty);
    let c = Circle { r: 2 };
    let flat = Shape::Empty.is_flat();
    let (_, w) = ShapeNamed::wrap(5);
    let chosen = pick::<u64>(c.doubled(), 9, flat);
    total_area(items) + c.area() + chosen + w.try_into().unwrap() + total_area(array![c, c])
}
