// only the public surface of c20lib::vis: compiles, so Sierra and CASM are compared too
use c20lib::vis;
use c20lib::vis::{PubTrait, PubImpl};

fn main() -> felt252 {
    let m = vis::mixed();
    let e = vis::PubEnum::B(3);
    let t: vis::PubAlias = 4;
    let v = match e {
        vis::PubEnum::A => 0,
        vis::PubEnum::B(x) => x,
    };
    vis::public_fn() + vis::PUB_C + m.a + v + t.into() + vis::open::f() + vis::reexported_f() + 5.t()
        + vis::PubImplAlias::t(@6) + vis::from_g1() + vis::g1::from_g1() + vis::through_aliases()
        + vis::through_traits(1) + vis::through_globs() + vis::hidden_structs() + vis::mixed_sum(m)
}
