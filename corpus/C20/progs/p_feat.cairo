// feature kinds of cached items: warnings / errors name the feature and carry the note
use c20lib::feat;
use c20lib::feat::OldTrait;

fn without_feature() -> felt252 {
    let s = feat::UnstableStruct { a: 1 };
    feat::unstable_fn() + feat::unstable_nonote() + feat::deprecated_fn() + feat::internal_fn() + s.a + feat::OLD
        + feat::unstable_mod::inside() + 3.old()
}

#[feature("lib_unstable")]
#[feature("lib_unstable_nonote")]
#[feature("lib_deprecated")]
#[feature("lib_internal")]
#[feature("lib_unstable_struct")]
#[feature("lib_dep_const")]
#[feature("lib_unstable_mod")]
#[feature("lib_dep_trait")]
fn with_features() -> felt252 {
    let s = feat::UnstableStruct { a: 1 };
    feat::unstable_fn() + feat::unstable_nonote() + feat::deprecated_fn() + feat::internal_fn() + s.a + feat::OLD
        + feat::unstable_mod::inside() + 3.old()
}

#[feature("lib_deprecated")]
fn wrong_feature() -> felt252 {
    feat::unstable_fn()
}

fn attributes() -> felt252 {
    feat::important();
    feat::token();
    let _p = feat::Ph {};
    feat::hidden() + feat::stable_fn()
}

fn main() -> felt252 {
    with_features() + feat::stable_fn() + feat::hidden()
}
