// every visibility of the cached crate, from a crate on an enforcing edition: the accesses below that
// are not `pub` must be rejected (E2099) in exactly the same way from source and from the cache
use c20lib::vis;
use c20lib::vis::{PubTrait, PubImpl};

fn allowed() -> felt252 {
    let m = vis::mixed();
    let e = vis::PubEnum::B(3);
    let t: vis::PubAlias = 4;
    let v = match e {
        vis::PubEnum::A => 0,
        vis::PubEnum::B(x) => x,
    };
    vis::public_fn() + vis::PUB_C + m.a + v + t.into() + vis::open::f() + vis::reexported_f() + 5.t()
        + vis::PubImplAlias::t(@6) + vis::from_g1() + vis::g1::from_g1() + vis::through_aliases()
        + vis::through_traits(1) + vis::through_globs() + vis::hidden_structs() + vis::mixed_sum(m)
}

fn crate_fn_access() -> felt252 {
    vis::crate_fn()
}
fn private_fn_access() -> felt252 {
    vis::private_fn()
}
fn consts_access() -> felt252 {
    vis::CRATE_C + vis::PRIV_C
}
fn members_access() -> felt252 {
    let m = vis::mixed();
    m.b + m.c
}
fn member_ctor() -> vis::Mixed {
    vis::Mixed { a: 1, b: 2, c: 3 }
}
fn structs_access() -> felt252 {
    let a = vis::CrateStruct { x: 1 };
    let b = vis::PrivStruct { x: 2 };
    a.x + b.x
}
fn enums_access() {
    let _a = vis::CrateEnum::C;
    let _b = vis::PrivEnum::D;
}
fn modules_access() -> felt252 {
    vis::open::g() + vis::crate_mod::f() + vis::closed::f()
}
fn uses_access() -> felt252 {
    vis::crate_reexport() + vis::priv_alias()
}
fn traits_access(x: felt252) -> felt252 {
    vis::CrateTrait::u(@x) + vis::PrivTrait::v(@x) + vis::CrateImpl::u(@x) + vis::PrivImpl::v(@x)
}
fn aliases_access() {
    let _a: vis::CrateAlias = 1;
    let _b: vis::PrivAlias = 2;
    let _c = vis::CrateImplAlias::u(@3);
}
fn globs_access() -> felt252 {
    vis::from_g2() + vis::from_g3() + vis::g1_crate_only() + vis::g1::g1_crate_only()
}

fn main() -> felt252 {
    allowed()
}
