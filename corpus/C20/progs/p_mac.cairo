use c20lib::mac::{add_one, twice_sum};

fn main() -> felt252 {
    let a = 5;
    add_one!(a) + twice_sum!(a, 2) + twice_sum!(a) + c20lib::mac::uses_own_macros(a) + c20lib::mac::add_one!(1)
}
