use c20lib::generic::{arr_len, times, small_only, Container, Holder, holder3, WrapU8, Wrap};

fn wrong_generics() {
    let _a = small_only(1_u32);
    let _b = arr_len(@array![1_u8]);
    let _c = times::<300000000000>(1);
    let _d: Holder<u8, 2> = holder3(1);
    let _e = WrapU8::wrap(1_u16);
    let _f: u8 = array![9_u16].first();
    let _g = Container::<felt252>::cap();
}

fn main() {}
