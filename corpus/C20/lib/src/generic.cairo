//! Generic parameters of every kind, impl aliases, trait items.
pub fn arr_len<T, const N: usize>(_a: @[T; N]) -> usize {
    N
}

pub fn times<const K: u32>(x: u32) -> u32 {
    x * K
}

pub trait IsSmall<T>;
pub impl U8Small of IsSmall<u8>;

pub trait Describe<T> {
    fn describe(x: @T) -> felt252;
}
pub impl DescribeBig<T, -IsSmall<T>> of Describe<T> {
    fn describe(x: @T) -> felt252 {
        1
    }
}
pub impl DescribeSmall<T, +IsSmall<T>> of Describe<T> {
    fn describe(x: @T) -> felt252 {
        2
    }
}

pub fn small_only<T, +Drop<T>, +IsSmall<T>>(_x: T) -> felt252 {
    2
}

pub trait Container<T> {
    type Item;
    const CAP: usize;
    fn first(self: @T) -> Self::Item;
    fn cap() -> usize {
        Self::CAP
    }
}

pub impl ArrContainer of Container<Array<u16>> {
    type Item = u16;
    const CAP: usize = 16;
    fn first(self: @Array<u16>) -> u16 {
        *self[0]
    }
}

pub impl PairContainer of Container<(u8, u8)> {
    type Item = u8;
    const CAP: usize = 2;
    fn first(self: @(u8, u8)) -> u8 {
        let (a, _) = *self;
        a
    }
    fn cap() -> usize {
        3
    }
}

pub trait Wrap<T> {
    fn wrap(x: T) -> Option<T>;
}
pub impl WrapAny<T> of Wrap<T> {
    fn wrap(x: T) -> Option<T> {
        Option::Some(x)
    }
}
pub impl WrapU8 = WrapAny<u8>;
pub impl WrapPoint = WrapAny<super::shapes::Point>;

pub trait Outer {
    impl Inner: Wrap<u32>;
    fn go(x: u32) -> Option<u32> {
        Self::Inner::wrap(x)
    }
}
pub impl OuterImpl of Outer {
    impl Inner = WrapAny<u32>;
}

#[derive(Drop)]
pub struct Holder<T, const N: usize> {
    pub items: [T; N],
}

pub fn holder3(a: u8) -> Holder<u8, 3> {
    Holder { items: [a, a, a] }
}
