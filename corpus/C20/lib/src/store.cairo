#[derive(Drop, Clone)]
pub struct Counter {
    pub hits: u32,
    pub cap: u32,
}

#[generate_trait]
pub impl CounterImpl of CounterTrait {
    fn new(cap: u32) -> Counter {
        Counter { hits: 0, cap }
    }
    fn bump(ref self: Counter) {
        if self.hits < self.cap {
            self.hits += 1;
        }
    }
    fn reset(ref self: Counter) {
        self.hits = 0;
    }
    fn full(self: @Counter) -> bool {
        *self.hits == *self.cap
    }
}

#[derive(Drop)]
pub struct Stack<T> {
    pub items: Array<T>,
}

pub trait StackTrait<T> {
    fn empty() -> Stack<T>;
    fn push(ref self: Stack<T>, x: T);
    fn size(self: @Stack<T>) -> usize;
}

pub impl StackImpl<T, +Drop<T>> of StackTrait<T> {
    fn empty() -> Stack<T> {
        Stack { items: array![] }
    }
    fn push(ref self: Stack<T>, x: T) {
        self.items.append(x);
    }
    fn size(self: @Stack<T>) -> usize {
        self.items.len()
    }
}

pub mod nested {
    pub const STEP: felt252 = 3;

    pub fn step_twice(x: felt252) -> felt252 {
        x + STEP + STEP
    }

    #[derive(Copy, Drop, Serde, PartialEq)]
    pub enum Level {
        Low,
        Mid: u8,
        High: (u8, u8),
    }

    pub fn level_of(x: u8) -> Level {
        if x < 10 {
            Level::Low
        } else if x < 100 {
            Level::Mid(x)
        } else {
            Level::High((x, x / 2))
        }
    }
}
