use super::store::nested::step_twice;

pub fn sum_to(n: u32) -> u32 {
    let mut acc = 0;
    let mut k = 0;
    while k != n {
        k += 1;
        acc += k;
    };
    acc
}

pub fn sum_array(arr: Span<u32>) -> u32 {
    let mut acc = 0;
    for x in arr {
        acc += *x;
    };
    acc
}

#[inline(always)]
pub fn twice(x: felt252) -> felt252 {
    step_twice(x) * 2
}

pub fn fact(n: felt252) -> felt252 {
    if n == 0 {
        1
    } else {
        n * fact(n - 1)
    }
}

pub fn add_n(n: u32, x: u32) -> u32 {
    let c = |y: u32| y + n;
    c(c(x))
}

pub fn max_of<T, +PartialOrd<T>, +Copy<T>, +Drop<T>>(a: T, b: T) -> T {
    if a > b {
        a
    } else {
        b
    }
}

pub fn classify(x: u8) -> felt252 {
    match x {
        0 => 'zero',
        1 | 2 => 'small',
        _ => 'big',
    }
}
