//! Every visibility on every kind of item.
pub fn public_fn() -> felt252 {
    crate_fn() + private_fn() + CRATE_C + PRIV_C
}
pub(crate) fn crate_fn() -> felt252 {
    10
}
fn private_fn() -> felt252 {
    20
}

pub const PUB_C: felt252 = 1;
pub(crate) const CRATE_C: felt252 = 2;
const PRIV_C: felt252 = 3;

#[derive(Copy, Drop)]
pub struct Mixed {
    pub a: felt252,
    pub(crate) b: felt252,
    c: felt252,
}
pub fn mixed() -> Mixed {
    Mixed { a: 1, b: 2, c: 3 }
}
pub fn mixed_sum(m: Mixed) -> felt252 {
    m.a + m.b + m.c
}

#[derive(Copy, Drop)]
pub(crate) struct CrateStruct {
    pub x: felt252,
}
#[derive(Copy, Drop)]
struct PrivStruct {
    pub x: felt252,
}
pub fn hidden_structs() -> felt252 {
    CrateStruct { x: 1 }.x + PrivStruct { x: 2 }.x
}

#[derive(Copy, Drop)]
pub enum PubEnum {
    A,
    B: felt252,
}
#[derive(Copy, Drop)]
pub(crate) enum CrateEnum {
    C,
}
#[derive(Copy, Drop)]
enum PrivEnum {
    D,
}

pub mod open {
    pub fn f() -> felt252 {
        31
    }
    pub(crate) fn g() -> felt252 {
        32
    }
}
pub(crate) mod crate_mod {
    pub fn f() -> felt252 {
        41
    }
}
mod closed {
    pub fn f() -> felt252 {
        51
    }
    pub fn h() -> felt252 {
        52
    }
}

pub use closed::f as reexported_f;
pub(crate) use closed::h as crate_reexport;
use crate_mod::f as priv_alias;

pub fn through_aliases() -> felt252 {
    reexported_f() + crate_reexport() + priv_alias() + open::g()
}

pub trait PubTrait {
    fn t(self: @felt252) -> felt252;
}
pub(crate) trait CrateTrait {
    fn u(self: @felt252) -> felt252;
}
trait PrivTrait {
    fn v(self: @felt252) -> felt252;
}
pub impl PubImpl of PubTrait {
    fn t(self: @felt252) -> felt252 {
        *self + 1
    }
}
pub(crate) impl CrateImpl of CrateTrait {
    fn u(self: @felt252) -> felt252 {
        *self + 2
    }
}
impl PrivImpl of PrivTrait {
    fn v(self: @felt252) -> felt252 {
        *self + 3
    }
}
pub fn through_traits(x: felt252) -> felt252 {
    x.t() + x.u() + x.v()
}

pub type PubAlias = u8;
pub(crate) type CrateAlias = u16;
type PrivAlias = u32;
pub fn aliases(a: PubAlias, b: CrateAlias, c: PrivAlias) -> felt252 {
    a.into() + b.into() + c.into()
}

pub impl PubImplAlias = PubImpl;
pub(crate) impl CrateImplAlias = CrateImpl;

// glob re-exports with each visibility
pub mod g1 {
    pub fn from_g1() -> felt252 {
        61
    }
    pub(crate) fn g1_crate_only() -> felt252 {
        62
    }
}
mod g2 {
    pub fn from_g2() -> felt252 {
        63
    }
}
mod g3 {
    pub fn from_g3() -> felt252 {
        64
    }
}
pub use g1::*;
pub(crate) use g2::*;
use g3::*;
pub fn through_globs() -> felt252 {
    from_g1() + from_g2() + from_g3()
}
