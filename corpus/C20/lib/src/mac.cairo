//! Macros declared in the library and used by dependents.
pub macro add_one {
    ($x:expr) => { $x + 1 };
}

pub macro twice_sum {
    ($x:expr, $y:expr) => { ($x + $y) * 2 };
    ($x:expr) => { $x * 2 };
}

pub(crate) macro crate_only {
    ($x:expr) => { $x };
}

pub fn uses_own_macros(a: felt252) -> felt252 {
    add_one!(a) + twice_sum!(a, 1) + crate_only!(a)
}
