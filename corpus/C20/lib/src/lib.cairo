//! A small library crate for C20: everything a dependent can reach through the crate cache.
pub mod shapes;
pub mod algo;
pub mod store;
pub mod graph;
pub mod vis;
pub mod feat;
pub mod generic;
pub mod mac;
pub mod cfgd;

pub const SCALE: u32 = 7;
pub const ORIGIN: shapes::Point = shapes::Point { x: 0, y: 0 };
pub const PRIMES: [u16; 4] = [2, 3, 5, 7];
pub const NEG: i32 = -40 + 2;

#[inline(always)]
pub fn scale(x: u32) -> u32 {
    x * SCALE
}

#[inline(never)]
pub fn scale_slow(x: u32) -> u32 {
    x * SCALE + 0
}

pub fn small(x: felt252) -> felt252 {
    x + 1
}

pub fn pick<T, +Drop<T>>(a: T, b: T, first: bool) -> T {
    if first {
        a
    } else {
        b
    }
}

pub fn pair_of<T, +Copy<T>, +Drop<T>>(x: T) -> (T, T) {
    (x, x)
}

pub fn boxed_sum(a: Box<u64>, b: Box<u64>) -> u64 {
    a.unbox() + b.unbox()
}

pub fn snap_len<T>(arr: @Array<T>) -> usize {
    arr.len()
}

pub fn checked(x: u8, y: u8) -> Option<u8> {
    core::num::traits::CheckedAdd::checked_add(x, y)
}

pub fn must(x: Option<u8>) -> u8 {
    match x {
        Option::Some(v) => v,
        Option::None => panic!("c20lib::must on None"),
    }
}
