//! References into a third crate (c20util, the copy with discriminator v1).
use c20util::{Pair, Summable};

pub fn util_tag() -> felt252 {
    c20util::tag()
}

pub fn util_bump(x: felt252) -> felt252 {
    c20util::bump(x)
}

pub fn make_pair(a: felt252) -> Pair {
    Pair { a, b: c20util::TAG }
}

pub fn pair_sum(p: Pair) -> felt252 {
    p.sum()
}

// re-exports of items of the third crate
pub use c20util::deep::leaf;
pub use c20util::Pair as UtilPair;
pub use c20util::deep::Mode;

pub impl TupleSum of Summable<(felt252, felt252)> {
    fn sum(self: @(felt252, felt252)) -> felt252 {
        let (a, b) = *self;
        a + b + c20util::TAG
    }
}

pub fn sum_any<T, +Summable<T>>(x: @T) -> felt252 {
    x.sum()
}

pub fn mode_of(fast: bool) -> Mode {
    if fast {
        Mode::Fast(7)
    } else {
        Mode::Slow
    }
}

pub fn code_of(m: Mode) -> felt252 {
    c20util::mode_code(m)
}
