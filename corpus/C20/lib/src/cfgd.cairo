//! Items that exist only under the crate's cfg set (feature: 'fast' is set, 'slow' is not).
#[cfg(feature: 'fast')]
pub fn speed() -> felt252 {
    1
}

#[cfg(feature: 'slow')]
pub fn speed() -> felt252 {
    2
}

#[cfg(feature: 'slow')]
pub fn only_slow() -> felt252 {
    3
}

#[cfg(not(feature: 'slow'))]
pub fn not_slow() -> felt252 {
    4
}

#[cfg(target: 'c20')]
pub const TARGET: felt252 = 'c20';
