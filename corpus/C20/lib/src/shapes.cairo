#[derive(Copy, Drop, PartialEq, Debug)]
pub struct Point {
    pub x: u32,
    pub y: u32,
}

#[derive(Copy, Drop, PartialEq)]
pub enum Shape {
    Square: u32,
    Rect: (u32, u32),
    Dot: Point,
    Empty,
}

pub trait HasArea<T> {
    fn area(self: @T) -> u64;
    /// default implementation: lowered as a trait function
    fn is_flat(self: @T) -> bool {
        Self::area(self) == 0
    }
    fn doubled(self: @T) -> u64 {
        Self::area(self) * 2
    }
}

pub impl ShapeArea of HasArea<Shape> {
    fn area(self: @Shape) -> u64 {
        match *self {
            Shape::Square(a) => {
                let w: u64 = a.into();
                w * w
            },
            Shape::Rect((a, b)) => {
                let w: u64 = a.into();
                let h: u64 = b.into();
                w * h
            },
            Shape::Dot(_) => 0,
            Shape::Empty => 0,
        }
    }
}

pub impl PointArea of HasArea<Point> {
    fn area(self: @Point) -> u64 {
        0
    }
    fn doubled(self: @Point) -> u64 {
        1
    }
}

pub trait Named {
    const ID: felt252;
    type Out;
    fn name() -> felt252;
    fn wrap(x: felt252) -> Self::Out;
}

pub impl ShapeNamed of Named {
    const ID: felt252 = 'shape';
    type Out = (felt252, felt252);
    fn name() -> felt252 {
        Self::ID
    }
    fn wrap(x: felt252) -> (felt252, felt252) {
        (Self::ID, x)
    }
}

pub fn total_area<T, +HasArea<T>, +Drop<T>>(mut items: Array<T>) -> u64 {
    let mut acc: u64 = 0;
    loop {
        match items.pop_front() {
            Option::Some(s) => { acc += s.area(); },
            Option::None => { break; },
        }
    };
    acc
}

pub fn translate(p: Point, dx: u32, dy: u32) -> Point {
    Point { x: p.x + dx, y: p.y + dy }
}
