//! Feature kinds and attributes on items.
#[unstable(feature: "lib_unstable", note: "still moving")]
pub fn unstable_fn() -> felt252 {
    1
}

#[unstable(feature: "lib_unstable_nonote")]
pub fn unstable_nonote() -> felt252 {
    2
}

#[deprecated(feature: "lib_deprecated", note: "use stable_fn")]
pub fn deprecated_fn() -> felt252 {
    3
}

#[internal(feature: "lib_internal", note: "for the library only")]
pub fn internal_fn() -> felt252 {
    4
}

#[unstable(feature: "lib_unstable_struct")]
pub struct UnstableStruct {
    pub a: felt252,
}
#[feature("lib_unstable_struct")]
pub impl UnstableStructDrop of Drop<UnstableStruct>;

#[deprecated(feature: "lib_dep_const", note: "old constant")]
pub const OLD: felt252 = 9;

#[unstable(feature: "lib_unstable_mod", note: "module in flux")]
pub mod unstable_mod {
    pub fn inside() -> felt252 {
        5
    }
}

#[deprecated(feature: "lib_dep_trait", note: "use HasArea")]
pub trait OldTrait {
    fn old(self: @felt252) -> felt252;
}
#[feature("lib_dep_trait")]
pub impl OldImpl of OldTrait {
    fn old(self: @felt252) -> felt252 {
        *self
    }
}

pub fn stable_fn() -> felt252 {
    6
}

#[must_use]
pub fn important() -> felt252 {
    7
}

#[must_use]
#[derive(Drop)]
pub struct Token {
    pub v: felt252,
}
pub fn token() -> Token {
    Token { v: 8 }
}

#[doc(hidden)]
pub fn hidden() -> felt252 {
    10
}

#[phantom]
pub struct Ph {}
