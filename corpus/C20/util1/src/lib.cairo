//! c20util, version 1: the copy the cached library depends on (registered with a discriminator).
pub const TAG: felt252 = 1;

pub fn tag() -> felt252 {
    TAG
}

pub fn bump(x: felt252) -> felt252 {
    x + 100
}

#[derive(Copy, Drop, PartialEq)]
pub struct Pair {
    pub a: felt252,
    pub b: felt252,
}

pub trait Summable<T> {
    fn sum(self: @T) -> felt252;
}

pub impl PairSum of Summable<Pair> {
    fn sum(self: @Pair) -> felt252 {
        *self.a + *self.b
    }
}

pub mod deep {
    pub fn leaf() -> felt252 {
        11
    }

    #[derive(Copy, Drop)]
    pub enum Mode {
        Slow,
        Fast: u8,
    }
}

pub fn mode_code(m: deep::Mode) -> felt252 {
    match m {
        deep::Mode::Slow => 0,
        deep::Mode::Fast(x) => x.into(),
    }
}
