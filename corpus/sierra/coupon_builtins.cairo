#[allow(extern_outside_corelib)]
extern fn coupon_buy<T>() -> T nopanic;
#[allow(extern_outside_corelib)]
extern fn coupon_refund<T>(c: T) nopanic;

#[inline(never)]
fn hashit(x: felt252) -> felt252 {
    core::pedersen::pedersen(x, x)
}

#[inline(never)]
fn bits(x: u64) -> u64 {
    x & 0xff00
}

fn foo(x: felt252) -> felt252 {
    let c = coupon_buy::<hashit::Coupon>();
    hashit(x, __coupon__: c)
}

fn foo2(x: u64, flag: bool) -> u64 {
    let c = coupon_buy::<bits::Coupon>();
    if flag {
        bits(x, __coupon__: c)
    } else {
        coupon_refund(c);
        x
    }
}
