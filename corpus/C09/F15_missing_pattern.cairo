py)]
struct SB {
    a: ,
    b: fel    c: y)]
struct NoDrop;
}


fn bar(keep: bool, s: SB) {
     bar_ext(s);
    let SB { a, b: _b, c } = s;
  let NoDrop {. } = c;
  
#_coern fn bar_ext(s: S