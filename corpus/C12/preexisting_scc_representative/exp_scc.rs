//! C12 demo: the Sierra program produced for a crate must not depend on what else was computed
//! in the same database before (query order / history).
//!
//! Copy into `crates/cairo-lang-compiler/tests/` and run
//! `cargo test --offline -j 4 -p cairo-lang-compiler --test c12_demo_function_order`.

use cairo_lang_compiler::db::RootDatabase;
use cairo_lang_compiler::diagnostics::get_diagnostics_as_string;
use cairo_lang_defs::db::DefsGroup;
use cairo_lang_defs::ids::{ModuleId, NamedLanguageElementId};
use cairo_lang_lowering::ids::ConcreteFunctionWithBodyId;
use cairo_lang_semantic::test_utils::setup_test_crate;
use cairo_lang_sierra_generator::db::SierraGenGroup;
use cairo_lang_sierra_generator::replace_ids::replace_sierra_ids_in_program;

const CONTENT: &str = r#"
fn ping(n: felt252) -> felt252 { if n == 0 { 0 } else { pong(n - 1) + 1 } }

fn pong(n: felt252) -> felt252 { if n == 0 { 1 } else { ping(n - 1) + 2 } }
"#;

/// What is asked from the database before the crate is compiled.
enum History {
    /// Nothing - a cold compile.
    Cold,
    /// The Sierra of the named functions, in the given order (e.g. an IDE showing them).
    FunctionsSierra(&'static [&'static str]),
    /// The full diagnostics of the crate (what every CLI compile does first).
    Diagnostics,
}

fn compile(history: History) -> String {
    let db = RootDatabase::builder().detect_corelib().build().unwrap();
    let crate_id = setup_test_crate(&db, CONTENT);
    match history {
        History::Cold => {}
        History::FunctionsSierra(names) => {
            for name in names {
                let free_function = *db
                    .module_free_functions_ids(ModuleId::CrateRoot(crate_id))
                    .unwrap()
                    .iter()
                    .find(|f| f.name(&db).long(&db) == name)
                    .unwrap();
                let function =
                    ConcreteFunctionWithBodyId::from_no_generics_free(&db, free_function).unwrap();
                db.function_with_body_sierra(function).unwrap();
            }
        }
        History::Diagnostics => {
            assert_eq!(get_diagnostics_as_string(&db, Some(vec![crate_id])), "");
        }
    }
    let program = db.get_sierra_program(vec![crate_id]).unwrap();
    replace_sierra_ids_in_program(&db, &program.program).to_string()
}

fn function_order(program: &str) -> Vec<&str> {
    program.lines().filter(|l| l.contains("@F")).collect()
}

#[test]
fn sierra_independent_of_query_history() {
    let cold = compile(History::Cold);
    let after_diagnostics = compile(History::Diagnostics);
    let after_other_functions = compile(History::FunctionsSierra(&["pong"]));
    println!("cold                 : {:#?}", function_order(&cold));
    println!("after diagnostics    : {:#?}", function_order(&after_diagnostics));
    println!("after third, second  : {:#?}", function_order(&after_other_functions));
    assert_eq!(cold, after_diagnostics, "Sierra depends on whether diagnostics were computed first");
    assert_eq!(cold, after_other_functions, "Sierra depends on earlier queries on the database");
}
