//! Probe (HEAD, no patch): does the Sierra of a mutually recursive program depend on which of the
//! functions was queried first in the same database?
use std::path::Path;

use cairo_lang_compiler::CompilerConfig;
use cairo_lang_compiler::db::RootDatabase;
use cairo_lang_compiler::diagnostics::DiagnosticsReporter;
use cairo_lang_compiler::project::setup_project;
use cairo_lang_defs::db::DefsGroup;
use cairo_lang_defs::ids::NamedLanguageElementId;
use cairo_lang_filesystem::ids::CrateInput;
use cairo_lang_lowering::LoweringStage;
use cairo_lang_lowering::db::LoweringGroup;
use cairo_lang_lowering::ids::ConcreteFunctionWithBodyId;

fn compile(first: Option<&str>) -> String {
    let mut db = RootDatabase::builder().detect_corelib().build().unwrap();
    let path = Path::new(env!("CARGO_MANIFEST_DIR")).join("tests/extra_mutual.cairo");
    let main_crate_inputs = setup_project(&mut db, &path).unwrap();
    let reporter =
        DiagnosticsReporter::stderr().with_crates(&main_crate_inputs).allow_warnings();
    let main_crate_ids = CrateInput::into_crate_ids(&db, main_crate_inputs);
    if let Some(name) = first {
        for module_id in db.crate_modules(main_crate_ids[0]).iter() {
            for f in db.module_free_functions_ids(*module_id).unwrap().iter() {
                if f.name(&db).long(&db).as_str() == name {
                    let id = ConcreteFunctionWithBodyId::from_no_generics_free(&db, *f).unwrap();
                    let _ = db.lowered_body(id, LoweringStage::Final);
                }
            }
        }
    }
    cairo_lang_compiler::compile_prepared_db_program(
        &db,
        main_crate_ids,
        CompilerConfig { replace_ids: true, diagnostics_reporter: reporter, ..Default::default() },
    )
    .unwrap()
    .to_string()
}

#[test]
fn probe() {
    let plain = compile(None);
    let b_first = compile(Some("b"));
    let a_first = compile(Some("a"));
    println!("plain == a_first: {}", plain == a_first);
    println!("plain == b_first: {}", plain == b_first);
    if plain != b_first {
        println!("--- plain ---\n{plain}\n--- b first ---\n{b_first}");
    }
    assert!(plain == b_first && plain == a_first, "Sierra depends on the query history");
}
