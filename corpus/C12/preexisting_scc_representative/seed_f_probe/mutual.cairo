fn a(n: felt252) -> felt252 {
    if n == 0 {
        0
    } else {
        b(n - 1) + 1
    }
}

fn b(n: felt252) -> felt252 {
    if n == 0 {
        1
    } else {
        a(n - 1) + 2
    }
}

fn main() -> felt252 {
    a(10)
}
