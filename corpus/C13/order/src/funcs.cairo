use super::types::{Pair, Kind};

pub fn mix(a: felt252, b: u8, c: u16) -> felt252 {
    a + b.into() * 2 + c.into() * 3
}

#[inline(never)]
#[must_use]
pub fn pick3(flag: bool, x: felt252, y: u8) -> felt252 {
    if flag {
        x
    } else {
        y.into()
    }
}

pub fn generic2<A, B, +Drop<A>, +Drop<B>, +Into<A, felt252>, +Into<B, felt252>>(a: A, b: B) -> felt252 {
    a.into() + b.into() * 10
}

pub fn stmts() -> felt252 {
    let one = 1;
    let two = 2_u8;
    let three = 3_u16;
    let p = Pair { b: two, a: one };
    let k = Kind::High((three, one));
    let m = match k {
        Kind::High((u, v)) => u.into() + v,
        Kind::Low => 100,
        Kind::Mid(x) => x.into(),
    };
    let (q, r) = (one, two);
    m + p.a + q + r.into()
}
