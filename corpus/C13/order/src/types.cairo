#[derive(Copy, Drop, Serde, PartialEq)]
pub struct Pair {
    pub a: felt252,
    pub b: u8,
}

#[derive(Drop, Copy, Serde)]
pub struct Triple {
    pub x: u16,
    pub y: u32,
    pub z: felt252,
}

#[derive(Copy, Drop, Serde)]
pub enum Kind {
    Low,
    Mid: u8,
    High: (u16, felt252),
}

pub fn make_pair(a: felt252, b: u8) -> Pair {
    Pair { a, b }
}

pub trait HasSum<T> {
    fn sum(self: @T) -> felt252;
    fn twice(self: @T) -> felt252 {
        Self::sum(self) * 2
    }
}

pub impl PairSum of HasSum<Pair> {
    fn sum(self: @Pair) -> felt252 {
        *self.a + (*self.b).into()
    }
    fn twice(self: @Pair) -> felt252 {
        Self::sum(self) + Self::sum(self)
    }
}

pub impl TripleSum of HasSum<Triple> {
    fn sum(self: @Triple) -> felt252 {
        let Triple { x, y, z } = *self;
        x.into() + y.into() + z
    }
}

#[generate_trait]
pub impl DescribeImpl of Describe {
    fn describe(self: @Pair) -> felt252 {
        1
    }
    fn other(self: @Pair) -> felt252 {
        2
    }
}
