//! A project in which the ORDER of things is observable in Sierra and diagnostics: member layout,
//! variant indices, parameter order, trait / impl item order, derive order. For the C13 permutation edits.
mod types;
mod funcs;

use types::{Pair, Triple, Kind, make_pair, HasSum, Describe};
use funcs::{mix, pick3, generic2, stmts};

fn main() -> felt252 {
    let p = make_pair(3, 4_u8);
    let Pair { a, b } = p;
    let t = Triple { z: 7, x: 1_u16, y: 2_u32 };
    let k = Kind::Mid(5_u8);
    let code = match k {
        Kind::Low => 0,
        Kind::Mid(v) => v.into(),
        Kind::High((u, w)) => u.into() + w,
    };
    let mut out = array![];
    p.serialize(ref out);
    t.serialize(ref out);
    k.serialize(ref out);
    a + b.into() + code + t.sum() + p.sum() + p.describe() + mix(1, 2_u8, 3_u16) + pick3(true, 4, 5_u8)
        + generic2::<u8, u16>(6, 7) + stmts() + out.len().into()
}
