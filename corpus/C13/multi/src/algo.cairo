use super::store::nested::step_twice;

pub fn sum_to(n: u32) -> u32 {
    let mut acc = 0;
    let mut k = 0;
    while k != n {
        k += 1;
        acc += k;
    };
    acc
}

pub fn pick<T, +Drop<T>>(a: T, b: T, first: bool) -> T {
    if first {
        a
    } else {
        b
    }
}

#[inline(always)]
pub fn twice(x: felt252) -> felt252 {
    step_twice(x) * 2
}

pub fn fact(n: felt252) -> felt252 {
    if n == 0 {
        1
    } else {
        n * fact(n - 1)
    }
}
