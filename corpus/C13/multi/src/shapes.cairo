#[derive(Copy, Drop)]
pub struct Point {
    pub x: u32,
    pub y: u32,
}

#[derive(Copy, Drop)]
pub enum Shape {
    Square: u32,
    Rect: (u32, u32),
    Dot: Point,
}

pub trait ShapeTrait {
    fn area(self: Shape) -> u64;
    fn is_flat(self: Shape) -> bool;
}

pub impl ShapeImpl of ShapeTrait {
    fn area(self: Shape) -> u64 {
        match self {
            Shape::Square(a) => {
                let w: u64 = a.into();
                w * w
            },
            Shape::Rect((a, b)) => {
                let w: u64 = a.into();
                let h: u64 = b.into();
                w * h
            },
            Shape::Dot(_) => 0,
        }
    }
    fn is_flat(self: Shape) -> bool {
        self.area() == 0
    }
}
