mod shapes;
mod store;
mod algo;

use shapes::{Shape, ShapeTrait, Point};
use store::{Counter, CounterTrait};

const LIMIT: u32 = 10;

fn total_area(mut items: Array<Shape>) -> u64 {
    let mut acc: u64 = 0;
    loop {
        match items.pop_front() {
            Option::Some(s) => { acc += s.area(); },
            Option::None => { break; },
        }
    };
    acc
}

fn main() -> u64 {
    let origin = Point { x: 0, y: 0 };
    let mut items = array![];
    items.append(Shape::Square(3));
    items.append(Shape::Rect((2, 5)));
    items.append(Shape::Dot(origin));
    let mut c = Counter { hits: 0, cap: LIMIT };
    let mut i: u32 = 0;
    while i < 4 {
        c.bump();
        i += 1;
    };
    let s = algo::sum_to(c.hits);
    let g = algo::pick::<u64>(7, 9, s > 3);
    total_area(items) + s.into() + g
}
