#[derive(Drop)]
pub struct Counter {
    pub hits: u32,
    pub cap: u32,
}

#[generate_trait]
pub impl CounterImpl of CounterTrait {
    fn bump(ref self: Counter) {
        if self.hits < self.cap {
            self.hits += 1;
        }
    }
    fn reset(ref self: Counter) {
        self.hits = 0;
    }
}

pub mod nested {
    pub const STEP: felt252 = 3;

    pub fn step_twice(x: felt252) -> felt252 {
        x + STEP + STEP
    }
}
