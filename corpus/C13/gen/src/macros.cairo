pub fn fine() -> felt252 {
    let xx = 1;
    println!( "{} {}", xx, xx );
    xx
}

fn prints() {
    let xx = 1;
    let ab = 2;
    println!( "{} {}", xx, yy );
    println!("{}", zz );
    println!( "{} {} {}", ab, xx, qq);
    print!( "{}", ww );
}

fn formats() -> ByteArray {
    let xx = 1;
    let s1 = format!( "{} {}", aa, xx );
    let s2 = format!("{}-{}", xx, bb );
    s1 + s2
}

fn asserts() {
    let xx = 1;
    let uu = 2;
    assert!( xx == cc, "msg {}", dd );
    assert!(uu == xx, "{} {}", ee, uu );
    let _a = array![ xx, ff, 3 ];
    let _b = array![ uu, xx, gg ];
}

fn questions() -> Option<u8> {
    let v: Option<u16> = Option::Some(1);
    let w: u8 = v?;
    let z: u8 = hh?;
    Option::Some(w + z)
}

fn nested() {
    let xx = 1;
    println!( "{}", format!( "{} {}", xx, ii ) );
    assert!( array![ xx, jj ].len() == 2, "len" );
}
