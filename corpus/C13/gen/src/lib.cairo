//! A project whose diagnostics originate in generated code: inline macro expansions, derive
//! plugins, generate_trait, the `?` desugaring, user-defined macros. For the C13 edit histories.
mod macros;
mod derives;
mod usermac;

fn main() -> felt252 {
    macros::fine() + derives::fine()
}
