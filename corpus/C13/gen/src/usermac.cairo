macro my_add {
    ($x:expr, $y:expr) => { $x + $y };
}

macro my_pair {
    ($a:ident $b:ident) => { ($a, $b) };
}

fn uses() -> felt252 {
    let xx = 1;
    let pq = 2;
    let r1 = my_add!( xx, kk );
    let r2 = my_add!(pq, xx ) + my_add!( ll, pq );
    let (_m, _n) = my_pair!( xx mm );
    r1 + r2
}
