pub fn fine() -> felt252 {
    2
}

struct NoTraits {
    v: felt252,
}

#[derive(Drop, Copy, Clone, Serde, Debug, PartialEq)]
struct Holder {
    a: NoTraits,
    b: felt252,
}

#[derive(Copy, Drop, Default, Hash)]
enum Choice {
    One: NoTraits,
    Two,
}

#[generate_trait]
impl HolderImpl of HolderTrait {
    fn total(self: @Holder) -> felt252 {
        *self.b + missing_one
    }
    fn other( self: @Holder, k: felt252 ) -> felt252 {
        k + missing_two
    }
}

#[derive(Drop)]
struct Plain {
    x: u8,
    y: u8,
}

#[generate_trait]
impl PlainImpl of PlainTrait {
    fn sum( self: @Plain ) -> u8 {
        let r: u16 = *self.x + *self.y;
        r
    }
}
