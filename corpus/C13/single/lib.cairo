#[derive(Copy, Drop)]
struct Pair {
    a: felt252,
    b: felt252,
}

fn swap(p: Pair) -> Pair {
    Pair { a: p.b, b: p.a }
}

fn fib(a: felt252, b: felt252, n: felt252) -> felt252 {
    match n {
        0 => a,
        _ => fib(b, a + b, n - 1),
    }
}

fn helper(x: u8) -> u8 {
    let y = x + 1;
    let z = y * 2;
    z
}

fn main() -> felt252 {
    let p = swap(Pair { a: 1, b: 2 });
    let h: felt252 = helper(3).into();
    fib(p.a, p.b, 10) + h
}
