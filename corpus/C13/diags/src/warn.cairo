// warnings
fn unused() -> felt252 {
    let never_used = 1;
    let also_unused = 2;
    3
}

fn unused_in_loop() {
    let mut k: u8 = 0;
    while k < 2 {
        let dead = 5;
        k += 1;
    };
}

fn unreachable_tail() -> felt252 {
    return 1;
    2
}
