// semantic diagnostics
pub fn fine() -> felt252 {
    2
}

fn mismatch() -> u8 {
    let _a: u8 = 300_u16;
    let _b = undefined_name;
    let _c: felt252 = 1 + true;
    5
}

fn in_macros() {
    let _m = array![1, true];
    let _p = format!("{} {}", 1);
    unknown_macro!(1);
    println!("{}", not_defined);
}

fn calls() {
    no_such_function();
    let _x: u8 = fine();
}
