// lowering / borrow-check diagnostics, also inside generated functions (loops, closures)
struct NoDrop {
    x: felt252,
}

fn consume(_a: Array<felt252>) {}

pub fn fine() -> felt252 {
    1
}

fn two_loops() {
    loop {
        let a: Array<felt252> = array![];
        consume(a);
        consume(a);
        break;
    };
    let _z: felt252 = loop {
        let b: Array<felt252> = array![];
        consume(b);
        consume(b);
        break 1;
    };
}

fn loop_and_closure() -> felt252 {
    let mut i: u8 = 0;
    while i < 2 {
        let w: Array<felt252> = array![];
        let _w1 = w;
        let _w2 = w;
        i += 1;
    };
    let c = |x: felt252| {
        let q: Array<felt252> = array![];
        let _q1 = q;
        let _q2 = q;
        x
    };
    for _e in array![1_u8, 2].span() {
        let f: Array<felt252> = array![];
        let _f1 = f;
        let _f2 = f;
    };
    c(2)
}

fn plain_moves() {
    let a: Array<felt252> = array![];
    let _b = a;
    let _c = a;
    let _nd = NoDrop { x: 1 };
}
