//! A project that carries at least two diagnostics of every phase, for the C13 edit histories.
mod low;
mod sem;
mod warn;
mod plug;
mod syn;

fn main() -> felt252 {
    low::fine() + sem::fine()
}
