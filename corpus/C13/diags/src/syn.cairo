// parser diagnostics (with recovery)
fn broken_one() -> felt252 {
    let a = (1 + ;
    a
}

fn broken_two() {
    let = 5;
}

fn ok_after() -> felt252 {
    7
}
