// plugin diagnostics
#[derive(NoSuchDerive)]
struct D1 {
    a: felt252,
}

#[derive(Drop, AlsoMissing)]
struct D2 {
    a: felt252,
}

#[inline(maybe)]
fn odd_inline() {}

#[generate_trait]
impl NotATraitImpl of Gen<u8> {
    fn f() {}
}
