fn f(mut n: u32) -> u32 {
    assert!({
        let mut k: u32 = 0_u32;
        loop {
            if k >= n { break true; }
            k = k + 1_u32;
        }
    }, "x");
    n
}
fn main() -> u32 { f(3_u32) }
