mod m {
    fn l() {}
    // c
    use zz::*;
    use core::m;
    use zz::*;
}
