//	/x
fn f() {}
