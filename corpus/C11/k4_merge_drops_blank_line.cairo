mod a;

use z::b;
use y::c;
