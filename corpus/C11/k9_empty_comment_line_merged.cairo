trait T {}
///happens overflow https/example.org::path::path::path::path::path::path::path::path:: the * is happens/x
///
///next paragraph
fn f() {}
