//aaaaaaaaaaaaaaa /bbbbbbbbbbbb
//a !b c ddddddddddddddd
fn f() {}
