fn f() {
    let x =
        // explanation
        foo(a);
    let y = a +
    // why
    b;
}
const X: felt252 = 8 /
// c
4;
