use z::q;
// c
use a::{b::c, x1::*};
