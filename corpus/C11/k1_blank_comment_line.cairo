fn f() {
    // aaaa bbbb ccc  https://example.org/x
    let x = 1;
}
