macro m {
  () => {} // c
  ;
  ($x:expr) // c
  => { $x };
}
