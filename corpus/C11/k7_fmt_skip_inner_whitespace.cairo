trait T {
    type Bar;

    #[cairofmt::
skip]
    impl Baz: MyTrait;
}
