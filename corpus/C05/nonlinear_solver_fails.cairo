// INTERNAL: runner: BuildError(FailedGasCalculation(SolvingGasEquationFailed))
#[derive(Copy, Drop, PartialEq)]
enum Ec500p102_0 {
    V0: u16,
    V1: Option<u16>,
    V2: u32,
}
fn c500p102_f0(mut v0: Ec500p102_0, ref v1: i128, mut v2: i32) -> felt252 {
    if (v1 == (-5_i128)) {
        v0 = (if (v1 <= 8_i128) {
            v0
        } else {
            v0
        });
        ()
    } else {
        ()
    };
    (-((Into::<i128, felt252>::into(v1) * 1731286360700653774059966363422706190384577226666839907606900489868531812721_felt252)))
}
fn c500p102_f1(mut v3: Option<i32>, mut v4: u64, mut v5: @u64) -> (i8, (i128, bool)) {
    if (match v3 {
        Option::Some(mut v6) => {
            ((*(@Option::<u64>::Some(v4))) != Option::<u64>::Some(v4))
        },
        Option::None => {
            let mut v7: () = ();
            v4 = ({
                let mut v8: Array<i8> = ArrayTrait::<i8>::new();
                (Option::<u64>::Some(v4)).unwrap()
            });
            ((3_u32 + 1056084501_u32) == (*(@0_u32)))
        },
    }) {
        ()
    } else {
        ()
    };
    ((if (v4 < v4) {
        if (v4 > 2_u64) {
            127_i8
        } else {
            (-81_i8)
        }
    } else {
        (7_i8 / 11_i8)
    }), (match Result::<bool, i32>::Ok((v4 != 5_u64)) {
        Result::Ok(mut v9) => {
            if (if (v4 < 10_u64) {
                v9
            } else {
                v9
            }) {
                ()
            } else {
                ()
            };
            let mut v10: u32 = 0_u32;
            while (v10 < 3_u32) {
                v10 = (v10 + 1_u32);
                if v9 {
                    let mut v11: (u32,) = (v10,);
                    ()
                } else {
                    v3 = v3;
                    ()
                };
                let mut v12: Ec500p102_0 = Ec500p102_0::V2(v10);
                v4 = v4;
                ();
            };
            (Into::<u32, i128>::into(v10), v9)
        },
        Result::Err(mut v13) => {
            let mut v14: Result<felt252, i32> = Result::<felt252, i32>::Ok(3618502788666131213697322783095070105623107215331596699973092056135872020479_felt252);
            let mut v15: (bool,) = ((v4 > 0_u64),);
            (Into::<i32, i128>::into(v13), (v13 != 0_i32))
        },
    }))
}
fn c500p102_f2(ref v16: Ec500p102_0, mut v17: Ec500p102_0, mut v18: Ec500p102_0, mut v19: (u32, Ec500p102_0, i32)) -> Ec500p102_0 {
    {
        let mut v20: u32 = 0_u32;
        loop {
            if (v20 >= 3_u32) {
                break;
            } else {
                ()
            };
            v20 = (v20 + 1_u32);
            let mut v36: u128 = ((match v18 {
                Ec500p102_0::V0(mut v21) => {
                    (Into::<u16, u128>::into(v21) ^ 9_u128)
                },
                Ec500p102_0::V1(mut v22) => {
                    v19 = (v20, Ec500p102_0::V2(v20), 0_i32);
                    let mut v24: u128 = {
                        let mut v23: u32 = 0_u32;
                        loop {
                            if (v23 >= 3_u32) {
                                break 0_u128;
                            } else {
                                ()
                            };
                            v23 = (v23 + 1_u32);
                            let mut v17: Ec500p102_0 = v16;
                            ();
                        }
                    };
                    (*(@v24))
                },
                Ec500p102_0::V2(mut v25) => {
                    let mut v29: i8 = match v16 {
                        Ec500p102_0::V0(mut v26) => {
                            9_i8
                        },
                        Ec500p102_0::V1(mut v27) => {
                            11_i8
                        },
                        Ec500p102_0::V2(mut v28) => {
                            2_i8
                        },
                    };
                    let mut v34: u8 = {
                        let mut v30: u32 = 0_u32;
                        loop {
                            if (v30 >= 1_u32) {
                                break 7_u8;
                            } else {
                                ()
                            };
                            v30 = (v30 + 1_u32);
                            if (v25 >= 5_u32) {
                                let mut v31: @bool = (@(v25 <= 5_u32));
                                ()
                            } else {
                                let mut v32: i16 = (-6_i16);
                                ()
                            };
                            let mut v33: (i8,) = (v29,);
                            ();
                        }
                    };
                    Into::<u8, u128>::into(v34)
                },
            }) / (if (if (v20 == 4_u32) {
                (v20 == 3_u32)
            } else {
                (v20 == 3_u32)
            }) {
                18446744073709551615_u128
            } else {
                let mut v35: Option<felt252> = Option::<felt252>::None;
                Into::<u32, u128>::into(v20)
            }));
            let mut v37: i8 = 0_i8;
            ();
        }
    };
    v16
}
fn c500p102_f3(mut v38: (bool, u64), mut v39: (bool, i8)) -> i32 {
    {
        let mut v40: u32 = 0_u32;
        loop {
            if (v40 >= 2_u32) {
                break;
            } else {
                ()
            };
            v40 = (v40 + 1_u32);
            let mut v41: i32 = Into::<i16, i32>::into((TryInto::<u32, i16>::try_into(v40)).unwrap());
            ();
        }
    };
    (Into::<i8, i32>::into((7_i8 / 3_i8)) % ((-((-6_i32))) % 4_i32))
}
