// under opt=Disabled,skip_const_folding=false,numeric_match_threshold=None,gas=Some(NonLinear)
// INTERNAL: runner: BuildError(SierraCompilationError(AnnotationError(InvalidFunctionApChange { statement_idx: StatementIdx(1268), expected: Enabled { ap_change: 0, base: FunctionStart }, actual: Disabled })))
#[derive(Copy, Drop, PartialEq)]
struct Sc500p213_0 {
    m0: bool,
    m1: felt252,
}
#[derive(Copy, Drop, PartialEq)]
struct Sc500p213_1 {
    m0: u128,
    m1: i8,
    m2: i64,
}
#[derive(Copy, Drop, PartialEq)]
enum Ec500p213_0 {
    V0: Option<u64>,
    V1: (),
}
fn c500p213_f0(ref v0: i32, mut v1: Sc500p213_0, mut v2: Option<u32>) -> u64 {
    let mut v3: Sc500p213_0 = Sc500p213_0 { m0: (!(((18446744073709551615_u128 % 9_u128) < (if false {
        5_u128
    } else {
        9_u128
    })))), m1: (0_felt252 * ((if (v0 < (-2_i32)) {
        14_felt252
    } else {
        Into::<i32, felt252>::into(v0)
    }) * (Into::<i32, felt252>::into(v0) * Into::<i32, felt252>::into(v0)))), };
    match v2 {
        Option::Some(mut v4) => {
            match ({
                let mut v5: u32 = 0_u32;
                loop {
                    if (v5 >= 2_u32) {
                        break (match Option::<felt252>::Some(12_felt252) {
                            Option::Some(mut v6) => {
                                Result::<u16, felt252>::Ok(1_u16)
                            },
                            Option::None => {
                                let mut v7: () = ();
                                Result::<u16, felt252>::Ok(15495_u16)
                            },
                        });
                    } else {
                        ()
                    };
                    v5 = (v5 + 1_u32);
                    {
                        let mut v8: u32 = 0_u32;
                        loop {
                            if (v8 >= 2_u32) {
                                break;
                            } else {
                                ()
                            };
                            v8 = (v8 + 1_u32);
                            ();
                        }
                    };
                    assert(((v4 <= 1_u32) && true), 'a62');
                    v1 = Sc500p213_0 { m0: (v0 <= (-4_i32)), m1: 6_felt252, };
                    ();
                }
            }) {
                Result::Ok(mut v9) => {
                    let mut v11: u16 = ((TryInto::<i64, u16>::try_into(Into::<u16, i64>::into(v9))).unwrap() / ({
                        let mut v10: u32 = 0_u32;
                        loop {
                            if (v10 >= 2_u32) {
                                break v9;
                            } else {
                                ()
                            };
                            v10 = (v10 + 1_u32);
                            v3 = v1;
                            v3 = v3;
                            ();
                        }
                    }));
                    Into::<u16, u64>::into((*(@v11)))
                },
                Result::Err(mut v12) => {
                    v1 = (if (v0 >= 74_i32) {
                        v1
                    } else {
                        let mut v13: u32 = 0_u32;
                        while (v13 < 1_u32) {
                            v13 = (v13 + 1_u32);
                            v0 = v0;
                            if (v0 < 4_i32) {
                                v1 = Sc500p213_0 { m0: true, m1: v12, };
                                let mut v14: (felt252, (u128,), Sc500p213_1) = (v12, (Into::<u32, u128>::into(v13),), Sc500p213_1 { m0: 0_u128, m1: (-128_i8), m2: Into::<u32, i64>::into(v4), });
                                return Into::<u32, u64>::into(v13);
                            } else {
                                ()
                            };
                            ();
                        };
                        Sc500p213_0 { m0: (v13 == 5_u32), m1: v12, }
                    });
                    let mut v15: Array<felt252> = ArrayTrait::<felt252>::new();
                    Into::<u32, u64>::into(v4)
                },
            }
        },
        Option::None => {
            let mut v16: () = ();
            v2 = v2;
            let mut v17: Option<u16> = Option::<u16>::Some(8_u16);
            2_u64
        },
    }
}
fn c500p213_f1(mut v18: u32, mut v19: Option<i128>, mut v20: Option<Sc500p213_1>) -> i32 {
    if (v18 == 0_u32) {
        return ((-2_i32) - 328635289_i32);
    } else {
        ()
    };
    if (if ((Into::<u32, felt252>::into(v18) + Into::<u32, felt252>::into(v18)) == (*(@Into::<u32, felt252>::into(v18)))) {
        ((Into::<u32, i64>::into(v18) + 7_i64) <= (if (v18 > 2_u32) {
            5_i64
        } else {
            10_i64
        }))
    } else {
        let mut v21: Array<u128> = ArrayTrait::<u128>::new();
        v20 = Option::<Sc500p213_1>::None;
        ((v18 == 5_u32) && (!((v18 < 39_u32))))
    }) {
        {
            let mut v22: u32 = 0_u32;
            loop {
                if (v22 >= 1_u32) {
                    break;
                } else {
                    ()
                };
                v22 = (v22 + 1_u32);
                v19 = (match (match Ec500p213_0::V0(Option::<u64>::None) {
                    Ec500p213_0::V0(mut v23) => {
                        Ec500p213_0::V0(Option::<u64>::None)
                    },
                    Ec500p213_0::V1(mut v24) => {
                        Ec500p213_0::V0(Option::<u64>::None)
                    },
                }) {
                    Ec500p213_0::V0(mut v25) => {
                        if false {
                            v19
                        } else {
                            v19
                        }
                    },
                    Ec500p213_0::V1(mut v26) => {
                        (*(@v19))
                    },
                });
                ();
            }
        };
        (((Option::<i32>::None).unwrap() + ((-1_i32) - 0_i32)) / ((if (v18 < 5_u32) {
            (-1_i32)
        } else {
            0_i32
        }) + (3_i32 * 1842013404_i32)))
    } else {
        v20 = Option::<Sc500p213_1>::None;
        {
            let mut v30: Ec500p213_0 = match v19 {
                Option::Some(mut v27) => {
                    let mut v28: (Ec500p213_0, Ec500p213_0) = (Ec500p213_0::V0(Option::<u64>::Some(1_u64)), Ec500p213_0::V1(()));
                    Ec500p213_0::V1(())
                },
                Option::None => {
                    let mut v29: () = ();
                    Ec500p213_0::V0(Option::<u64>::None)
                },
            };
            9_i32
        }
    }
}
fn c500p213_f2(mut v31: i32, mut v32: u8, mut v33: bool) -> (Option<i64>,) {
    v31 = (TryInto::<u32, i32>::try_into(((TryInto::<i8, u32>::try_into((Option::<i8>::Some(4_i8)).unwrap())).unwrap() * ((2_u32 + Into::<u8, u32>::into(v32)) * Into::<u16, u32>::into(Into::<u8, u16>::into(v32)))))).unwrap();
    let mut v34: u32 = 0_u32;
    while (v34 < 1_u32) {
        v34 = (v34 + 1_u32);
        let mut v43: u64 = c500p213_f0(ref v31, Sc500p213_0 { m0: ({
            v33 = (v33 || v33);
            match Result::<i64, i128>::Err(18446744073709551615_i128) {
                Result::Ok(mut v35) => {
                    v33
                },
                Result::Err(mut v36) => {
                    v33
                },
            }
        }), m1: ((Into::<u8, felt252>::into(v32) * Into::<u32, felt252>::into(v34)) - (match 2_felt252 {
            0 => {
                Into::<u32, felt252>::into(v34)
            },
            1 => {
                Into::<u8, felt252>::into(v32)
            },
            2 => {
                13_felt252
            },
            _ => {
                13_felt252
            },
        })), }, Option::<u32>::Some((if (Option::<bool>::None).expect('exp38') {
            let mut v39: bool = match Option::<u64>::None {
                Option::Some(mut v37) => {
                    v33
                },
                Option::None => {
                    let mut v38: () = ();
                    v33
                },
            };
            match Result::<felt252, i64>::Ok(Into::<u32, felt252>::into(v34)) {
                Result::Ok(mut v40) => {
                    v34
                },
                Result::Err(mut v41) => {
                    v34
                },
            }
        } else {
            let mut v42: u128 = (Into::<u8, u128>::into(v32) / Into::<u32, u128>::into(v34));
            v34
        })));
        v32 = 1_u8;
        let mut v52: u64 = c500p213_f0(ref v31, ({
            let mut v44: u16 = (~((if false {
                Into::<u8, u16>::into(v32)
            } else {
                Into::<u8, u16>::into(v32)
            })));
            match Ec500p213_0::V1(()) {
                Ec500p213_0::V0(mut v45) => {
                    let mut v48: u64 = c500p213_f0(ref v31, (match Option::<bool>::None {
                        Option::Some(mut v46) => {
                            Sc500p213_0 { m0: v33, m1: 15_felt252, }
                        },
                        Option::None => {
                            let mut v47: () = ();
                            Sc500p213_0 { m0: v33, m1: Into::<u8, felt252>::into(v32), }
                        },
                    }), Option::<u32>::Some(v34));
                    if v33 {
                        Sc500p213_0 { m0: v33, m1: Into::<u8, felt252>::into(v32), }
                    } else {
                        Sc500p213_0 { m0: v33, m1: 2904530462787355563363443979005338646316922301568063402947062799589884243954_felt252, }
                    }
                },
                Ec500p213_0::V1(mut v49) => {
                    match Ec500p213_0::V1(v49) {
                        Ec500p213_0::V0(mut v50) => {
                            Sc500p213_0 { m0: true, m1: Into::<i32, felt252>::into(v31), }
                        },
                        Ec500p213_0::V1(mut v51) => {
                            Sc500p213_0 { m0: (v43 > 3_u64), m1: Into::<u64, felt252>::into(v43), }
                        },
                    }
                },
            }
        }), Option::<u32>::Some(v34));
        ();
    };
    (Option::<i64>::None,)
}
