#[derive(Copy, Drop, PartialEq)]
struct Sc500p213_0 {
    m0: bool,
    m1: felt252,
}
#[derive(Copy, Drop, PartialEq)]
struct Sc500p213_1 {
    m0: u128,
    m1: i8,
    m2: i64,
}
#[derive(Copy, Drop, PartialEq)]
enum Ec500p213_0 {
    V0: Option<u64>,
    V1: (),
}
fn c500p213_f0(ref v0: i32, mut v1: Sc500p213_0, mut v2: Option<u32>) -> u64 {
    let mut v3: Sc500p213_0 = Sc500p213_0 { m0: false, m1: (if false {
        14_felt252
    } else {
        0_felt252
    }), };
    match (loop {
        if false {
            break Result::<u16, felt252>::Ok(1_u16);
        } else {
            ()
        };
        ();
    }) {
        Result::Ok(mut v9) => {
            let mut v11: u16 = (Option::<u16>::Some(0_u16)).unwrap();
            0_u64
        },
        Result::Err(mut v12) => {
            v1 = (if false {
                v1
            } else {
                while false {
                    ();
                };
                Sc500p213_0 { m0: false, m1: 0_felt252, }
            });
            0_u64
        },
    }
}
fn c500p213_f1(mut v18: u32, mut v19: Option<i128>, mut v20: Option<Sc500p213_1>) -> i32 {
    0_i32
}
fn c500p213_f2(mut v31: i32, mut v32: u8, mut v33: bool) -> (Option<i64>,) {
    (Option::<i64>::None,)
}

