// Variants of F1: snapshots of constants of types without Drop (Destruct only, PanicDestruct only,
// enum and nested struct) passed to small functions.
use core::panics::Panic;
struct N { a: felt252 }
struct X { a: felt252 }
impl XDestruct of Destruct<X> { fn destruct(self: X) nopanic { let X { a: _ } = self; } }
struct Y { a: felt252 }
impl YPanicDestruct of PanicDestruct<Y> { fn panic_destruct(self: Y, ref panic: Panic) nopanic { let Y { a: _ } = self; } }
enum EN { A: N, B: felt252 }
struct W { n: N, k: felt252 }
fn eat_n(x: N) -> felt252 nopanic { let N { a } = x; a }
fn eat_x(x: X) -> felt252 nopanic { let X { a } = x; a }
fn eat_y(x: Y) -> felt252 nopanic { let Y { a } = x; a }
fn eat_en(x: EN) -> felt252 nopanic { match x { EN::A(n) => eat_n(n), EN::B(f) => f } }
fn eat_w(x: W) -> felt252 nopanic { let W { n, k } = x; let _r = eat_n(n); k }
fn peek_x(x: @X) -> felt252 nopanic { *x.a }
fn peek_y(x: @Y) -> felt252 nopanic { *x.a }
fn peek_en(x: @EN) -> felt252 nopanic { match x { EN::A(n) => *n.a, EN::B(f) => *f } }
fn peek_w(x: @W) -> felt252 nopanic { *x.k }
fn fx() -> felt252 { let v = X { a: 1 }; let _b = peek_x(@v); eat_x(v) }
fn fy() -> felt252 { let v = Y { a: 1 }; let _b = peek_y(@v); eat_y(v) }
fn fen() -> felt252 { let v = EN::A(N { a: 1 }); let _b = peek_en(@v); eat_en(v) }
fn fw() -> felt252 { let v = W { n: N { a: 1 }, k: 2 }; let _b = peek_w(@v); eat_w(v) }
