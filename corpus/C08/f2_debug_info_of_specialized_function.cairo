// functions debug info (CompilerConfig::add_functions_debug_info) of a function specialized on all of its
// parameters: `f{3, 0}` has no Sierra parameter, its declaration has two
fn f(n: felt252, acc: felt252) -> felt252 {
    if n == 0 {
        acc
    } else {
        f(n - 1, acc + n)
    }
}
fn main() -> felt252 {
    f(3, 0)
}
