// Regression input (finding F3): an error-free program; the PanicDestruct-only payload bound in a match arm of a
// hand-written panic_destruct goes out of scope in the arm, add_destructs inserted the call after the merge
// (lifetime.rs: "vN is used before it is introduced").
use core::panics::Panic;
struct Y { a: felt252 }
impl YPD of PanicDestruct<Y> { fn panic_destruct(self: Y, ref panic: Panic) nopanic { let Y { a: _ } = self; } }
enum W { A: Y, B: felt252 }
impl WPanicDestruct of PanicDestruct<W> {
    fn panic_destruct(self: W, ref panic: Panic) nopanic {
        match self { W::A(_) => {}, W::B(_) => {} }
    }
}
fn user(w: W) -> felt252 { core::panic_with_felt252('x') }
