// Regression input (finding F1, fixed in /repo 1cbb645): an error-free program on which const folding
// specialised peek_n(@N{a:1}); the specialized wrapper left the materialised constant of type N (no
// Drop/Destruct) unused and add_destructs panicked "Borrow checker should have caught this".
struct N { a: felt252 }
fn eat_n(x: N) -> felt252 nopanic { let N { a } = x; a }
fn peek_n(x: @N) -> felt252 nopanic { *x.a }
fn f0(a: felt252) -> felt252 {
    let v4 = N { a: 1 };
    let _b = peek_n(@v4);
    eat_n(v4)
}
