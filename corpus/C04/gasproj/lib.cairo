// Self-checking gas tests for nested Starknet calls (C04): between two readings of the gas counter the caller runs an
// inner call that executes `n` loop iterations (each well over 5 VM steps) - the counter must drop by at least
// 100 gas per step, i.e. by more than 500 * n, whether the inner call succeeds or fails.
use starknet::syscalls::{deploy_syscall, library_call_syscall};
use starknet::SyscallResultTrait;

#[starknet::interface]
trait IBurner<T> {
    fn burn(ref self: T, n: u128, fail: bool) -> felt252;
    fn burn_nested(ref self: T, inner: starknet::ContractAddress, n: u128, fail: bool) -> felt252;
}

#[starknet::contract]
mod burner {
    use super::{IBurnerSafeDispatcher, IBurnerSafeDispatcherTrait};
    #[storage]
    struct Storage {}

    fn spin(n: u128) -> felt252 {
        let mut i = 0;
        let mut acc: felt252 = 1;
        while i != n {
            acc = acc * 3 + 1;
            i += 1;
        }
        acc
    }

    #[abi(embed_v0)]
    impl Burner of super::IBurner<ContractState> {
        fn burn(ref self: ContractState, n: u128, fail: bool) -> felt252 {
            let acc = spin(n);
            assert(!fail, 'Failure');
            acc
        }
        #[feature("safe_dispatcher")]
        fn burn_nested(ref self: ContractState, inner: starknet::ContractAddress, n: u128, fail: bool) -> felt252 {
            let d = IBurnerSafeDispatcher { contract_address: inner };
            match d.burn(n, fail) {
                Result::Ok(v) => v,
                Result::Err(_) => 7,
            }
        }
    }
}

fn gas_now() -> u128 {
    core::gas::withdraw_gas().unwrap();
    core::testing::get_available_gas()
}

fn deploy_salted(salt: felt252) -> starknet::ContractAddress {
    let (a, _) = deploy_syscall(burner::TEST_CLASS_HASH, salt, [].span(), false).unwrap_syscall();
    a
}
fn deploy() -> starknet::ContractAddress { deploy_salted(0) }

#[test]
#[available_gas(100000000)]
#[feature("safe_dispatcher")]
fn failed_call_is_charged() {
    let d = IBurnerSafeDispatcher { contract_address: deploy() };
    let before = gas_now();
    let res = d.burn(1000, true);
    let after = gas_now();
    assert!(res.is_err());
    assert!(before - after >= 500000, "failed call: only {} gas charged for > 5000 steps", before - after);
}

#[test]
#[available_gas(100000000)]
#[feature("safe_dispatcher")]
fn successful_call_is_charged() {
    let d = IBurnerSafeDispatcher { contract_address: deploy() };
    let before = gas_now();
    let res = d.burn(1000, false);
    let after = gas_now();
    assert!(res.is_ok());
    assert!(before - after >= 500000, "successful call: only {} gas charged for > 5000 steps", before - after);
}

#[test]
#[available_gas(100000000)]
#[feature("safe_dispatcher")]
fn nested_failed_call_is_charged() {
    let outer = IBurnerSafeDispatcher { contract_address: deploy() };
    let inner = deploy_salted(1);
    let before = gas_now();
    let res = outer.burn_nested(inner, 800, true);
    let after = gas_now();
    assert!(res == Result::Ok(7));
    assert!(before - after >= 400000, "nested failed call: only {} gas charged for > 4000 steps", before - after);
}

#[test]
#[available_gas(100000000)]
fn failed_library_call_is_charged() {
    let before = gas_now();
    let mut calldata = array![];
    600_u128.serialize(ref calldata);
    true.serialize(ref calldata);
    let res = library_call_syscall(burner::TEST_CLASS_HASH, selector!("burn"), calldata.span());
    let after = gas_now();
    assert!(res.is_err());
    assert!(before - after >= 300000, "failed library call: only {} gas charged for > 3000 steps", before - after);
}
