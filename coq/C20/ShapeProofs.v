(* C20/ShapeProofs.v -- what the boolean check of ShapeCheck.v means, as a proposition, and the proof
   that the check implies it. *)
From Coq Require Import List String Bool.
From C20 Require Import ShapeDefs ShapeCheck.
Import ListNotations.
Local Open Scope string_scope.

Lemma mem_s_In : forall s l, mem_s s l = true <-> In s l.
Proof.
  intros s l. unfold mem_s. rewrite existsb_exists. split.
  - intros [x [Hin He]]. apply String.eqb_eq in He. now subst.
  - intro H. exists s. split; [exact H|apply String.eqb_refl].
Qed.

Lemma pair_eqb_eq : forall a b, pair_eqb a b = true <-> a = b.
Proof.
  intros [a1 a2] [b1 b2]. unfold pair_eqb. cbn. rewrite andb_true_iff, !String.eqb_eq.
  split; [intros [-> ->]; reflexivity | now inversion 1].
Qed.

Lemma mem_p_In : forall p l, mem_p p l = true <-> In p l.
Proof.
  intros p l. unfold mem_p. rewrite existsb_exists. split.
  - intros [x [Hin He]]. apply pair_eqb_eq in He. now subst.
  - intro H. exists p. split; [exact H|now apply pair_eqb_eq].
Qed.

Lemma triple_eqb_eq : forall a b, triple_eqb a b = true <-> a = b.
Proof.
  intros [a1 a2] [b1 b2]. unfold triple_eqb. cbn. rewrite andb_true_iff, pair_eqb_eq, String.eqb_eq.
  split; [intros [-> ->]; reflexivity | now inversion 1].
Qed.

Lemma mem_t_In : forall p l, mem_t p l = true <-> In p l.
Proof.
  intros p l. unfold mem_t. rewrite existsb_exists. split.
  - intros [x [Hin He]]. apply triple_eqb_eq in He. now subst.
  - intro H. exists p. split; [exact H|now apply triple_eqb_eq].
Qed.

Lemma is_nil_true : forall A (l : list A), is_nil l = true <-> l = [].
Proof. intros A [|x l]; cbn; split; auto; discriminate. Qed.

(* ---------------------------------------------------------------------------------------------- *)
Section Meaning.
  Variable ex : exceptions.
  Variable t : cached_type.
  Let T := ct_name t.

  (* both directions exist (own functions, or conversion inside the owner's functions) *)
  Definition P_dirs : Prop :=
    (saving t <> [] \/ (forall m, In m (ct_members t) -> In m (ct_foreign_produced t))
     \/ In T (exc_no_saving ex)) /\
    (loading t <> [] \/ (forall m, In m (ct_members t) -> In m (ct_foreign_consumed t))
     \/ In T (exc_no_loading ex)).

  (* every variant / field is produced by a saving function *)
  Definition P_produced : Prop :=
    saving t <> [] -> forall m, In m (ct_members t) ->
      (exists f, In f (saving t) /\ In m (fn_produces f)) \/ In (T, m) (exc_unproduced ex).

  (* every variant / field is consumed by every loading function *)
  Definition P_consumed : Prop :=
    forall f, In f (loading t) -> forall m, In m (ct_members t) ->
      In m (fn_consumes f) \/ In (T, fn_name f, m) (exc_unconsumed ex).

  (* no arm of one function is hidden behind a catch-all *)
  Definition P_wild : Prop :=
    forall f, In f (saving t ++ loading t) -> forall a, In a (fn_arms f) ->
      arm_wild a = true -> In (T, fn_name f) (exc_wild ex).

  (* arms that end in unreachable!/panic!/todo!/unimplemented! are listed *)
  Definition P_diverging : Prop :=
    forall f, In f (saving t ++ loading t) -> forall a, In a (fn_arms f) ->
      arm_macros a <> [] -> forall p, In p (arm_pats a) -> In (T, fn_name f, snd p) (exc_diverging ex).

  (* saving  O::v => T::w  is inverted by every loading function *)
  Definition P_roundtrip : Prop :=
    ct_kind t = KEnum ->
    forall f, In f (saving t) -> forall a, In a (fn_arms f) -> arm_macros a = [] ->
    forall ov, In ov (arm_pats a) -> fst ov <> T ->
    forall cw, In cw (arm_body a) -> fst cw = T ->
      In (T, snd cw) (exc_arm_map ex) \/
      forall g, In g (loading t) ->
        exists b, In b (fn_arms g) /\ In (T, snd cw) (arm_pats b) /\ In ov (arm_body b).

  (* loading  T::w => O::v  comes from a saving arm  O::v => T::w *)
  Definition P_roundtrip_back : Prop :=
    ct_kind t = KEnum -> saving t <> [] ->
    forall g, In g (loading t) -> forall b, In b (fn_arms g) -> arm_macros b = [] ->
    forall cw, In cw (arm_pats b) -> fst cw = T ->
      In (T, snd cw) (exc_arm_map ex) \/
      forall ov, In ov (arm_body b) -> In (fst ov) (origs t) ->
        exists f a, In f (saving t) /\ In a (fn_arms f) /\ In ov (arm_pats a) /\ In (T, snd cw) (arm_body a).

  (* fields of the original filled with a default when loading are listed *)
  Definition P_defaulted : Prop :=
    forall f, In f (ct_fns t) -> forall p, In p (fn_defaulted f) -> In p (exc_defaulted ex).

  Definition P_rest : Prop :=
    forall f, In f (ct_fns t) -> fn_rest f = true -> In (T, fn_name f) (exc_rest ex).

  Definition type_bijective : Prop :=
    P_dirs /\ P_produced /\ P_consumed /\ P_wild /\ P_diverging /\ P_roundtrip /\ P_roundtrip_back
    /\ P_defaulted /\ P_rest.

  Lemma nil_dec : forall A (l : list A), negb (is_nil l) = true <-> l <> [].
  Proof.
    intros A [|x l]; cbn; split; intro H.
    - discriminate.
    - exfalso. apply H. reflexivity.
    - discriminate.
    - reflexivity.
  Qed.

  Lemma side_sound : forall (fs : list fn_shape) (foreign excl : list string),
    negb (is_nil fs) || forallb (fun m => mem_s m foreign) (ct_members t) || mem_s T excl = true ->
    fs <> [] \/ (forall m, In m (ct_members t) -> In m foreign) \/ In T excl.
  Proof.
    intros fs foreign excl H. rewrite !orb_true_iff, nil_dec, forallb_forall, mem_s_In in H.
    destruct H as [[H|H]|H].
    - left. exact H.
    - right. left. intros m Hm. apply mem_s_In. exact (H m Hm).
    - right. right. exact H.
  Qed.

  Lemma c_dirs_sound : c_dirs ex t = true -> P_dirs.
  Proof.
    unfold c_dirs, P_dirs. rewrite andb_true_iff. intros [H G].
    split; apply side_sound; assumption.
  Qed.

  Lemma c_produced_sound : c_produced ex t = true -> P_produced.
  Proof.
    unfold c_produced, P_produced. rewrite orb_true_iff, is_nil_true, forallb_forall.
    intros [H|H] Hne m Hm; [contradiction|].
    specialize (H m Hm). rewrite orb_true_iff, existsb_exists, mem_p_In in H.
    destruct H as [[f [Hf Hp]]|H]; [left|right; exact H]. exists f. split; [exact Hf|now apply mem_s_In].
  Qed.

  Lemma c_consumed_sound : c_consumed ex t = true -> P_consumed.
  Proof.
    unfold c_consumed, P_consumed. rewrite forallb_forall. intros H f Hf m Hm.
    specialize (H f Hf). rewrite forallb_forall in H. specialize (H m Hm).
    rewrite orb_true_iff, mem_s_In, mem_t_In in H. exact H.
  Qed.

  Lemma c_wild_sound : c_wild ex t = true -> P_wild.
  Proof.
    unfold c_wild, P_wild. rewrite forallb_forall. intros H f Hf a Ha Hw.
    specialize (H f Hf). rewrite forallb_forall in H. specialize (H a Ha).
    rewrite orb_true_iff, negb_true_iff, mem_p_In in H. destruct H as [H|H]; [congruence|exact H].
  Qed.

  Lemma c_diverging_sound : c_diverging ex t = true -> P_diverging.
  Proof.
    unfold c_diverging, P_diverging. rewrite forallb_forall. intros H f Hf a Ha Hm p Hp.
    specialize (H f Hf). rewrite forallb_forall in H. specialize (H a Ha).
    rewrite orb_true_iff, is_nil_true, forallb_forall in H. destruct H as [H|H]; [contradiction|].
    apply mem_t_In. exact (H p Hp).
  Qed.

  Lemma c_roundtrip_sound : c_roundtrip ex t = true -> P_roundtrip.
  Proof.
    unfold c_roundtrip, P_roundtrip. intros H Hk. rewrite Hk in H. rewrite forallb_forall in H.
    intros f Hf a Ha Hm ov Hov Hno cw Hcw Hct.
    specialize (H f Hf). rewrite forallb_forall in H. specialize (H a Ha).
    rewrite orb_true_iff, negb_true_iff in H. destruct H as [H|H].
    { rewrite Hm in H. discriminate. }
    rewrite forallb_forall in H. specialize (H ov Hov). rewrite orb_true_iff, String.eqb_eq in H.
    destruct H as [H|H]; [contradiction|]. rewrite forallb_forall in H. specialize (H cw Hcw).
    rewrite !orb_true_iff, negb_true_iff, mem_p_In in H. destruct H as [[H|H]|H].
    - apply String.eqb_neq in H. contradiction.
    - left. exact H.
    - right. rewrite forallb_forall in H. intros g Hg. specialize (H g Hg).
      rewrite existsb_exists in H. destruct H as [b [Hb Hc]]. rewrite andb_true_iff, !mem_p_In in Hc.
      exists b. tauto.
  Qed.

  Lemma c_roundtrip_back_sound : c_roundtrip_back ex t = true -> P_roundtrip_back.
  Proof.
    unfold c_roundtrip_back, P_roundtrip_back. intros H Hk Hne. rewrite Hk in H.
    rewrite orb_true_iff, is_nil_true in H. destruct H as [H|H]; [contradiction|].
    rewrite forallb_forall in H. intros g Hg b Hb Hm cw Hcw Hct.
    specialize (H g Hg). rewrite forallb_forall in H. specialize (H b Hb).
    rewrite orb_true_iff, negb_true_iff in H. destruct H as [H|H].
    { rewrite Hm in H. discriminate. }
    rewrite forallb_forall in H. specialize (H cw Hcw).
    rewrite !orb_true_iff, negb_true_iff, mem_p_In in H. destruct H as [[H|H]|H].
    - apply String.eqb_neq in H. contradiction.
    - left. exact H.
    - right. rewrite forallb_forall in H. intros ov Hov Ho. specialize (H ov Hov).
      rewrite orb_true_iff, negb_true_iff in H. destruct H as [H|H].
      { apply mem_s_In in Ho. congruence. }
      rewrite existsb_exists in H. destruct H as [f [Hf H]]. rewrite existsb_exists in H.
      destruct H as [a [Ha H]]. rewrite andb_true_iff, !mem_p_In in H. exists f, a. tauto.
  Qed.

  Lemma c_defaulted_sound : c_defaulted ex t = true -> P_defaulted.
  Proof.
    unfold c_defaulted, P_defaulted. rewrite forallb_forall. intros H f Hf p Hp.
    specialize (H f Hf). rewrite forallb_forall in H. apply mem_p_In. exact (H p Hp).
  Qed.

  Lemma c_rest_sound : c_rest ex t = true -> P_rest.
  Proof.
    unfold c_rest, P_rest. rewrite forallb_forall. intros H f Hf Hr. specialize (H f Hf).
    rewrite orb_true_iff, negb_true_iff, mem_p_In in H. destruct H as [H|H]; [congruence|exact H].
  Qed.

  Theorem type_ok_sound : type_ok ex t = true -> type_bijective.
  Proof.
    unfold type_ok, type_bijective. rewrite !andb_true_iff.
    intros [[[[[[[[H1 H2] H3] H4] H5] H6] H7] H8] H9].
    repeat split;
      [ apply c_dirs_sound | apply c_dirs_sound | apply c_produced_sound | apply c_consumed_sound
      | apply c_wild_sound | apply c_diverging_sound | apply c_roundtrip_sound
      | apply c_roundtrip_back_sound | apply c_defaulted_sound | apply c_rest_sound ]; assumption.
  Qed.
End Meaning.

Theorem shapes_ok_sound : forall ex ts,
  forallb (type_ok ex) ts = true -> forall t, In t ts -> type_bijective ex t.
Proof. intros ex ts H t Ht. rewrite forallb_forall in H. apply type_ok_sound. exact (H t Ht). Qed.
