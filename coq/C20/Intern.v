(* C20/Intern.v -- executable model of the id-table scheme of the crate cache
   (lowering/src/cache/mod.rs FunctionIdCached / LocationIdCached l.1010-1032, l.1288-1308; the same
   scheme is used for every `*IdCached` of defs and semantic):
     saving:  `new(id)`: if the id is in the map return its index; otherwise convert the long id
              (which interns its own components first), then allocate index = lookup.len(), push the
              converted value, remember id -> index;
     loading: `embed(idx)`: if idx is in the map return the id; otherwise take lookup[idx], embed its
              components, intern the result, remember idx -> id.
   A database id stands for its long id (interning: equal ids <-> equal long ids), so ids are
   modelled by the structural value; a value's components are ids of the same scheme.  The Rust
   code has one table per kind of id; the model has one table (kinds = tags).  No proofs here. *)
From Coq Require Import List Arith Bool.
Import ListNotations.

Inductive val := V (tag : nat) (cs : list val).          (* an interned long id *)
Inductive cval := CV (tag : nat) (cs : list nat).        (* its cached form: components are indices *)

Fixpoint val_eqb (a b : val) {struct a} : bool :=
  match a, b with
  | V t cs, V t' cs' =>
      Nat.eqb t t' &&
      (fix go (l l' : list val) {struct l} : bool :=
         match l, l' with
         | [], [] => true
         | x :: l1, y :: l1' => val_eqb x y && go l1 l1'
         | _, _ => false
         end) cs cs'
  end.

Record stab := mk_stab {
  lookup : list cval;                 (* xxx_ids_lookup: Vec<XCached> *)
  ids : list (val * nat) }.           (* xxx_ids: OrderedHashMap<XId, XIdCached> *)

Definition empty_tab : stab := mk_stab [] [].

Fixpoint assoc_v (v : val) (l : list (val * nat)) : option nat :=
  match l with
  | [] => None
  | (w, i) :: l' => if val_eqb v w then Some i else assoc_v v l'
  end.

(* XIdCached::new *)
Fixpoint new_id (v : val) (st : stab) {struct v} : nat * stab :=
  match assoc_v v (ids st) with
  | Some i => (i, st)
  | None =>
      match v with
      | V tag cs =>
          let r := (fix go (l : list val) (st : stab) {struct l} : list nat * stab :=
                      match l with
                      | [] => ([], st)
                      | c :: l' =>
                          let r1 := new_id c st in
                          let r2 := go l' (snd r1) in
                          (fst r1 :: fst r2, snd r2)
                      end) cs st in
          let i := length (lookup (snd r)) in
          (i, mk_stab (lookup (snd r) ++ [CV tag (fst r)]) ((v, i) :: ids (snd r)))
      end
  end.

Fixpoint new_ids (l : list val) (st : stab) : list nat * stab :=
  match l with
  | [] => ([], st)
  | c :: l' =>
      let r1 := new_id c st in
      let r2 := new_ids l' (snd r1) in
      (fst r1 :: fst r2, snd r2)
  end.

(* XIdCached::embed without the memo map: lookup[idx], components first *)
Fixpoint decode (fuel : nat) (lk : list cval) (i : nat) {struct fuel} : option val :=
  match fuel with
  | O => None
  | S f =>
      match nth_error lk i with
      | None => None                      (* index out of bounds: a panic in Rust *)
      | Some (CV tag cs) =>
          match (fix go (l : list nat) : option (list val) :=
                   match l with
                   | [] => Some []
                   | j :: l' =>
                       match decode f lk j, go l' with
                       | Some v, Some vs => Some (v :: vs)
                       | _, _ => None
                       end
                   end) cs with
          | Some vs => Some (V tag vs)
          | None => None
          end
      end
  end.

(* components have smaller indices, so index + 1 is enough fuel *)
Definition embed_id (lk : list cval) (i : nat) : option val := decode (S i) lk i.

(* XIdCached::embed with the memo map (xxx_ids: OrderedHashMap<XIdCached, XId>) *)
Fixpoint assoc_n (i : nat) (l : list (nat * val)) : option val :=
  match l with
  | [] => None
  | (j, v) :: l' => if Nat.eqb i j then Some v else assoc_n i l'
  end.

Fixpoint embed_m (fuel : nat) (lk : list cval) (memo : list (nat * val)) (i : nat) {struct fuel}
  : option (val * list (nat * val)) :=
  match fuel with
  | O => None
  | S f =>
      match assoc_n i memo with
      | Some v => Some (v, memo)
      | None =>
          match nth_error lk i with
          | None => None
          | Some (CV tag cs) =>
              match (fix go (l : list nat) (memo : list (nat * val)) : option (list val * list (nat * val)) :=
                       match l with
                       | [] => Some ([], memo)
                       | j :: l' =>
                           match embed_m f lk memo j with
                           | None => None
                           | Some (v, memo1) =>
                               match go l' memo1 with
                               | None => None
                               | Some (vs, memo2) => Some (v :: vs, memo2)
                               end
                           end
                       end) cs memo with
              | None => None
              | Some (vs, memo') => Some (V tag vs, (i, V tag vs) :: memo')
              end
          end
      end
  end.

(* a history of insertions *)
Fixpoint insert_all (xs : list val) (st : stab) : list nat * stab :=
  match xs with
  | [] => ([], st)
  | x :: xs' =>
      let r1 := new_id x st in
      let r2 := insert_all xs' (snd r1) in
      (fst r1 :: fst r2, snd r2)
  end.
