(* C20/ShapeCheck.v -- the executable check over a description of the cached mirror types
   (ShapeDefs.v): every member is produced when saving and consumed when loading, no arm is hidden
   behind a catch-all, diverging arms / defaulted fields are listed exceptions, and the variant
   mapping of saving is inverted by loading.  No proofs in this file (ShapeProofs.v). *)
From Coq Require Import List String Bool.
From C20 Require Import ShapeDefs.
Import ListNotations.
Local Open Scope string_scope.

Definition mem_s (s : string) (l : list string) : bool := existsb (String.eqb s) l.
Definition pair_eqb (a b : string * string) : bool :=
  String.eqb (fst a) (fst b) && String.eqb (snd a) (snd b).
Definition mem_p (p : string * string) (l : list (string * string)) : bool := existsb (pair_eqb p) l.
Definition triple_eqb (a b : string * string * string) : bool :=
  pair_eqb (fst a) (fst b) && String.eqb (snd a) (snd b).
Definition mem_t (p : string * string * string) (l : list (string * string * string)) : bool :=
  existsb (triple_eqb p) l.

Definition is_saving (f : fn_shape) : bool := mem_s (fn_name f) ["new"; "from_raw"].
Definition is_loading (f : fn_shape) : bool := mem_s (fn_name f) ["embed"; "get_embedded"].
Definition saving (t : cached_type) := filter is_saving (ct_fns t).
Definition loading (t : cached_type) := filter is_loading (ct_fns t).
Definition is_nil {A} (l : list A) : bool := match l with [] => true | _ => false end.

(* the original types a cached enum mirrors: the types in the patterns of its saving functions *)
Definition origs (t : cached_type) : list string :=
  flat_map (fun f => flat_map (fun a => map fst (filter (fun p => negb (String.eqb (fst p) (ct_name t)))
                                                        (arm_pats a))) (fn_arms f)) (saving t).

Definition c_dirs (ex : exceptions) (t : cached_type) : bool :=
  (negb (is_nil (saving t)) || forallb (fun m => mem_s m (ct_foreign_produced t)) (ct_members t)
   || mem_s (ct_name t) (exc_no_saving ex)) &&
  (negb (is_nil (loading t)) || forallb (fun m => mem_s m (ct_foreign_consumed t)) (ct_members t)
   || mem_s (ct_name t) (exc_no_loading ex)).

Definition c_produced (ex : exceptions) (t : cached_type) : bool :=
  is_nil (saving t) ||
  forallb (fun m => existsb (fun f => mem_s m (fn_produces f)) (saving t)
                    || mem_p (ct_name t, m) (exc_unproduced ex)) (ct_members t).

Definition c_consumed (ex : exceptions) (t : cached_type) : bool :=
  forallb (fun f => forallb (fun m => mem_s m (fn_consumes f)
                                      || mem_t (ct_name t, fn_name f, m) (exc_unconsumed ex))
                            (ct_members t)) (loading t).

Definition c_wild (ex : exceptions) (t : cached_type) : bool :=
  forallb (fun f => forallb (fun a => negb (arm_wild a) || mem_p (ct_name t, fn_name f) (exc_wild ex))
                            (fn_arms f)) (saving t ++ loading t).

Definition c_diverging (ex : exceptions) (t : cached_type) : bool :=
  forallb (fun f => forallb (fun a => is_nil (arm_macros a) ||
                               forallb (fun p => mem_t (ct_name t, fn_name f, snd p) (exc_diverging ex))
                                       (arm_pats a))
                            (fn_arms f)) (saving t ++ loading t).

(* saving arm  O::v => T::w   must be inverted by every loading function:  T::w => O::v *)
Definition c_roundtrip (ex : exceptions) (t : cached_type) : bool :=
  match ct_kind t with
  | KEnum =>
      forallb (fun f => forallb (fun a =>
        negb (is_nil (arm_macros a)) ||
        forallb (fun ov => String.eqb (fst ov) (ct_name t) ||
          forallb (fun cw => negb (String.eqb (fst cw) (ct_name t)) ||
            mem_p (ct_name t, snd cw) (exc_arm_map ex) ||
            forallb (fun g => existsb (fun b => mem_p (ct_name t, snd cw) (arm_pats b)
                                               && mem_p ov (arm_body b)) (fn_arms g)) (loading t))
            (arm_body a)) (arm_pats a)) (fn_arms f)) (saving t)
  | _ => true
  end.

(* loading arm  T::w => O::v  (O an original of T) must come from a saving arm  O::v => T::w *)
Definition c_roundtrip_back (ex : exceptions) (t : cached_type) : bool :=
  match ct_kind t with
  | KEnum =>
      is_nil (saving t) ||
      forallb (fun g => forallb (fun b =>
        negb (is_nil (arm_macros b)) ||
        forallb (fun cw => negb (String.eqb (fst cw) (ct_name t)) ||
          mem_p (ct_name t, snd cw) (exc_arm_map ex) ||
          forallb (fun ov => negb (mem_s (fst ov) (origs t)) ||
            existsb (fun f => existsb (fun a => mem_p ov (arm_pats a)
                                                && mem_p (ct_name t, snd cw) (arm_body a)) (fn_arms f))
                    (saving t))
            (arm_body b)) (arm_pats b)) (fn_arms g)) (loading t)
  | _ => true
  end.

Definition c_defaulted (ex : exceptions) (t : cached_type) : bool :=
  forallb (fun f => forallb (fun p => mem_p p (exc_defaulted ex)) (fn_defaulted f)) (ct_fns t).

Definition c_rest (ex : exceptions) (t : cached_type) : bool :=
  forallb (fun f => negb (fn_rest f) || mem_p (ct_name t, fn_name f) (exc_rest ex)) (ct_fns t).

Definition type_ok (ex : exceptions) (t : cached_type) : bool :=
  c_dirs ex t && c_produced ex t && c_consumed ex t && c_wild ex t && c_diverging ex t
  && c_roundtrip ex t && c_roundtrip_back ex t && c_defaulted ex t && c_rest ex t.

(* for reading a failure: which components fail for which type *)
Definition failing (ex : exceptions) (t : cached_type) : list string :=
  (if c_dirs ex t then [] else ["dirs"]) ++ (if c_produced ex t then [] else ["produced"]) ++
  (if c_consumed ex t then [] else ["consumed"]) ++ (if c_wild ex t then [] else ["wild"]) ++
  (if c_diverging ex t then [] else ["diverging"]) ++ (if c_roundtrip ex t then [] else ["roundtrip"]) ++
  (if c_roundtrip_back ex t then [] else ["roundtrip_back"]) ++
  (if c_defaulted ex t then [] else ["defaulted"]) ++ (if c_rest ex t then [] else ["rest"]).

Definition report (ex : exceptions) (ts : list cached_type) : list (string * list string) :=
  filter (fun r => negb (is_nil (snd r))) (map (fun t => (ct_name t, failing ex t)) ts).

(* every exception is used: a stale entry (the code was repaired) is reported too *)
Definition no_exc : exceptions := mk_exc [] [] [] [] [] [] [] [] [].

(* ---- every listed exception is really needed by the current description (a stale entry -- the
   code was repaired, renamed or removed -- fails the check as well) ---- *)
Definition find_type (ts : list cached_type) (n : string) : list cached_type :=
  filter (fun t => String.eqb (ct_name t) n) ts.
Definition fns_named (t : cached_type) (f : string) : list fn_shape :=
  filter (fun g => String.eqb (fn_name g) f) (ct_fns t).

Definition exceptions_used (ex : exceptions) (ts : list cached_type) : bool :=
  forallb (fun n => existsb (fun t => is_nil (saving t)) (find_type ts n)) (exc_no_saving ex) &&
  forallb (fun n => existsb (fun t => is_nil (loading t)) (find_type ts n)) (exc_no_loading ex) &&
  forallb (fun p => existsb (fun t => mem_s (snd p) (ct_members t) &&
                                      negb (existsb (fun f => mem_s (snd p) (fn_produces f)) (saving t)))
                            (find_type ts (fst p))) (exc_unproduced ex) &&
  forallb (fun p => existsb (fun t => mem_s (snd p) (ct_members t) &&
                                      existsb (fun f => negb (mem_s (snd p) (fn_consumes f)))
                                              (fns_named t (snd (fst p))))
                            (find_type ts (fst (fst p)))) (exc_unconsumed ex) &&
  forallb (fun p => existsb (fun t => existsb (fun f => existsb arm_wild (fn_arms f)) (fns_named t (snd p)))
                            (find_type ts (fst p))) (exc_wild ex) &&
  forallb (fun p => existsb (fun t => existsb (fun f => existsb (fun a => negb (is_nil (arm_macros a)) &&
                                                                          mem_s (snd p) (map snd (arm_pats a)))
                                                                (fn_arms f))
                                              (fns_named t (snd (fst p))))
                            (find_type ts (fst (fst p)))) (exc_diverging ex) &&
  forallb (fun p => existsb (fun t => mem_s (snd p) (ct_members t)) (find_type ts (fst p))) (exc_arm_map ex) &&
  forallb (fun p => existsb (fun t => existsb (fun f => mem_p p (fn_defaulted f)) (ct_fns t)) ts)
          (exc_defaulted ex) &&
  forallb (fun p => existsb (fun t => existsb fn_rest (fns_named t (snd p))) (find_type ts (fst p)))
          (exc_rest ex).
