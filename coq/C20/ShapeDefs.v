(* C20/ShapeDefs.v -- the vocabulary of the generated description (coq/GenC20/Shape.v) of the
   `*Cached` mirror types in /repo/crates/cairo-lang-{defs,semantic,lowering}/src/cache/mod.rs.
   No proofs in this file. *)
From Coq Require Import List String Bool.
Import ListNotations.

Inductive tkind := KEnum | KStruct | KTuple.

(* one arm of a `match` in a saving / loading function *)
Record arm := mk_arm {
  arm_pats : list (string * string);    (* (Type, Variant) paths in the pattern *)
  arm_body : list (string * string);    (* (Type, Variant) paths constructed in the arm's body *)
  arm_macros : list string;             (* unreachable / panic / todo / unimplemented in the body *)
  arm_wild : bool }.                    (* `_` or a bare binding: a catch-all *)

Record fn_shape := mk_fn {
  fn_name : string;                     (* new | from_raw (saving)   embed | get_embedded (loading) *)
  fn_produces : list string;            (* variants / fields of the cached type constructed *)
  fn_consumes : list string;            (* variants matched / fields read from self *)
  fn_arms : list arm;
  fn_defaulted : list (string * string);(* (Struct, field) of another struct literal set to a default *)
  fn_rest : bool }.                     (* a `..` in a literal or pattern of the cached type *)

Record cached_type := mk_type {
  ct_file : string; ct_name : string; ct_kind : tkind;
  ct_members : list string;             (* variants, field names, or tuple positions *)
  ct_fns : list fn_shape;
  (* variants of this type constructed / matched inside saving/loading functions of OTHER cached
     types (a mirror without functions of its own is converted inline by its owner) *)
  ct_foreign_produced : list string;
  ct_foreign_consumed : list string }.

(* explicit, justified exceptions (C20/ShapeExceptions.v) *)
Record exceptions := mk_exc {
  exc_no_saving : list string;                     (* types without new/from_raw *)
  exc_no_loading : list string;                    (* types without embed/get_embedded *)
  exc_unproduced : list (string * string);         (* (type, member) never produced when saving *)
  exc_unconsumed : list (string * string * string);(* (type, fn, member) not read when loading *)
  exc_wild : list (string * string);               (* (type, fn) with a catch-all arm *)
  exc_diverging : list (string * string * string); (* (type, fn, original variant) -> unreachable!/panic! *)
  exc_arm_map : list (string * string);            (* (type, cached variant): mapping not syntactic *)
  exc_defaulted : list (string * string);          (* (Struct, field) filled with a default *)
  exc_rest : list (string * string) }.             (* (type, fn) using `..` *)
