(* C20/ShapeExceptions.v -- the explicit exceptions to "every variant and field of a cached mirror is
   produced by the saving functions and consumed by the loading functions", each with the reason
   read off the Rust source.  The generated description must use every entry (exceptions_used), so
   a repaired or vanished exception is noticed too.  No proofs in this file. *)
From Coq Require Import List String.
From C20 Require Import ShapeDefs.
Import ListNotations.
Local Open Scope string_scope.

Definition exceptions_now : exceptions := mk_exc
  (* no saving function *) []
  (* no loading function: defs ExternalFileContentCached is written by `new` and read field by field
     by the filesystem-level `external_file_contents` / `ext_as_virtual` queries (defs/src/db.rs),
     before any cached id table exists *)
  ["ExternalFileContentCached"]
  (* members never produced *) []
  (* members not read when loading:
     - TypeSyntaxNodeCached._marker is a PhantomData;
     - CrateIdCached::SelfCrate is the `else` branch of `let CrateIdCached::Other(..) = self else` *)
  [("TypeSyntaxNodeCached", "embed", "_marker");
   ("CrateIdCached", "embed", "SelfCrate"); ("CrateIdCached", "get_embedded", "SelfCrate")]
  (* catch-all arms *) []
  (* original variants that end in unreachable!: inference variables, numeric-literal types and
     Missing cannot occur in a crate that compiled without diagnostics (generate_crate_cache fails
     otherwise); FunctionLongId::Specialized arises only after concretisation, the cache stores the
     lowering before it *)
  [("ConstValueCached", "new", "Var"); ("ConstValueCached", "new", "Missing");
   ("TypeCached", "new", "Var"); ("TypeCached", "new", "NumericLiteral"); ("TypeCached", "new", "Missing");
   ("ImplCached", "new", "ImplVar"); ("NegativeImplCached", "new", "NegativeImplVar");
   ("FunctionCached", "new", "Specialized")]
  (* arm mappings that are not syntactic *) []
  (* fields of the original that are NOT stored and come back as a default.  These are real losses:
     - PluginDiagnostic.error_code, ModuleSemanticData.diagnostics, Lowered.diagnostics: diagnostics of
       the cached crate itself (only crates that compile are cached; their warnings are dropped);
     - Location.notes: diagnostic notes attached to a lowering location *)
  [("PluginDiagnostic", "error_code"); ("ModuleSemanticData", "diagnostics");
   ("Lowered", "diagnostics"); ("Location", "notes")]
  (* `..` *) [].
