(* C20/IRProofs.v -- embed (new L) = L for the cached lowered IR of IR.v, under the table invariant
   of the id tables and for well-formed L (variable references are arena indices, >= 1 block). *)
From Coq Require Import List Arith Bool Lia.
From C20 Require Import Intern InternProofs IR.
Import ListNotations.
Arguments embed_id : simpl never.
Arguments evar : simpl never.

(* an encoder/decoder pair for one syntactic category *)
Definition codec_ok {A B : Type} (wf : A -> Prop) (enc : A -> stab -> B * stab)
           (dec : list cval -> B -> option A) : Prop :=
  forall a st b st', tab_ok st -> wf a -> enc a st = (b, st') ->
    tab_ok st' /\ extends (lookup st) (lookup st') /\
    forall lk', extends (lookup st') lk' -> dec lk' b = Some a.

Ltac ext_tac :=
  first [ eassumption | apply extends_refl | eapply extends_trans; [eassumption | ext_tac] ].

Lemma id_ok : codec_ok (fun _ : val => True) new_id embed_id.
Proof.
  intros v st i st' Hok _ H. destruct (new_id_ok v _ _ _ Hok H) as (O & X & D).
  split; [exact O|]. split; [exact X|]. intros lk' Hx. eapply embed_id_extends; eauto.
Qed.

Lemma list_ok : forall (A B : Type) (wf : A -> Prop) enc dec,
  @codec_ok A B wf enc dec -> codec_ok (Forall wf) (map_st enc) (fun lk => map_opt (dec lk)).
Proof.
  intros A B wf enc dec Hc l. induction l as [|a l IH]; intros st b st' Hok Hwf H.
  - cbn in H. inversion H. subst. split; [exact Hok|]. split; [apply extends_refl|]. reflexivity.
  - cbn [map_st] in H. destruct (enc a st) as [b1 s1] eqn:E1. cbn [fst snd] in H.
    destruct (map_st enc l s1) as [bs s2] eqn:E2. cbn [fst snd] in H. inversion H. subst b st'. clear H.
    inversion Hwf as [|? ? Ha Hl]. subst.
    destruct (Hc _ _ _ _ Hok Ha E1) as (O1 & X1 & D1). destruct (IH _ _ _ O1 Hl E2) as (O2 & X2 & D2).
    split; [exact O2|]. split; [ext_tac|]. intros lk' Hx. cbn [map_opt].
    rewrite (D1 lk') by ext_tac. rewrite (D2 lk' Hx). reflexivity.
Qed.

Lemma opt_ok : codec_ok (fun _ : option val => True) opt_st opt_embed.
Proof.
  intros [v|] st b st' Hok _ H; unfold opt_st in H.
  - destruct (new_id v st) as [i s1] eqn:E. cbn [fst snd] in H. inversion H. subst. clear H.
    destruct (id_ok v _ _ _ Hok I E) as (O & X & D). split; [exact O|]. split; [exact X|].
    intros lk' Hx. unfold opt_embed. now rewrite (D lk' Hx).
  - inversion H. subst. split; [exact Hok|]. split; [apply extends_refl|]. reflexivity.
Qed.

Lemma Forall_True : forall (A : Type) (l : list A), Forall (fun _ => True) l.
Proof. intros A l. induction l; constructor; auto. Qed.

Section WithVars.
  Variable n : nat.                     (* number of variables of the function *)

  Lemma evar_ok : forall v, v < n -> evar n v = Some v.
  Proof. intros v H. unfold evar. apply Nat.ltb_lt in H. now rewrite H. Qed.

  Lemma evars_ok : forall l, wf_vars n l -> map_opt (evar n) l = Some l.
  Proof.
    intros l H. induction H as [|v l Hv _ IH]; [reflexivity|]. cbn. now rewrite (evar_ok v Hv), IH.
  Qed.

  Lemma vu_ok : codec_ok (wf_vu n) new_vu (fun lk => embed_vu n lk).
  Proof.
    intros [v l] st b st' Hok Hwf H. unfold new_vu in H. cbn [vu_loc vu_var] in H.
    destruct (new_id l st) as [i s1] eqn:E. cbn [fst snd] in H. inversion H. subst. clear H.
    destruct (id_ok l _ _ _ Hok I E) as (O1 & X1 & D1). split; [exact O1|]. split; [exact X1|].
    intros lk' Hx. unfold embed_vu. cbn. unfold wf_vu in Hwf. cbn in Hwf.
    now rewrite (evar_ok v Hwf), (D1 lk' Hx).
  Qed.

  Definition vus_ok := list_ok _ _ _ _ _ vu_ok.

  Lemma arm_ok : codec_ok (wf_arm n) new_arm (fun lk => embed_arm n lk).
  Proof.
    intros [s bk vs] st b st' Hok Hwf H. unfold new_arm in H. cbn [arm_selector arm_block arm_vars] in H.
    destruct (new_id s st) as [i s1] eqn:E. cbn [fst snd] in H. inversion H. subst. clear H.
    destruct (id_ok s _ _ _ Hok I E) as (O1 & X1 & D1). split; [exact O1|]. split; [exact X1|].
    intros lk' Hx. unfold embed_arm. cbn. unfold wf_arm in Hwf. cbn in Hwf.
    now rewrite (D1 lk' Hx), (evars_ok vs Hwf).
  Qed.

  Definition arms_ok := list_ok _ _ _ _ _ arm_ok.

  Lemma stmt_ok : codec_ok (wf_stmt n) new_stmt (fun lk => embed_stmt n lk).
  Proof.
    intros s st b st' Hok Hwf H. destruct s; cbn [new_stmt] in H; cbn [wf_stmt] in Hwf.
    - (* Const *)
      destruct (new_id value st) as [i s1] eqn:E. cbn [fst snd] in H. inversion H. subst. clear H.
      destruct (id_ok _ _ _ _ Hok I E) as (O1 & X1 & D1). split; [exact O1|]. split; [exact X1|].
      intros lk' Hx. cbn. now rewrite (D1 lk' Hx), (evar_ok _ Hwf).
    - (* Call *)
      destruct Hwf as [Wi Wo].
      destruct (new_id function st) as [i1 s1] eqn:E1. cbn [fst snd] in H.
      destruct (map_st new_vu inputs s1) as [i2 s2] eqn:E2. cbn [fst snd] in H.
      destruct (new_id location s2) as [i3 s3] eqn:E3. cbn [fst snd] in H. inversion H. subst. clear H.
      destruct (id_ok _ _ _ _ Hok I E1) as (O1 & X1 & D1).
      destruct (vus_ok _ _ _ _ O1 Wi E2) as (O2 & X2 & D2).
      destruct (id_ok _ _ _ _ O2 I E3) as (O3 & X3 & D3).
      split; [exact O3|]. split; [ext_tac|]. intros lk' Hx. cbn.
      rewrite (D1 lk') by ext_tac. rewrite (D2 lk') by ext_tac. rewrite (D3 lk' Hx), (evars_ok _ Wo). reflexivity.
    - (* StructConstruct *)
      destruct Hwf as [Wi Wo].
      destruct (map_st new_vu inputs st) as [i1 s1] eqn:E1. cbn [fst snd] in H. inversion H. subst. clear H.
      destruct (vus_ok _ _ _ _ Hok Wi E1) as (O1 & X1 & D1). split; [exact O1|]. split; [exact X1|].
      intros lk' Hx. cbn. now rewrite (D1 lk' Hx), (evar_ok _ Wo).
    - (* StructDestructure *)
      destruct Hwf as [Wi Wo].
      destruct (new_vu input st) as [i1 s1] eqn:E1. cbn [fst snd] in H. inversion H. subst. clear H.
      destruct (vu_ok _ _ _ _ Hok Wi E1) as (O1 & X1 & D1). split; [exact O1|]. split; [exact X1|].
      intros lk' Hx. cbn. now rewrite (D1 lk' Hx), (evars_ok _ Wo).
    - (* EnumConstruct *)
      destruct Hwf as [Wi Wo].
      destruct (new_id variant st) as [i1 s1] eqn:E1. cbn [fst snd] in H.
      destruct (new_vu input s1) as [i2 s2] eqn:E2. cbn [fst snd] in H. inversion H. subst. clear H.
      destruct (id_ok _ _ _ _ Hok I E1) as (O1 & X1 & D1).
      destruct (vu_ok _ _ _ _ O1 Wi E2) as (O2 & X2 & D2).
      split; [exact O2|]. split; [ext_tac|]. intros lk' Hx. cbn.
      rewrite (D1 lk') by ext_tac. now rewrite (D2 lk' Hx), (evar_ok _ Wo).
    - (* IntoBox *)
      destruct Hwf as [Wi Wo].
      destruct (new_vu input st) as [i1 s1] eqn:E1. cbn [fst snd] in H. inversion H. subst. clear H.
      destruct (vu_ok _ _ _ _ Hok Wi E1) as (O1 & X1 & D1). split; [exact O1|]. split; [exact X1|].
      intros lk' Hx. cbn. now rewrite (D1 lk' Hx), (evar_ok _ Wo).
    - (* Unbox *)
      destruct Hwf as [Wi Wo].
      destruct (new_vu input st) as [i1 s1] eqn:E1. cbn [fst snd] in H. inversion H. subst. clear H.
      destruct (vu_ok _ _ _ _ Hok Wi E1) as (O1 & X1 & D1). split; [exact O1|]. split; [exact X1|].
      intros lk' Hx. cbn. now rewrite (D1 lk' Hx), (evar_ok _ Wo).
    - (* Snapshot *)
      destruct Hwf as (Wi & Wa & Wb).
      destruct (new_vu input st) as [i1 s1] eqn:E1. cbn [fst snd] in H. inversion H. subst. clear H.
      destruct (vu_ok _ _ _ _ Hok Wi E1) as (O1 & X1 & D1). split; [exact O1|]. split; [exact X1|].
      intros lk' Hx. cbn. now rewrite (D1 lk' Hx), (evar_ok _ Wa), (evar_ok _ Wb).
    - (* Desnap *)
      destruct Hwf as [Wi Wo].
      destruct (new_vu input st) as [i1 s1] eqn:E1. cbn [fst snd] in H. inversion H. subst. clear H.
      destruct (vu_ok _ _ _ _ Hok Wi E1) as (O1 & X1 & D1). split; [exact O1|]. split; [exact X1|].
      intros lk' Hx. cbn. now rewrite (D1 lk' Hx), (evar_ok _ Wo).
  Qed.

  Definition stmts_ok := list_ok _ _ _ _ _ stmt_ok.

  Lemma mi_ok : codec_ok (wf_mi n) new_mi (fun lk => embed_mi n lk).
  Proof.
    intros m st b st' Hok Hwf H. destruct m; cbn [new_mi] in H; cbn [wf_mi] in Hwf; destruct Hwf as [Wi Wa].
    - destruct (new_id concrete_enum st) as [i1 s1] eqn:E1. cbn [fst snd] in H.
      destruct (new_vu input s1) as [i2 s2] eqn:E2. cbn [fst snd] in H.
      destruct (map_st new_arm arms s2) as [i3 s3] eqn:E3. cbn [fst snd] in H.
      destruct (new_id location s3) as [i4 s4] eqn:E4. cbn [fst snd] in H. inversion H. subst. clear H.
      destruct (id_ok _ _ _ _ Hok I E1) as (O1 & X1 & D1).
      destruct (vu_ok _ _ _ _ O1 Wi E2) as (O2 & X2 & D2).
      destruct (arms_ok _ _ _ _ O2 Wa E3) as (O3 & X3 & D3).
      destruct (id_ok _ _ _ _ O3 I E4) as (O4 & X4 & D4).
      split; [exact O4|]. split; [ext_tac|]. intros lk' Hx. cbn.
      rewrite (D1 lk') by ext_tac. rewrite (D2 lk') by ext_tac. rewrite (D3 lk') by ext_tac.
      now rewrite (D4 lk' Hx).
    - destruct (new_id function st) as [i1 s1] eqn:E1. cbn [fst snd] in H.
      destruct (map_st new_vu inputs s1) as [i2 s2] eqn:E2. cbn [fst snd] in H.
      destruct (map_st new_arm arms s2) as [i3 s3] eqn:E3. cbn [fst snd] in H.
      destruct (new_id location s3) as [i4 s4] eqn:E4. cbn [fst snd] in H. inversion H. subst. clear H.
      destruct (id_ok _ _ _ _ Hok I E1) as (O1 & X1 & D1).
      destruct (vus_ok _ _ _ _ O1 Wi E2) as (O2 & X2 & D2).
      destruct (arms_ok _ _ _ _ O2 Wa E3) as (O3 & X3 & D3).
      destruct (id_ok _ _ _ _ O3 I E4) as (O4 & X4 & D4).
      split; [exact O4|]. split; [ext_tac|]. intros lk' Hx. cbn.
      rewrite (D1 lk') by ext_tac. rewrite (D2 lk') by ext_tac. rewrite (D3 lk') by ext_tac.
      now rewrite (D4 lk' Hx).
    - destruct (new_vu input st) as [i2 s2] eqn:E2. cbn [fst snd] in H.
      destruct (map_st new_arm arms s2) as [i3 s3] eqn:E3. cbn [fst snd] in H.
      destruct (new_id location s3) as [i4 s4] eqn:E4. cbn [fst snd] in H. inversion H. subst. clear H.
      destruct (vu_ok _ _ _ _ Hok Wi E2) as (O2 & X2 & D2).
      destruct (arms_ok _ _ _ _ O2 Wa E3) as (O3 & X3 & D3).
      destruct (id_ok _ _ _ _ O3 I E4) as (O4 & X4 & D4).
      split; [exact O4|]. split; [ext_tac|]. intros lk' Hx. cbn.
      rewrite (D2 lk') by ext_tac. rewrite (D3 lk') by ext_tac. now rewrite (D4 lk' Hx).
  Qed.

  Lemma remap_ok : codec_ok (wf_remap n) new_remap (fun lk => embed_remap n lk).
  Proof.
    intros [d u] st b st' Hok [Wd Wu] H. unfold new_remap in H. cbn [fst snd] in H, Wd, Wu.
    destruct (new_vu u st) as [i1 s1] eqn:E1. cbn [fst snd] in H. inversion H. subst. clear H.
    destruct (vu_ok _ _ _ _ Hok Wu E1) as (O1 & X1 & D1). split; [exact O1|]. split; [exact X1|].
    intros lk' Hx. unfold embed_remap. cbn. now rewrite (evar_ok _ Wd), (D1 lk' Hx).
  Qed.

  Definition remaps_ok := list_ok _ _ _ _ _ remap_ok.

  Lemma end_ok : codec_ok (wf_end n) new_end (fun lk => embed_end n lk).
  Proof.
    intros e st b st' Hok Hwf H. destruct e; cbn [new_end] in H; cbn [wf_end] in Hwf.
    - inversion H. subst. split; [exact Hok|]. split; [apply extends_refl|]. reflexivity.
    - destruct (map_st new_vu rets st) as [i1 s1] eqn:E1. cbn [fst snd] in H.
      destruct (new_id location s1) as [i2 s2] eqn:E2. cbn [fst snd] in H. inversion H. subst. clear H.
      destruct (vus_ok _ _ _ _ Hok Hwf E1) as (O1 & X1 & D1).
      destruct (id_ok _ _ _ _ O1 I E2) as (O2 & X2 & D2).
      split; [exact O2|]. split; [ext_tac|]. intros lk' Hx. cbn.
      rewrite (D1 lk') by ext_tac. now rewrite (D2 lk' Hx).
    - destruct (new_vu data st) as [i1 s1] eqn:E1. cbn [fst snd] in H. inversion H. subst. clear H.
      destruct (vu_ok _ _ _ _ Hok Hwf E1) as (O1 & X1 & D1). split; [exact O1|]. split; [exact X1|].
      intros lk' Hx. cbn. now rewrite (D1 lk' Hx).
    - destruct (map_st new_remap remapping st) as [i1 s1] eqn:E1. cbn [fst snd] in H. inversion H. subst. clear H.
      destruct (remaps_ok _ _ _ _ Hok Hwf E1) as (O1 & X1 & D1). split; [exact O1|]. split; [exact X1|].
      intros lk' Hx. cbn. now rewrite (D1 lk' Hx).
    - destruct (new_mi info st) as [i1 s1] eqn:E1. cbn [fst snd] in H. inversion H. subst. clear H.
      destruct (mi_ok _ _ _ _ Hok Hwf E1) as (O1 & X1 & D1). split; [exact O1|]. split; [exact X1|].
      intros lk' Hx. cbn. now rewrite (D1 lk' Hx).
  Qed.

  Lemma block_ok : codec_ok (wf_block n) new_block (fun lk => embed_block n lk).
  Proof.
    intros [ss e] st b st' Hok [Ws We] H. unfold new_block in H. cbn [b_stmts b_end] in H, Ws, We.
    destruct (map_st new_stmt ss st) as [i1 s1] eqn:E1. cbn [fst snd] in H.
    destruct (new_end e s1) as [i2 s2] eqn:E2. cbn [fst snd] in H. inversion H. subst. clear H.
    destruct (stmts_ok _ _ _ _ Hok Ws E1) as (O1 & X1 & D1).
    destruct (end_ok _ _ _ _ O1 We E2) as (O2 & X2 & D2).
    split; [exact O2|]. split; [ext_tac|]. intros lk' Hx. unfold embed_block. cbn.
    rewrite (D1 lk') by ext_tac. now rewrite (D2 lk' Hx).
  Qed.

  Definition blocks_ok := list_ok _ _ _ _ _ block_ok.
End WithVars.

Lemma variable_ok : codec_ok (fun _ : variable => True) new_variable embed_variable.
Proof.
  intros [a b0 c d t l] st b st' Hok _ H. unfold new_variable in H.
  cbn [v_droppable v_copyable v_destruct v_panic_destruct v_ty v_loc] in H.
  destruct (opt_st a st) as [i1 s1] eqn:E1. cbn [fst snd] in H.
  destruct (opt_st b0 s1) as [i2 s2] eqn:E2. cbn [fst snd] in H.
  destruct (opt_st c s2) as [i3 s3] eqn:E3. cbn [fst snd] in H.
  destruct (opt_st d s3) as [i4 s4] eqn:E4. cbn [fst snd] in H.
  destruct (new_id t s4) as [i5 s5] eqn:E5. cbn [fst snd] in H.
  destruct (new_id l s5) as [i6 s6] eqn:E6. cbn [fst snd] in H. inversion H. subst. clear H.
  destruct (opt_ok _ _ _ _ Hok I E1) as (O1 & X1 & D1).
  destruct (opt_ok _ _ _ _ O1 I E2) as (O2 & X2 & D2).
  destruct (opt_ok _ _ _ _ O2 I E3) as (O3 & X3 & D3).
  destruct (opt_ok _ _ _ _ O3 I E4) as (O4 & X4 & D4).
  destruct (id_ok _ _ _ _ O4 I E5) as (O5 & X5 & D5).
  destruct (id_ok _ _ _ _ O5 I E6) as (O6 & X6 & D6).
  split; [exact O6|]. split; [ext_tac|]. intros lk' Hx. unfold embed_variable. cbn.
  rewrite (D1 lk') by ext_tac. rewrite (D2 lk') by ext_tac. rewrite (D3 lk') by ext_tac.
  rewrite (D4 lk') by ext_tac. rewrite (D5 lk') by ext_tac. now rewrite (D6 lk' Hx).
Qed.

Definition variables_ok := list_ok _ _ _ _ _ variable_ok.
Definition ids_ok := list_ok _ _ _ _ _ id_ok.

Lemma sig_ok : codec_ok (fun _ : signature => True) new_sig embed_sig.
Proof.
  intros [p x r im pan l] st b st' Hok _ H. unfold new_sig in H.
  cbn [s_params s_extra_rets s_ret s_implicits s_panicable s_loc] in H.
  destruct (map_st new_id p st) as [i1 s1] eqn:E1. cbn [fst snd] in H.
  destruct (map_st new_id x s1) as [i2 s2] eqn:E2. cbn [fst snd] in H.
  destruct (new_id r s2) as [i3 s3] eqn:E3. cbn [fst snd] in H.
  destruct (map_st new_id im s3) as [i4 s4] eqn:E4. cbn [fst snd] in H.
  destruct (new_id l s4) as [i5 s5] eqn:E5. cbn [fst snd] in H. inversion H. subst. clear H.
  destruct (ids_ok _ _ _ _ Hok (Forall_True _ _) E1) as (O1 & X1 & D1).
  destruct (ids_ok _ _ _ _ O1 (Forall_True _ _) E2) as (O2 & X2 & D2).
  destruct (id_ok _ _ _ _ O2 I E3) as (O3 & X3 & D3).
  destruct (ids_ok _ _ _ _ O3 (Forall_True _ _) E4) as (O4 & X4 & D4).
  destruct (id_ok _ _ _ _ O4 I E5) as (O5 & X5 & D5).
  split; [exact O5|]. split; [ext_tac|]. intros lk' Hx. unfold embed_sig. cbn.
  rewrite (D1 lk') by ext_tac. rewrite (D2 lk') by ext_tac. rewrite (D3 lk') by ext_tac.
  rewrite (D4 lk') by ext_tac. now rewrite (D5 lk' Hx).
Qed.

Lemma map_st_length : forall (A B : Type) (f : A -> stab -> B * stab) l st,
  length (fst (map_st f l st)) = length l.
Proof. intros A B f l. induction l as [|a l IH]; intro st; cbn; [reflexivity|]. now rewrite IH. Qed.

Theorem lowered_ok : codec_ok wf_lowered new_lowered embed_lowered.
Proof.
  intros [sg vs bs ps] st b st' Hok (Wb & Wp & Wne) H. unfold new_lowered in H.
  cbn [l_sig l_vars l_blocks l_params] in H, Wb, Wp, Wne.
  destruct (new_sig sg st) as [i1 s1] eqn:E1. cbn [fst snd] in H.
  destruct (map_st new_variable vs s1) as [i2 s2] eqn:E2. cbn [fst snd] in H.
  destruct (map_st new_block bs s2) as [i3 s3] eqn:E3. cbn [fst snd] in H. inversion H. subst. clear H.
  destruct (sig_ok _ _ _ _ Hok I E1) as (O1 & X1 & D1).
  destruct (variables_ok _ _ _ _ O1 (Forall_True _ _) E2) as (O2 & X2 & D2).
  destruct (blocks_ok (length vs) _ _ _ _ O2 Wb E3) as (O3 & X3 & D3).
  split; [exact O3|]. split; [ext_tac|]. intros lk' Hx. unfold embed_lowered. cbn [cl_sig cl_vars cl_blocks cl_params].
  assert (Hlen : length i2 = length vs).
  { pose proof (map_st_length _ _ new_variable vs s1) as L. rewrite E2 in L. exact L. }
  rewrite Hlen. rewrite (D2 lk') by ext_tac. rewrite (D3 lk' Hx). rewrite (D1 lk') by ext_tac.
  rewrite (evars_ok _ _ Wp). destruct bs; [contradiction|reflexivity].
Qed.

(* the statement of C20_ir_roundtrip *)
Theorem ir_roundtrip : forall (L : lowered) (st : stab) (C : clowered) (st' : stab),
  tab_ok st -> wf_lowered L -> new_lowered L st = (C, st') ->
  embed_lowered (lookup st') C = Some L.
Proof.
  intros L st C st' Hok Hwf H. destruct (lowered_ok _ _ _ _ Hok Hwf H) as (_ & _ & D).
  apply D. apply extends_refl.
Qed.

(* several functions saved into the same tables, one after the other: every one of them loads back
   from the final tables *)
Theorem ir_roundtrip_all : forall (Ls : list lowered) (st : stab) (Cs : list clowered) (st' : stab),
  tab_ok st -> Forall wf_lowered Ls -> map_st new_lowered Ls st = (Cs, st') ->
  map_opt (embed_lowered (lookup st')) Cs = Some Ls.
Proof.
  intros Ls st Cs st' Hok Hwf H.
  destruct (list_ok _ _ _ _ _ lowered_ok _ _ _ _ Hok Hwf H) as (_ & _ & D). apply D. apply extends_refl.
Qed.
