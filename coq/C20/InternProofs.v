(* C20/InternProofs.v -- embed_id (new_id x) = x under the table invariant, for every insertion
   history; the memoised loader agrees with the plain one. *)
From Coq Require Import List Arith Bool Lia.
From C20 Require Import Intern.
Import ListNotations.

Section val_ind.
  Variable P : val -> Prop.
  Hypothesis H : forall tag cs, Forall P cs -> P (V tag cs).
  Fixpoint val_ind' (v : val) : P v :=
    match v with
    | V tag cs => H tag cs ((fix go (l : list val) : Forall P l :=
                               match l with
                               | [] => Forall_nil P
                               | c :: l' => Forall_cons c (val_ind' c) (go l')
                               end) cs)
    end.
End val_ind.

Fixpoint vals_eqb (l l' : list val) : bool :=
  match l, l' with
  | [], [] => true
  | x :: l1, y :: l1' => val_eqb x y && vals_eqb l1 l1'
  | _, _ => false
  end.

Lemma val_eqb_V : forall t cs t' cs', val_eqb (V t cs) (V t' cs') = Nat.eqb t t' && vals_eqb cs cs'.
Proof. reflexivity. Qed.

Lemma val_eqb_eq : forall a b, val_eqb a b = true <-> a = b.
Proof.
  induction a as [t cs IH] using val_ind'. intros [t' cs'].
  rewrite val_eqb_V, andb_true_iff, Nat.eqb_eq.
  assert (G : vals_eqb cs cs' = true <-> cs = cs').
  { revert cs'. induction IH as [|x l Hx _ IHl]; destruct cs' as [|y l']; cbn;
      try (split; [discriminate || auto | discriminate || auto]; fail).
    rewrite andb_true_iff, Hx, IHl. split; [intros [-> ->]; auto | now inversion 1]. }
  rewrite G. split; [intros [-> ->]; auto | now inversion 1].
Qed.

Lemma val_eqb_refl : forall a, val_eqb a a = true.
Proof. intro a. now apply val_eqb_eq. Qed.

(* ---- unfolding equations ---- *)
Lemma new_id_eq : forall tag cs st,
  new_id (V tag cs) st =
  match assoc_v (V tag cs) (ids st) with
  | Some i => (i, st)
  | None =>
      let r := new_ids cs st in
      let i := length (lookup (snd r)) in
      (i, mk_stab (lookup (snd r) ++ [CV tag (fst r)]) ((V tag cs, i) :: ids (snd r)))
  end.
Proof. intros. cbn [new_id]. destruct (assoc_v (V tag cs) (ids st)); reflexivity. Qed.

Definition decode_list (f : nat) (lk : list cval) : list nat -> option (list val) :=
  fix go (l : list nat) : option (list val) :=
    match l with
    | [] => Some []
    | j :: l' =>
        match decode f lk j, go l' with
        | Some v, Some vs => Some (v :: vs)
        | _, _ => None
        end
    end.

Lemma decode_list_cons : forall f lk j l,
  decode_list f lk (j :: l) =
  match decode f lk j, decode_list f lk l with
  | Some v, Some vs => Some (v :: vs)
  | _, _ => None
  end.
Proof. reflexivity. Qed.

Lemma decode_S : forall f lk i,
  decode (S f) lk i =
  match nth_error lk i with
  | None => None
  | Some (CV tag cs) => match decode_list f lk cs with Some vs => Some (V tag vs) | None => None end
  end.
Proof. reflexivity. Qed.

Lemma decode_list_Forall2 : forall f lk l vs,
  decode_list f lk l = Some vs <-> Forall2 (fun j v => decode f lk j = Some v) l vs.
Proof.
  intros f lk l. induction l as [|j l IH]; intros vs.
  - cbn. split; [intro H; inversion H; constructor | intro H; inversion H; reflexivity].
  - rewrite decode_list_cons. destruct (decode f lk j) as [v|] eqn:Ej.
    + destruct (decode_list f lk l) as [vs'|] eqn:El.
      * split.
        -- intro H. inversion H. subst. constructor; [exact Ej|]. now apply IH.
        -- intro H. inversion H as [|? y ? ys Hy Hys]. subst. rewrite Ej in Hy. inversion Hy. subst.
           apply IH in Hys. inversion Hys. reflexivity.
      * split; [discriminate|]. intro H. inversion H as [|? y ? ys Hy Hys]. subst.
        apply IH in Hys. discriminate.
    + split; [discriminate|]. intro H. inversion H as [|? y ? ys Hy Hys]. subst. congruence.
Qed.

Lemma Forall2_impl : forall (A B : Type) (P Q : A -> B -> Prop),
  (forall a b, P a b -> Q a b) -> forall l l', Forall2 P l l' -> Forall2 Q l l'.
Proof. intros A B P Q H l l' F. induction F; constructor; auto. Qed.

(* ---- the table invariant ---- *)
Definition wf_lookup (lk : list cval) : Prop :=
  forall i tag cs, nth_error lk i = Some (CV tag cs) -> Forall (fun j => j < i) cs.

Definition tab_ok (st : stab) : Prop :=
  wf_lookup (lookup st) /\
  forall v i, assoc_v v (ids st) = Some i -> embed_id (lookup st) i = Some v.

Definition extends (lk lk' : list cval) : Prop := exists e, lk' = lk ++ e.

Lemma extends_refl : forall lk, extends lk lk.
Proof. intro lk. exists []. now rewrite app_nil_r. Qed.

Lemma extends_trans : forall a b c, extends a b -> extends b c -> extends a c.
Proof. intros a b c [e1 ->] [e2 ->]. exists (e1 ++ e2). now rewrite app_assoc. Qed.

Lemma decode_mono : forall f lk i v, decode f lk i = Some v -> forall f', f <= f' -> decode f' lk i = Some v.
Proof.
  induction f as [|f IH]; intros lk i v H f' Hle; [discriminate|].
  destruct f' as [|f']; [lia|]. rewrite decode_S in *.
  destruct (nth_error lk i) as [[tag cs]|]; [|discriminate].
  destruct (decode_list f lk cs) as [vs|] eqn:E; [|discriminate].
  assert (decode_list f' lk cs = Some vs) as ->; [|exact H].
  apply decode_list_Forall2. apply decode_list_Forall2 in E.
  eapply Forall2_impl; [|exact E]. intros a b Hab. cbn in Hab. apply (IH _ _ _ Hab). lia.
Qed.

Lemma decode_extends : forall f lk lk' i v, extends lk lk' -> decode f lk i = Some v -> decode f lk' i = Some v.
Proof.
  intros f lk lk' i v [e ->]. revert i v. induction f as [|f IH]; intros i v H; [discriminate|].
  rewrite decode_S in *. destruct (nth_error lk i) as [[tag cs]|] eqn:En; [|discriminate].
  rewrite nth_error_app1 by (apply nth_error_Some; congruence). rewrite En.
  destruct (decode_list f lk cs) as [vs|] eqn:E; [|discriminate].
  assert (decode_list f (lk ++ e) cs = Some vs) as ->; [|exact H].
  apply decode_list_Forall2. apply decode_list_Forall2 in E.
  eapply Forall2_impl; [|exact E]. intros a b Hab. cbn in Hab. now apply IH.
Qed.

Lemma embed_id_extends : forall lk lk' i v, extends lk lk' -> embed_id lk i = Some v -> embed_id lk' i = Some v.
Proof. intros. unfold embed_id in *. eapply decode_extends; eauto. Qed.

Lemma decode_Some_lt : forall f lk i v, decode f lk i = Some v -> i < length lk.
Proof.
  intros [|f] lk i v H; [discriminate|]. rewrite decode_S in H.
  destruct (nth_error lk i) eqn:E; [|discriminate]. apply nth_error_Some. congruence.
Qed.

(* ---- new_id ---- *)
Definition new_ok (v : val) : Prop := forall st i st',
  tab_ok st -> new_id v st = (i, st') ->
  tab_ok st' /\ extends (lookup st) (lookup st') /\ embed_id (lookup st') i = Some v.

Lemma new_ids_ok : forall cs, Forall new_ok cs -> forall st is st',
  tab_ok st -> new_ids cs st = (is, st') ->
  tab_ok st' /\ extends (lookup st) (lookup st') /\
  Forall2 (fun j c => embed_id (lookup st') j = Some c) is cs.
Proof.
  intros cs H. induction H as [|c cs Hc _ IH]; intros st is st' Hok Hn.
  - inversion Hn. subst. split; [auto|]. split; [apply extends_refl|constructor].
  - cbn [new_ids] in Hn. destruct (new_id c st) as [i1 st1] eqn:E1. cbn [fst snd] in Hn.
    destruct (new_ids cs st1) as [is2 st2] eqn:E2. cbn [fst snd] in Hn. inversion Hn. subst is st'. clear Hn.
    destruct (Hc _ _ _ Hok E1) as (Ok1 & X1 & D1). destruct (IH _ _ _ Ok1 E2) as (Ok2 & X2 & D2).
    split; [exact Ok2|]. split; [eapply extends_trans; eauto|]. constructor; [|exact D2].
    eapply embed_id_extends; eauto.
Qed.

Lemma decode_list_of_embedded : forall lk is cs n,
  Forall2 (fun j c => embed_id lk j = Some c) is cs -> Forall (fun j => j < n) is ->
  decode_list n lk is = Some cs.
Proof.
  intros lk is cs n H Hlt. apply decode_list_Forall2. induction H as [|j c is cs Hj _ IH]; constructor.
  - inversion Hlt. subst. unfold embed_id in Hj. eapply decode_mono; eauto.
  - inversion Hlt. auto.
Qed.

Theorem new_id_ok : forall v, new_ok v.
Proof.
  induction v as [tag cs IH] using val_ind'. intros st i st' Hok Hn. rewrite new_id_eq in Hn.
  destruct (assoc_v (V tag cs) (ids st)) as [i0|] eqn:Ea.
  - inversion Hn. subst. split; [exact Hok|]. split; [apply extends_refl|]. now apply (proj2 Hok).
  - destruct (new_ids cs st) as [is st1] eqn:En. cbn in Hn. inversion Hn. subst i st'. clear Hn.
    destruct (new_ids_ok cs IH _ _ _ Hok En) as ((W1 & A1) & X1 & D1).
    set (n := length (lookup st1)). set (lk' := lookup st1 ++ [CV tag is]).
    assert (Hlt : Forall (fun j => j < n) is).
    { clear - D1. induction D1 as [|j c is cs Hj _ IHd]; constructor; auto.
      unfold embed_id in Hj. eapply decode_Some_lt; eauto. }
    assert (Xn : extends (lookup st1) lk') by (exists [CV tag is]; reflexivity).
    assert (Dn : embed_id lk' n = Some (V tag cs)).
    { unfold embed_id. rewrite decode_S. unfold lk', n. rewrite nth_error_app2 by lia.
      rewrite Nat.sub_diag. cbn [nth_error].
      rewrite (decode_list_of_embedded (lookup st1 ++ [CV tag is]) is cs (length (lookup st1))); [reflexivity| |exact Hlt].
      eapply Forall2_impl; [|exact D1]. intros a b Hab. cbn in Hab.
      eapply embed_id_extends; [exact Xn|exact Hab]. }
    split; [|split; [eapply extends_trans; eauto|exact Dn]].
    split; cbn [lookup ids].
    + intros j t c Hj. destruct (Nat.lt_ge_cases j n) as [Hl|Hg].
      * unfold lk' in Hj. rewrite nth_error_app1 in Hj by exact Hl. eapply W1; eauto.
      * unfold lk' in Hj. rewrite nth_error_app2 in Hj by exact Hg.
        assert (Hjn : j - length (lookup st1) = 0).
        { destruct (j - length (lookup st1)) as [|k]; [reflexivity|]. exfalso. destruct k; cbn in Hj; discriminate. }
        rewrite Hjn in Hj. cbn in Hj. inversion Hj. subst t c.
        assert (j = n) by (unfold n in *; lia). subst j. exact Hlt.
    + intros w j Hw. cbn [assoc_v] in Hw. destruct (val_eqb w (V tag cs)) eqn:Ew.
      * apply val_eqb_eq in Ew. inversion Hw. subst. exact Dn.
      * eapply embed_id_extends; [exact Xn|]. now apply A1.
Qed.

Lemma tab_ok_empty : tab_ok empty_tab.
Proof. split; cbn; [intros i t c H; destruct i; discriminate|discriminate]. Qed.

(* every index handed out during a history decodes, in the final table, to the value it was handed
   out for *)
Theorem insert_all_ok : forall xs st is st',
  tab_ok st -> insert_all xs st = (is, st') ->
  tab_ok st' /\ extends (lookup st) (lookup st') /\
  Forall2 (fun i x => embed_id (lookup st') i = Some x) is xs.
Proof.
  induction xs as [|x xs IH]; intros st is st' Hok Hn.
  - inversion Hn. subst. split; [auto|]. split; [apply extends_refl|constructor].
  - cbn [insert_all] in Hn. destruct (new_id x st) as [i1 st1] eqn:E1. cbn [fst snd] in Hn.
    destruct (insert_all xs st1) as [is2 st2] eqn:E2. cbn [fst snd] in Hn. inversion Hn. subst is st'. clear Hn.
    destruct (new_id_ok x _ _ _ Hok E1) as (Ok1 & X1 & D1). destruct (IH _ _ _ Ok1 E2) as (Ok2 & X2 & D2).
    split; [exact Ok2|]. split; [eapply extends_trans; eauto|]. constructor; [|exact D2].
    eapply embed_id_extends; eauto.
Qed.

Theorem intern_roundtrip : forall xs is st',
  insert_all xs empty_tab = (is, st') ->
  Forall2 (fun i x => embed_id (lookup st') i = Some x) is xs.
Proof. intros xs is st' H. now destruct (insert_all_ok xs _ _ _ tab_ok_empty H) as (_ & _ & D). Qed.

(* ---- the memoised loader returns what the plain one returns ---- *)
Definition memo_sound (lk : list cval) (memo : list (nat * val)) : Prop :=
  forall j w, assoc_n j memo = Some w -> exists f, decode f lk j = Some w.

Definition embed_list_m (f : nat) (lk : list cval)
  : list nat -> list (nat * val) -> option (list val * list (nat * val)) :=
  fix go (l : list nat) (memo : list (nat * val)) : option (list val * list (nat * val)) :=
    match l with
    | [] => Some ([], memo)
    | j :: l' =>
        match embed_m f lk memo j with
        | None => None
        | Some (v, memo1) =>
            match go l' memo1 with
            | None => None
            | Some (vs, memo2) => Some (v :: vs, memo2)
            end
        end
    end.

Lemma embed_list_m_cons : forall f lk j l memo,
  embed_list_m f lk (j :: l) memo =
  match embed_m f lk memo j with
  | None => None
  | Some (v, memo1) =>
      match embed_list_m f lk l memo1 with
      | None => None
      | Some (vs, memo2) => Some (v :: vs, memo2)
      end
  end.
Proof. reflexivity. Qed.

Lemma embed_m_S : forall f lk memo i,
  embed_m (S f) lk memo i =
  match assoc_n i memo with
  | Some v => Some (v, memo)
  | None =>
      match nth_error lk i with
      | None => None
      | Some (CV tag cs) =>
          match embed_list_m f lk cs memo with
          | None => None
          | Some (vs, memo') => Some (V tag vs, (i, V tag vs) :: memo')
          end
      end
  end.
Proof. reflexivity. Qed.

Lemma decode_any_fuel : forall f1 f2 lk i v1 v2,
  decode f1 lk i = Some v1 -> decode f2 lk i = Some v2 -> v1 = v2.
Proof.
  intros f1 f2 lk i v1 v2 H1 H2.
  pose proof (decode_mono _ _ _ _ H1 (Nat.max f1 f2) ltac:(lia)) as G1.
  pose proof (decode_mono _ _ _ _ H2 (Nat.max f1 f2) ltac:(lia)) as G2. congruence.
Qed.

Theorem embed_m_sound : forall f lk memo i v memo',
  memo_sound lk memo -> embed_m f lk memo i = Some (v, memo') ->
  (exists f', decode f' lk i = Some v) /\ memo_sound lk memo'.
Proof.
  induction f as [|f IH]; intros lk memo i v memo' Hs H; [discriminate|].
  rewrite embed_m_S in H. destruct (assoc_n i memo) as [w|] eqn:Ea.
  - inversion H. subst. split; [eauto|exact Hs].
  - destruct (nth_error lk i) as [[tag cs]|] eqn:En; [|discriminate].
    destruct (embed_list_m f lk cs memo) as [[vs memo1]|] eqn:El; [|discriminate].
    inversion H. subst. clear H.
    assert (G : forall cs memo vs memo1, memo_sound lk memo -> embed_list_m f lk cs memo = Some (vs, memo1) ->
                (exists f', decode_list f' lk cs = Some vs) /\ memo_sound lk memo1).
    { clear - IH. induction cs as [|j cs IHc]; intros memo vs memo1 Hs H.
      - cbn in H. inversion H. subst. split; [exists 0; reflexivity|exact Hs].
      - rewrite embed_list_m_cons in H. destruct (embed_m f lk memo j) as [[v m1]|] eqn:Ej; [|discriminate].
        destruct (embed_list_m f lk cs m1) as [[vs' m2]|] eqn:Ec; [|discriminate].
        inversion H. subst. destruct (IH _ _ _ _ _ Hs Ej) as ([f1 D1] & S1).
        destruct (IHc _ _ _ S1 Ec) as ([f2 D2] & S2). split; [|exact S2].
        exists (Nat.max f1 f2). rewrite decode_list_cons.
        rewrite (decode_mono _ _ _ _ D1 (Nat.max f1 f2)) by lia.
        assert (decode_list (Nat.max f1 f2) lk cs = Some vs') as ->; [|reflexivity].
        apply decode_list_Forall2. apply decode_list_Forall2 in D2.
        eapply Forall2_impl; [|exact D2]. intros a b Hab. cbn in Hab. eapply decode_mono; eauto. lia. }
    destruct (G _ _ _ _ Hs El) as ([f' D] & S1).
    assert (Dv : decode (S f') lk i = Some (V tag vs)) by (rewrite decode_S, En, D; reflexivity).
    split; [eauto|]. intros j w Hj. cbn [assoc_n] in Hj. destruct (Nat.eqb j i) eqn:E.
    + apply Nat.eqb_eq in E. inversion Hj. subst. eauto.
    + now apply S1.
Qed.

(* so: whatever the memoised loader returns for an index is what the plain loader returns *)
Corollary embed_m_agrees : forall f lk i v memo' x,
  embed_m f lk [] i = Some (v, memo') -> embed_id lk i = Some x -> v = x.
Proof.
  intros f lk i v memo' x H Hx.
  destruct (embed_m_sound f lk [] i v memo') as ([f' D] & _); [intros j w Hj; discriminate|exact H|].
  unfold embed_id in Hx. eapply decode_any_fuel; eauto.
Qed.
