(* C20/IR.v -- hand model of the cached lowered IR of /repo/crates/cairo-lang-lowering/src/cache/mod.rs:
   LoweredCached (l.374-424), LoweredSignatureCached, VariableCached, VarUsageCached, BlockCached,
   BlockEndCached, VarRemappingCached, MatchInfoCached / Match{Enum,Extern}InfoCached /
   MatchEnumValueCached, MatchArmCached, StatementCached and its nine statement structs.
   Conventions of the model:
   * every interned id (LocationId, TypeId, FunctionId, ConstValueId, ConcreteEnumId, ConcreteVariant,
     ImplId, match-arm selector) is a [val] saved through the id table of Intern.v ([new_id]) and
     loaded by [embed_id]; the Rust code has one table per kind, the model one table;
   * VariableId = arena index: saved as `var.index()`, loaded through `ctx.lowered_variables_id[i]`,
     which is the i-th id allocated by the fresh arena, i.e. i itself when i < number of variables
     and a panic (here None) otherwise;  BlockId(usize) is saved as the usize;
   * TypeInfo's Result<ImplId, InferenceError> is saved as Option (`.ok()`) and comes back as
     Err(Reported): the model keeps Option (the error payload is not preserved by the code);
   * Lowered.diagnostics and Location.notes are not stored (listed in ShapeExceptions.v).
   No proofs in this file. *)
From Coq Require Import List Arith Bool.
From C20 Require Import Intern.
Import ListNotations.

Definition var := nat.
Definition blk := nat.

(* ---- the IR ---- *)
Record var_usage := mk_vu { vu_var : var; vu_loc : val }.
Inductive stmt :=
| SConst (value : val) (output : var) (boxed : bool)
| SCall (function : val) (inputs : list var_usage) (with_coupon : bool) (outputs : list var)
        (location : val) (is_specialization_base_call : bool)
| SStructConstruct (inputs : list var_usage) (output : var)
| SStructDestructure (input : var_usage) (outputs : list var)
| SEnumConstruct (variant : val) (input : var_usage) (output : var)
| SIntoBox (input : var_usage) (output : var)
| SUnbox (input : var_usage) (output : var)
| SSnapshot (input : var_usage) (o1 o2 : var)
| SDesnap (input : var_usage) (output : var).
Record match_arm := mk_arm { arm_selector : val; arm_block : blk; arm_vars : list var }.
Inductive match_info :=
| MEnum (concrete_enum : val) (input : var_usage) (arms : list match_arm) (location : val)
| MExtern (function : val) (inputs : list var_usage) (arms : list match_arm) (location : val)
| MValue (num_of_arms : nat) (input : var_usage) (arms : list match_arm) (location : val).
Inductive block_end :=
| ENotSet
| EReturn (rets : list var_usage) (location : val)
| EPanic (data : var_usage)
| EGoto (target : blk) (remapping : list (var * var_usage))
| EMatch (info : match_info).
Record block := mk_block { b_stmts : list stmt; b_end : block_end }.
Record variable := mk_var {
  v_droppable : option val; v_copyable : option val; v_destruct : option val;
  v_panic_destruct : option val; v_ty : val; v_loc : val }.
Record signature := mk_sig {
  s_params : list val; s_extra_rets : list val; s_ret : val; s_implicits : list val;
  s_panicable : bool; s_loc : val }.
Record lowered := mk_lowered {
  l_sig : signature; l_vars : list variable; l_blocks : list block; l_params : list var }.

(* ---- the cached mirror: ids are table indices ---- *)
Record cvar_usage := mk_cvu { cvu_var : nat; cvu_loc : nat }.
Inductive cstmt :=
| CConst (value : nat) (output : nat) (boxed : bool)
| CCall (function : nat) (inputs : list cvar_usage) (with_coupon : bool) (outputs : list nat)
        (location : nat) (is_specialization_base_call : bool)
| CStructConstruct (inputs : list cvar_usage) (output : nat)
| CStructDestructure (input : cvar_usage) (outputs : list nat)
| CEnumConstruct (variant : nat) (input : cvar_usage) (output : nat)
| CIntoBox (input : cvar_usage) (output : nat)
| CUnbox (input : cvar_usage) (output : nat)
| CSnapshot (input : cvar_usage) (o1 o2 : nat)
| CDesnap (input : cvar_usage) (output : nat).
Record cmatch_arm := mk_carm { carm_selector : nat; carm_block : nat; carm_vars : list nat }.
Inductive cmatch_info :=
| CMEnum (concrete_enum : nat) (input : cvar_usage) (arms : list cmatch_arm) (location : nat)
| CMExtern (function : nat) (inputs : list cvar_usage) (arms : list cmatch_arm) (location : nat)
| CMValue (num_of_arms : nat) (input : cvar_usage) (arms : list cmatch_arm) (location : nat).
Inductive cblock_end :=
| CENotSet
| CEReturn (rets : list cvar_usage) (location : nat)
| CEPanic (data : cvar_usage)
| CEGoto (target : nat) (remapping : list (nat * cvar_usage))
| CEMatch (info : cmatch_info).
Record cblock := mk_cblock { cb_stmts : list cstmt; cb_end : cblock_end }.
Record cvariable := mk_cvar {
  cv_droppable : option nat; cv_copyable : option nat; cv_destruct : option nat;
  cv_panic_destruct : option nat; cv_ty : nat; cv_loc : nat }.
Record csignature := mk_csig {
  cs_params : list nat; cs_extra_rets : list nat; cs_ret : nat; cs_implicits : list nat;
  cs_panicable : bool; cs_loc : nat }.
Record clowered := mk_clowered {
  cl_sig : csignature; cl_vars : list cvariable; cl_blocks : list cblock; cl_params : list nat }.

(* ---- helpers ---- *)
Fixpoint map_st {A B} (f : A -> stab -> B * stab) (l : list A) (st : stab) : list B * stab :=
  match l with
  | [] => ([], st)
  | a :: l' => let r1 := f a st in let r2 := map_st f l' (snd r1) in (fst r1 :: fst r2, snd r2)
  end.
Fixpoint map_opt {A B} (g : B -> option A) (l : list B) : option (list A) :=
  match l with
  | [] => Some []
  | b :: l' => match g b, map_opt g l' with Some a, Some r => Some (a :: r) | _, _ => None end
  end.
Definition opt_st (o : option val) (st : stab) : option nat * stab :=
  match o with Some v => let r := new_id v st in (Some (fst r), snd r) | None => (None, st) end.
Definition opt_embed (lk : list cval) (o : option nat) : option (option val) :=
  match o with Some i => match embed_id lk i with Some v => Some (Some v) | None => None end
             | None => Some None end.
(* ctx.lowered_variables_id[i] *)
Definition evar (n : nat) (i : nat) : option var := if Nat.ltb i n then Some i else None.

(* ---- saving: XCached::new ---- *)
Definition new_vu (u : var_usage) (st : stab) : cvar_usage * stab :=
  let r := new_id (vu_loc u) st in (mk_cvu (vu_var u) (fst r), snd r).

Definition new_stmt (s : stmt) (st : stab) : cstmt * stab :=
  match s with
  | SConst v o b => let r := new_id v st in (CConst (fst r) o b, snd r)
  | SCall f ins wc outs loc sp =>
      let r1 := new_id f st in
      let r2 := map_st new_vu ins (snd r1) in
      let r3 := new_id loc (snd r2) in
      (CCall (fst r1) (fst r2) wc outs (fst r3) sp, snd r3)
  | SStructConstruct ins o => let r := map_st new_vu ins st in (CStructConstruct (fst r) o, snd r)
  | SStructDestructure i outs => let r := new_vu i st in (CStructDestructure (fst r) outs, snd r)
  | SEnumConstruct v i o =>
      let r1 := new_id v st in let r2 := new_vu i (snd r1) in (CEnumConstruct (fst r1) (fst r2) o, snd r2)
  | SIntoBox i o => let r := new_vu i st in (CIntoBox (fst r) o, snd r)
  | SUnbox i o => let r := new_vu i st in (CUnbox (fst r) o, snd r)
  | SSnapshot i a b => let r := new_vu i st in (CSnapshot (fst r) a b, snd r)
  | SDesnap i o => let r := new_vu i st in (CDesnap (fst r) o, snd r)
  end.

Definition new_arm (a : match_arm) (st : stab) : cmatch_arm * stab :=
  let r := new_id (arm_selector a) st in (mk_carm (fst r) (arm_block a) (arm_vars a), snd r).

Definition new_mi (m : match_info) (st : stab) : cmatch_info * stab :=
  match m with
  | MEnum e i arms loc =>
      let r1 := new_id e st in let r2 := new_vu i (snd r1) in
      let r3 := map_st new_arm arms (snd r2) in let r4 := new_id loc (snd r3) in
      (CMEnum (fst r1) (fst r2) (fst r3) (fst r4), snd r4)
  | MExtern f ins arms loc =>
      let r1 := new_id f st in let r2 := map_st new_vu ins (snd r1) in
      let r3 := map_st new_arm arms (snd r2) in let r4 := new_id loc (snd r3) in
      (CMExtern (fst r1) (fst r2) (fst r3) (fst r4), snd r4)
  | MValue n i arms loc =>
      let r2 := new_vu i st in
      let r3 := map_st new_arm arms (snd r2) in let r4 := new_id loc (snd r3) in
      (CMValue n (fst r2) (fst r3) (fst r4), snd r4)
  end.

Definition new_remap (p : var * var_usage) (st : stab) : (nat * cvar_usage) * stab :=
  let r := new_vu (snd p) st in ((fst p, fst r), snd r).

Definition new_end (e : block_end) (st : stab) : cblock_end * stab :=
  match e with
  | ENotSet => (CENotSet, st)
  | EReturn rets loc =>
      let r1 := map_st new_vu rets st in let r2 := new_id loc (snd r1) in (CEReturn (fst r1) (fst r2), snd r2)
  | EPanic d => let r := new_vu d st in (CEPanic (fst r), snd r)
  | EGoto b rm => let r := map_st new_remap rm st in (CEGoto b (fst r), snd r)
  | EMatch m => let r := new_mi m st in (CEMatch (fst r), snd r)
  end.

Definition new_block (b : block) (st : stab) : cblock * stab :=
  let r1 := map_st new_stmt (b_stmts b) st in
  let r2 := new_end (b_end b) (snd r1) in
  (mk_cblock (fst r1) (fst r2), snd r2).

Definition new_variable (v : variable) (st : stab) : cvariable * stab :=
  let r1 := opt_st (v_droppable v) st in
  let r2 := opt_st (v_copyable v) (snd r1) in
  let r3 := opt_st (v_destruct v) (snd r2) in
  let r4 := opt_st (v_panic_destruct v) (snd r3) in
  let r5 := new_id (v_ty v) (snd r4) in
  let r6 := new_id (v_loc v) (snd r5) in
  (mk_cvar (fst r1) (fst r2) (fst r3) (fst r4) (fst r5) (fst r6), snd r6).

Definition new_sig (s : signature) (st : stab) : csignature * stab :=
  let r1 := map_st new_id (s_params s) st in
  let r2 := map_st new_id (s_extra_rets s) (snd r1) in
  let r3 := new_id (s_ret s) (snd r2) in
  let r4 := map_st new_id (s_implicits s) (snd r3) in
  let r5 := new_id (s_loc s) (snd r4) in
  (mk_csig (fst r1) (fst r2) (fst r3) (fst r4) (s_panicable s) (fst r5), snd r5).

(* LoweredCached::new *)
Definition new_lowered (l : lowered) (st : stab) : clowered * stab :=
  let r1 := new_sig (l_sig l) st in
  let r2 := map_st new_variable (l_vars l) (snd r1) in
  let r3 := map_st new_block (l_blocks l) (snd r2) in
  (mk_clowered (fst r1) (fst r2) (fst r3) (l_params l), snd r3).

(* ---- loading: XCached::embed; n = number of variables of the function ---- *)
Definition embed_vu (n : nat) (lk : list cval) (c : cvar_usage) : option var_usage :=
  match evar n (cvu_var c), embed_id lk (cvu_loc c) with
  | Some v, Some l => Some (mk_vu v l)
  | _, _ => None
  end.

Definition embed_stmt (n : nat) (lk : list cval) (c : cstmt) : option stmt :=
  match c with
  | CConst v o b =>
      match embed_id lk v, evar n o with Some v', Some o' => Some (SConst v' o' b) | _, _ => None end
  | CCall f ins wc outs loc sp =>
      match embed_id lk f, map_opt (embed_vu n lk) ins, map_opt (evar n) outs, embed_id lk loc with
      | Some f', Some ins', Some outs', Some loc' => Some (SCall f' ins' wc outs' loc' sp)
      | _, _, _, _ => None
      end
  | CStructConstruct ins o =>
      match map_opt (embed_vu n lk) ins, evar n o with
      | Some ins', Some o' => Some (SStructConstruct ins' o') | _, _ => None end
  | CStructDestructure i outs =>
      match embed_vu n lk i, map_opt (evar n) outs with
      | Some i', Some outs' => Some (SStructDestructure i' outs') | _, _ => None end
  | CEnumConstruct v i o =>
      match embed_id lk v, embed_vu n lk i, evar n o with
      | Some v', Some i', Some o' => Some (SEnumConstruct v' i' o') | _, _, _ => None end
  | CIntoBox i o =>
      match embed_vu n lk i, evar n o with Some i', Some o' => Some (SIntoBox i' o') | _, _ => None end
  | CUnbox i o =>
      match embed_vu n lk i, evar n o with Some i', Some o' => Some (SUnbox i' o') | _, _ => None end
  | CSnapshot i a b =>
      match embed_vu n lk i, evar n a, evar n b with
      | Some i', Some a', Some b' => Some (SSnapshot i' a' b') | _, _, _ => None end
  | CDesnap i o =>
      match embed_vu n lk i, evar n o with Some i', Some o' => Some (SDesnap i' o') | _, _ => None end
  end.

Definition embed_arm (n : nat) (lk : list cval) (c : cmatch_arm) : option match_arm :=
  match embed_id lk (carm_selector c), map_opt (evar n) (carm_vars c) with
  | Some s, Some vs => Some (mk_arm s (carm_block c) vs)
  | _, _ => None
  end.

Definition embed_mi (n : nat) (lk : list cval) (c : cmatch_info) : option match_info :=
  match c with
  | CMEnum e i arms loc =>
      match embed_id lk e, embed_vu n lk i, map_opt (embed_arm n lk) arms, embed_id lk loc with
      | Some e', Some i', Some arms', Some loc' => Some (MEnum e' i' arms' loc')
      | _, _, _, _ => None
      end
  | CMExtern f ins arms loc =>
      match embed_id lk f, map_opt (embed_vu n lk) ins, map_opt (embed_arm n lk) arms, embed_id lk loc with
      | Some f', Some ins', Some arms', Some loc' => Some (MExtern f' ins' arms' loc')
      | _, _, _, _ => None
      end
  | CMValue k i arms loc =>
      match embed_vu n lk i, map_opt (embed_arm n lk) arms, embed_id lk loc with
      | Some i', Some arms', Some loc' => Some (MValue k i' arms' loc')
      | _, _, _ => None
      end
  end.

Definition embed_remap (n : nat) (lk : list cval) (p : nat * cvar_usage) : option (var * var_usage) :=
  match evar n (fst p), embed_vu n lk (snd p) with
  | Some d, Some s => Some (d, s)
  | _, _ => None
  end.

Definition embed_end (n : nat) (lk : list cval) (c : cblock_end) : option block_end :=
  match c with
  | CENotSet => Some ENotSet
  | CEReturn rets loc =>
      match map_opt (embed_vu n lk) rets, embed_id lk loc with
      | Some r, Some l => Some (EReturn r l) | _, _ => None end
  | CEPanic d => match embed_vu n lk d with Some d' => Some (EPanic d') | None => None end
  | CEGoto b rm =>
      match map_opt (embed_remap n lk) rm with Some rm' => Some (EGoto b rm') | None => None end
  | CEMatch m => match embed_mi n lk m with Some m' => Some (EMatch m') | None => None end
  end.

Definition embed_block (n : nat) (lk : list cval) (c : cblock) : option block :=
  match map_opt (embed_stmt n lk) (cb_stmts c), embed_end n lk (cb_end c) with
  | Some ss, Some e => Some (mk_block ss e)
  | _, _ => None
  end.

Definition embed_variable (lk : list cval) (c : cvariable) : option variable :=
  match opt_embed lk (cv_droppable c), opt_embed lk (cv_copyable c), opt_embed lk (cv_destruct c),
        opt_embed lk (cv_panic_destruct c), embed_id lk (cv_ty c), embed_id lk (cv_loc c) with
  | Some a, Some b, Some d, Some e, Some t, Some l => Some (mk_var a b d e t l)
  | _, _, _, _, _, _ => None
  end.

Definition embed_sig (lk : list cval) (c : csignature) : option signature :=
  match map_opt (embed_id lk) (cs_params c), map_opt (embed_id lk) (cs_extra_rets c),
        embed_id lk (cs_ret c), map_opt (embed_id lk) (cs_implicits c), embed_id lk (cs_loc c) with
  | Some p, Some x, Some r, Some i, Some l => Some (mk_sig p x r i (cs_panicable c) l)
  | _, _, _, _, _ => None
  end.

(* LoweredCached::embed: variables first (their ids form lowered_variables_id), then the blocks
   (`blocks.build().unwrap()` panics on an empty block list), signature, parameters *)
Definition embed_lowered (lk : list cval) (c : clowered) : option lowered :=
  let n := length (cl_vars c) in
  match map_opt (embed_variable lk) (cl_vars c), map_opt (embed_block n lk) (cl_blocks c),
        embed_sig lk (cl_sig c), map_opt (evar n) (cl_params c) with
  | Some vs, Some bs, Some s, Some ps =>
      match bs with [] => None | _ => Some (mk_lowered s vs bs ps) end
  | _, _, _, _ => None
  end.

(* ---- well-formedness: every variable reference is an arena index, at least one block ---- *)
Definition wf_vu (n : nat) (u : var_usage) : Prop := vu_var u < n.
Definition wf_vars (n : nat) (l : list var) : Prop := Forall (fun v => v < n) l.
Definition wf_stmt (n : nat) (s : stmt) : Prop :=
  match s with
  | SConst _ o _ => o < n
  | SCall _ ins _ outs _ _ => Forall (wf_vu n) ins /\ wf_vars n outs
  | SStructConstruct ins o => Forall (wf_vu n) ins /\ o < n
  | SStructDestructure i outs => wf_vu n i /\ wf_vars n outs
  | SEnumConstruct _ i o => wf_vu n i /\ o < n
  | SIntoBox i o | SUnbox i o | SDesnap i o => wf_vu n i /\ o < n
  | SSnapshot i a b => wf_vu n i /\ a < n /\ b < n
  end.
Definition wf_arm (n : nat) (a : match_arm) : Prop := wf_vars n (arm_vars a).
Definition wf_mi (n : nat) (m : match_info) : Prop :=
  match m with
  | MEnum _ i arms _ | MValue _ i arms _ => wf_vu n i /\ Forall (wf_arm n) arms
  | MExtern _ ins arms _ => Forall (wf_vu n) ins /\ Forall (wf_arm n) arms
  end.
Definition wf_remap (n : nat) (p : var * var_usage) : Prop := fst p < n /\ wf_vu n (snd p).
Definition wf_end (n : nat) (e : block_end) : Prop :=
  match e with
  | ENotSet => True
  | EReturn rets _ => Forall (wf_vu n) rets
  | EPanic d => wf_vu n d
  | EGoto _ rm => Forall (wf_remap n) rm
  | EMatch m => wf_mi n m
  end.
Definition wf_block (n : nat) (b : block) : Prop := Forall (wf_stmt n) (b_stmts b) /\ wf_end n (b_end b).
Definition wf_lowered (l : lowered) : Prop :=
  let n := length (l_vars l) in
  Forall (wf_block n) (l_blocks l) /\ wf_vars n (l_params l) /\ l_blocks l <> [].
