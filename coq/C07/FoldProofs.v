(* C07/FoldProofs.v -- every rewrite the const-folding model performs is justified by the run-time
   meaning of the libfunc: the constant it substitutes is the value the libfunc returns, the arm it
   jumps to is the arm the libfunc takes, for ALL run-time values of the operands it does not know. *)
From C07 Require Import Rt ConstEval Fold ConstEvalProofs.
Ltac Zify.zify_post_hook ::= Z.div_mod_to_equations.

(* what the folder knows is true of the run-time value *)
Definition agrees (k : known) (v : Z) : Prop := match k with Some c => v = c | None => True end.
(* felt252: the folder holds an integer of (-P, P) (or any integer), the run-time value is its class *)
Definition agrees_felt (k : known) (v : Z) : Prop :=
  0 <= v < P /\ match k with Some c => v = c mod P | None => True end.

Lemma is_zero_k_spec k : is_zero_k k = true -> k = Some 0.
Proof. destruct k as [v|]; cbn; [|discriminate]. intros H. apply Z.eqb_eq in H. congruence. Qed.
Lemma is_one_k_spec k : is_one_k k = true -> k = Some 1.
Proof. destruct k as [v|]; cbn; [|discriminate]. intros H. apply Z.eqb_eq in H. congruence. Qed.

(* ---------------- felt252 add / sub / mul ---------------- *)
Definition rt_felt (f : lf_call) (a b : Z) : Z :=
  match f with
  | FeltAdd => (a + b) mod P
  | FeltSub => (a - b) mod P
  | FeltMul => (a * b) mod P
  | _ => 0
  end.
Definition denote_f (o : fout) (a b : Z) : Z :=
  match o with FConst v => v | FVar 0 => a | FVar _ => b | FConst2 q _ => q end.

Theorem fold_felt_sound : forall f ka kb o a b,
  (f = FeltAdd \/ f = FeltSub \/ f = FeltMul) ->
  fold_call f [ka; kb] = Some o -> agrees_felt ka a -> agrees_felt kb b ->
  (denote_f o a b) mod P = rt_felt f a b.
Proof.
  intros f ka kb o a b Hf Hfold [Ra Ha] [Rb Hb]. pose proof P_pos as HP.
  assert (H1P : 1 < P) by (rewrite P_val; lia).
  destruct Hf as [-> | [-> | ->]]; cbn [fold_call rt_felt] in *.
  - (* add *)
    destruct (is_zero_k ka) eqn:Za.
    + apply is_zero_k_spec in Za. subst ka. injection Hfold as <-. cbn [denote_f].
      rewrite Ha, Z.mod_0_l by lia. rewrite Z.add_0_l. reflexivity.
    + destruct (is_zero_k kb) eqn:Zb.
      * apply is_zero_k_spec in Zb. subst kb. injection Hfold as <-. cbn [denote_f].
        rewrite Hb, Z.mod_0_l by lia. rewrite Z.add_0_r. reflexivity.
      * destruct ka as [l|], kb as [r|]; try discriminate. injection Hfold as <-. cbn [denote_f].
        unfold canonical_felt252. rewrite rem_mod_P, Ha, Hb. rewrite <- Z.add_mod by lia. reflexivity.
  - (* sub *)
    destruct (is_zero_k kb) eqn:Zb.
    + apply is_zero_k_spec in Zb. subst kb. injection Hfold as <-. cbn [denote_f].
      rewrite Hb, Z.mod_0_l by lia. rewrite Z.sub_0_r. reflexivity.
    + destruct ka as [l|], kb as [r|]; try discriminate. injection Hfold as <-. cbn [denote_f].
      unfold canonical_felt252. rewrite rem_mod_P, Ha, Hb. rewrite <- Zminus_mod. reflexivity.
  - (* mul *)
    destruct (is_zero_k ka || is_zero_k kb) eqn:Z0.
    + injection Hfold as <-. cbn [denote_f]. apply orb_true_iff in Z0.
      destruct Z0 as [Z0|Z0]; apply is_zero_k_spec in Z0.
      * subst ka. rewrite Ha, Z.mod_0_l by lia. reflexivity.
      * subst kb. rewrite Hb, Z.mod_0_l by lia. rewrite Z.mul_0_r. reflexivity.
    + destruct (is_one_k kb) eqn:Ob.
      * apply is_one_k_spec in Ob. subst kb. injection Hfold as <-. cbn [denote_f].
        rewrite Hb, Z.mod_1_l by lia. rewrite Z.mul_1_r. reflexivity.
      * destruct (is_one_k ka) eqn:Oa.
        -- apply is_one_k_spec in Oa. subst ka. injection Hfold as <-. cbn [denote_f].
           rewrite Ha, Z.mod_1_l by lia. rewrite Z.mul_1_l. reflexivity.
        -- destruct ka as [l|], kb as [r|]; try discriminate. injection Hfold as <-.
           cbn [denote_f]. unfold canonical_felt252.
           rewrite rem_mod_P, Ha, Hb. rewrite <- Z.mul_mod by lia. reflexivity.
Qed.

(* ---------------- felt252 div ---------------- *)
(* run-time meaning of felt252_div(a, b), b <> 0: the q of [0,P) with q * b = a in the field *)
Definition is_quotient (a b q : Z) : Prop := 0 <= q < P /\ (q * b) mod P = a.

(* partial: the literal / literal case relies on finv r being an inverse of r (Fermat's little
   theorem for the prime P, which is not proved here); it is a hypothesis, checked by computation for
   every case of the correspondence run.  The shortcuts x / 1 and 0 / x need nothing. *)
Theorem fold_felt_div_sound_partial : forall ka kb o a b,
  fold_call FeltDiv [ka; kb] = Some o -> agrees_felt ka a -> agrees_felt kb b ->
  (forall l r, ka = Some l -> kb = Some r -> (finv r * (r mod P)) mod P = 1) ->
  is_quotient a b ((denote_f o a b) mod P).
Proof.
  intros ka kb o a b Hfold [Ra Ha] [Rb Hb] Hinv. pose proof P_pos as HP.
  assert (H1P : 1 < P) by (rewrite P_val; lia).
  cbn [fold_call] in Hfold. unfold is_quotient.
  split; [apply Z.mod_pos_bound; lia|].
  destruct (is_one_k kb) eqn:Ob.
  - apply is_one_k_spec in Ob. subst kb. injection Hfold as <-. cbn [denote_f].
    rewrite Hb, (Z.mod_1_l P) by lia. rewrite Z.mul_1_r, Z.mod_mod by lia. apply Z.mod_small. lia.
  - destruct (is_zero_k ka) eqn:Za.
    + apply is_zero_k_spec in Za. subst ka. injection Hfold as <-. cbn [denote_f].
      rewrite Ha, !Z.mod_0_l by lia. reflexivity.
    + destruct ka as [l|], kb as [r|]; try discriminate.
      destruct (r mod P =? 0); [discriminate|]. injection Hfold as <-. cbn [denote_f].
      unfold field_div. rewrite Z.mod_mod by lia. rewrite Hb, Ha.
      rewrite Z.mul_mod_idemp_l by lia. rewrite <- Z.mul_assoc.
      rewrite <- Z.mul_mod_idemp_r by lia. rewrite (Hinv l r eq_refl eq_refl).
      rewrite Z.mul_1_r, Z.mod_mod by lia. reflexivity.
Qed.

(* ---------------- exact integer libfuncs ---------------- *)
Theorem fold_int_sound : forall f ka kb o a b,
  fold_call f [ka; kb] = Some o -> agrees ka a -> agrees kb b ->
  match f with
  | WideMul => denote_f o a b = a * b
  | BIAdd => denote_f o a b = a + b
  | BISub => denote_f o a b = a - b
  | DivRem => 0 <= a -> 0 < b ->
              match o with FConst2 q r => q = a / b /\ r = a mod b | _ => False end
  | _ => True
  end.
Proof.
  intros f ka kb o a b Hfold Ha Hb. destruct f; try exact I; cbn [fold_call] in Hfold.
  - (* wide mul *)
    destruct (is_zero_k ka || is_zero_k kb) eqn:Z0.
    + injection Hfold as <-. cbn [denote_f]. apply orb_true_iff in Z0.
      destruct Z0 as [Z0|Z0]; apply is_zero_k_spec in Z0; subst; cbn [agrees] in *; subst; lia.
    + destruct ka as [l|], kb as [r|]; try discriminate. injection Hfold as <-.
      cbn [agrees denote_f] in *. subst. reflexivity.
  - destruct ka as [l|], kb as [r|]; try discriminate. injection Hfold as <-.
    cbn [agrees denote_f] in *. subst. reflexivity.
  - destruct ka as [l|], kb as [r|]; try discriminate. injection Hfold as <-.
    cbn [agrees denote_f] in *. subst. reflexivity.
  - (* div_rem *)
    intros Ha0 Hb0. destruct (is_zero_k ka) eqn:Za.
    + apply is_zero_k_spec in Za. subst ka. injection Hfold as <-. cbn [agrees] in Ha. subst a.
      rewrite Z.div_0_l, Z.mod_0_l by lia. split; reflexivity.
    + destruct ka as [l|], kb as [r|]; try discriminate. injection Hfold as <-.
      cbn [agrees] in *. subst.
      rewrite Z.quot_div_nonneg, Z.rem_mod_nonneg by lia. split; reflexivity.
Qed.

Theorem fold_upcast_sound : forall k o a,
  fold_call Upcast [k] = Some o -> agrees k a -> o = FConst a.
Proof. intros [c|] o a H Ha; cbn in *; [|discriminate]. injection H as <-. congruence. Qed.

(* ---------------- match libfuncs ---------------- *)
Definition denote_m (m : mout) (vals : list Z) : nat * option Z :=
  match m with
  | MArm a v => (a, v)
  | MArmVar a i => (a, Some (nth i vals 0))
  | MArmUpcast a => (a, Some (nth 0 vals 0))
  | MIsZeroOf i => (if nth i vals 0 =? 0 then 1%nat else 0%nat, None)
  | MIncDec inc sgn T =>
      let r := if inc then num_inc sgn T (nth 0 vals 0) else num_dec T (nth 0 vals 0) in
      (fst r, Some (snd r))
  end.

Definition with_val (r : nat * Z) : nat * option Z := (fst r, Some (snd r)).
Definition rt_match (f : lf_match) (vals : list Z) : nat * option Z :=
  match f, vals with
  | IsZero, _ => if forallb (fun v => v =? 0) vals then (0%nat, None) else (1%nat, Some (hd 0 vals))
  | EqInt, [x; y] => (rt_eq_arm x y, None)
  | UAdd T, [x; y] => with_val (rt_uoverflowing T (x + y))
  | USub T, [x; y] => with_val (rt_uoverflowing T (x - y))
  | Diff T, [x; y] => with_val (rt_diff T x y)
  | IAdd T, [x; y] => with_val (rt_ioverflowing T (x + y))
  | ISub T, [x; y] => with_val (rt_ioverflowing T (x - y))
  | Downcast in_is_felt _ out reversed, [x] =>
      let '(s, f) := if reversed then (1%nat, 0%nat) else (0%nat, 1%nat) in
      match (if in_is_felt then rt_from_felt out x else rt_downcast out x) with
      | Some v => (s, Some v)
      | None => (f, None)
      end
  | Constrain k, [x] => with_val (rt_constrain k x)
  | TrimMin b, [x] | TrimMax b, [x] => rt_trim b x
  | _, _ => (0%nat, None)
  end.

(* the side conditions under which the libfunc is used (guaranteed by the types) *)
Definition wf_match (f : lf_match) (args : list known) (vals : list Z) : Prop :=
  match f with
  | IsZero | EqInt | Constrain _ | TrimMin _ | TrimMax _ => Forall2 agrees args vals
  | UAdd T | USub T =>
      signed T = false /\ T <> Felt /\ Forall2 agrees args vals /\ Forall (in_range T) vals
  | IAdd T | ISub T =>
      signed T = true /\ Forall2 agrees args vals /\ Forall (in_range T) vals
  | Diff T =>
      (* T: the unsigned type of the result; the operands are of the signed type of the same width *)
      signed T = false /\ T <> Felt /\ Forall2 agrees args vals /\
      Forall (fun v => - 2 ^ (bits T - 1) <= v < 2 ^ (bits T - 1)) vals
  | Downcast in_is_felt in_rng out _ =>
      - P < fst out /\ fst out <= snd out /\ snd out < P /\ snd out - fst out < P /\
      (if in_is_felt then Forall2 agrees_felt args vals else Forall2 agrees args vals) /\
      match in_rng with Some ir => Forall (fun v => fst ir <= v <= snd ir) vals | None => True end
  end.

Lemma unsigned_rng T : signed T = false -> T <> Felt -> rng T = (0, 2 ^ bits T - 1).
Proof. destruct T; cbn; intros; try congruence; reflexivity. Qed.
Lemma signed_rng T : signed T = true -> rng T = (- 2 ^ (bits T - 1), 2 ^ (bits T - 1) - 1).
Proof. destruct T; cbn; intros; try congruence; reflexivity. Qed.
Lemma bits_ge_8 T : 8 <= bits T.
Proof. destruct T; cbn; lia. Qed.
Lemma pow2_split T : 2 ^ bits T = 2 * 2 ^ (bits T - 1).
Proof.
  pose proof (bits_ge_8 T). replace (bits T) with (1 + (bits T - 1)) at 1 by lia.
  rewrite Z.pow_add_r by lia. reflexivity.
Qed.

Ltac inv_forall2 :=
  repeat match goal with
         | H : Forall2 _ (_ :: _) _ |- _ => inversion H; subst; clear H
         | H : Forall2 _ [] _ |- _ => inversion H; subst; clear H
         | H : Forall2 _ _ (_ :: _) |- _ => inversion H; subst; clear H
         | H : Forall _ (_ :: _) |- _ => inversion H; subst; clear H
         end.

Lemma overflowing_sound f T ka kb x y m :
  (f = UAdd T \/ f = USub T \/ f = IAdd T \/ f = ISub T) ->
  (if is_signed_f f then signed T = true else (signed T = false /\ T <> Felt)) ->
  fold_overflowing f T ka kb = Some m -> agrees ka x -> agrees kb y ->
  in_range T x -> in_range T y ->
  denote_m m [x; y] =
    with_val ((if is_signed_f f then rt_ioverflowing T else rt_uoverflowing T)
                (if is_add f then x + y else x - y)).
Proof.
  intros Hf Hs Hfold Ha Hb Rx Ry.
  assert (Hr : rng T = (tmin T, tmax T)) by reflexivity.
  assert (Hbits : tmax T - tmin T + 1 = 2 ^ bits T).
  { destruct Hf as [-> | [-> | [-> | ->]]]; cbn [is_signed_f] in Hs;
      try (destruct Hs as [Hs HT]; pose proof (unsigned_rng T Hs HT) as E);
      try (pose proof (signed_rng T Hs) as E; pose proof (pow2_split T));
      rewrite Hr in E; injection E as E1 E2; lia. }
  assert (Hmin : if is_signed_f f then True else tmin T = 0).
  { destruct Hf as [-> | [-> | [-> | ->]]]; cbn [is_signed_f] in *; try exact I;
      destruct Hs as [Hs HT]; pose proof (unsigned_rng T Hs HT) as E; rewrite Hr in E; congruence. }
  pose proof (tmin_le_0 T) as Hmin0. pose proof (tmax_ge_1 T) as Hmax1.
  unfold in_range in Rx, Ry. unfold fold_overflowing in Hfold.
  destruct ka as [l|], kb as [r|]; cbn [agrees] in Ha, Hb; subst.
  - (* both known *)
    set (value := if is_add f then l + r else l - r) in *.
    unfold normalized, rng in Hfold. cbn [fst snd] in Hfold.
    assert (Hv : tmin T - 2 ^ bits T < value < tmax T + 2 ^ bits T)
      by (subst value; destruct (is_add f); lia).
    destruct (Z.ltb_spec value (tmin T)) as [H1|H1].
    + injection Hfold as <-. cbn [denote_m]. unfold with_val.
      destruct (is_signed_f f); unfold rt_ioverflowing, rt_uoverflowing.
      * replace (value <? tmin T) with true by (symmetry; apply Z.ltb_lt; lia). cbn [fst snd].
        do 2 f_equal. lia.
      * replace (value <? 0) with true by (symmetry; apply Z.ltb_lt; lia). cbn [fst snd].
        do 2 f_equal. lia.
    + destruct (Z.ltb_spec (tmax T) value) as [H2|H2].
      * injection Hfold as <-. cbn [denote_m]. unfold with_val.
        destruct (is_signed_f f); unfold rt_ioverflowing, rt_uoverflowing.
        -- replace (value <? tmin T) with false by (symmetry; apply Z.ltb_ge; lia).
           replace (tmax T <? value) with true by (symmetry; apply Z.ltb_lt; lia). cbn [fst snd].
           do 2 f_equal. lia.
        -- replace (value <? 0) with false by (symmetry; apply Z.ltb_ge; lia).
           replace (tmax T <? value) with true by (symmetry; apply Z.ltb_lt; lia). cbn [fst snd].
           do 2 f_equal. lia.
      * injection Hfold as <-. cbn [denote_m]. unfold with_val.
        destruct (is_signed_f f); unfold rt_ioverflowing, rt_uoverflowing.
        -- replace (value <? tmin T) with false by (symmetry; apply Z.ltb_ge; lia).
           replace (tmax T <? value) with false by (symmetry; apply Z.ltb_ge; lia). reflexivity.
        -- replace (value <? 0) with false by (symmetry; apply Z.ltb_ge; lia).
           replace (tmax T <? value) with false by (symmetry; apply Z.ltb_ge; lia). reflexivity.
  - (* lhs known only: 0 + y *)
    cbn [is_zero_k is_one_k andb] in Hfold.
    destruct ((l =? 0) && is_add f) eqn:E; [|discriminate]. injection Hfold as <-.
    apply andb_true_iff in E. destruct E as [E1 E2]. apply Z.eqb_eq in E1. subst l. rewrite E2.
    cbn [denote_m nth]. unfold with_val.
    destruct (is_signed_f f); unfold rt_ioverflowing, rt_uoverflowing; rewrite Z.add_0_l.
    + replace (y <? tmin T) with false by (symmetry; apply Z.ltb_ge; lia).
      replace (tmax T <? y) with false by (symmetry; apply Z.ltb_ge; lia). reflexivity.
    + replace (y <? 0) with false by (symmetry; apply Z.ltb_ge; lia).
      replace (tmax T <? y) with false by (symmetry; apply Z.ltb_ge; lia). reflexivity.
  - (* rhs known only: x +- 0 *)
    cbn [is_zero_k is_one_k andb] in Hfold.
    assert (Hd : is_diff f = false) by (destruct Hf as [-> | [-> | [-> | ->]]]; reflexivity).
    rewrite Hd in Hfold. cbn [negb] in Hfold. rewrite !andb_true_r in Hfold.
    destruct (Z.eqb_spec r 0) as [->|Hr0].
    + injection Hfold as <-. cbn [denote_m nth]. unfold with_val.
      replace (if is_add f then x + 0 else x - 0) with x by (destruct (is_add f); lia).
      destruct (is_signed_f f); unfold rt_ioverflowing, rt_uoverflowing.
      * replace (x <? tmin T) with false by (symmetry; apply Z.ltb_ge; lia).
        replace (tmax T <? x) with false by (symmetry; apply Z.ltb_ge; lia). reflexivity.
      * replace (x <? 0) with false by (symmetry; apply Z.ltb_ge; lia).
        replace (tmax T <? x) with false by (symmetry; apply Z.ltb_ge; lia). reflexivity.
    + destruct (Z.eqb_spec r 1) as [->|Hr1]; [|discriminate].
      (* x +- 1: the corelib helper T_inc / T_dec *)
      assert (Hm : m = MIncDec (is_add f) (is_signed_f f) T)
        by (destruct T; try discriminate; injection Hfold as <-; reflexivity).
      subst m. cbn [denote_m nth]. unfold with_val, num_inc, num_dec.
      destruct Hf as [-> | [-> | [-> | ->]]]; cbn [is_add is_signed_f] in *;
        unfold rt_ioverflowing, rt_uoverflowing.
      * (* UAdd *)
        destruct (Z.eqb_spec x (tmax T)) as [->|Hx]; cbn [fst snd].
        -- replace (tmax T + 1 <? 0) with false by (symmetry; apply Z.ltb_ge; lia).
           replace (tmax T <? tmax T + 1) with true by (symmetry; apply Z.ltb_lt; lia).
           cbn [fst snd]. do 2 f_equal. lia.
        -- replace (x + 1 <? 0) with false by (symmetry; apply Z.ltb_ge; lia).
           replace (tmax T <? x + 1) with false by (symmetry; apply Z.ltb_ge; lia). reflexivity.
      * (* USub *)
        destruct (Z.eqb_spec x (tmin T)) as [->|Hx]; cbn [fst snd].
        -- replace (tmin T - 1 <? 0) with true by (symmetry; apply Z.ltb_lt; lia).
           cbn [fst snd]. do 2 f_equal. lia.
        -- replace (x - 1 <? 0) with false by (symmetry; apply Z.ltb_ge; lia).
           replace (tmax T <? x - 1) with false by (symmetry; apply Z.ltb_ge; lia). reflexivity.
      * (* IAdd *)
        destruct (Z.eqb_spec x (tmax T)) as [->|Hx]; cbn [fst snd].
        -- replace (tmax T + 1 <? tmin T) with false by (symmetry; apply Z.ltb_ge; lia).
           replace (tmax T <? tmax T + 1) with true by (symmetry; apply Z.ltb_lt; lia).
           cbn [fst snd]. do 2 f_equal. lia.
        -- replace (x + 1 <? tmin T) with false by (symmetry; apply Z.ltb_ge; lia).
           replace (tmax T <? x + 1) with false by (symmetry; apply Z.ltb_ge; lia). reflexivity.
      * (* ISub *)
        destruct (Z.eqb_spec x (tmin T)) as [->|Hx]; cbn [fst snd].
        -- replace (tmin T - 1 <? tmin T) with true by (symmetry; apply Z.ltb_lt; lia).
           cbn [fst snd]. do 2 f_equal. lia.
        -- replace (x - 1 <? tmin T) with false by (symmetry; apply Z.ltb_ge; lia).
           replace (tmax T <? x - 1) with false by (symmetry; apply Z.ltb_ge; lia). reflexivity.
  - (* nothing known *)
    cbn in Hfold. discriminate.
Qed.

Lemma felt_downcast_sound lo hi c a :
  - P < lo -> lo <= hi -> hi < P -> hi - lo < P -> 0 <= a < P -> a = c mod P ->
  let w := felt252_for_downcast c lo in
  lo <= w /\
  (w <= hi -> rt_from_felt (lo, hi) a = Some w) /\
  (hi < w -> rt_from_felt (lo, hi) a = None).
Proof.
  intros H1 H2 H3 H4 Ra Ha w. pose proof P_val as HP.
  unfold felt252_for_downcast in w. subst w. unfold rt_from_felt, inb. cbn [fst snd].
  pose proof (Z.mod_pos_bound (c - lo) P ltac:(lia)) as Hw.
  pose proof (Z.div_mod (c - lo) P ltac:(lia)) as E1.
  pose proof (Z.div_mod c P ltac:(lia)) as E2. rewrite <- Ha in E2.
  set (q1 := (c - lo) / P) in *. set (q2 := c / P) in *. set (r1 := (c - lo) mod P) in *.
  split; [lia|]. split; intros Hcmp.
  - destruct (Z.leb_spec lo a), (Z.leb_spec a hi); cbn [andb].
    + f_equal. nia.
    + destruct (Z.leb_spec lo (a - P)), (Z.leb_spec (a - P) hi); cbn [andb]; try (f_equal; nia); nia.
    + destruct (Z.leb_spec lo (a - P)), (Z.leb_spec (a - P) hi); cbn [andb]; try (f_equal; nia); nia.
    + destruct (Z.leb_spec lo (a - P)), (Z.leb_spec (a - P) hi); cbn [andb]; try (f_equal; nia); nia.
  - destruct (Z.leb_spec lo a), (Z.leb_spec a hi); cbn [andb]; try nia;
      destruct (Z.leb_spec lo (a - P)), (Z.leb_spec (a - P) hi); cbn [andb]; try reflexivity; nia.
Qed.

Lemma forall2_two {A B} (R : A -> B -> Prop) a b vals :
  Forall2 R [a; b] vals -> exists x y, vals = [x; y] /\ R a x /\ R b y.
Proof.
  intros H. inversion H as [|? x ? l1 Ha H1]; subst. inversion H1 as [|? y ? l2 Hb H2]; subst.
  inversion H2; subst. eauto.
Qed.
Lemma forall2_one {A B} (R : A -> B -> Prop) a vals :
  Forall2 R [a] vals -> exists x, vals = [x] /\ R a x.
Proof. intros H. inversion H as [|? x ? l1 Ha H1]; subst. inversion H1; subst. eauto. Qed.
Lemma forall_two {A} (Q : A -> Prop) x y : Forall Q [x; y] -> Q x /\ Q y.
Proof. intros H. inversion H as [|? ? Hx H1]; subst. inversion H1; subst. auto. Qed.

Lemma all_known_zero (l : list known) (vals : list Z) :
  Forall2 agrees l vals ->
  forallb (fun k => match k with Some _ => true | None => false end) l = true ->
  forallb (fun k => is_zero_k k) l = forallb (fun v => v =? 0) vals.
Proof.
  induction 1 as [|k x l' vals' Hkx Hrest IH]; [reflexivity|].
  cbn [forallb]. intros Hall. apply andb_true_iff in Hall. destruct Hall as [Hk1 Hk2].
  destruct k as [c|]; [|discriminate]. cbn [agrees] in Hkx. subst. cbn [is_zero_k].
  rewrite IH by exact Hk2. reflexivity.
Qed.

Theorem fold_match_sound : forall f args vals m,
  fold_match f args = Some m -> wf_match f args vals ->
  denote_m m vals = rt_match f vals.
Proof.
  intros f args vals m Hfold Hwf. destruct f; cbn [wf_match] in Hwf.
  - (* IsZero *)
    cbn [fold_match] in Hfold. destruct args as [|[v|] limbs]; try discriminate.
    destruct (forallb (fun k => match k with Some _ => true | None => false end) limbs) eqn:Hk;
      [|discriminate].
    assert (Hvals : forallb (fun k => is_zero_k k) (Some v :: limbs) = forallb (fun v => v =? 0) vals).
    { apply all_known_zero; [exact Hwf|]. cbn [forallb]. exact Hk. }
    inversion Hwf; subst. cbn [rt_match]. rewrite <- Hvals.
    destruct (forallb (fun k => is_zero_k k) (Some v :: limbs)); injection Hfold as <-; reflexivity.
  - (* EqInt *)
    cbn [fold_match] in Hfold.
    destruct args as [|ka [|kb [|? ?]]]; try discriminate.
    destruct (forall2_two _ _ _ _ Hwf) as (x & y & -> & Ha & Hb).
    cbn [rt_match]. unfold rt_eq_arm.
    destruct ka as [l|], kb as [r|]; cbn [agrees] in *; subst.
    + injection Hfold as <-. reflexivity.
    + destruct (Z.eqb_spec l 0) as [->|]; [|discriminate]. injection Hfold as <-.
      cbn [denote_m nth]. rewrite (Z.eqb_sym 0 y). reflexivity.
    + destruct (Z.eqb_spec r 0) as [->|]; [|discriminate]. injection Hfold as <-.
      cbn [denote_m nth]. reflexivity.
    + discriminate.
  - (* UAdd *)
    destruct Hwf as (Hs & HT & Hag & Hr).
    destruct args as [|ka [|kb [|? ?]]]; try discriminate.
    destruct (forall2_two _ _ _ _ Hag) as (x & y & -> & Ha & Hb).
    apply forall_two in Hr. destruct Hr as [Rx Ry].
    cbn [fold_match] in Hfold. cbn [rt_match].
    apply (overflowing_sound (UAdd T) T ka kb x y m); cbn [is_signed_f]; auto.
  - (* USub *)
    destruct Hwf as (Hs & HT & Hag & Hr).
    destruct args as [|ka [|kb [|? ?]]]; try discriminate.
    destruct (forall2_two _ _ _ _ Hag) as (x & y & -> & Ha & Hb).
    apply forall_two in Hr. destruct Hr as [Rx Ry].
    cbn [fold_match] in Hfold. cbn [rt_match].
    apply (overflowing_sound (USub T) T ka kb x y m); cbn [is_signed_f]; auto.
  - (* Diff *)
    destruct Hwf as (Hs & HT & Hag & Hr).
    destruct args as [|ka [|kb [|? ?]]]; try discriminate.
    destruct (forall2_two _ _ _ _ Hag) as (x & y & -> & Ha & Hb).
    apply forall_two in Hr. destruct Hr as [Rx Ry].
    cbn [fold_match] in Hfold. cbn [rt_match]. unfold fold_overflowing in Hfold.
    pose proof (unsigned_rng T Hs HT) as Er. pose proof (pow2_split T) as Hp.
    destruct ka as [l|], kb as [r|]; cbn [agrees] in *; subst.
    + cbn [is_add] in Hfold. unfold normalized in Hfold. rewrite Er in Hfold. cbn [fst snd] in Hfold.
      unfold rt_diff, with_val.
      destruct (Z.ltb_spec (l - r) 0) as [H1|H1].
      * injection Hfold as <-. cbn [denote_m].
        replace (r <=? l) with false by (symmetry; apply Z.leb_gt; lia). cbn [fst snd].
        do 2 f_equal. lia.
      * destruct (Z.ltb_spec (2 ^ bits T - 1) (l - r)) as [H2|H2]; [lia|].
        injection Hfold as <-. cbn [denote_m].
        replace (r <=? l) with true by (symmetry; apply Z.leb_le; lia). reflexivity.
    + cbn [is_zero_k is_one_k is_diff is_add negb andb] in Hfold.
      rewrite ?andb_false_r in Hfold. discriminate.
    + cbn [is_zero_k is_one_k is_diff is_add negb andb] in Hfold.
      rewrite ?andb_false_r in Hfold. discriminate.
    + cbn in Hfold. discriminate.
  - (* IAdd *)
    destruct Hwf as (Hs & Hag & Hr).
    destruct args as [|ka [|kb [|? ?]]]; try discriminate.
    destruct (forall2_two _ _ _ _ Hag) as (x & y & -> & Ha & Hb).
    apply forall_two in Hr. destruct Hr as [Rx Ry].
    cbn [fold_match] in Hfold. cbn [rt_match].
    apply (overflowing_sound (IAdd T) T ka kb x y m); cbn [is_signed_f]; auto.
  - (* ISub *)
    destruct Hwf as (Hs & Hag & Hr).
    destruct args as [|ka [|kb [|? ?]]]; try discriminate.
    destruct (forall2_two _ _ _ _ Hag) as (x & y & -> & Ha & Hb).
    apply forall_two in Hr. destruct Hr as [Rx Ry].
    cbn [fold_match] in Hfold. cbn [rt_match].
    apply (overflowing_sound (ISub T) T ka kb x y m); cbn [is_signed_f]; auto.
  - (* Downcast *)
    destruct Hwf as (H1 & H2 & H3 & H4 & Hag & Hin).
    destruct args as [|kx [|? ?]]; try discriminate.
    cbn [fold_match] in Hfold. destruct out as [lo hi]. cbn [fst snd] in *.
    destruct kx as [c|].
    + (* known value *)
      destruct in_is_felt.
      * destruct (forall2_one _ _ _ Hag) as (a & -> & [Ra Ha]).
        pose proof (felt_downcast_sound lo hi c a H1 H2 H3 H4 Ra Ha) as (Hlo & Hin' & Hout).
        cbn [rt_match]. unfold normalized in Hfold. cbn [fst snd] in Hfold.
        set (w := felt252_for_downcast c lo) in *.
        replace (w <? lo) with false in Hfold by (symmetry; apply Z.ltb_ge; lia).
        destruct (Z.ltb_spec hi w) as [Hc|Hc].
        -- rewrite (Hout Hc). destruct reversed; injection Hfold as <-; reflexivity.
        -- rewrite (Hin' Hc). destruct reversed; injection Hfold as <-; reflexivity.
      * destruct (forall2_one _ _ _ Hag) as (a & -> & Ha). cbn [agrees] in Ha. subst a.
        cbn [rt_match]. unfold normalized in Hfold. cbn [fst snd] in Hfold.
        unfold rt_downcast, inb. cbn [fst snd].
        destruct (Z.ltb_spec c lo) as [Hc1|Hc1].
        -- replace (lo <=? c) with false by (symmetry; apply Z.leb_gt; lia). cbn [andb].
           destruct reversed; injection Hfold as <-; reflexivity.
        -- replace (lo <=? c) with true by (symmetry; apply Z.leb_le; lia). cbn [andb].
           destruct (Z.ltb_spec hi c) as [Hc2|Hc2].
           ++ replace (c <=? hi) with false by (symmetry; apply Z.leb_gt; lia).
              destruct reversed; injection Hfold as <-; reflexivity.
           ++ replace (c <=? hi) with true by (symmetry; apply Z.leb_le; lia).
              destruct reversed; injection Hfold as <-; reflexivity.
    + (* unknown value: range subsumption => upcast *)
      destruct in_rng as [[ilo ihi]|]; [|destruct reversed; discriminate]. cbn [fst snd] in *.
      destruct ((ilo <? lo) || (hi <? ihi)) eqn:Hsub; [destruct reversed; discriminate|].
      apply orb_false_iff in Hsub. destruct Hsub as [S1 S2].
      apply Z.ltb_ge in S1. apply Z.ltb_ge in S2.
      assert (exists x, vals = [x] /\ ilo <= x <= ihi) as (x & -> & Rx).
      { destruct in_is_felt; destruct (forall2_one _ _ _ Hag) as (x & -> & _);
          exists x; (split; [reflexivity|]); inversion Hin; subst; assumption. }
      cbn [rt_match]. unfold rt_from_felt, rt_downcast, inb. cbn [fst snd].
      replace (lo <=? x) with true by (symmetry; apply Z.leb_le; lia).
      replace (x <=? hi) with true by (symmetry; apply Z.leb_le; lia). cbn [andb].
      destruct in_is_felt, reversed; injection Hfold as <-; reflexivity.
  - (* Constrain *)
    destruct args as [|[c|] [|? ?]]; try discriminate.
    destruct (forall2_one _ _ _ Hwf) as (a & -> & Ha). cbn [agrees] in Ha. subst a.
    cbn [fold_match] in Hfold. injection Hfold as <-. cbn [rt_match denote_m].
    unfold rt_constrain, with_val. destruct (c <? k); reflexivity.
  - (* TrimMin *)
    destruct args as [|[c|] [|? ?]]; try discriminate.
    destruct (forall2_one _ _ _ Hwf) as (a & -> & Ha). cbn [agrees] in Ha. subst a.
    cbn [fold_match] in Hfold. injection Hfold as <-. cbn [rt_match]. unfold rt_trim.
    rewrite (Z.eqb_sym c lo). destruct (lo =? c); reflexivity.
  - (* TrimMax *)
    destruct args as [|[c|] [|? ?]]; try discriminate.
    destruct (forall2_one _ _ _ Hwf) as (a & -> & Ha). cbn [agrees] in Ha. subst a.
    cbn [fold_match] in Hfold. injection Hfold as <-. cbn [rt_match]. unfold rt_trim.
    rewrite (Z.eqb_sym c hi). destruct (hi =? c); reflexivity.
Qed.

(* ---------------- the identity rewrites, as equalities in the field ---------------- *)
Theorem identity_rewrites : forall x, 0 <= x < P ->
  (* what the folder does *)
  fold_call FeltAdd [None; Some 0] = Some (FVar 0) /\ fold_call FeltAdd [Some 0; None] = Some (FVar 1) /\
  fold_call FeltSub [None; Some 0] = Some (FVar 0) /\
  fold_call FeltMul [None; Some 1] = Some (FVar 0) /\ fold_call FeltMul [Some 1; None] = Some (FVar 1) /\
  fold_call FeltMul [None; Some 0] = Some (FConst 0) /\ fold_call FeltMul [Some 0; None] = Some (FConst 0) /\
  fold_call FeltDiv [None; Some 1] = Some (FVar 0) /\ fold_call FeltDiv [Some 0; None] = Some (FConst 0) /\
  (* why it may *)
  fadd x 0 = x /\ fadd 0 x = x /\ fsub x 0 = x /\ fmul x 1 = x /\ fmul 1 x = x /\
  fmul x 0 = 0 /\ fmul 0 x = 0 /\ is_quotient x 1 x /\ (forall y, is_quotient 0 y 0).
Proof.
  intros x Hx. pose proof P_pos as HP. unfold fadd, fsub, fmul, is_quotient.
  repeat split; try reflexivity; try lia;
    rewrite ?Z.add_0_r, ?Z.add_0_l, ?Z.sub_0_r, ?Z.mul_1_r, ?Z.mul_1_l, ?Z.mul_0_r, ?Z.mul_0_l;
    try (apply Z.mod_small; lia); try (apply Z.mod_0_l; lia).
Qed.

(* ---------------- the helpers substituted for x + 1 / x - 1 ---------------- *)
(* core::internal::num::T_inc / T_dec mean exactly overflowing add / sub of 1 -- arm and wrapped
   value -- for every x of the type *)
Theorem incdec_sound : forall T x, T <> Felt -> in_range T x ->
  (signed T = false ->
     num_inc false T x = rt_uoverflowing T (x + 1) /\ num_dec T x = rt_uoverflowing T (x - 1)) /\
  (signed T = true ->
     num_inc true T x = rt_ioverflowing T (x + 1) /\ num_dec T x = rt_ioverflowing T (x - 1)).
Proof.
  intros T x HT Rx. unfold in_range in Rx. pose proof (pow2_bits T HT) as Hb.
  pose proof (tmax_ge_1 T) as H1. pose proof (tmin_le_0 T) as H0.
  unfold num_inc, num_dec, rt_uoverflowing, rt_ioverflowing.
  split; intros Hs.
  - pose proof (unsigned_min T Hs) as Hm. rewrite Hm in *. split.
    + destruct (Z.eqb_spec x (tmax T)) as [->|Hx].
      * replace (tmax T + 1 <? 0) with false by (symmetry; apply Z.ltb_ge; lia).
        replace (tmax T <? tmax T + 1) with true by (symmetry; apply Z.ltb_lt; lia). f_equal. lia.
      * replace (x + 1 <? 0) with false by (symmetry; apply Z.ltb_ge; lia).
        replace (tmax T <? x + 1) with false by (symmetry; apply Z.ltb_ge; lia). reflexivity.
    + destruct (Z.eqb_spec x 0) as [->|Hx].
      * replace (0 - 1 <? 0) with true by reflexivity. f_equal. lia.
      * replace (x - 1 <? 0) with false by (symmetry; apply Z.ltb_ge; lia).
        replace (tmax T <? x - 1) with false by (symmetry; apply Z.ltb_ge; lia). reflexivity.
  - split.
    + destruct (Z.eqb_spec x (tmax T)) as [->|Hx].
      * replace (tmax T + 1 <? tmin T) with false by (symmetry; apply Z.ltb_ge; lia).
        replace (tmax T <? tmax T + 1) with true by (symmetry; apply Z.ltb_lt; lia). f_equal. lia.
      * replace (x + 1 <? tmin T) with false by (symmetry; apply Z.ltb_ge; lia).
        replace (tmax T <? x + 1) with false by (symmetry; apply Z.ltb_ge; lia). reflexivity.
    + destruct (Z.eqb_spec x (tmin T)) as [->|Hx].
      * replace (tmin T - 1 <? tmin T) with true by (symmetry; apply Z.ltb_lt; lia). f_equal. lia.
      * replace (x - 1 <? tmin T) with false by (symmetry; apply Z.ltb_ge; lia).
        replace (tmax T <? x - 1) with false by (symmetry; apply Z.ltb_ge; lia). reflexivity.
Qed.
