(* C07/Rt.v -- the RUN-TIME meaning of each const-evaluable operator on each numeric type, as plain
   mathematics over Z: the value the compiled program returns, or the panic data it panics with.
   Model file: definitions only.  This is a specification written from corelib/src/integer.cairo,
   corelib/src/lib.cairo (felt252 impls) and the libfunc documentation; it is tied to the code on
   every run by harness/h07, which executes the non-const twin [fn f(x, y) { x op y }] with the
   operands passed at run time and prints (operands, result) for [Corr.check_rt]. *)
From Coq Require Export ZArith List Lia Bool String Ascii.
From Base Require Export Felt.
Export ListNotations.
Open Scope Z_scope.

(* ---------- types ---------- *)
Inductive ity := U8 | U16 | U32 | U64 | U128 | U256 | I8 | I16 | I32 | I64 | I128 | Felt.

Definition signed (T : ity) : bool :=
  match T with I8 | I16 | I32 | I64 | I128 => true | _ => false end.
Definition bits (T : ity) : Z :=
  match T with
  | U8 | I8 => 8 | U16 | I16 => 16 | U32 | I32 => 32 | U64 | I64 => 64 | U128 | I128 => 128
  | U256 => 256 | Felt => 252
  end.
(* range of the values a variable of the type holds at run time *)
Definition tmin (T : ity) : Z :=
  match T with Felt => 0 | _ => if signed T then - 2 ^ (bits T - 1) else 0 end.
Definition tmax (T : ity) : Z :=
  match T with Felt => P - 1 | _ => if signed T then 2 ^ (bits T - 1) - 1 else 2 ^ (bits T) - 1 end.
Definition in_range (T : ity) (x : Z) : Prop := tmin T <= x <= tmax T.
Definition in_rangeb (T : ity) (x : Z) : bool := (tmin T <=? x) && (x <=? tmax T).

(* the literals the compiler accepts for the type (validate_literal): felt252 literals are signed *)
Definition lit_range (T : ity) (x : Z) : Prop :=
  match T with Felt => - P < x < P | _ => in_range T x end.
(* the run-time value of a literal *)
Definition enc (T : ity) (x : Z) : Z := match T with Felt => x mod P | _ => x end.

Definition tname (T : ity) : string :=
  match T with
  | U8 => "u8" | U16 => "u16" | U32 => "u32" | U64 => "u64" | U128 => "u128" | U256 => "u256"
  | I8 => "i8" | I16 => "i16" | I32 => "i32" | I64 => "i64" | I128 => "i128" | Felt => "felt252"
  end%string.

(* Cairo short string -> felt (big endian bytes) *)
Fixpoint str_acc (acc : Z) (s : string) : Z :=
  match s with
  | EmptyString => acc
  | String c r => str_acc (acc * 256 + Z.of_N (N_of_ascii c)) r
  end.
Definition str (s : string) : Z := str_acc 0 s.

(* ---------- results ---------- *)
Inductive rval :=
| RInt (v : Z)
| RBool (b : bool)
| RPair (a b : Z)
| ROpt (o : option Z)                 (* Option<T>: Some v / None *)
| RWords (w : list Z).                (* U128sFromFelt252Result: [low] (Narrow) or [high; low] (Wide) *)
Inductive rres := Ok (v : rval) | Panic (d : list Z).

(* ---------- operators (trait level: what `x op y` means for T) ---------- *)
Inductive op :=
| ONeg | OAdd | OSub | OMul | ODiv | ORem | OAnd | OOr | OXor
| OEq | ONe | OLt | OLe | OGt | OGe | ODivRem.

(* which (operator, type) pairs exist in the corelib and are const-evaluable *)
Definition is_arith (o : op) := match o with OAdd | OSub | OMul => true | _ => false end.
Definition is_divlike (o : op) := match o with ODiv | ORem | ODivRem => true | _ => false end.
Definition is_bitwise (o : op) := match o with OAnd | OOr | OXor => true | _ => false end.
Definition is_eq (o : op) := match o with OEq | ONe => true | _ => false end.
Definition is_ord (o : op) := match o with OLt | OLe | OGt | OGe => true | _ => false end.
Definition is_felt (T : ity) := match T with Felt => true | _ => false end.
Definition supported (o : op) (T : ity) : bool :=
  match o with
  | ONeg => signed T || is_felt T
  | OAdd | OSub | OMul => true
  | ODiv | ORem | ODivRem => negb (is_felt T)
  | OAnd | OOr | OXor => negb (signed T) && negb (is_felt T)
  | OEq | ONe => true
  | OLt | OLe | OGt | OGe => negb (is_felt T)
  end.

Definition msg (T : ity) (s : string) : list Z := [str (tname T ++ s)].
Definition div0 : list Z := [str "Division by 0"].
Definition divov : list Z := [str "attempt to divide with overflow"].

(* checked result of an integer operation whose exact value is v *)
Definition checked (T : ity) (opname : string) (v : Z) : rres :=
  if v <? tmin T then
    Panic (msg T (opname ++ (if signed T then " Underflow" else " Overflow")))
  else if tmax T <? v then Panic (msg T (opname ++ " Overflow"))
  else Ok (RInt v).
(* multiplication reports both directions as Overflow *)
Definition checked_mul (T : ity) (v : Z) : rres :=
  if in_rangeb T v then Ok (RInt v) else Panic (msg T "_mul Overflow").

Definition eval (o : op) (T : ity) (x y : Z) : rres :=
  match T with
  | Felt =>
      match o with
      | ONeg => Ok (RInt ((- x) mod P))
      | OAdd => Ok (RInt ((x + y) mod P))
      | OSub => Ok (RInt ((x - y) mod P))
      | OMul => Ok (RInt ((x * y) mod P))
      | OEq => Ok (RBool (x =? y))
      | ONe => Ok (RBool (negb (x =? y)))
      | _ => Panic []                      (* not supported *)
      end
  | _ =>
      match o with
      | ONeg => if x =? tmin T then Panic (msg T "_neg Underflow") else Ok (RInt (- x))
      | OAdd => checked T "_add" (x + y)
      | OSub => checked T "_sub" (x - y)
      | OMul => checked_mul T (x * y)
      | ODiv =>
          if y =? 0 then Panic div0
          else if signed T && (x =? tmin T) && (y =? -1) then Panic divov
          else Ok (RInt (Z.quot x y))
      | ORem =>
          if y =? 0 then Panic div0
          else if signed T && (x =? tmin T) && (y =? -1) then Panic divov
          else Ok (RInt (Z.rem x y))
      | ODivRem =>
          (* the twin is DivRem::div_rem(x, y.try_into().unwrap()) *)
          if y =? 0 then Panic [str "Option::unwrap failed."]
          else if signed T && (x =? tmin T) && (y =? -1) then Panic divov
          else Ok (RPair (Z.quot x y) (Z.rem x y))
      | OAnd => Ok (RInt (Z.land x y))
      | OOr => Ok (RInt (Z.lor x y))
      | OXor => Ok (RInt (Z.lxor x y))
      | OEq => Ok (RBool (x =? y))
      | ONe => Ok (RBool (negb (x =? y)))
      | OLt => Ok (RBool (x <? y))
      | OLe => Ok (RBool (x <=? y))
      | OGt => Ok (RBool (y <? x))
      | OGe => Ok (RBool (y <=? x))
      end
  end.

(* ---------- bool operators ---------- *)
Inductive bop := BNot | BAnd | BOr | BXor | BEq | BNe | BAndAnd | BOrOr.
Definition beval (o : bop) (a b : bool) : bool :=
  match o with
  | BNot => negb a
  | BAnd | BAndAnd => a && b
  | BOr | BOrOr => a || b
  | BXor => xorb a b
  | BEq => Bool.eqb a b
  | BNe => negb (Bool.eqb a b)
  end.

(* ---------- conversions (libfunc level) ---------- *)
(* a range of integers [lo, hi]: an integer type or a BoundedInt<lo, hi> *)
Definition range := (Z * Z)%type.
Definition rng (T : ity) : range := (tmin T, tmax T).
Definition inb (r : range) (x : Z) : bool := (fst r <=? x) && (x <=? snd r).

(* upcast / uN_to_felt252 / iN_to_felt252: value preserving; into felt252 the value is taken mod P *)
Definition rt_upcast (to_felt : bool) (x : Z) : Z := if to_felt then x mod P else x.

(* downcast<From, To> for integer source: Some x iff x fits *)
Definition rt_downcast (out : range) (x : Z) : option Z := if inb out x then Some x else None.
(* uN/iN_try_from_felt252 (and downcast from felt252): the field element a in [0,P) is read as the
   integer of [lo,hi] congruent to it, if there is one (hi - lo < P) *)
Definition rt_from_felt (out : range) (a : Z) : option Z :=
  if inb out a then Some a else if inb out (a - P) then Some (a - P) else None.

(* u128s_from_felt252 *)
Definition rt_u128s (a : Z) : list Z :=
  if a <? 2 ^ 128 then [a] else [a / 2 ^ 128; a mod 2 ^ 128].

(* x_is_zero: true = Zero arm *)
Definition rt_is_zero (x : Z) : bool := x =? 0.

(* ---------- libfuncs the const folder knows (run-time meaning) ---------- *)
(* overflowing add/sub of unsigned types: arm 0 = Ok(v), arm 1 = Err(v wrapped) *)
Definition rt_uoverflowing (T : ity) (v : Z) : nat * Z :=
  if v <? 0 then (1%nat, v + 2 ^ bits T)
  else if tmax T <? v then (1%nat, v - 2 ^ bits T)
  else (0%nat, v).
(* iN_overflowing_add/sub_impl: arm 0 InRange(v), 1 Underflow(v + 2^n), 2 Overflow(v - 2^n) *)
Definition rt_ioverflowing (T : ity) (v : Z) : nat * Z :=
  if v <? tmin T then (1%nat, v + 2 ^ bits T)
  else if tmax T <? v then (2%nat, v - 2 ^ bits T)
  else (0%nat, v).
(* iN_diff: arm 0 Ok(lhs - rhs) if lhs >= rhs, arm 1 Err(2^n + lhs - rhs) *)
Definition rt_diff (T : ity) (x y : Z) : nat * Z :=
  if y <=? x then (0%nat, x - y) else (1%nat, 2 ^ bits T + x - y).
(* uN_eq / iN_eq: arm 0 = false, arm 1 = true *)
Definition rt_eq_arm (x y : Z) : nat := if x =? y then 1%nat else 0%nat.
(* bounded_int_constrain<T, K>: arm 0 (Ok) if x < K, arm 1 (Err) otherwise, value unchanged *)
Definition rt_constrain (k x : Z) : nat * Z := if x <? k then (0%nat, x) else (1%nat, x).
(* bounded_int_trim_min/max: arm 0 if x is the trimmed bound, else arm 1 with x *)
Definition rt_trim (bound x : Z) : nat * option Z :=
  if x =? bound then (0%nat, None) else (1%nat, Some x).

(* ---------- conversions at the trait level ---------- *)
Inductive ckind := KInto | KTryInto | KNz | KDowncast.
Definition is_felt' (T : ity) := match T with Felt => true | _ => false end.
(* x is the run-time value of the source (felt252: in [0,P)) *)
Definition rt_cast (k : ckind) (From To : ity) (x : Z) : rres :=
  match k with
  | KInto => Ok (RInt (rt_upcast (is_felt' To) x))
  | KTryInto =>
      Ok (ROpt (if is_felt' From then rt_from_felt (rng To) x else rt_downcast (rng To) x))
  | KNz => Ok (ROpt (if rt_is_zero x then None else Some x))
  | KDowncast =>
      (* same meaning as TryInto: from felt252 the signed reading is used (Sierra's felt252 range is
         symmetric around 0), e.g. downcast::<felt252, i8>(-1) = Some(-1) *)
      Ok (ROpt (if is_felt' From then rt_from_felt (rng To) x else rt_downcast (rng To) x))
  end.

(* ---------- wrapping / overflowing / checked / saturating variants (core::num::traits) ---------- *)
Inductive pfam := PWrapping | POverflowing | PChecked | PSaturating.
Inductive aop := AAdd | ASub | AMul.
Definition exact (a : aop) (x y : Z) : Z :=
  match a with AAdd => x + y | ASub => x - y | AMul => x * y end.
(* the representative of v in the type's range, modulo 2^bits *)
Definition wrap (T : ity) (v : Z) : Z := (v - tmin T) mod 2 ^ bits T + tmin T.
Definition rt_variant (f : pfam) (a : aop) (T : ity) (x y : Z) : rres :=
  let v := exact a x y in
  match f with
  | PWrapping => Ok (RInt (wrap T v))
  | POverflowing => Ok (RPair (wrap T v) (if in_rangeb T v then 0 else 1))   (* (T, bool) *)
  | PChecked => Ok (ROpt (if in_rangeb T v then Some v else None))
  | PSaturating => Ok (RInt (if v <? tmin T then tmin T else if tmax T <? v then tmax T else v))
  end.
Inductive pop := PBin (o : op) | PVar (f : pfam) (a : aop).
Definition part_rt (p : pop) (T : ity) (a b : Z) : rres :=
  match p with
  | PBin o => eval o T (enc T a) (enc T b)
  | PVar f ar => rt_variant f ar T a b
  end.

(* core::internal::num::{uint,sint}_{inc,dec} (corelib/src/internal/num.cairo), the helpers the const
   folder substitutes for overflowing add/sub of a literal 1: (arm, value) *)
Definition num_inc (sgn : bool) (T : ity) (x : Z) : nat * Z :=
  if x =? tmax T then ((if sgn then 2 else 1)%nat, tmin T)   (* trim_max(t) = None: Err/Overflow(Bounded::MIN) *)
  else (0%nat, x + 1).
Definition num_dec (T : ity) (x : Z) : nat * Z :=
  if x =? tmin T then (1%nat, tmax T)                        (* trim_min(t) = None: Err/Underflow(Bounded::MAX) *)
  else (0%nat, x - 1).
