(* C07/CastProofs.v -- conversions: the compile-time evaluator's Into / TryInto / NonZero / downcast
   agree with the run-time meaning for every value of the source type's literal range. *)
From C07 Require Import Rt ConstEval ConstEvalProofs.
Ltac Zify.zify_post_hook ::= Z.div_mod_to_equations.

(* which conversions exist (corelib/src/integer.cairo); the theorem does not need the exact list of
   Upcastable pairs: `upcast` is value preserving whatever the pair *)
Definition is_int10 (T : ity) : bool := match T with U256 | Felt => false | _ => true end.
Definition cast_supported (k : ckind) (From To : ity) : bool :=
  match k with
  | KInto =>
      match To with
      | U256 => match From with U8 | U16 | U32 | U64 | U128 | Felt => true | _ => false end
      | Felt => is_int10 From
      | _ => is_int10 From
      end
  | KTryInto | KDowncast => (is_int10 From || is_felt From) && is_int10 To
  | KNz => negb (is_felt From)
  end.

(* image of the run-time result in the evaluator's representation *)
Definition repr_cast (k : ckind) (From To : ity) (r : rres) : cres :=
  match r with
  | Ok (RInt v) => CVal (from_int To v)
  | Ok (ROpt (Some v)) =>
      CVal (CEnum 0 (match k with KNz => CNz (lit From v) | _ => CInt v end))
  | Ok (ROpt None) => CVal (CEnum 1 cunit)
  | _ => CErr SilentMissing
  end.

Lemma small128 x : 0 <= x < 2 ^ 128 -> Z.land x mask128 = x /\ Z.shiftr x 128 = 0.
Proof.
  intros H. unfold mask128. change (2 ^ 128 - 1) with (Z.ones 128).
  rewrite Z.land_ones, Z.shiftr_div_pow2 by lia.
  split; [apply Z.mod_small; lia|apply Z.div_small; lia].
Qed.
Lemma shiftr128_zero a : 0 <= a -> (Z.shiftr a 128 =? 0) = (a <? 2 ^ 128).
Proof.
  intros Ha. rewrite Z.shiftr_div_pow2 by lia.
  destruct (Z.ltb_spec a (2 ^ 128)) as [H|H].
  - rewrite Z.div_small by lia. reflexivity.
  - apply Z.eqb_neq. pose proof (Z.div_le_lower_bound a (2 ^ 128) 1 ltac:(lia) ltac:(lia)). lia.
Qed.

Lemma felt_downcast_rt lo hi c :
  - P < lo -> lo <= hi -> hi < P -> hi - lo < P ->
  let w := felt252_for_downcast c lo in
  (if (lo <=? w) && (w <=? hi) then Some w else None) = rt_from_felt (lo, hi) (c mod P).
Proof.
  intros H1 H2 H3 H4 w. pose proof P_val as HP.
  unfold felt252_for_downcast in w. subst w. unfold rt_from_felt, inb. cbn [fst snd].
  pose proof (Z.mod_pos_bound (c - lo) P ltac:(lia)) as Hw.
  pose proof (Z.mod_pos_bound c P ltac:(lia)) as Ra.
  pose proof (Z.div_mod (c - lo) P ltac:(lia)) as E1.
  pose proof (Z.div_mod c P ltac:(lia)) as E2.
  set (q1 := (c - lo) / P) in *. set (q2 := c / P) in *.
  set (r1 := (c - lo) mod P) in *. set (a := c mod P) in *.
  replace (lo <=? r1 + lo) with true by (symmetry; apply Z.leb_le; lia). cbn [andb].
  destruct (Z.leb_spec (r1 + lo) hi) as [Hc|Hc].
  - destruct (Z.leb_spec lo a), (Z.leb_spec a hi); cbn [andb]; try (f_equal; nia);
      destruct (Z.leb_spec lo (a - P)), (Z.leb_spec (a - P) hi); cbn [andb]; try (f_equal; nia); nia.
  - destruct (Z.leb_spec lo a), (Z.leb_spec a hi); cbn [andb]; try nia;
      destruct (Z.leb_spec lo (a - P)), (Z.leb_spec (a - P) hi); cbn [andb]; try reflexivity; nia.
Qed.

Lemma int10_rng_ok T : is_int10 T = true ->
  - P < tmin T /\ tmin T <= tmax T /\ tmax T < P /\ tmax T - tmin T < P.
Proof. intros H. destruct T; try discriminate; cbv; repeat split; congruence. Qed.

Theorem const_cast_agrees : forall k From To x,
  cast_supported k From To = true -> lit_range From x ->
  cnorm To (const_cast k From To x) = repr_cast k From To (rt_cast k From To (enc From x)).
Proof.
  intros k From To x Hsup Hx. pose proof P_pos as HPpos.
  destruct k.
  - (* Into *)
    destruct To; destruct From; cbn in Hsup; try discriminate Hsup; try reflexivity.
    (* into u256 from u8..u128 *)
    1-5: (cbn [const_cast lit from_int c_upcast rt_cast rt_upcast is_felt' enc repr_cast cnorm];
          assert (Hr : 0 <= x < 2 ^ 128) by (cbv [lit_range in_range tmin tmax signed bits] in Hx; lia);
          destruct (small128 x Hr) as [E1 E2]; rewrite E1, E2; reflexivity).
    (* felt252 -> u256 *)
    cbn [const_cast lit from_int c_u128s rt_cast rt_upcast is_felt' enc repr_cast cnorm].
    destruct (Z.shiftr (x mod P) 128 =? 0) eqn:Eh.
    + apply Z.eqb_eq in Eh. rewrite Eh. reflexivity.
    + reflexivity.
  - (* TryInto *)
    cbn [cast_supported] in Hsup. apply andb_true_iff in Hsup. destruct Hsup as [HF HT].
    assert (HcT : forall c, cnorm To c = c) by (intros c; destruct To; try discriminate; reflexivity).
    rewrite HcT.
    destruct (is_felt From) eqn:Ef.
    + destruct From; try discriminate.
      destruct To eqn:ETo; try discriminate;
        try (cbn [const_cast lit from_int c_downcast is_felt rng fst snd rt_cast is_felt' enc repr_cast];
             match goal with |- context [rng ?T] => pose proof (int10_rng_ok T eq_refl) as (R1 & R2 & R3 & R4) end;
             unfold rng; cbn [fst snd];
             match goal with |- context [felt252_for_downcast x ?lo] =>
               match goal with |- context [rt_from_felt (?lo', ?hi) _] =>
                 pose proof (felt_downcast_rt lo' hi x R1 R2 R3 R4) as E end end;
             cbv zeta in E; rewrite <- E;
             match goal with |- context [if ?b then _ else _] => destruct b end; reflexivity).
      (* felt252 -> u128 through u128s_from_felt252 *)
      cbn [const_cast lit from_int c_u128s rt_cast is_felt' enc repr_cast].
      pose proof (Z.mod_pos_bound x P HPpos) as Ra.
      rewrite (shiftr128_zero (x mod P)) by lia.
      unfold rt_from_felt, inb, rng. cbn [fst snd]. change (tmin U128) with 0.
      change (tmax U128) with (2 ^ 128 - 1).
      destruct (Z.ltb_spec (x mod P) (2 ^ 128)) as [Hlt|Hge].
      * destruct (small128 (x mod P) ltac:(lia)) as [E1 _]. rewrite E1.
        replace (0 <=? x mod P) with true by (symmetry; apply Z.leb_le; lia).
        replace (x mod P <=? 2 ^ 128 - 1) with true by (symmetry; apply Z.leb_le; lia). reflexivity.
      * replace (x mod P <=? 2 ^ 128 - 1) with false by (symmetry; apply Z.leb_gt; lia).
        rewrite andb_false_r.
        replace (0 <=? x mod P - P) with false by (symmetry; apply Z.leb_gt; lia). reflexivity.
    + rewrite orb_false_r in HF.
      assert (Ex : enc From x = x) by (destruct From; try reflexivity; discriminate).
      assert (Hl : lit From x = CInt x) by (destruct From; try reflexivity; discriminate).
      assert (Hcc : const_cast KTryInto From To x =
                    match c_downcast false false (rng To) (CInt x) with
                    | Some c => CVal c | None => CErr SilentMissing end).
      { destruct From, To; try discriminate; reflexivity. }
      rewrite Hcc. cbv [c_downcast]. cbn [rt_cast repr_cast]. rewrite Ex.
      assert (Hff : is_felt' From = false) by (destruct From; try reflexivity; discriminate).
      rewrite Hff. unfold rt_downcast, inb.
      destruct ((fst (rng To) <=? x) && (x <=? snd (rng To))); reflexivity.
  - (* NonZero *)
    cbn [cast_supported] in Hsup.
    assert (HF : From <> Felt) by (intros ->; discriminate).
    assert (Ex : enc From x = x) by (destruct From; try reflexivity; congruence).
    assert (HcT : forall c, cnorm To (CVal (c_try_into_nz From c)) = CVal (c_try_into_nz From c)).
    { intros c. unfold c_try_into_nz, c_is_zero.
      destruct To; try reflexivity.
      destruct c as [v|l|i p|c']; try reflexivity.
      - destruct (v =? 0); reflexivity.
      - destruct (forallb _ l); reflexivity. }
    cbn [const_cast]. rewrite HcT, (is_zero_lit From x Hx).
    cbn [rt_cast repr_cast]. rewrite Ex. unfold rt_is_zero. destruct (x =? 0); reflexivity.
  - (* generic downcast: same computation and meaning as TryInto, without the u128 special case *)
    cbn [cast_supported] in Hsup. apply andb_true_iff in Hsup. destruct Hsup as [HF HT].
    assert (HcT : forall c, cnorm To c = c) by (intros c; destruct To; try discriminate; reflexivity).
    rewrite HcT.
    destruct (is_felt From) eqn:Ef.
    + destruct From; try discriminate.
      cbn [const_cast lit from_int c_downcast is_felt rt_cast is_felt' enc repr_cast].
      pose proof (int10_rng_ok To HT) as (R1 & R2 & R3 & R4).
      unfold rng. cbn [fst snd].
      pose proof (felt_downcast_rt (tmin To) (tmax To) x R1 R2 R3 R4) as E.
      cbv zeta in E. rewrite <- E.
      destruct ((tmin To <=? felt252_for_downcast x (tmin To)) &&
                (felt252_for_downcast x (tmin To) <=? tmax To)); reflexivity.
    + rewrite orb_false_r in HF.
      assert (Ex : enc From x = x) by (destruct From; try reflexivity; discriminate).
      assert (Hl : lit From x = CInt x) by (destruct From; try reflexivity; discriminate).
      assert (Hff : is_felt' From = false) by (destruct From; try reflexivity; discriminate).
      cbn [const_cast rt_cast repr_cast]. rewrite Ex, Hl, Ef, Hff. cbv [c_downcast].
      unfold rt_downcast, inb.
      destruct ((fst (rng To) <=? x) && (x <=? snd (rng To))); reflexivity.
Qed.
