(* C07/ConstEvalProofs.v -- the compile-time evaluator's answer is the image of the run-time answer,
   for every supported (operator, type) and all operands in the literal range. *)
From C07 Require Import Rt ConstEval.
Ltac Zify.zify_post_hook ::= Z.div_mod_to_equations.

(* ---------- the abstraction from run-time results to compile-time results ---------- *)
Definition zlist_eqb (a b : list Z) : bool :=
  (fix go (a b : list Z) : bool :=
     match a, b with
     | [], [] => true
     | x :: a', y :: b' => (x =? y) && go a' b'
     | _, _ => false
     end) a b.
(* run-time panic -> the diagnostic of the compile-time failure *)
Definition diag_of (d : list Z) : diag :=
  if zlist_eqb d div0 then DivisionByZero
  else if zlist_eqb d [str "Option::unwrap failed."] then FailedCalc
  else LiteralOutOfRange.
Definition repr (T : ity) (v : rval) : cval :=
  match v with
  | RInt z => from_int T z
  | RBool b => cbool b
  | RPair a b => CStruct [from_int T a; from_int T b]
  | ROpt (Some z) => CEnum 0 (from_int T z)
  | ROpt None => CEnum 1 cunit
  | RWords [lo] => CEnum 0 (CInt lo)
  | RWords w => CEnum 1 (CStruct (map CInt w))
  end.
Definition of_rt (T : ity) (r : rres) : cres :=
  match r with Ok v => CVal (repr T v) | Panic d => CErr (diag_of d) end.
(* felt252 const values are kept in (-P, P); their meaning is the field element *)
Definition cnorm (T : ity) (c : cres) : cres :=
  match T, c with
  | Felt, CVal (CInt v) => CVal (CInt (v mod P))
  | _, _ => c
  end.

(* ---------- small facts ---------- *)
Lemma P_val : P = 3618502788666131213697322783095070105623107215331596699973092056135872020481.
Proof. reflexivity. Qed.

Lemma tmin_le_0 T : tmin T <= 0.
Proof. destruct T; cbv; discriminate. Qed.
Lemma tmax_ge_1 T : 1 <= tmax T.
Proof. destruct T; cbv; discriminate. Qed.
Lemma pow2_bits T : T <> Felt -> tmax T - tmin T + 1 = 2 ^ bits T.
Proof. destruct T; intros H; try congruence; reflexivity. Qed.
Lemma signed_sym T : signed T = true -> tmin T = - tmax T - 1.
Proof. destruct T; cbn [signed]; intros H; try discriminate; reflexivity. Qed.
Lemma unsigned_min T : signed T = false -> tmin T = 0.
Proof. destruct T; cbn [signed]; intros H; try discriminate; reflexivity. Qed.

Lemma split128 v : 0 <= v -> Z.land v mask128 + Z.shiftl (Z.shiftr v 128) 128 = v.
Proof.
  intros Hv. unfold mask128.
  change (2 ^ 128 - 1) with (Z.ones 128).
  rewrite Z.land_ones by lia. rewrite Z.shiftr_div_pow2 by lia. rewrite Z.shiftl_mul_pow2 by lia.
  pose proof (Z.div_mod v (2 ^ 128)). lia.
Qed.

Lemma numeric_lit T x : lit_range T x -> numeric_arg T (lit T x) = Some x.
Proof.
  intros H. destruct T; try reflexivity.
  cbn [lit from_int numeric_arg]. f_equal. apply split128.
  cbv [lit_range in_range tmin signed] in H. lia.
Qed.

Lemma validate_in_range T v : T <> Felt -> validate_literal T v = in_rangeb T v.
Proof.
  intros HT. destruct T; try congruence; try reflexivity.
  cbv [validate_literal in_rangeb tmin tmax signed bits].
  destruct (0 <=? v); cbn [andb]; [|reflexivity].
  apply eq_true_iff_eq. rewrite Z.ltb_lt, Z.leb_le. lia.
Qed.

Lemma in_rangeb_true T v : in_rangeb T v = true <-> in_range T v.
Proof. unfold in_rangeb, in_range. rewrite andb_true_iff, !Z.leb_le. tauto. Qed.
Lemma in_rangeb_false T v : in_rangeb T v = false <-> ~ in_range T v.
Proof. rewrite <- in_rangeb_true. destruct (in_rangeb T v); intuition congruence. Qed.

Lemma lit_in_range T x : T <> Felt -> lit_range T x -> in_range T x.
Proof. destruct T; intros HT H; try congruence; exact H. Qed.

(* messages: every overflow message of every type is different from the two special ones *)
Lemma diag_of_msg T s :
  In s ["_add Overflow"; "_add Underflow"; "_sub Overflow"; "_sub Underflow"; "_mul Overflow";
        "_neg Underflow"]%string ->
  diag_of (msg T s) = LiteralOutOfRange.
Proof.
  intros Hs. cbn [In] in Hs.
  repeat (destruct Hs as [<-|Hs]; [destruct T; vm_compute; reflexivity|]). contradiction.
Qed.
Lemma diag_of_div0 : diag_of div0 = DivisionByZero.
Proof. vm_compute. reflexivity. Qed.
Lemma diag_of_divov : diag_of divov = LiteralOutOfRange.
Proof. vm_compute. reflexivity. Qed.
Lemma diag_of_unwrap : diag_of [str "Option::unwrap failed."] = FailedCalc.
Proof. vm_compute. reflexivity. Qed.

(* the common tail of the evaluator for integer results *)
Definition finish (T : ity) (value : Z) : cres :=
  if validate_literal T value then CVal (from_int T value) else CErr LiteralOutOfRange.

Lemma of_rt_checked T (opn : string) v :
  T <> Felt -> In opn ["_add"; "_sub"]%string ->
  of_rt T (checked T opn v) = finish T v.
Proof.
  intros HT Hop. unfold checked, finish. rewrite validate_in_range by exact HT.
  unfold in_rangeb.
  destruct (Z.ltb_spec v (tmin T)) as [H1|H1].
  - replace (tmin T <=? v) with false by (symmetry; apply Z.leb_gt; lia). cbn [andb of_rt].
    f_equal. cbn [In] in Hop. destruct Hop as [<-|[<-|[]]]; destruct (signed T); apply diag_of_msg;
      cbn; tauto.
  - replace (tmin T <=? v) with true by (symmetry; apply Z.leb_le; lia). cbn [andb].
    destruct (Z.ltb_spec (tmax T) v) as [H2|H2].
    + replace (v <=? tmax T) with false by (symmetry; apply Z.leb_gt; lia). cbn [of_rt].
      f_equal. cbn [In] in Hop. destruct Hop as [<-|[<-|[]]]; apply diag_of_msg; cbn; tauto.
    + replace (v <=? tmax T) with true by (symmetry; apply Z.leb_le; lia). reflexivity.
Qed.

Lemma of_rt_checked_mul T v : T <> Felt -> of_rt T (checked_mul T v) = finish T v.
Proof.
  intros HT. unfold checked_mul, finish. rewrite validate_in_range by exact HT.
  destruct (in_rangeb T v); [reflexivity|]. cbn [of_rt]. f_equal. apply diag_of_msg. cbn. tauto.
Qed.

Lemma finish_ok T v : T <> Felt -> in_range T v -> finish T v = CVal (from_int T v).
Proof.
  intros HT H. unfold finish. rewrite validate_in_range by exact HT.
  apply in_rangeb_true in H. rewrite H. reflexivity.
Qed.
Lemma finish_err T v : T <> Felt -> ~ in_range T v -> finish T v = CErr LiteralOutOfRange.
Proof.
  intros HT H. unfold finish. rewrite validate_in_range by exact HT.
  apply in_rangeb_false in H. rewrite H. reflexivity.
Qed.

(* ---------- truncating division stays in range, except MIN / -1 ---------- *)
Lemma quot_abs_half x y : 2 <= Z.abs y -> 2 * Z.abs (Z.quot x y) <= Z.abs x.
Proof.
  intros Hy. rewrite <- Z.quot_abs by lia.
  assert (H : Z.abs x ÷ Z.abs y <= Z.abs x ÷ 2) by (apply Z.quot_le_compat_l; lia).
  rewrite (Z.quot_div_nonneg (Z.abs x) 2) in H by lia. lia.
Qed.

Lemma quot_in_range T x y :
  T <> Felt -> in_range T x -> in_range T y -> y <> 0 ->
  ~ (signed T = true /\ x = tmin T /\ y = -1) ->
  in_range T (Z.quot x y).
Proof.
  intros HT Hx Hy Hy0 Hne. unfold in_range in *.
  destruct (signed T) eqn:Hs.
  - pose proof (signed_sym T Hs) as Hm.
    destruct (Z.eq_dec y 1) as [->|Hy1]; [rewrite Z.quot_1_r; lia|].
    destruct (Z.eq_dec y (-1)) as [->|Hym1].
    + assert (Hx' : x <> tmin T) by (intros ->; apply Hne; auto).
      change (-1) with (- (1)). rewrite Z.quot_opp_r, Z.quot_1_r by lia. lia.
    + pose proof (quot_abs_half x y ltac:(lia)). pose proof (tmax_ge_1 T). lia.
  - pose proof (unsigned_min T Hs) as Hm. rewrite Hm in *.
    rewrite Z.quot_div_nonneg by lia.
    split; [apply Z.div_pos; lia|].
    apply Z.le_trans with x; [|lia]. apply Z.div_le_upper_bound; [lia|]. nia.
Qed.

Lemma rem_in_range T x y :
  T <> Felt -> in_range T x -> in_range T y -> y <> 0 -> in_range T (Z.rem x y).
Proof.
  intros HT Hx Hy Hy0. unfold in_range in *.
  pose proof (Z.rem_bound_abs x y Hy0) as Hb.
  destruct (signed T) eqn:Hs.
  - pose proof (signed_sym T Hs). lia.
  - pose proof (unsigned_min T Hs) as Hm. rewrite Hm in *.
    pose proof (Z.rem_bound_pos x y ltac:(lia) ltac:(lia)). lia.
Qed.

(* ---------- bitwise results of unsigned operands stay in range ---------- *)
Lemma unsigned_range_pow T x :
  T <> Felt -> signed T = false -> (in_range T x <-> 0 <= x < 2 ^ bits T).
Proof.
  intros HT Hs. unfold in_range. pose proof (pow2_bits T HT) as Hp.
  rewrite (unsigned_min T Hs) in *. lia.
Qed.
Lemma bits_pos T : 0 < bits T.
Proof. destruct T; reflexivity. Qed.

Lemma lt_pow2_log2 a n : 0 < n -> 0 <= a -> (a < 2 ^ n <-> Z.log2 a < n).
Proof.
  intros Hn Ha. destruct (Z.eq_dec a 0) as [->|Hnz].
  - cbn. split; intros _; [lia|]. apply Z.pow_pos_nonneg; lia.
  - apply Z.log2_lt_pow2. lia.
Qed.

Lemma land_range n x y : 0 < n -> 0 <= x < 2 ^ n -> 0 <= y < 2 ^ n -> 0 <= Z.land x y < 2 ^ n.
Proof.
  intros Hn Hx Hy. assert (H0 : 0 <= Z.land x y) by (apply Z.land_nonneg; lia).
  split; [exact H0|]. apply lt_pow2_log2; [lia|lia|].
  pose proof (Z.log2_land x y ltac:(lia) ltac:(lia)).
  pose proof (proj1 (lt_pow2_log2 x n Hn ltac:(lia)) ltac:(lia)). lia.
Qed.
Lemma lor_range n x y : 0 < n -> 0 <= x < 2 ^ n -> 0 <= y < 2 ^ n -> 0 <= Z.lor x y < 2 ^ n.
Proof.
  intros Hn Hx Hy. assert (H0 : 0 <= Z.lor x y) by (apply Z.lor_nonneg; lia).
  split; [exact H0|]. apply lt_pow2_log2; [lia|lia|].
  rewrite Z.log2_lor by lia.
  pose proof (proj1 (lt_pow2_log2 x n Hn ltac:(lia)) ltac:(lia)).
  pose proof (proj1 (lt_pow2_log2 y n Hn ltac:(lia)) ltac:(lia)). lia.
Qed.
Lemma lxor_range n x y : 0 < n -> 0 <= x < 2 ^ n -> 0 <= y < 2 ^ n -> 0 <= Z.lxor x y < 2 ^ n.
Proof.
  intros Hn Hx Hy. assert (H0 : 0 <= Z.lxor x y) by (apply Z.lxor_nonneg; lia).
  split; [exact H0|]. apply lt_pow2_log2; [lia|lia|].
  pose proof (Z.log2_lxor x y ltac:(lia) ltac:(lia)).
  pose proof (proj1 (lt_pow2_log2 x n Hn ltac:(lia)) ltac:(lia)).
  pose proof (proj1 (lt_pow2_log2 y n Hn ltac:(lia)) ltac:(lia)). lia.
Qed.

(* ---------- equality of const values = equality of the integers ---------- *)
Lemma split128_inj x y :
  0 <= x -> 0 <= y ->
  ((Z.land x mask128 =? Z.land y mask128) && ((Z.shiftr x 128 =? Z.shiftr y 128) && true)) = (x =? y).
Proof.
  intros Hx Hy. pose proof (split128 x Hx) as Ex. pose proof (split128 y Hy) as Ey.
  rewrite andb_true_r.
  destruct (Z.eqb_spec x y) as [->|Hne]; [rewrite !Z.eqb_refl; reflexivity|].
  destruct (Z.eqb_spec (Z.land x mask128) (Z.land y mask128)) as [E1|]; [|reflexivity].
  destruct (Z.eqb_spec (Z.shiftr x 128) (Z.shiftr y 128)) as [E2|]; [|reflexivity].
  exfalso. apply Hne. rewrite <- Ex, <- Ey, E1, E2. reflexivity.
Qed.

Lemma values_eq_lit T x y :
  lit_range T x -> lit_range T y ->
  const_values_eq T (lit T x) (lit T y) = (enc T x =? enc T y).
Proof.
  intros Hx Hy.
  destruct T; cbn [lit from_int const_values_eq enc]; unfold eq_in_type; cbn [is_felt andb];
    rewrite ?orb_false_r; try reflexivity.
  - (* U256 *)
    apply split128_inj; cbv [lit_range in_range tmin signed] in Hx, Hy; lia.
  - (* Felt *)
    destruct (Z.eqb_spec x y) as [->|Hne]; [rewrite Z.eqb_refl; reflexivity|reflexivity].
Qed.

(* ---------- felt252 ---------- *)
Lemma rem_mod_P v : (Z.rem v P) mod P = v mod P.
Proof.
  pose proof P_pos. rewrite (Z.quot_rem' v P) at 2.
  rewrite Z.add_comm, Z.mul_comm, Z_mod_plus_full. reflexivity.
Qed.

(* ---------- is_zero of a literal ---------- *)
Lemma is_zero_lit T y :
  lit_range T y ->
  c_try_into_nz T (lit T y) = if y =? 0 then CEnum 1 cunit else CEnum 0 (CNz (lit T y)).
Proof.
  intros Hy.
  destruct T; unfold c_try_into_nz, c_is_zero; cbn [lit from_int forallb];
    try (destruct (y =? 0); reflexivity).
  assert (H0 : 0 <= y) by (cbv [lit_range in_range tmin signed] in Hy; lia).
  pose proof (split128 y H0) as E. rewrite andb_true_r.
  destruct (Z.eqb_spec y 0) as [->|Hne]; [reflexivity|].
  destruct (Z.eqb_spec (Z.land y mask128) 0) as [E1|]; [|reflexivity].
  destruct (Z.eqb_spec (Z.shiftr y 128) 0) as [E2|]; [|reflexivity].
  exfalso. apply Hne. rewrite <- E, E1, E2. reflexivity.
Qed.

(* ---------- the theorem ---------- *)
Lemma eval_int o T x y : T <> Felt ->
  eval o T x y =
  match o with
  | ONeg => if x =? tmin T then Panic (msg T "_neg Underflow") else Ok (RInt (- x))
  | OAdd => checked T "_add" (x + y)
  | OSub => checked T "_sub" (x - y)
  | OMul => checked_mul T (x * y)
  | ODiv => if y =? 0 then Panic div0
            else if signed T && (x =? tmin T) && (y =? -1) then Panic divov
            else Ok (RInt (Z.quot x y))
  | ORem => if y =? 0 then Panic div0
            else if signed T && (x =? tmin T) && (y =? -1) then Panic divov
            else Ok (RInt (Z.rem x y))
  | ODivRem => if y =? 0 then Panic [str "Option::unwrap failed."]
               else if signed T && (x =? tmin T) && (y =? -1) then Panic divov
               else Ok (RPair (Z.quot x y) (Z.rem x y))
  | OAnd => Ok (RInt (Z.land x y))
  | OOr => Ok (RInt (Z.lor x y))
  | OXor => Ok (RInt (Z.lxor x y))
  | OEq => Ok (RBool (x =? y))
  | ONe => Ok (RBool (negb (x =? y)))
  | OLt => Ok (RBool (x <? y))
  | OLe => Ok (RBool (x <=? y))
  | OGt => Ok (RBool (y <? x))
  | OGe => Ok (RBool (y <=? x))
  end.
Proof. intros HT. destruct T; try congruence; reflexivity. Qed.

(* const_eval on two numeric literals of an integer type, with the common tail named *)
Lemma const_eval_int o T x y : T <> Felt -> lit_range T x -> lit_range T y ->
  const_eval o T (lit T x) (lit T y) =
  match o with
  | OEq => CVal (cbool (x =? y))
  | ONe => CVal (cbool (negb (x =? y)))
  | ONeg => finish T (- x)
  | OAdd => finish T (x + y)
  | OSub => finish T (x - y)
  | OMul => finish T (x * y)
  | ODiv => if y =? 0 then CErr DivisionByZero else finish T (Z.quot x y)
  | ORem => if y =? 0 then CErr DivisionByZero
            else if validate_literal T (Z.quot x y) then finish T (Z.rem x y)
            else CErr LiteralOutOfRange
  | OAnd => finish T (Z.land x y)
  | OOr => finish T (Z.lor x y)
  | OXor => finish T (Z.lxor x y)
  | OLt => CVal (cbool (x <? y))
  | OLe => CVal (cbool (x <=? y))
  | OGt => CVal (cbool (y <? x))
  | OGe => CVal (cbool (y <=? x))
  | ODivRem => if validate_literal T (Z.quot x y)
               then CVal (CStruct [from_int T (Z.quot x y); from_int T (Z.rem x y)])
               else CErr LiteralOutOfRange
  end.
Proof.
  intros HT Hx Hy.
  assert (Hf : is_felt T = false) by (destruct T; try reflexivity; congruence).
  assert (Ex : enc T x = x) by (destruct T; try reflexivity; congruence).
  assert (Ey : enc T y = y) by (destruct T; try reflexivity; congruence).
  unfold const_eval, finish.
  rewrite (values_eq_lit T x y Hx Hy), Ex, Ey, (numeric_lit T x Hx), (numeric_lit T y Hy), Hf.
  destruct o; reflexivity.
Qed.

Lemma dv_iff T x y :
  (signed T && (x =? tmin T) && (y =? -1)) = true <-> (signed T = true /\ x = tmin T /\ y = -1).
Proof. rewrite !andb_true_iff, !Z.eqb_eq. tauto. Qed.

Lemma cnorm_int T c : T <> Felt -> cnorm T c = c.
Proof. intros HT. destruct T; try reflexivity; congruence. Qed.

Theorem const_eval_agrees : forall o T x y,
  supported o T = true -> lit_range T x -> lit_range T y ->
  cnorm T (const_eval_full o T x y) = of_rt T (eval o T (enc T x) (enc T y)).
Proof.
  intros o T x y Hsup Hx Hy.
  destruct (is_felt T) eqn:Hf.
  - (* felt252 *)
    destruct T; try discriminate. pose proof P_pos as HP.
    destruct o; try discriminate;
      cbn [const_eval_full const_eval lit from_int numeric_arg is_felt cnorm eval enc of_rt repr
           const_values_eq];
      unfold eq_in_type, canonical_felt252; cbn [is_felt andb]; rewrite ?rem_mod_P.
    + do 2 f_equal. rewrite <- (Z.mul_1_l (- (x mod P))), <- Z.mul_opp_comm.
      rewrite <- (Z.mul_1_l (- x)), <- (Z.mul_opp_comm 1 x).
      rewrite Z.mul_mod_idemp_r by lia. reflexivity.
    + do 2 f_equal. rewrite Z.add_mod by lia. reflexivity.
    + do 2 f_equal. rewrite Zminus_mod. reflexivity.
    + do 2 f_equal. rewrite Z.mul_mod by lia. reflexivity.
    + do 3 f_equal. destruct (Z.eqb_spec x y) as [->|]; [rewrite Z.eqb_refl|]; reflexivity.
    + do 4 f_equal. destruct (Z.eqb_spec x y) as [->|]; [rewrite Z.eqb_refl|]; reflexivity.
  - (* integers *)
    assert (HT : T <> Felt) by (intros ->; discriminate).
    rewrite (cnorm_int T _ HT).
    assert (Ex : enc T x = x) by (destruct T; try reflexivity; congruence).
    assert (Ey : enc T y = y) by (destruct T; try reflexivity; congruence).
    rewrite Ex, Ey, (eval_int o T x y HT).
    pose proof (lit_in_range T x HT Hx) as Rx. pose proof (lit_in_range T y HT Hy) as Ry.
    assert (Hfull : forall o', o' <> ODivRem ->
              const_eval_full o' T x y = const_eval o' T (lit T x) (lit T y))
      by (intros o' Ho; destruct o'; try reflexivity; congruence).
    destruct o; try (rewrite Hfull by discriminate; rewrite (const_eval_int _ T x y HT Hx Hy)).
    + (* neg *)
      assert (Hs : signed T = true).
      { cbn [supported] in Hsup. rewrite Hf, orb_false_r in Hsup. exact Hsup. }
      pose proof (signed_sym T Hs). unfold in_range in Rx.
      destruct (Z.eqb_spec x (tmin T)) as [->|Hne].
      * rewrite finish_err; [|exact HT|unfold in_range; lia]. cbn [of_rt]. f_equal.
        symmetry. apply diag_of_msg. cbn. tauto.
      * rewrite finish_ok; [reflexivity|exact HT|unfold in_range; lia].
    + symmetry. apply of_rt_checked; [exact HT|cbn; tauto].
    + symmetry. apply of_rt_checked; [exact HT|cbn; tauto].
    + symmetry. apply of_rt_checked_mul. exact HT.
    + (* div *)
      destruct (Z.eqb_spec y 0) as [->|Hy0]; [cbn [of_rt]; rewrite diag_of_div0; reflexivity|].
      destruct (signed T && (x =? tmin T) && (y =? -1)) eqn:Hd.
      * apply dv_iff in Hd. destruct Hd as (Hs & -> & ->).
        pose proof (signed_sym T Hs) as Hm.
        change (-1) with (- (1)). rewrite Z.quot_opp_r, Z.quot_1_r by lia.
        rewrite finish_err; [|exact HT|unfold in_range; lia].
        cbn [of_rt]. rewrite diag_of_divov. reflexivity.
      * rewrite finish_ok; [reflexivity|exact HT|].
        apply quot_in_range; try assumption. intros Hc. apply dv_iff in Hc. congruence.
    + (* rem *)
      destruct (Z.eqb_spec y 0) as [->|Hy0]; [cbn [of_rt]; rewrite diag_of_div0; reflexivity|].
      rewrite validate_in_range by exact HT.
      destruct (signed T && (x =? tmin T) && (y =? -1)) eqn:Hd.
      * apply dv_iff in Hd. destruct Hd as (Hs & -> & ->).
        pose proof (signed_sym T Hs) as Hm.
        change (-1) with (- (1)). rewrite Z.quot_opp_r, Z.quot_1_r by lia.
        replace (in_rangeb T (- tmin T)) with false
          by (symmetry; apply in_rangeb_false; unfold in_range; lia).
        cbn [of_rt]. rewrite diag_of_divov. reflexivity.
      * replace (in_rangeb T (Z.quot x y)) with true.
        -- rewrite finish_ok; [reflexivity|exact HT|]. apply rem_in_range; assumption.
        -- symmetry. apply in_rangeb_true. apply quot_in_range; try assumption.
           intros Hc. apply dv_iff in Hc. congruence.
    + (* and *)
      assert (Hs : signed T = false)
        by (cbn [supported] in Hsup; destruct (signed T); [discriminate|reflexivity]).
      rewrite finish_ok; [reflexivity|exact HT|].
      apply (unsigned_range_pow T _ HT Hs). apply (unsigned_range_pow T _ HT Hs) in Rx, Ry.
      apply land_range; [apply bits_pos|assumption|assumption].
    + assert (Hs : signed T = false)
        by (cbn [supported] in Hsup; destruct (signed T); [discriminate|reflexivity]).
      rewrite finish_ok; [reflexivity|exact HT|].
      apply (unsigned_range_pow T _ HT Hs). apply (unsigned_range_pow T _ HT Hs) in Rx, Ry.
      apply lor_range; [apply bits_pos|assumption|assumption].
    + assert (Hs : signed T = false)
        by (cbn [supported] in Hsup; destruct (signed T); [discriminate|reflexivity]).
      rewrite finish_ok; [reflexivity|exact HT|].
      apply (unsigned_range_pow T _ HT Hs). apply (unsigned_range_pow T _ HT Hs) in Rx, Ry.
      apply lxor_range; [apply bits_pos|assumption|assumption].
    + reflexivity.
    + reflexivity.
    + reflexivity.
    + reflexivity.
    + reflexivity.
    + reflexivity.
    + (* div_rem: DivRem::div_rem(x, y.try_into().unwrap()) *)
      cbn [const_eval_full]. rewrite (is_zero_lit T y Hy).
      destruct (Z.eqb_spec y 0) as [->|Hy0].
      * cbn [c_unwrap of_rt]. rewrite diag_of_unwrap. reflexivity.
      * cbn [c_unwrap].
        assert (Hnz : const_eval ODivRem T (lit T x) (CNz (lit T y))
                      = const_eval ODivRem T (lit T x) (lit T y)) by reflexivity.
        rewrite Hnz, (const_eval_int _ T x y HT Hx Hy). rewrite validate_in_range by exact HT.
        destruct (signed T && (x =? tmin T) && (y =? -1)) eqn:Hd.
        -- apply dv_iff in Hd. destruct Hd as (Hs & -> & ->).
           pose proof (signed_sym T Hs) as Hm.
           change (-1) with (- (1)). rewrite Z.quot_opp_r, Z.quot_1_r by lia.
           replace (in_rangeb T (- tmin T)) with false
             by (symmetry; apply in_rangeb_false; unfold in_range; lia).
           cbn [of_rt]. rewrite diag_of_divov. reflexivity.
        -- replace (in_rangeb T (Z.quot x y)) with true; [reflexivity|].
           symmetry. apply in_rangeb_true. apply quot_in_range; try assumption.
           intros Hc. apply dv_iff in Hc. congruence.
Qed.

(* regression (finding of this check, repaired in /repo by commit a8bccb3): iN::MIN % -1 used to be 0
   at compile time while the run panics; now both fail *)
Lemma min_rem_minus_one : forall T, signed T = true ->
  const_eval_full ORem T (tmin T) (-1) = CErr LiteralOutOfRange /\
  eval ORem T (tmin T) (-1) = Panic divov.
Proof. intros T Hs. destruct T; try discriminate; split; reflexivity. Qed.

(* compile-time error <=> run-time panic (same hypotheses) *)
Corollary error_iff_panic : forall o T x y,
  supported o T = true -> lit_range T x -> lit_range T y ->
  ((exists d, const_eval_full o T x y = CErr d) <-> (exists p, eval o T (enc T x) (enc T y) = Panic p)).
Proof.
  intros o T x y H1 H2 H3. pose proof (const_eval_agrees o T x y H1 H2 H3) as E.
  destruct (eval o T (enc T x) (enc T y)) as [v|p]; cbn [of_rt] in E.
  - split; intros [d Hd]; [|discriminate]. rewrite Hd in E. destruct T; discriminate.
  - split; intros _; [eauto|]. destruct (const_eval_full o T x y) as [c|d]; [|eauto].
    destruct T, c; discriminate.
Qed.

(* bool operators: complete enumeration *)
Theorem const_beval_agrees : forall o a b,
  const_beval o (cbool a) (cbool b) = CVal (cbool (beval o a b)).
Proof. intros o a b. destruct o, a, b; reflexivity. Qed.
