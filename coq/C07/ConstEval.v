(* C07/ConstEval.v -- model of the compile-time evaluator's arithmetic,
   crates/cairo-lang-semantic/src/items/constant.rs (ConstantEvaluateContext::evaluate_function_call,
   evaluate_const_function_call, NumericArg::try_new, ConstValueId::from_int, const_values_eq,
   eq_in_type, felt252_for_downcast, canonical_felt252) and corelib.rs::validate_literal.
   Transcribed as written: BigInt = Z, `/` `%` and div_rem of num-bigint truncate (Z.quot / Z.rem),
   `&` `|` `^` are two's complement (Z.land / Z.lor / Z.lxor), `>>` is the arithmetic shift.
   Model file: definitions only. *)
From C07 Require Export Rt.

(* ConstValue (the variants the evaluator produces for numeric code).  Types are not stored in the
   value: every function below receives the type the Rust code reads from `expr.ty` / `arg.ty`. *)
Inductive cval :=
| CInt (v : Z)                      (* ConstValue::Int(v, _) *)
| CStruct (l : list cval)           (* ConstValue::Struct(members, _): tuples, u256 = [low; high] *)
| CEnum (idx : nat) (p : cval)      (* ConstValue::Enum(variant, payload) *)
| CNz (c : cval).                   (* ConstValue::NonZero(c) *)

(* the diagnostics of interest; every one of them leaves ConstValue::Missing as the value *)
Inductive diag :=
| DivisionByZero                    (* SemanticDiagnosticKind::DivisionByZero *)
| LiteralOutOfRange                 (* LiteralError(OutOfRange(ty)) *)
| FailedCalc                        (* FailedConstantCalculation: panic_with_felt252 reached *)
| Unsupported                       (* UnsupportedConstant *)
| SilentMissing.                    (* Missing(skip_diagnostic()): no diagnostic of its own *)
Inductive cres := CVal (c : cval) | CErr (d : diag).

Definition cunit : cval := CStruct [].
Definition cbool (b : bool) : cval := CEnum (if b then 1 else 0)%nat cunit. (* false_variant idx 0 *)
Definition as_cbool (c : cval) : option bool :=
  match c with
  | CEnum 0 (CStruct []) => Some false
  | CEnum 1 (CStruct []) => Some true
  | _ => None
  end.

Definition mask128 : Z := 2 ^ 128 - 1.

(* ConstValueId::from_int (the NonZero wrapping is applied by the callers that need it) *)
Definition from_int (T : ity) (v : Z) : cval :=
  match T with
  | U256 => CStruct [CInt (Z.land v mask128); CInt (Z.shiftr v 128)]
  | _ => CInt v
  end.

(* a literal of type T as the evaluator sees it (Expr::Literal => from_int) *)
Definition lit (T : ity) (x : Z) : cval := from_int T x.

(* NumericArg::try_new *)
Fixpoint numeric_arg (T : ity) (c : cval) : option Z :=
  match c with
  | CInt v => Some v
  | CStruct l =>
      match T, l with
      | U256, [CInt lo; CInt hi] => Some (lo + Z.shiftl hi 128)
      | _, _ => None
      end
  | CNz inner => numeric_arg T inner
  | CEnum _ _ => None
  end.

(* corelib.rs::validate_literal, true = Ok(()) *)
Definition validate_literal (T : ity) (v : Z) : bool :=
  match T with
  | Felt => Z.abs v <=? P - 1     (* !(|v| > 0x800000000000011000...000) *)
  | U256 => (0 <=? v) && (v <? 2 ^ 256)
  | _ => (tmin T <=? v) && (v <=? tmax T)    (* to_u8() / to_i8() ... is_some *)
  end.

(* canonical_felt252: value % PRIME, truncating => (-P, P) *)
Definition canonical_felt252 (v : Z) : Z := Z.rem v P.
(* felt252_for_downcast: Felt252::from(value - range_min).to_bigint() + range_min *)
Definition felt252_for_downcast (v rmin : Z) : Z := (v - rmin) mod P + rmin.

(* eq_in_type *)
Definition eq_in_type (T : ity) (a b : Z) : bool :=
  (a =? b) || (is_felt T && (a mod P =? b mod P)).

(* const_values_eq, for values of a numeric type T (Int, u256 struct, NonZero of them) *)
Fixpoint const_values_eq (T : ity) (a b : cval) {struct a} : bool :=
  match a, b with
  | CInt va, CInt vb => eq_in_type T va vb
  | CStruct la, CStruct lb =>
      (fix go (la lb : list cval) : bool :=
         match la, lb with
         | [], [] => true
         | x :: la', y :: lb' => const_values_eq U128 x y && go la' lb'
         | _, _ => false
         end) la lb
  | CEnum ia pa, CEnum ib pb => Nat.eqb ia ib && const_values_eq T pa pb
  | CNz pa, CNz pb => const_values_eq T pa pb
  | _, _ => false
  end.

(* evaluate_function_call, after the arguments have been evaluated to a, b (b ignored by unary
   operators), for an operator implemented for T in the corelib.  Order of the Rust code:
   eq / ne first (const_values_eq), then the bool operators (not applicable to numeric values),
   then NumericArg extraction and the big match. *)
Definition const_eval (o : op) (T : ity) (a b : cval) : cres :=
  match o with
  | OEq => CVal (cbool (const_values_eq T a b))
  | ONe => CVal (cbool (negb (const_values_eq T a b)))
  | _ =>
    match numeric_arg T a, (match o with ONeg => Some 0 | _ => numeric_arg T b end) with
    | Some x, Some y =>
        let finish (value : Z) : cres :=
          if is_felt T then CVal (CInt (canonical_felt252 value))
          else if validate_literal T value then CVal (from_int T value)
          else CErr LiteralOutOfRange in
        match o with
        | ONeg => finish (- x)
        | OAdd => finish (x + y)
        | OSub => finish (x - y)
        | OMul => finish (x * y)
        | ODiv => if y =? 0 then CErr DivisionByZero else finish (Z.quot x y)
        | ORem =>
            if y =? 0 then CErr DivisionByZero
            (* the quotient is validated too: at run time `%` goes through div_rem (MIN % -1) *)
            else if validate_literal T (Z.quot x y) then finish (Z.rem x y)
            else CErr LiteralOutOfRange
        | OAnd => finish (Z.land x y)
        | OOr => finish (Z.lor x y)
        | OXor => finish (Z.lxor x y)
        | OLt => CVal (cbool (x <? y))
        | OLe => CVal (cbool (x <=? y))
        | OGt => CVal (cbool (y <? x))
        | OGe => CVal (cbool (y <=? x))
        | ODivRem =>
            let q := Z.quot x y in
            let r := Z.rem x y in
            if validate_literal T q then CVal (CStruct [from_int T q; from_int T r])
            else CErr LiteralOutOfRange
        | OEq | ONe => CErr SilentMissing (* unreachable *)
        end
    | _, _ => CErr SilentMissing
    end
  end.

(* the twin of ODivRem is  DivRem::div_rem(x, y.try_into().unwrap()) : the NonZero conversion is
   evaluated first -- T_is_zero (nz_fns) then Option::unwrap (a const fn that reaches
   panic_with_felt252 on None => FailedConstantCalculation) *)
Definition c_is_zero (T : ity) (c : cval) : cval :=
  let is_zero := match c with
                 | CInt v => v =? 0
                 | CStruct l => forallb (fun m => match m with CInt v => v =? 0 | _ => false end) l
                 | _ => false
                 end in
  if is_zero then CEnum 0 cunit else CEnum 1 (CNz c).
(* TryInto<T, NonZero<T>>::try_into : Zero => None (idx 1), NonZero(x) => Some(x) (idx 0) *)
Definition c_try_into_nz (T : ity) (c : cval) : cval :=
  match c_is_zero T c with
  | CEnum 0 _ => CEnum 1 cunit
  | CEnum _ x => CEnum 0 x
  | other => other
  end.
Definition c_unwrap (c : cval) : cres :=
  match c with CEnum 0 x => CVal x | _ => CErr FailedCalc end.

Definition const_eval_full (o : op) (T : ity) (x y : Z) : cres :=
  match o with
  | ODivRem =>
      match c_unwrap (c_try_into_nz T (lit T y)) with
      | CVal ynz => const_eval ODivRem T (lit T x) ynz
      | CErr d => CErr d
      end
  | _ => const_eval o T (lit T x) (lit T y)
  end.

(* ---- bool operators (evaluate_function_call, the `all args are bool consts` branch, and
   Expr::LogicalOperator for && / ||) ---- *)
Definition const_beval (o : bop) (a b : cval) : cres :=
  match o with
  | BEq => CVal (cbool (const_values_eq U8 a b))
  | BNe => CVal (cbool (negb (const_values_eq U8 a b)))
  | BAndAnd =>
      match a with
      | CEnum v _ => if Nat.eqb v 0 then CVal a else CVal b
      | _ => CErr Unsupported
      end
  | BOrOr =>
      match a with
      | CEnum v _ => if Nat.eqb v 1 then CVal a else CVal b
      | _ => CErr Unsupported
      end
  | _ =>
      match as_cbool a, (match o with BNot => Some false | _ => as_cbool b end) with
      | Some x, Some y =>
          match o with
          | BNot => CVal (cbool (negb x))
          | BAnd => CVal (cbool (x && y))
          | BOr => CVal (cbool (x || y))
          | BXor => CVal (cbool (xorb x y))
          | _ => CErr SilentMissing
          end
      | _, _ => CErr SilentMissing
      end
  end.

(* ---- extern const fns (evaluate_const_function_call) ---- *)
(* upcast_fns: from_int(expr_ty, arg.to_int) *)
Definition c_upcast (To : ity) (c : cval) : option cval :=
  match c with CInt v => Some (from_int To v) | _ => None end.

(* downcast_fns; `reversed` = trim_min/trim_max style OptionRev *)
Definition c_downcast (in_is_felt reversed : bool) (out : range) (c : cval) : option cval :=
  match c with
  | CInt value =>
      let '(some, none) := if reversed then (1%nat, 0%nat) else (0%nat, 1%nat) in
      let value := if in_is_felt then felt252_for_downcast value (fst out) else value in
      Some (if (fst out <=? value) && (value <=? snd out) then CEnum some (CInt value)
            else CEnum none cunit)
  | _ => None
  end.

(* u128s_from_felt252: Narrow(low) idx 0 / Wide((high, low)) idx 1 *)
Definition c_u128s (c : cval) : option cval :=
  match c with
  | CInt v =>
      let value := v mod P in
      let low := Z.land value mask128 in
      let high := Z.shiftr value 128 in
      Some (if high =? 0 then CEnum 0 (CInt low) else CEnum 1 (CStruct [CInt high; CInt low]))
  | _ => None
  end.

(* ---- conversions at the trait level: Into / TryInto / TryInto<T, NonZero<T>> and the generic
   bounded_int::downcast, as the evaluator computes them.  The corelib `const fn`s involved
   (integer.cairo) are one-line wrappers of the extern const fns above; the two that contain a
   `match` (u256_from_felt252, u128_try_from_felt252) are transcribed. *)
Definition const_cast (k : ckind) (From To : ity) (x : Z) : cres :=
  let none_if (o : option cval) := match o with Some c => CVal c | None => CErr SilentMissing end in
  match k with
  | KInto =>
      match From, To with
      | Felt, U256 =>
          (* u256_from_felt252: match u128s_from_felt252(x) { Narrow(low) => u256 { low, high: 0 },
             Wide((high, low)) => u256 { low, high } } *)
          match c_u128s (lit Felt x) with
          | Some (CEnum 0 low) => CVal (CStruct [low; CInt 0])
          | Some (CEnum _ (CStruct [high; low])) => CVal (CStruct [low; high])
          | _ => CErr SilentMissing
          end
      | _, U256 =>
          (* u256 { low: upcast(self), high: 0_u128 } (U128: low: self) *)
          match (match From with U128 => Some (lit From x) | _ => c_upcast U128 (lit From x) end) with
          | Some low => CVal (CStruct [low; CInt 0])
          | None => CErr SilentMissing
          end
      | _, _ => none_if (c_upcast To (lit From x))   (* upcast / T_to_felt252 *)
      end
  | KTryInto =>
      match From, To with
      | Felt, U128 =>
          (* u128_try_from_felt252: Narrow(x) => Some(x), Wide(_) => None *)
          match c_u128s (lit Felt x) with
          | Some (CEnum 0 low) => CVal (CEnum 0 low)
          | Some (CEnum _ _) => CVal (CEnum 1 cunit)
          | _ => CErr SilentMissing
          end
      | _, _ => none_if (c_downcast (is_felt From) false (rng To) (lit From x))
      end
  | KNz => CVal (c_try_into_nz From (lit From x))
  | KDowncast => none_if (c_downcast (is_felt From) false (rng To) (lit From x))
  end.
