(* C07/Fold.v -- model of the arithmetic of the const-folding pass,
   crates/cairo-lang-lowering/src/optimizations/const_folding.rs:
   handle_statement_call (felt252 add/sub/mul/div with the 0/1 shortcuts, wide mul / bounded_int_mul,
   bounded_int_add/sub, div_rem, upcast), handle_extern_block_end (is_zero, eq, overflowing
   add/sub/diff with TypeRange::normalized and the arm selection, downcast incl. the
   range-subsumption rewrite, bounded_int_constrain, bounded_int_trim_min/max) and
   TypeRangeNormalizer::normalized.  What the folder knows about an input variable is
   [Some v] (as_int: ConstValue::Int or NonZero(Int)) or [None].
   The inc/dec rewrite for `x +- 1` replaces the libfunc by a corelib function (Rt.num_inc/num_dec).
   Not modelled: arrays, boxes, snapshots, struct/enum plumbing, specialization,
   storage_base_address_from_felt252.
   Model file: definitions only. *)
From C07 Require Export Rt ConstEval.

Definition known := option Z.
Definition is_zero_k (k : known) : bool := match k with Some v => v =? 0 | None => false end.
Definition is_one_k (k : known) : bool := match k with Some v => v =? 1 | None => false end.

(* modular inverse the way Felt252::field_div obtains it is irrelevant: field_div(l, r) is the
   canonical representative of l * r^-1; the model computes it by Fermat (square and multiply) *)
Fixpoint pow_pos (x : Z) (e : positive) : Z :=
  match e with
  | xH => x
  | xO e' => let y := pow_pos x e' in (y * y) mod P
  | xI e' => let y := pow_pos x e' in (((y * y) mod P) * x) mod P
  end.
Definition finv (x : Z) : Z := match P - 2 with Zpos e => pow_pos (x mod P) e | _ => 0 end.
Definition field_div (l r : Z) : Z := ((l mod P) * finv r) mod P.

(* ---------------- handle_statement_call ---------------- *)
Inductive lf_call :=
| FeltAdd | FeltSub | FeltMul | FeltDiv
| WideMul                (* uN/iN_wide_mul, bounded_int_mul *)
| BIAdd | BISub          (* bounded_int_add / bounded_int_sub *)
| DivRem                 (* bounded_int_div_rem, uN_safe_divmod *)
| Upcast.                (* upcast_fns *)

Inductive fout :=
| FConst (v : Z)         (* output := const v  (propagate_const_and_get_statement / Const stmt) *)
| FVar (i : nat)         (* var_info[output] := Var(inputs[i]); the call stays *)
| FConst2 (q r : Z).     (* div_rem: outputs[0] := q, outputs[1] := r *)

Definition fold_call (f : lf_call) (args : list known) : option fout :=
  match f, args with
  | FeltSub, [lhs; rhs] =>
      if is_zero_k rhs then Some (FVar 0)
      else match lhs, rhs with
           | Some l, Some r => Some (FConst (canonical_felt252 (l - r)))
           | _, _ => None
           end
  | FeltAdd, [lhs; rhs] =>
      if is_zero_k lhs then Some (FVar 1)
      else if is_zero_k rhs then Some (FVar 0)
      else match lhs, rhs with
           | Some l, Some r => Some (FConst (canonical_felt252 (l + r)))
           | _, _ => None
           end
  | FeltMul, [lhs; rhs] =>
      if is_zero_k lhs || is_zero_k rhs then Some (FConst 0)
      else if is_one_k rhs then Some (FVar 0)
      else if is_one_k lhs then Some (FVar 1)
      else match lhs, rhs with
           | Some l, Some r => Some (FConst (canonical_felt252 (l * r)))
           | _, _ => None
           end
  | FeltDiv, [lhs; rhs] =>
      if is_one_k rhs then Some (FVar 0)
      else if is_zero_k lhs then Some (FConst 0)
      else match lhs, rhs with
           | Some l, Some r =>
               if r mod P =? 0 then None         (* Felt252::from(rhs).try_into() fails *)
               else Some (FConst (field_div l r))
           | _, _ => None
           end
  | WideMul, [lhs; rhs] =>
      if is_zero_k lhs || is_zero_k rhs then Some (FConst 0)
      else match lhs, rhs with
           | Some l, Some r => Some (FConst (l * r))
           | _, _ => None
           end
  | BIAdd, [Some l; Some r] => Some (FConst (l + r))
  | BISub, [Some l; Some r] => Some (FConst (l - r))
  | DivRem, [lhs; rhs] =>
      if is_zero_k lhs then Some (FConst2 0 0)
      else match lhs, rhs with
           | Some l, Some r => Some (FConst2 (Z.quot l r) (Z.rem l r))
           | _, _ => None
           end
  | Upcast, [Some v] => Some (FConst v)
  | _, _ => None
  end.

(* ---------------- TypeRange::normalized ---------------- *)
Inductive normalized_result := InRange (v : Z) | Over (v : Z) | Under (v : Z).
Definition normalized (r : range) (value : Z) : normalized_result :=
  if value <? fst r then Under (value - fst r + snd r + 1)
  else if snd r <? value then Over (value + fst r - snd r - 1)
  else InRange value.

(* ---------------- handle_extern_block_end ---------------- *)
Inductive lf_match :=
| IsZero                                  (* nz_fns; known value given as the list of its limbs *)
| EqInt                                   (* uN_eq / iN_eq *)
| UAdd (T : ity) | USub (T : ity)         (* uN_overflowing_add / sub; T the unsigned type *)
| Diff (T : ity)                          (* iN_diff; T the *unsigned* result type (arm var type) *)
| IAdd (T : ity) | ISub (T : ity)         (* iN_overflowing_add/sub_impl *)
| Downcast (in_is_felt : bool) (in_rng : option range) (out : range) (reversed : bool)
| Constrain (k : Z)                       (* bounded_int_constrain<T, K> *)
| TrimMin (lo : Z)                        (* bounded_int_trim_min, lo = min of the input type *)
| TrimMax (hi : Z).

Inductive mout :=
| MArm (arm : nat) (v : option Z)   (* goto arms[arm]; its variable (if any) := const v *)
| MArmVar (arm : nat) (i : nat)     (* goto arms[arm]; its variable := inputs[i] *)
| MArmUpcast (arm : nat)            (* push upcast(inputs[0]) into the arm variable; goto arms[arm] *)
| MIsZeroOf (i : nat)               (* match T_is_zero(inputs[i]) { Zero => old arms[1], NonZero => old arms[0] } *)
| MIncDec (inc sgn : bool) (T : ity). (* match core::internal::num::T_inc / T_dec(inputs[0]) with the same arms *)

Definition is_add (f : lf_match) := match f with UAdd _ | IAdd _ => true | _ => false end.
Definition is_signed_f (f : lf_match) := match f with IAdd _ | ISub _ => true | _ => false end.
Definition is_diff (f : lf_match) := match f with Diff _ => true | _ => false end.

Definition fold_overflowing (f : lf_match) (T : ity) (lhs rhs : known) : option mout :=
  match lhs, rhs with
  | Some l, Some r =>
      let value := if is_add f then l + r else l - r in
      let '(arm, v) :=
        match normalized (rng T) value with
        | InRange v => (0%nat, v)
        | Under v => (1%nat, v)
        | Over v => ((if is_signed_f f then 2 else 1)%nat, v)
        end in
      Some (MArm arm (Some v))
  | _, _ =>
      if is_zero_k rhs && negb (is_diff f) then Some (MArmVar 0 0)
      (* rhs = 1: the libfunc is replaced by the corelib helper T_inc / T_dec (type_info: u8..u128,
         i8..i128; u256 has none) *)
      else if is_one_k rhs && negb (is_diff f) then
        match T with
        | U256 | Felt => None
        | _ => Some (MIncDec (is_add f) (is_signed_f f) T)
        end
      else if is_zero_k lhs && is_add f then Some (MArmVar 0 1)
      else None
  end.

Definition fold_match (f : lf_match) (args : list known) : option mout :=
  match f, args with
  | IsZero, Some v :: limbs =>
      (* Int(v): v.is_zero(); Struct(s): all limbs zero *)
      let all_zero := forallb (fun k => is_zero_k k) (Some v :: limbs) in
      if forallb (fun k => match k with Some _ => true | None => false end) limbs then
        Some (if all_zero then MArm 0 None else MArmVar 1 0)  (* NonZero(val) of the same value *)
      else None
  | EqInt, [lhs; rhs] =>
      match lhs, rhs with
      | Some l, Some r => Some (MArm (if l =? r then 1%nat else 0%nat) None)
      | Some l, None => if l =? 0 then Some (MIsZeroOf 1) else None
      | None, Some r => if r =? 0 then Some (MIsZeroOf 0) else None
      | None, None => None
      end
  | UAdd T, [lhs; rhs] | USub T, [lhs; rhs] | Diff T, [lhs; rhs]
  | IAdd T, [lhs; rhs] | ISub T, [lhs; rhs] => fold_overflowing f T lhs rhs
  | Downcast in_is_felt in_rng out reversed, [x] =>
      let '(success_arm, failure_arm) := if reversed then (1%nat, 0%nat) else (0%nat, 1%nat) in
      match x with
      | None =>
          match in_rng with
          | Some ir =>
              if (fst ir <? fst out) || (snd out <? snd ir) then None
              else Some (MArmUpcast success_arm)
          | None => None
          end
      | Some value =>
          let value := if in_is_felt then felt252_for_downcast value (fst out) else value in
          Some (match normalized out value with
                | InRange v => MArm success_arm (Some v)
                | _ => MArm failure_arm None
                end)
      end
  | Constrain k, [Some value] =>
      Some (MArm (if value <? k then 0%nat else 1%nat) (Some value))
  | TrimMin lo, [Some value] =>
      Some (if lo =? value then MArm 0 None else MArm 1 (Some value))
  | TrimMax hi, [Some value] =>
      Some (if hi =? value then MArm 0 None else MArm 1 (Some value))
  | _, _ => None
  end.
