(* C07/Corr.v -- executable comparison of the models with the implementation's answers printed by
   harness/h07.  Each [check_*] returns the indices (with the models' answers) of the cases where a
   model and the implementation disagree; the driver expects [].
   What is compared:
     const_eval_full / const_beval / const_cast   vs  the value or diagnostics of `const C: T = e;`
                                                      (read through the semantic db), also through a
                                                      `const fn` wrapper;
     Rt.eval / beval / rt_cast                    vs  the run of the non-const twin with the operands
                                                      passed at run time, with and without const folding;
     the same Rt value                            vs  the run of the twin with literal operands in the
                                                      body (the const folder fires), with and without
                                                      const folding;
     fold_call / fold_match                       vs  the run of a function applying the libfunc to
                                                      literal / mixed operands with const folding on. *)
From C07 Require Import Rt ConstEval Fold.

Fixpoint list_eqb {A} (eqb : A -> A -> bool) (a b : list A) : bool :=
  match a, b with
  | [], [] => true
  | x :: a', y :: b' => eqb x y && list_eqb eqb a' b'
  | _, _ => false
  end.
Definition opt_eqb {A} (eqb : A -> A -> bool) (a b : option A) : bool :=
  match a, b with Some x, Some y => eqb x y | None, None => true | _, _ => false end.

Fixpoint cval_eqb (a b : cval) {struct a} : bool :=
  match a, b with
  | CInt x, CInt y => x =? y
  | CStruct la, CStruct lb =>
      (fix go (la lb : list cval) : bool :=
         match la, lb with
         | [], [] => true
         | x :: la', y :: lb' => cval_eqb x y && go la' lb'
         | _, _ => false
         end) la lb
  | CEnum i p, CEnum j q => Nat.eqb i j && cval_eqb p q
  | CNz p, CNz q => cval_eqb p q
  | _, _ => false
  end.

Definition diag_eqb (a b : diag) : bool :=
  match a, b with
  | DivisionByZero, DivisionByZero | LiteralOutOfRange, LiteralOutOfRange | FailedCalc, FailedCalc
  | Unsupported, Unsupported | SilentMissing, SilentMissing => true
  | _, _ => false
  end.

(* what the harness reads from the semantic db for one const item: the value unless it is
   ConstValue::Missing, and the kinds of the diagnostics reported on the item *)
Definition icres := (option cval * list diag)%type.
Definition cres_matches (m : cres) (i : icres) : bool :=
  match m, i with
  | CVal c, (Some c', []) => cval_eqb c c'
  | CErr SilentMissing, (None, []) => true
  | CErr d, (None, [d']) => diag_eqb d d'
  | _, _ => false
  end.

Definition rval_eqb (a b : rval) : bool :=
  match a, b with
  | RInt x, RInt y => x =? y
  | RBool x, RBool y => Bool.eqb x y
  | RPair a1 a2, RPair b1 b2 => (a1 =? b1) && (a2 =? b2)
  | ROpt x, ROpt y => opt_eqb Z.eqb x y
  | RWords x, RWords y => list_eqb Z.eqb x y
  | _, _ => false
  end.
Definition rres_eqb (a b : rres) : bool :=
  match a, b with
  | Ok x, Ok y => rval_eqb x y
  | Panic x, Panic y => list_eqb Z.eqb x y
  | _, _ => false
  end.

Fixpoint indexed {A} (n : Z) (l : list A) : list (Z * A) :=
  match l with [] => [] | x :: r => (n, x) :: indexed (n + 1) r end.

(* ---- leg ops: numeric operators ---- *)
(* (operator, type, x, y, const item, const item through a const fn, run results) *)
Definition ops_case := (op * ity * Z * Z * icres * icres * list rres)%type.
Definition check_ops (cs : list ops_case) : list (Z * cres * rres) :=
  flat_map (fun '(k, (o, T, x, y, c1, c2, runs)) =>
    let mc := const_eval_full o T x y in
    let mr := eval o T (enc T x) (enc T y) in
    if cres_matches mc c1 && cres_matches mc c2 && forallb (rres_eqb mr) runs
    then [] else [(k, mc, mr)]) (indexed 0 cs).

(* ---- leg bool: bool operators ---- *)
Definition bool_case := (bop * bool * bool * icres * icres * list rres)%type.
Definition check_bool (cs : list bool_case) : list (Z * cres * rres) :=
  flat_map (fun '(k, (o, a, b, c1, c2, runs)) =>
    let mc := const_beval o (cbool a) (cbool b) in
    let mr := Ok (RBool (beval o a b)) in
    if cres_matches mc c1 && cres_matches mc c2 && forallb (rres_eqb mr) runs
    then [] else [(k, mc, mr)]) (indexed 0 cs).
