(* C07/Corr.v -- executable comparison of the models with the implementation's answers printed by
   harness/h07.  Each [check_*] returns the indices (with the models' answers) of the cases where a
   model and the implementation disagree; the driver expects [].
   What is compared:
     const_eval_full / const_beval / const_cast   vs  the value or diagnostics of `const C: T = e;`
                                                      (read through the semantic db), also through a
                                                      `const fn` wrapper;
     Rt.eval / beval / rt_cast                    vs  the run of the non-const twin with the operands
                                                      passed at run time, with and without const folding;
     the same Rt value                            vs  the run of the twin with literal operands in the
                                                      body (the const folder fires), with and without
                                                      const folding;
     fold_call / fold_match                       vs  the run of a function applying the libfunc to
                                                      literal / mixed operands with const folding on. *)
From C07 Require Import Rt ConstEval Fold.

Fixpoint list_eqb {A} (eqb : A -> A -> bool) (a b : list A) : bool :=
  match a, b with
  | [], [] => true
  | x :: a', y :: b' => eqb x y && list_eqb eqb a' b'
  | _, _ => false
  end.
Definition opt_eqb {A} (eqb : A -> A -> bool) (a b : option A) : bool :=
  match a, b with Some x, Some y => eqb x y | None, None => true | _, _ => false end.

Fixpoint cval_eqb (a b : cval) {struct a} : bool :=
  match a, b with
  | CInt x, CInt y => x =? y
  | CStruct la, CStruct lb =>
      (fix go (la lb : list cval) : bool :=
         match la, lb with
         | [], [] => true
         | x :: la', y :: lb' => cval_eqb x y && go la' lb'
         | _, _ => false
         end) la lb
  | CEnum i p, CEnum j q => Nat.eqb i j && cval_eqb p q
  | CNz p, CNz q => cval_eqb p q
  | _, _ => false
  end.

Definition diag_eqb (a b : diag) : bool :=
  match a, b with
  | DivisionByZero, DivisionByZero | LiteralOutOfRange, LiteralOutOfRange | FailedCalc, FailedCalc
  | Unsupported, Unsupported | SilentMissing, SilentMissing => true
  | _, _ => false
  end.

(* what the harness reads from the semantic db for one const item: the value unless it is
   ConstValue::Missing, and the kinds of the diagnostics reported on the item *)
Definition icres := (option cval * list diag)%type.
Definition cres_matches (m : cres) (i : icres) : bool :=
  match m, i with
  | CVal c, (Some c', []) => cval_eqb c c'
  | CErr SilentMissing, (None, []) => true
  | CErr d, (None, [d']) => diag_eqb d d'
  | _, _ => false
  end.

Definition rval_eqb (a b : rval) : bool :=
  match a, b with
  | RInt x, RInt y => x =? y
  | RBool x, RBool y => Bool.eqb x y
  | RPair a1 a2, RPair b1 b2 => (a1 =? b1) && (a2 =? b2)
  | ROpt x, ROpt y => opt_eqb Z.eqb x y
  | RWords x, RWords y => list_eqb Z.eqb x y
  | _, _ => false
  end.
Definition rres_eqb (a b : rres) : bool :=
  match a, b with
  | Ok x, Ok y => rval_eqb x y
  | Panic x, Panic y => list_eqb Z.eqb x y
  | _, _ => false
  end.

Fixpoint indexed {A} (n : Z) (l : list A) : list (Z * A) :=
  match l with [] => [] | x :: r => (n, x) :: indexed (n + 1) r end.

(* ---- leg ops: numeric operators ---- *)
(* (operator, type, x, y, const item, const item through a const fn, run results) *)
Definition ops_case := (op * ity * Z * Z * icres * icres * list rres)%type.
Definition check_ops (cs : list ops_case) : list (Z * cres * rres) :=
  flat_map (fun '(k, (o, T, x, y, c1, c2, runs)) =>
    let mc := const_eval_full o T x y in
    let mr := eval o T (enc T x) (enc T y) in
    if cres_matches mc c1 && cres_matches mc c2 && forallb (rres_eqb mr) runs
    then [] else [(k, mc, mr)]) (indexed 0 cs).

(* ---- leg bool: bool operators ---- *)
Definition bool_case := (bop * bool * bool * icres * icres * list rres)%type.
Definition check_bool (cs : list bool_case) : list (Z * cres * rres) :=
  flat_map (fun '(k, (o, a, b, c1, c2, runs)) =>
    let mc := const_beval o (cbool a) (cbool b) in
    let mr := Ok (RBool (beval o a b)) in
    if cres_matches mc c1 && cres_matches mc c2 && forallb (rres_eqb mr) runs
    then [] else [(k, mc, mr)]) (indexed 0 cs).

(* ---- leg cast: Into / TryInto / NonZero / generic downcast ---- *)
Definition cast_case := (ckind * ity * ity * Z * icres * icres * list rres)%type.
Definition check_cast (cs : list cast_case) : list (Z * cres * rres) :=
  flat_map (fun '(k, (kd, From, To, x, c1, c2, runs)) =>
    let mc := const_cast kd From To x in
    let mr := rt_cast kd From To (enc From x) in
    if cres_matches mc c1 && cres_matches mc c2 && forallb (rres_eqb mr) runs
    then [] else [(k, mc, mr)]) (indexed 0 cs).

(* ---- leg lf: libfunc-level functions with literal (known to the folder) and run-time operands ---- *)
Inductive lfk :=
| LUAdd (T : ity) | LUSub (T : ity)   (* match uN_overflowing_add/sub(a, b) { Ok(v) => (0, v), Err(v) => (1, v) } *)
| LDiff (S0 : ity)                     (* match iN_diff(a, b) { Ok(v) => (0, v), Err(v) => (1, v) } *)
| LWideMul (T : ity)                   (* T_wide_mul(a, b) *)
| LFeltDiv                             (* felt252_div(a, b.try_into().unwrap()) *)
| LFAdd | LFSub | LFMul                (* felt252 a + b, a - b, a * b *)
| LEq (T : ity)                        (* a == b *)
| LUDiv (T : ity) | LURem (T : ity).   (* unsigned a / b, a % b *)

Definition unsigned_of (S0 : ity) : ity :=
  match S0 with I8 => U8 | I16 => U16 | I32 => U32 | I64 => U64 | I128 => U128 | T => T end.

Definition pair_of (r : nat * Z) : rres := Ok (RPair (Z.of_nat (fst r)) (snd r)).

(* run-time meaning; x y are literal values (felt252 operands are reduced here) *)
Definition lf_rt (f : lfk) (x y : Z) : rres :=
  match f with
  | LUAdd T => pair_of (rt_uoverflowing T (x + y))
  | LUSub T => pair_of (rt_uoverflowing T (x - y))
  | LDiff S0 => pair_of (rt_diff S0 x y)
  | LWideMul _ => Ok (RInt (x * y))
  | LFeltDiv => if y mod P =? 0 then Panic [str "Option::unwrap failed."]
                else Ok (RInt 0)    (* placeholder: the quotient is specified by lf_rt_ok *)
  | LFAdd => Ok (RInt ((x + y) mod P))
  | LFSub => Ok (RInt ((x - y) mod P))
  | LFMul => Ok (RInt ((x * y) mod P))
  | LEq T => Ok (RBool (enc T x =? enc T y))
  | LUDiv T => eval ODiv T x y
  | LURem T => eval ORem T x y
  end.

(* what the fold model predicts for the function's result when it rewrites (None: no rewrite).
   kx, ky: what the folder knows (literal operand = Some, parameter = None). *)
Definition denote_mout (m : mout) (x y : Z) : option (nat * Z) :=
  match m with
  | MArm a (Some v) => Some (a, v)
  | MArmVar a 0 => Some (a, x)
  | MArmVar a _ => Some (a, y)
  | MIncDec true sgn T => Some (num_inc sgn T x)
  | MIncDec false _ T => Some (num_dec T x)
  | _ => None
  end.
Definition denote_fout (o : fout) (x y : Z) : option Z :=
  match o with FConst v => Some v | FVar 0 => Some x | FVar _ => Some y | FConst2 _ _ => None end.

Definition lf_fold (f : lfk) (kx ky : known) (x y : Z) : option rres :=
  let felt (lc : lf_call) :=
    match fold_call lc [kx; ky] with
    | Some o => match denote_fout o (x mod P) (y mod P) with
                | Some v => Some (Ok (RInt (v mod P))) | None => None end
    | None => None
    end in
  let ovf (lm : lf_match) :=
    match fold_match lm [kx; ky] with
    | Some m => match denote_mout m x y with Some r => Some (pair_of r) | None => None end
    | None => None
    end in
  match f with
  | LUAdd T => ovf (UAdd T)
  | LUSub T => ovf (USub T)
  | LDiff S0 => ovf (Diff (unsigned_of S0))
  | LWideMul _ =>
      match fold_call WideMul [kx; ky] with
      | Some (FConst v) => Some (Ok (RInt v)) | _ => None end
  | LFeltDiv =>
      (* the NonZero conversion of a known divisor is folded first (IsZero); unknown: no claim *)
      match ky with
      | Some r => if r mod P =? 0 then None else felt FeltDiv
      | None => None
      end
  | LFAdd => felt FeltAdd
  | LFSub => felt FeltSub
  | LFMul => felt FeltMul
  | LEq T =>
      match T with
      | Felt => None                       (* felt252 == is `a - b` matched against 0 *)
      | U256 => None                       (* field-wise on the struct *)
      | _ =>
        match fold_match EqInt [kx; ky] with
        | Some (MArm a None) => Some (Ok (RBool (Nat.eqb a 1)))
        | Some (MIsZeroOf 0) => Some (Ok (RBool (x =? 0)))
        | Some (MIsZeroOf _) => Some (Ok (RBool (y =? 0)))
        | _ => None
        end
      end
  | LUDiv T =>
      match ky with
      | Some r =>
          if r =? 0 then None
          else match fold_call DivRem [kx; ky] with
               | Some (FConst2 q _) => Some (Ok (RInt q)) | _ => None end
      | None => None
      end
  | LURem T =>
      match ky with
      | Some r =>
          if r =? 0 then None
          else match fold_call DivRem [kx; ky] with
               | Some (FConst2 _ r') => Some (Ok (RInt r')) | _ => None end
      | None => None
      end
  end.

(* does the observed result r satisfy the run-time meaning?  felt252_div is specified by its defining
   equation q * y = x in the field (no inverse is computed) *)
Definition lf_rt_ok (f : lfk) (x y : Z) (r : rres) : bool :=
  match f, r with
  | LFeltDiv, Ok (RInt q) =>
      negb (y mod P =? 0) && (0 <=? q) && (q <? P) && ((q * (y mod P)) mod P =? x mod P)
  | _, _ => rres_eqb (lf_rt f x y) r
  end.

(* (libfunc, x known?, y known?, x, y, runs = [fold on; fold off]) *)
Definition lf_case := (lfk * bool * bool * Z * Z * list rres)%type.
Definition check_lf (cs : list lf_case) : list (Z * rres * option rres) :=
  flat_map (fun (kc : Z * lf_case) =>
    let '(k, (f, bx, bY, x, y, runs)) := kc in
    let mr := lf_rt f x y in
    let mf := lf_fold f (if bx then Some x else None) (if bY then Some y else None) x y in
    if forallb (lf_rt_ok f x y) runs
       && match mf with Some r => forallb (rres_eqb r) runs | None => true end
    then [] else [(k, mr, mf)]) (indexed 0 cs).

(* ---- leg part: one literal operand in the body, one run-time operand ----
   (operator, type, literal on the left?, literal, run-time operand,
    runs = [f_lit fold on; f_lit fold off; f_args fold on; f_args fold off]) *)
Definition part_case := (pop * ity * bool * Z * Z * list rres)%type.
(* when the operator is an overflowing add/sub of a literal, what the fold model (incl. the
   inc/dec helpers) predicts for overflowing_add/sub: (wrapped value, overflowed?) *)
Definition part_fold (p : pop) (T : ity) (lit_left : bool) (lit x : Z) : option rres :=
  match p with
  | PVar POverflowing a =>
      let lm := match a, signed T with
                | AAdd, false => Some (UAdd T) | ASub, false => Some (USub T)
                | AAdd, true => Some (IAdd T) | ASub, true => Some (ISub T)
                | AMul, _ => None end in
      match lm, T with
      | _, U256 | _, Felt | None, _ => None
      | Some f, _ =>
          let '(kx, ky, a0, b0) := if lit_left then (Some lit, None, lit, x) else (None, Some lit, x, lit) in
          match fold_match f [kx; ky] with
          | Some m => match denote_mout m a0 b0 with
                      | Some (arm, v) => Some (Ok (RPair v (if Nat.eqb arm 0 then 0 else 1)))
                      | None => None end
          | None => None
          end
      end
  | _ => None
  end.
Definition check_part (cs : list part_case) : list (Z * rres * option rres) :=
  flat_map (fun (kc : Z * part_case) =>
    let '(k, (p, T, lit_left, lit, x, runs)) := kc in
    let mr := if (lit_left : bool) then part_rt p T lit x else part_rt p T x lit in
    let mf := part_fold p T lit_left lit x in
    if forallb (rres_eqb mr) runs
       && match mf with Some r => rres_eqb r mr | None => true end
    then [] else [(k, mr, mf)]) (indexed 0 cs).
