(* C14/DecompressTotal.v -- totality facts about the model of felt252_vec_compression.rs::decompress
   (C18/Compress.v): whenever it answers Some, the output has exactly the declared length, that
   length is the one allocation it made (bounded by 31 slots per input felt), and every output
   element was read from the code table at an in-range index (so it is one of the input felts).
   Out-of-range indices, short inputs, oversized lengths all end in None: [decompress] is a total
   Gallina function built from total lookups ([nthN], [pop_usize]), never a partial access. *)
From Coq Require Import NArith List Lia Bool.
From C18 Require Import Compress CompressProofs.
Import ListNotations.
Local Open Scope N_scope.

Lemma nthN_In {A} (l : list A) : forall i v, nthN l i = Some v -> In v l.
Proof.
  induction l as [|x r IH]; intros i v H; cbn in H; [discriminate|].
  destruct (i =? 0).
  - inversion H. left. reflexivity.
  - right. eapply IH. exact H.
Qed.

Lemma nthN_in_range {A} (l : list A) : forall i v, nthN l i = Some v -> i < lenN l.
Proof.
  induction l as [|x r IH]; intros i v H; cbn in H; [discriminate|].
  rewrite lenN_cons. destruct (i =? 0) eqn:E.
  - apply N.eqb_eq in E. lia.
  - apply N.eqb_neq in E. specialize (IH _ _ H). lia.
Qed.

Lemma extract_spec n : forall code bits mask rest buffer bib ds,
  extract n code bits mask rest buffer bib = Some ds ->
  length ds = n /\ Forall (fun v => In v code) ds.
Proof.
  induction n as [|n IH]; intros code bits mask rest buffer bib ds H; cbn [extract] in H.
  - inversion H. split; [reflexivity|constructor].
  - destruct (bib <? bits).
    + destruct (nthN code (N.land (N.lor buffer (N.shiftl (rest mod 2 ^ 64) bib)) mask)) as [v|] eqn:Hn; [|discriminate].
      match type of H with match ?e with _ => _ end = _ => destruct e as [r|] eqn:Hr; [|discriminate] end.
      inversion H; subst ds. destruct (IH _ _ _ _ _ _ _ Hr) as [H1 H2].
      split; [cbn; congruence|]. constructor; [eapply nthN_In; eauto|exact H2].
    + destruct (nthN code (N.land buffer mask)) as [v|] eqn:Hn; [|discriminate].
      match type of H with match ?e with _ => _ end = _ => destruct e as [r|] eqn:Hr; [|discriminate] end.
      inversion H; subst ds. destruct (IH _ _ _ _ _ _ _ Hr) as [H1 H2].
      split; [cbn; congruence|]. constructor; [eapply nthN_In; eauto|exact H2].
Qed.

Lemma unpack_all_spec pvs : forall code bits mask w remaining out,
  unpack_all pvs code bits mask w remaining = Some out ->
  lenN out = remaining /\ Forall (fun v => In v code) out.
Proof.
  induction pvs as [|pv r IH]; intros code bits mask w remaining out H; cbn [unpack_all] in H.
  - destruct (remaining =? 0) eqn:E; [|discriminate]. inversion H. apply N.eqb_eq in E.
    split; [cbn; lia|constructor].
  - cbv zeta in H.
    destruct (extract (N.to_nat (N.min w remaining)) code bits mask pv 0 0) as [ds|] eqn:He; [|discriminate].
    destruct (unpack_all r code bits mask w (remaining - N.min w remaining)) as [rs|] eqn:Hu; [|discriminate].
    inversion H; subst out. destruct (extract_spec _ _ _ _ _ _ _ _ He) as [H1 H2].
    destruct (IH _ _ _ _ _ _ Hu) as [H3 H4]. split.
    + rewrite lenN_app. unfold lenN at 1. rewrite H1, H3. lia.
    + apply Forall_app. split; assumption.
Qed.

Lemma split_at_fst_In {A} : forall n (l : list A) x, In x (fst (split_at n l)) -> In x l.
Proof.
  intros n l. revert n. induction l as [|y l IH]; intros n x H; cbn [split_at] in H; [exact H|].
  destruct (n =? 0); [destruct H|].
  specialize (IH (N.pred n)). destruct (split_at (N.pred n) l) as [a b]. cbn [fst] in *.
  destruct H as [->|H]; [left; reflexivity|right; apply IH, H].
Qed.

Lemma decompress_alloc_of pv out :
  decompress pv = Some out ->
  exists bound, decompress_alloc pv = Some (lenN out, bound) /\ Forall (fun v => In v pv) out.
Proof.
  unfold decompress, decompress_alloc.
  destruct pv as [|x0 pv0]; cbn [pop_usize]; [discriminate|].
  destruct (x0 <? USIZE); [|discriminate].
  destruct (negb (x0 <? lenN pv0)); [discriminate|].
  destruct pv0 as [|x1 pv1]; cbn [pop_usize]; [discriminate|].
  destruct (x1 <? USIZE); [|discriminate].
  pose proof (split_at_fst_In x0 pv1) as Hin.
  destruct (split_at x0 pv1) as [code pv2]. cbn [fst] in Hin.
  destruct pv2 as [|x2 pv3]; cbn [pop_usize]; [discriminate|].
  destruct (x2 <? USIZE); [|discriminate].
  destruct (negb (x0 + x1 <? USIZE)); [discriminate|].
  destruct ((x0 + x1 <? MIN_PADDED_CODE_SIZE) || negb (is_pow2 (x0 + x1))); [discriminate|].
  destruct (negb (x2 <=? lenN pv3 * words_per_felt (x0 + x1))); [discriminate|].
  intros H. destruct (unpack_all_spec _ _ _ _ _ _ _ H) as [Hl Hf].
  exists (lenN pv3 * words_per_felt (x0 + x1)). rewrite Hl. split; [reflexivity|].
  eapply Forall_impl; [|exact Hf]. intros v Hv. right. right. apply Hin, Hv.
Qed.

(* whenever decompress answers, the answer has exactly the length for which the (single, bounded)
   allocation was made - at most 31 slots per input felt - and consists of felts read from the
   input's code table at in-range indices *)
Theorem decompress_total pv out :
  decompress pv = Some out ->
  exists bound, decompress_alloc pv = Some (lenN out, bound)
    /\ lenN out <= bound /\ bound <= 31 * lenN pv
    /\ Forall (fun v => In v pv) out.
Proof.
  intros H. destruct (decompress_alloc_of _ _ H) as (bound & Ha & Hf).
  destruct (decompress_alloc_bounded _ _ _ Ha) as [H1 H2].
  exists bound. repeat split; assumption.
Qed.
