(* C14/AnnotTotal.v -- the model of the acceptance pass is a total function, and acceptance fixes
   that every index the pass (and every later stage that trusts it) uses is in range: branch
   targets and function entry points are statement indices of the program, callees are declared
   functions.  Consequence of Sierra/Closure.v (the table computed by the pass is closed). *)
From Coq Require Import ZArith List Bool Lia Arith.
From Sierra Require Import Annot Closure.
Import ListNotations.
Local Open Scope nat_scope.

Theorem annot_total p : annot_accepts p = true \/ annot_accepts p = false.
Proof. destruct (annot_accepts p); auto. Qed.

(* the only writes to the annotation table go through set_or_assert, which refuses any index
   outside the program *)
Lemma set_or_assert_in_range n t i a t' : set_or_assert n t i a = Some t' -> i < n.
Proof.
  unfold set_or_assert. destruct (Nat.ltb_spec i n) as [H|H]; [auto|discriminate].
Qed.

Theorem accepted_in_range p : annot_accepts p = true ->
  (forall i iv b, stmt_at p i = Some (SInvoke iv) -> In b (i_branches iv) ->
     b_target b < length (stmts p))
  /\ (forall k f, nth_error (funcs p) k = Some f -> f_entry f < length (stmts p))
  /\ (forall i iv g, stmt_at p i = Some (SInvoke iv) -> i_kind iv = LfCall g ->
        g < length (funcs p) /\ length (i_branches iv) = 1)
  /\ (forall i vs, stmt_at p i = Some (SReturn vs) ->
        exists k, k < length (funcs p)).
Proof.
  intros Ha. destruct (accepts_closed p Ha) as (T & HC1 & HC2).
  split; [|split; [|split]].
  - intros i iv b Hs Hb. destruct (HC1 _ _ Hs) as (e & _ & Hok). cbn [stmt_ok] in Hok.
    destruct Hok as (ts & m & _ & _ & _ & _ & Hbr).
    destruct (Hbr b Hb) as (a' & _ & (Hd & _) & _). exact Hd.
  - intros k f Hf. destruct (HC2 _ _ Hf) as (a & _ & _ & Hlt). exact Hlt.
  - intros i iv g Hs Hk. destruct (HC1 _ _ Hs) as (e & _ & Hok). cbn [stmt_ok] in Hok.
    destruct Hok as (ts & m & _ & _ & _ & Hcall & _).
    unfold call_ok in Hcall. rewrite Hk in Hcall.
    destruct (nth_error (funcs p) g) as [fg|] eqn:Hg; [|discriminate].
    split; [apply nth_error_Some; congruence|].
    destruct (i_branches iv) as [|b0 [|b1 r]]; try discriminate. reflexivity.
  - intros i vs Hs. destruct (HC1 _ _ Hs) as (e & _ & Hok). cbn [stmt_ok] in Hok.
    destruct Hok as (ts & f & _ & Hf & _). exists (a_fn e). apply nth_error_Some. congruence.
Qed.
