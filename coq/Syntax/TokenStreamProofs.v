(* Syntax/TokenStreamProofs.v -- the token-plumbing invariant over every sequence of operations. *)
From Syntax Require Import Lexer LexerProofs Green GreenProofs TokenStream.
From Coq Require Import Lia PeanoNat.
Local Open Scope N_scope.

Notation W := str_width.

(* ---------- texts and widths ---------- *)
Lemma ptext_app a b : ptext (a ++ b) = ptext a ++ ptext b.
Proof. unfold ptext. rewrite map_app, concat_app. reflexivity. Qed.

Lemma ptext_plex l : ptext (plex l) = trivia_text l.
Proof. unfold ptext, plex, trivia_text. rewrite map_map. reflexivity. Qed.

Lemma pwidth_ptext l : pwidth l = W (ptext l).
Proof.
  induction l as [|p l IH]; [reflexivity|].
  change (ptext (p :: l)) with (ptv_text p ++ ptext l). rewrite str_width_app, <- IH. reflexivity.
Qed.

Lemma etext_app a b : etext (a ++ b) = etext a ++ etext b.
Proof. unfold etext. rewrite map_app, concat_app. reflexivity. Qed.

Lemma etext_one e : etext [e] = eterm_text e.
Proof. unfold etext. cbn. apply app_nil_r. Qed.

Lemma ltext_app a b : ltext (a ++ b) = ltext a ++ ltext b.
Proof. unfold ltext. rewrite map_app, concat_app. reflexivity. Qed.

Lemma ltext_cons t l : ltext (t :: l) = terminal_full_text t ++ ltext l.
Proof. reflexivity. Qed.

Lemma W_app a b : W (a ++ b) = W a + W b.
Proof. apply str_width_app. Qed.

Lemma W_full t : W (terminal_full_text t)
  = trivia_width (t_leading t) + W (t_text t) + trivia_width (t_trailing t).
Proof. rewrite <- terminal_width_text. reflexivity. Qed.

Lemma W_prefix_le a b : W a <= W (a ++ b).
Proof. rewrite W_app. lia. Qed.

Ltac sp := cbn [p_lex p_eof p_look p_pending p_offset p_cur_w p_last_tw p_pdiags p_cache p_emitted
                 p_diags p_panicked fst snd] in *.

(* ---------- the invariant ---------- *)
Definition noeof (l : list terminal) : Prop := Forall (fun t => t_kind t <> TEndOfFile) l.

Definition look_ok (s : pstate) : Prop :=
  if p_eof s then
    exists l t, p_look s = l ++ [t] /\ noeof l /\ t_kind t = TEndOfFile /\ rest (p_lex s) = []
  else noeof (p_look s).

Fixpoint pd_sorted (lo : N) (l : list pdiag) (hi : N) : Prop :=
  match l with
  | [] => lo <= hi
  | d :: l' => lo <= pd_start d /\ pd_start d <= pd_end d /\ pd_sorted (pd_end d) l' hi
  end.

Definition diag_in (src : str) (d : N * N * N) : Prop :=
  let '(_, a, b) := d in a <= b /\ b <= W src.

Record Inv (src : str) (s : pstate) : Prop := {
  inv_lex : span_rev (p_lex s) = [];
  inv_text : etext (p_emitted s) ++ ptext (p_pending s) ++ ltext (p_look s) ++ rest (p_lex s) = src;
  inv_off : p_offset s + p_cur_w s = W (etext (p_emitted s) ++ ptext (p_pending s));
  inv_ltw : p_last_tw s <= p_cur_w s;
  inv_look : look_ok s;
  inv_look_ne : p_look s <> [];
  inv_pd : pd_sorted 0 (p_pdiags s) (p_offset s + p_cur_w s);
  inv_pd_empty : p_pending s = [] -> p_pdiags s = [];
  inv_cache : Forall (fun kv => ptext (snd kv) = fst kv) (p_cache s);
  inv_diags : Forall (diag_in src) (p_diags s);
  inv_nopanic : p_panicked s = false
}.

Lemma inv_end_le src s : Inv src s -> p_offset s + p_cur_w s <= W src.
Proof.
  intros I. rewrite (inv_off _ _ I). pose proof (inv_text _ _ I) as T.
  rewrite app_assoc in T. rewrite <- T. apply W_prefix_le.
Qed.

(* ---------- ensure_next_k_exists ---------- *)
(* the parts of the invariant the look-ahead refill touches *)
Record LInv (src : str) (s : pstate) : Prop := {
  l_lex : span_rev (p_lex s) = [];
  l_text : etext (p_emitted s) ++ ptext (p_pending s) ++ ltext (p_look s) ++ rest (p_lex s) = src;
  l_look : look_ok s
}.

Lemma pull_spec src s :
  LInv src s -> p_eof s = false -> LInv src (pull s) /\ p_look (pull s) <> []
  /\ length (p_look (pull s)) = S (length (p_look s))
  /\ (forall t l, p_look s = t :: l -> exists l', p_look (pull s) = t :: l').
Proof.
  intros [L T K] He. unfold pull.
  pose proof (match_terminal_spec (p_lex s) L) as M.
  destruct (match_terminal (p_lex s)) as [t l'] eqn:E. sp. destruct M as [M1 [M2 [M3 M4]]].
  split; [|split; [|split]]; sp.
  - constructor; sp.
    + exact M2.
    + rewrite ltext_app, <- T, <- M1. unfold ltext at 2. cbn [map concat].
      rewrite app_nil_r, <- !app_assoc. reflexivity.
    + unfold look_ok in *. sp. rewrite He in K.
      destruct (is_eof (t_kind t)) eqn:Ek.
      * exists (p_look s), t. repeat split; auto.
        -- destruct (t_kind t); try discriminate; reflexivity.
        -- apply M4. destruct (t_kind t); try discriminate; reflexivity.
      * apply Forall_app. split; [exact K|]. constructor; [|constructor].
        intros Hk. rewrite Hk in Ek. discriminate.
  - destruct (p_look s); discriminate.
  - rewrite app_length. cbn [length]. lia.
  - intros t0 l0 H. rewrite H. eexists. reflexivity.
Qed.

Definition same_but_look (s s' : pstate) : Prop :=
  p_emitted s' = p_emitted s /\ p_pending s' = p_pending s /\ p_offset s' = p_offset s
  /\ p_cur_w s' = p_cur_w s /\ p_last_tw s' = p_last_tw s /\ p_pdiags s' = p_pdiags s
  /\ p_cache s' = p_cache s /\ p_diags s' = p_diags s /\ p_panicked s' = p_panicked s.

Lemma same_but_look_refl s : same_but_look s s.
Proof. repeat split. Qed.

Lemma same_pull s : same_but_look s (pull s).
Proof. unfold pull. destruct (match_terminal (p_lex s)). repeat split. Qed.

Lemma same_trans a b c : same_but_look a b -> same_but_look b c -> same_but_look a c.
Proof.
  unfold same_but_look. intros H1 H2.
  destruct H1 as [A1 [A2 [A3 [A4 [A5 [A6 [A7 [A8 A9]]]]]]]].
  destruct H2 as [B1 [B2 [B3 [B4 [B5 [B6 [B7 [B8 B9]]]]]]]].
  repeat split; congruence.
Qed.

Lemma ensure_go_spec src : forall fuel k s,
  LInv src s ->
  let s' := ensure_go fuel k s in
  LInv src s'
  /\ (p_look s <> [] -> p_look s' <> [])
  /\ (forall t l, p_look s = t :: l -> exists l', p_look s' = t :: l')
  /\ same_but_look s s'
  /\ ((fuel + length (p_look s) >= k)%nat -> p_eof s' = true \/ (length (p_look s') >= k)%nat).
Proof.
  induction fuel as [|fuel IH]; intros k s I; cbn [ensure_go].
  - split; [exact I|]. split; [auto|]. split; [intros; eauto|]. split; [apply same_but_look_refl|].
    intros H. right. cbn in H. lia.
  - destruct (p_eof s) eqn:He; cbn [orb].
    + split; [exact I|]. split; [auto|]. split; [intros; eauto|].
      split; [apply same_but_look_refl|]. intros _. left. exact He.
    + destruct (Nat.leb k (length (p_look s))) eqn:Hk.
      * split; [exact I|]. split; [auto|]. split; [intros; eauto|].
        split; [apply same_but_look_refl|]. intros _. right. apply Nat.leb_le in Hk. lia.
      * destruct (pull_spec src s I He) as [I' [Hne [Hlen Hhd]]].
        destruct (IH k (pull s) I') as [J1 [J2 [J3 [J4 J5]]]].
        split; [exact J1|]. split; [auto|]. split; [|split].
        -- intros t0 l0 H. destruct (Hhd t0 l0 H) as [l1 H1]. apply (J3 t0 l1 H1).
        -- eapply same_trans; [apply same_pull|exact J4].
        -- intros H. apply J5. rewrite Hlen. lia.
Qed.

(* ---------- pending diagnostics ---------- *)
Lemma pd_sorted_le lo l hi : pd_sorted lo l hi -> lo <= hi.
Proof.
  revert lo. induction l as [|d l IH]; intros lo H; cbn in H; [exact H|].
  destruct H as [H1 [H2 H3]]. specialize (IH _ H3). lia.
Qed.

Lemma pd_sorted_weaken lo l hi hi' : pd_sorted lo l hi -> hi <= hi' -> pd_sorted lo l hi'.
Proof.
  revert lo. induction l as [|d l IH]; intros lo H Hh; cbn in *; [lia|].
  destruct H as [H1 [H2 H3]]. repeat split; auto.
Qed.

Lemma pd_sorted_snoc lo l hi d hi' :
  pd_sorted lo l hi -> hi <= pd_start d -> pd_start d <= pd_end d -> pd_end d <= hi' ->
  pd_sorted lo (l ++ [d]) hi'.
Proof.
  revert lo. induction l as [|x l IH]; intros lo H H1 H2 H3; cbn in *.
  - repeat split; auto. lia.
  - destruct H as [A [B C]]. repeat split; auto.
Qed.

Lemma merge_pdiags_in src : forall l cur hi,
  pd_start cur <= pd_end cur -> pd_sorted (pd_end cur) l hi -> hi <= W src ->
  Forall (diag_in src) (merge_pdiags cur l).
Proof.
  induction l as [|d l IH]; intros cur hi Hc Hs Hh; cbn [merge_pdiags].
  - cbn in Hs. constructor; [|constructor]. cbn. lia.
  - cbn in Hs. destruct Hs as [S1 [S2 S3]].
    destruct ((pd_kind d =? pd_kind cur) && (pd_trail_end cur =? pd_lead_start d)).
    + eapply IH; [| exact S3 | exact Hh]. cbn. lia.
    + constructor.
      * cbn. pose proof (pd_sorted_le _ _ _ S3). lia.
      * eapply IH; eauto.
Qed.

Lemma consume_pdiags_in src l hi :
  pd_sorted 0 l hi -> hi <= W src -> Forall (diag_in src) (consume_pdiags l).
Proof.
  destruct l as [|d l]; intros Hs Hh; cbn [consume_pdiags]; [constructor|].
  cbn in Hs. destruct Hs as [_ [S2 S3]]. eapply merge_pdiags_in; eauto.
Qed.

(* ---------- the trivia cache ---------- *)
Lemma str_eqb_true : forall a b, str_eqb a b = true -> a = b.
Proof.
  induction a as [|x a IH]; destruct b as [|y b]; cbn; intros H; try discriminate; [reflexivity|].
  apply andb_true_iff in H. destruct H as [H1 H2]. apply N.eqb_eq in H1. subst. f_equal. auto.
Qed.

Definition cache_ok (c : list (str * list ptrivium)) : Prop :=
  Forall (fun kv => ptext (snd kv) = fst kv) c.

Lemma cache_lookup_ok k c v : cache_ok c -> cache_lookup k c = Some v -> ptext v = k.
Proof.
  induction 1 as [|[k' v'] c H _ IH]; cbn; [discriminate|].
  destruct (str_eqb k k') eqn:E.
  - intros Hv. injection Hv as <-. apply str_eqb_true in E. subst. exact H.
  - exact IH.
Qed.

Lemma trivia_green_spec src cache trivia start end_ :
  cache_ok cache ->
  (trivia <> [] -> slice_bytes src start (end_ - start) = ptext trivia) ->
  let r := trivia_green src cache trivia start end_ in
  ptext (fst r) = ptext trivia /\ cache_ok (snd r).
Proof.
  intros Hc Hs. unfold trivia_green. destruct trivia as [|p tr]; [split; [reflexivity|exact Hc]|].
  specialize (Hs ltac:(discriminate)). rewrite Hs.
  destruct (forallb is_ws_byte_char (ptext (p :: tr))); [|split; [reflexivity|exact Hc]].
  destruct (cache_lookup (ptext (p :: tr)) cache) as [v|] eqn:E.
  - split; [|exact Hc]. cbn [fst]. eapply cache_lookup_ok; eauto.
  - split; [reflexivity|]. constructor; [reflexivity|exact Hc].
Qed.

(* ---------- add_trivia_to_terminal ---------- *)
Lemma add_trivia_spec src kind t ts s X hi :
  etext (p_emitted s) ++ ptext (p_pending s) ++ terminal_full_text t ++ X = src ->
  ts = W (etext (p_emitted s) ++ ptext (p_pending s)) ->
  pd_sorted 0 (p_pdiags s) hi -> hi <= W src ->
  cache_ok (p_cache s) -> Forall (diag_in src) (p_diags s) ->
  let s' := add_trivia_to_terminal src kind t ts s in
  (exists e, p_emitted s' = p_emitted s ++ [e]
             /\ eterm_text e = ptext (p_pending s) ++ terminal_full_text t)
  /\ p_pending s' = [] /\ p_pdiags s' = [] /\ cache_ok (p_cache s')
  /\ Forall (diag_in src) (p_diags s')
  /\ p_lex s' = p_lex s /\ p_eof s' = p_eof s /\ p_look s' = p_look s /\ p_offset s' = p_offset s
  /\ p_cur_w s' = p_cur_w s /\ p_last_tw s' = p_last_tw s /\ p_panicked s' = p_panicked s.
Proof.
  intros Ht Hts Hpd Hhi Hc Hd. unfold add_trivia_to_terminal.
  set (E := etext (p_emitted s)) in *. set (P := ptext (p_pending s)) in *.
  set (L := trivia_text (t_leading t)). set (T := trivia_text (t_trailing t)).
  assert (Hfull : terminal_full_text t = L ++ t_text t ++ T) by reflexivity.
  assert (Hlead : (match p_pending s with [] => plex (t_leading t)
                   | _ => p_pending s ++ plex (t_leading t) end) = p_pending s ++ plex (t_leading t))
    by (destruct (p_pending s); reflexivity).
  rewrite Hlead.
  rewrite !trivia_width_text, pwidth_ptext. fold L T P.
  (* leading *)
  pose proof (trivia_green_spec src (p_cache s) (p_pending s ++ plex (t_leading t))
                (ts - W P) (ts + W L) Hc) as G1.
  assert (S1 : slice_bytes src (ts - W P) (ts + W L - (ts - W P)) = P ++ L).
  { rewrite Hts, W_app. replace (W E + W P - W P) with (W E) by lia.
    replace (W E + W P + W L - W E) with (W (P ++ L)) by (rewrite W_app; lia).
    rewrite <- Ht, Hfull.
    replace (E ++ P ++ (L ++ t_text t ++ T) ++ X) with (E ++ (P ++ L) ++ (t_text t ++ T ++ X))
      by (rewrite <- !app_assoc; reflexivity).
    apply slice_middle. }
  specialize (G1 ltac:(intros _; rewrite S1, ptext_app, ptext_plex; reflexivity)).
  destruct (trivia_green src (p_cache s) (p_pending s ++ plex (t_leading t)) (ts - W P) (ts + W L))
    as [lead_g c1]. cbn [fst snd] in G1. destruct G1 as [G1a G1b].
  (* trailing *)
  pose proof (trivia_green_spec src c1 (plex (t_trailing t))
                (ts + W L + W (t_text t)) (ts + W L + W (t_text t) + W T) G1b) as G2.
  assert (S2 : slice_bytes src (ts + W L + W (t_text t))
                 (ts + W L + W (t_text t) + W T - (ts + W L + W (t_text t))) = T).
  { replace (ts + W L + W (t_text t) + W T - (ts + W L + W (t_text t))) with (W T) by lia.
    replace (ts + W L + W (t_text t)) with (W (E ++ P ++ L ++ t_text t))
      by (rewrite Hts, !W_app; lia).
    rewrite <- Ht, Hfull.
    replace (E ++ P ++ (L ++ t_text t ++ T) ++ X) with ((E ++ P ++ L ++ t_text t) ++ T ++ X)
      by (rewrite <- !app_assoc; reflexivity).
    apply slice_middle. }
  specialize (G2 ltac:(intros _; rewrite S2, ptext_plex; reflexivity)).
  destruct (trivia_green src c1 (plex (t_trailing t)) (ts + W L + W (t_text t))
              (ts + W L + W (t_text t) + W T)) as [trail_g c2].
  cbn [fst snd] in G2. destruct G2 as [G2a G2b]. sp.
  split.
  { eexists. split; [reflexivity|]. unfold eterm_text. cbn [e_lead e_text e_trail].
    rewrite G1a, G2a, ptext_app, !ptext_plex, Hfull. fold L T P. rewrite <- !app_assoc. reflexivity. }
  repeat split; auto.
  apply Forall_app. split; [exact Hd|]. eapply consume_pdiags_in; eauto.
Qed.

(* ---------- take_raw ---------- *)
(* the state right after take_raw handed out the raw terminal [t] *)
Record InvF (src : str) (t : terminal) (s : pstate) : Prop := {
  f_lex : span_rev (p_lex s) = [];
  f_text : etext (p_emitted s) ++ ptext (p_pending s) ++ terminal_full_text t
           ++ ltext (p_look s) ++ rest (p_lex s) = src;
  f_off : p_offset s = W (etext (p_emitted s) ++ ptext (p_pending s));
  f_cw : p_cur_w s = W (terminal_full_text t);
  f_ltw : p_last_tw s = trivia_width (t_trailing t);
  f_look : look_ok s;
  f_look_ne : p_look s <> [];
  f_pd : pd_sorted 0 (p_pdiags s) (p_offset s);
  f_pd_empty : p_pending s = [] -> p_pdiags s = [];
  f_cache : cache_ok (p_cache s);
  f_diags : Forall (diag_in src) (p_diags s);
  f_nopanic : p_panicked s = false
}.

Lemma Inv_LInv src s : Inv src s -> LInv src s.
Proof. intros I. constructor; [apply (inv_lex _ _ I)|apply (inv_text _ _ I)|apply (inv_look _ _ I)]. Qed.

Lemma look_ok_set_look s l :
  look_ok (set_look s l) <-> (if p_eof s then
     exists l0 t, l = l0 ++ [t] /\ noeof l0 /\ t_kind t = TEndOfFile /\ rest (p_lex s) = []
   else noeof l).
Proof. unfold look_ok, set_look. sp. reflexivity. Qed.

(* popping a non-EndOfFile head keeps the look-ahead well formed and non-empty *)
Lemma advance_spec src s :
  Inv src s -> peek_kind s <> TEndOfFile ->
  let r := advance s in
  fst r = peek_term s
  /\ LInv src (set_look (snd r) (fst r :: p_look (snd r)))
  /\ p_look (snd r) <> [] /\ look_ok (snd r)
  /\ same_but_look s (snd r) /\ p_lex (set_look (snd r) []) = p_lex (snd r).
Proof.
  intros I Hk. unfold advance.
  pose proof (ensure_go_spec src 3 3 s (Inv_LInv _ _ I)) as H. cbn zeta in H.
  fold (ensure_next_k_exists 3 s) in H.
  destruct H as [J1 [J2 [J3 [J4 J5]]]].
  pose proof (inv_look_ne _ _ I) as Hne.
  destruct (p_look s) as [|t0 l0] eqn:El; [congruence|].
  destruct (J3 t0 l0 eq_refl) as [l1 H1]. rewrite H1.
  assert (Hpeek : peek_term s = t0) by (unfold peek_term; rewrite El; reflexivity).
  assert (Hk0 : t_kind t0 <> TEndOfFile) by (unfold peek_kind in Hk; rewrite Hpeek in Hk; exact Hk).
  cbn [fst snd]. split; [symmetry; exact Hpeek|].
  set (s1 := ensure_next_k_exists 3 s) in *.
  assert (Hset : set_look (set_look s1 l1) (t0 :: p_look (set_look s1 l1)) = set_look s1 (t0 :: l1))
    by reflexivity.
  split.
  { rewrite Hset. destruct J1 as [A B C]. constructor; unfold set_look; sp; auto.
    - rewrite <- H1. exact B.
    - unfold look_ok in *. sp. rewrite <- H1. exact C. }
  assert (Hlook : look_ok s1) by apply J1.
  unfold look_ok in Hlook.
  split; [|split; [|split; [|reflexivity]]].
  - (* non-empty after the pop *)
    unfold set_look; sp. destruct (p_eof s1) eqn:He.
    + destruct Hlook as [l [t [Hl [Hn [Ht _]]]]]. rewrite H1 in Hl.
      destruct l as [|x l]; cbn in Hl.
      * injection Hl as -> _. contradiction.
      * injection Hl as _ ->. destruct l; discriminate.
    + specialize (J5 ltac:(lia)). destruct J5 as [J5|J5]; [congruence|].
      rewrite H1 in J5. cbn [length] in J5. destruct l1; [cbn in J5; lia|discriminate].
  - apply look_ok_set_look. destruct (p_eof s1) eqn:He.
    + destruct Hlook as [l [t [Hl [Hn [Ht Hr]]]]]. rewrite H1 in Hl.
      destruct l as [|x l]; cbn in Hl.
      * injection Hl as -> _. contradiction.
      * injection Hl as -> ->. exists l, t. inversion Hn; subst. repeat split; auto.
    + rewrite H1 in Hlook. inversion Hlook; subst. assumption.
  - unfold set_look. destruct J4 as [A1 [A2 [A3 [A4 [A5 [A6 [A7 [A8 A9]]]]]]]].
    repeat split; sp; auto.
Qed.

Lemma take_raw_spec src s :
  Inv src s -> peek_kind s <> TEndOfFile ->
  let r := take_raw s in
  fst r = peek_term s /\ InvF src (fst r) (snd r)
  /\ p_emitted (snd r) = p_emitted s /\ p_pending (snd r) = p_pending s
  /\ p_pdiags (snd r) = p_pdiags s /\ p_diags (snd r) = p_diags s.
Proof.
  intros I Hk. unfold take_raw.
  pose proof (advance_spec src s I Hk) as A. cbn zeta in A.
  destruct (advance s) as [t s1]. cbn [fst snd] in *.
  destruct A as [A1 [A2 [A3 [A4 [A5 _]]]]].
  destruct A5 as [B1 [B2 [B3 [B4 [B5 [B6 [B7 [B8 B9]]]]]]]].
  split; [exact A1|]. split; [|repeat split; sp; auto].
  destruct A2 as [L T K]. unfold set_look in L, T. sp.
  constructor; sp; auto.
  - rewrite B1, B2 in *. rewrite ltext_cons, <- app_assoc in T. exact T.
  - rewrite B1, B2, B3, B4. apply (inv_off _ _ I).
  - apply terminal_width_text.
  - rewrite B6, B3, B4. apply (inv_pd _ _ I).
  - rewrite B2, B6. apply (inv_pd_empty _ _ I).
  - rewrite B7. apply (inv_cache _ _ I).
  - rewrite B8. apply (inv_diags _ _ I).
  - rewrite B9. apply (inv_nopanic _ _ I).
Qed.

(* the text of what a skipped raw terminal adds to pending_trivia *)
Lemma skipped_ptext t :
  ptext (plex (t_leading t) ++ [PSkipped (t_text t)] ++ plex (t_trailing t)) = terminal_full_text t.
Proof.
  rewrite !ptext_app, !ptext_plex. unfold terminal_full_text, ptext. cbn [map concat ptv_text].
  rewrite app_nil_r. reflexivity.
Qed.

Lemma end_le_src src t s : InvF src t s -> p_offset s + p_cur_w s <= W src.
Proof.
  intros F. rewrite (f_off _ _ _ F), (f_cw _ _ _ F), <- W_app.
  pose proof (f_text _ _ _ F) as T.
  replace (etext (p_emitted s) ++ ptext (p_pending s) ++ terminal_full_text t ++ ltext (p_look s)
           ++ rest (p_lex s))
    with (((etext (p_emitted s) ++ ptext (p_pending s)) ++ terminal_full_text t)
          ++ ltext (p_look s) ++ rest (p_lex s)) in T by (rewrite <- !app_assoc; reflexivity).
  rewrite <- T. apply W_prefix_le.
Qed.

(* pushing the raw terminal onto pending_trivia (skip_token, skip_until) *)
Lemma push_skipped_inv src t s pd :
  InvF src t s ->
  pd_sorted 0 pd (p_offset s + p_cur_w s) ->
  Inv src {| p_lex := p_lex s; p_eof := p_eof s; p_look := p_look s;
             p_pending := p_pending s ++ plex (t_leading t) ++ [PSkipped (t_text t)]
                          ++ plex (t_trailing t);
             p_offset := p_offset s; p_cur_w := p_cur_w s; p_last_tw := p_last_tw s;
             p_pdiags := pd; p_cache := p_cache s; p_emitted := p_emitted s;
             p_diags := p_diags s; p_panicked := p_panicked s |}.
Proof.
  intros F Hpd. constructor; sp.
  - apply (f_lex _ _ _ F).
  - rewrite ptext_app, skipped_ptext, <- !app_assoc. apply (f_text _ _ _ F).
  - rewrite ptext_app, skipped_ptext, (f_off _ _ _ F), (f_cw _ _ _ F), !W_app. lia.
  - rewrite (f_ltw _ _ _ F), (f_cw _ _ _ F), W_full. lia.
  - apply (f_look _ _ _ F).
  - apply (f_look_ne _ _ _ F).
  - exact Hpd.
  - intros H. apply app_eq_nil in H. destruct H as [_ H]. apply app_eq_nil in H.
    destruct H as [_ H]. discriminate.
  - apply (f_cache _ _ _ F).
  - apply (f_diags _ _ _ F).
  - apply (f_nopanic _ _ _ F).
Qed.

Lemma append_skipped_spec src t k s : InvF src t s -> Inv src (append_skipped t k s).
Proof.
  intros F. unfold append_skipped. apply push_skipped_inv; [exact F|].
  eapply pd_sorted_snoc; [apply (f_pd _ _ _ F)| | |]; cbn [pd_start pd_end].
  - lia.
  - lia.
  - rewrite (f_cw _ _ _ F), W_full. lia.
Qed.

(* a diagnostic at a position inside the consumed text *)
Lemma add_diag_inv src s k a :
  Inv src s -> a <= p_offset s + p_cur_w s -> Inv src (add_diag s k a a).
Proof.
  intros I Ha. pose proof (inv_end_le _ _ I) as Hle. destruct I. constructor; unfold add_diag; sp; auto.
  apply Forall_app. split; [assumption|]. constructor; [|constructor]. cbn. lia.
Qed.

Lemma is_eof_false k : is_eof k = false -> k <> TEndOfFile.
Proof. intros H E. rewrite E in H. discriminate. Qed.

Lemma skip_token_spec src k s : Inv src s -> Inv src (skip_token k s).
Proof.
  intros I. unfold skip_token. destruct (is_eof (peek_kind s)) eqn:E.
  - apply add_diag_inv; [exact I|]. pose proof (inv_ltw _ _ I). lia.
  - pose proof (take_raw_spec src s I (is_eof_false _ E)) as T. cbn zeta in T.
    destruct (take_raw s) as [t s1]. cbn [fst snd] in T. destruct T as [_ [F _]].
    apply append_skipped_spec. exact F.
Qed.

(* ---------- take ---------- *)
Lemma take_spec src s : Inv src s -> peek_kind s <> TEndOfFile -> Inv src (take src s).
Proof.
  intros I Hk. unfold take.
  pose proof (take_raw_spec src s I Hk) as T. cbn zeta in T.
  destruct (take_raw s) as [t s1]. cbn [fst snd] in T. destruct T as [_ [F _]].
  pose proof (add_trivia_spec src (t_kind t) t (p_offset s1) s1 (ltext (p_look s1) ++ rest (p_lex s1))
                (p_offset s1) (f_text _ _ _ F) (f_off _ _ _ F) (f_pd _ _ _ F)) as A.
  pose proof (end_le_src _ _ _ F) as Hle.
  specialize (A ltac:(lia) (f_cache _ _ _ F) (f_diags _ _ _ F)). cbn zeta in A.
  set (s2 := add_trivia_to_terminal src (t_kind t) t (p_offset s1) s1) in *.
  destruct A as [[e [E1 E2]] [A2 [A3 [A4 [A5 [A6 [A7 [A8 [A9 [A10 [A11 A12]]]]]]]]]]].
  constructor.
  - rewrite A6. apply (f_lex _ _ _ F).
  - rewrite E1, A2, A6, A8, etext_app, etext_one, E2. cbn [ptext map concat app].
    rewrite <- !app_assoc. apply (f_text _ _ _ F).
  - rewrite E1, A2, A9, A10, etext_app, etext_one, E2, (f_off _ _ _ F), (f_cw _ _ _ F).
    cbn [ptext map concat]. rewrite app_nil_r, !W_app. lia.
  - rewrite A10, A11, (f_ltw _ _ _ F), (f_cw _ _ _ F), W_full. lia.
  - unfold look_ok. rewrite A7, A8, A6. apply (f_look _ _ _ F).
  - rewrite A8. apply (f_look_ne _ _ _ F).
  - rewrite A3. cbn. lia.
  - intros _. exact A3.
  - exact A4.
  - exact A5.
  - rewrite A12. apply (f_nopanic _ _ _ F).
Qed.

Lemma add_diag_inv2 src s k a b :
  Inv src s -> a <= b -> b <= p_offset s + p_cur_w s -> Inv src (add_diag s k a b).
Proof.
  intros I Ha Hb. pose proof (inv_end_le _ _ I) as Hle. destruct I.
  constructor; unfold add_diag; sp; auto.
  apply Forall_app. split; [assumption|]. constructor; [|constructor]. cbn. lia.
Qed.

(* ---------- skip_until ---------- *)
Definition span_ok (span : option (N * N)) (s : pstate) : Prop :=
  match span with Some (a, b) => a <= b /\ b <= p_offset s + p_cur_w s | None => True end.

Lemma skip_until_go_spec src stop : stop TEndOfFile = true -> forall fuel span s,
  Inv src s -> span_ok span s ->
  let r := skip_until_go fuel stop span s in Inv src (snd r) /\ span_ok (fst r) (snd r).
Proof.
  intros Hstop. induction fuel as [|fuel IH]; intros span s I Hs; cbn [skip_until_go].
  - split; assumption.
  - destruct (stop (peek_kind s)) eqn:E; [split; assumption|].
    assert (Hk : peek_kind s <> TEndOfFile) by (intros H; rewrite H, Hstop in E; discriminate).
    pose proof (take_raw_spec src s I Hk) as T. cbn zeta in T.
    destruct (take_raw s) as [t s1]. cbn [fst snd] in T.
    destruct T as [_ [F [T1 [T2 [T3 T4]]]]].
    pose proof (f_off _ _ _ F) as Fo. pose proof (f_cw _ _ _ F) as Fc.
    apply IH.
    + apply push_skipped_inv; [exact F|].
      eapply pd_sorted_weaken; [apply (f_pd _ _ _ F)|lia].
    + unfold span_ok in *. sp.
      assert (Hold : p_offset s + p_cur_w s = p_offset s1).
      { rewrite Fo, T1, T2. apply (inv_off _ _ I). }
      rewrite Fc, W_full.
      destruct span as [[a b]|]; split; try lia.
Qed.

Lemma skip_until_spec src fuel stop k s :
  stop TEndOfFile = true -> Inv src s -> Inv src (skip_until fuel stop k s).
Proof.
  intros Hstop I. unfold skip_until.
  pose proof (skip_until_go_spec src stop Hstop fuel None s I Logic.I) as H. cbn zeta in H.
  destruct (skip_until_go fuel stop None s) as [span s1]. cbn [fst snd] in H. destruct H as [I1 H1].
  destruct span as [[a b]|]; [|exact I1]. destruct H1. apply add_diag_inv2; auto.
Qed.

(* ---------- skip_taken_node_with_offset ---------- *)
Lemma pop_width_spec : forall r w acc r' terms,
  pop_width w r acc = Some (r', terms) ->
  exists p, r = p ++ r' /\ terms = rev p ++ acc /\ W (etext (rev p)) = w.
Proof.
  induction r as [|e r IH]; intros w acc r' terms H; cbn [pop_width] in H.
  - destruct (w =? 0) eqn:E; [|discriminate]. injection H as <- <-. apply N.eqb_eq in E.
    exists []. subst. repeat split.
  - destruct (w =? 0) eqn:E.
    + injection H as <- <-. apply N.eqb_eq in E. exists []. subst. repeat split.
    + destruct (W (eterm_text e) <=? w) eqn:Le; [|discriminate]. apply N.leb_le in Le.
      destruct (IH _ _ _ _ H) as [p [H1 [H2 H3]]]. exists (e :: p). split; [|split].
      * cbn. f_equal. exact H1.
      * rewrite H2. cbn [rev]. rewrite <- app_assoc. reflexivity.
      * cbn [rev]. rewrite etext_app, etext_one, W_app, H3. lia.
Qed.

Lemma take_width_spec : forall l w g rest_,
  take_width w l = Some (g, rest_) -> l = g ++ rest_ /\ W (etext g) = w.
Proof.
  induction l as [|e l IH]; intros w g rest_ H; cbn [take_width] in H.
  - destruct (w =? 0) eqn:E; [|discriminate]. injection H as <- <-. apply N.eqb_eq in E.
    subst. split; reflexivity.
  - destruct (w =? 0) eqn:E.
    + injection H as <- <-. apply N.eqb_eq in E. subst. split; reflexivity.
    + destruct (W (eterm_text e) <=? w) eqn:Le; [|discriminate]. apply N.leb_le in Le.
      destruct (take_width (w - W (eterm_text e)) l) as [[g0 r0]|] eqn:T; [|discriminate].
      injection H as <- <-. destruct (IH _ _ _ T) as [H1 H2]. split.
      * cbn. f_equal. exact H1.
      * change (e :: g0) with ([e] ++ g0). rewrite etext_app, etext_one, W_app, H2. lia.
Qed.

Lemma split_nodes_spec : forall ws l gs,
  split_nodes ws l = Some gs ->
  concat gs = l /\ length gs = length ws.
Proof.
  induction ws as [|w ws IH]; intros l gs H; cbn [split_nodes] in H.
  - destruct l; [|discriminate]. injection H as <-. split; reflexivity.
  - destruct (take_width w l) as [[g r]|] eqn:T; [|discriminate].
    destruct (split_nodes ws r) as [gs0|] eqn:S; [|discriminate]. injection H as <-.
    destruct (take_width_spec _ _ _ _ T) as [H1 _]. destruct (IH _ _ S) as [H2 H3].
    split; cbn; [rewrite H2; symmetry; exact H1|f_equal; exact H3].
Qed.

Lemma ptext_skipped_nodes gs :
  ptext (map (fun g => PSkippedNode (etext g)) gs) = etext (concat gs).
Proof.
  induction gs as [|g gs IH]; [reflexivity|].
  cbn [map concat]. change (ptext (PSkippedNode (etext g) :: ?l)) with (etext g ++ ptext l).
  rewrite IH, etext_app. reflexivity.
Qed.

Lemma ends_ok_sorted : forall rn hi,
  ends_ok hi rn = true -> pd_sorted 0 (map node_pdiag (rev rn)) hi.
Proof.
  induction rn as [|[[[w tw] e] k] rn IH]; intros hi H; cbn [ends_ok] in H.
  - cbn. lia.
  - apply andb_true_iff in H. destruct H as [H H4]. apply andb_true_iff in H. destruct H as [H H3].
    apply andb_true_iff in H. destruct H as [H1 H2].
    apply N.leb_le in H1. apply N.leb_le in H2. apply N.leb_le in H3.
    cbn [rev]. rewrite map_app. cbn [map].
    eapply pd_sorted_snoc; [apply (IH (e - tw) H4)| | |]; cbn [node_pdiag pd_start pd_end]; lia.
Qed.

Lemma skip_taken_nodes_spec src nodes s :
  Inv src s -> op_ok s (OSkipTakenNodes nodes) = true -> Inv src (skip_taken_nodes nodes s).
Proof.
  intros I H. cbn [op_ok] in H.
  apply andb_true_iff in H. destruct H as [H He]. apply andb_true_iff in H. destruct H as [Hp Hs].
  destruct (p_pending s) as [|x pend] eqn:Ep; [|discriminate]. clear Hp.
  unfold skip_taken_nodes.
  destruct (pop_width (sumN (node_widths nodes)) (rev (p_emitted s)) []) as [[rr terms]|] eqn:Epop;
    [|discriminate].
  destruct (split_nodes (node_widths nodes) terms) as [gs|] eqn:Esp; [|discriminate].
  destruct (pop_width_spec _ _ _ _ _ Epop) as [p [P1 [P2 P3]]]. rewrite app_nil_r in P2.
  destruct (split_nodes_spec _ _ _ Esp) as [S1 S2].
  assert (Hem : p_emitted s = rev rr ++ terms).
  { rewrite <- (rev_involutive (p_emitted s)), P1, rev_app_distr, P2. reflexivity. }
  pose proof (inv_pd_empty _ _ I Ep) as Hpd0.
  destruct I. rewrite Ep in *. constructor; sp; cbn [app]; auto.
  - rewrite ptext_skipped_nodes, S1. rewrite Hem, etext_app, <- !app_assoc in inv_text0.
    cbn [ptext map concat app] in inv_text0. exact inv_text0.
  - rewrite ptext_skipped_nodes, S1, inv_off0, Hem, etext_app. cbn [ptext map concat].
    rewrite app_nil_r. reflexivity.
  - rewrite Hpd0. cbn [app]. rewrite <- (rev_involutive nodes). apply ends_ok_sorted. exact He.
  - intros Hn. rewrite Hpd0. cbn [app]. destruct gs; [|discriminate].
    cbn [length] in S2. unfold node_widths in S2. rewrite map_length in S2.
    destruct nodes; [reflexivity|discriminate].
Qed.

(* ---------- unglue ---------- *)
Lemma tkind_eqb_eq a b : tkind_eqb a b = true -> a = b.
Proof.
  unfold tkind_eqb. intros H. apply N.eqb_eq in H.
  destruct a, b; try reflexivity; cbn in H; discriminate.
Qed.

Lemma is_eof_true k : is_eof k = true -> k = TEndOfFile.
Proof. destruct k; try discriminate; reflexivity. Qed.

Lemma unglue_spec src orig k1 k2 a b s :
  Inv src s -> op_ok s (OUnglue orig k1 k2 a b) = true -> Inv src (unglue orig k1 k2 a b s).
Proof.
  intros I H. cbn [op_ok] in H. unfold unglue.
  destruct (tkind_eqb (peek_kind s) orig) eqn:Ek; cbn [negb] in *; [|exact I].
  cbn [orb] in H. apply andb_true_iff in H. destruct H as [H H4].
  apply andb_true_iff in H. destruct H as [H H3]. apply andb_true_iff in H. destruct H as [H1 H2].
  apply str_eqb_true in H1. apply tkind_eqb_eq in Ek.
  assert (Hk : peek_kind s <> TEndOfFile).
  { rewrite Ek. intros E. rewrite E in H2. discriminate. }
  pose proof (advance_spec src s I Hk) as A. cbn zeta in A.
  destruct (advance s) as [o s1]. cbn [fst snd] in A.
  destruct A as [A1 [A2 [A3 [A4 [A5 _]]]]].
  destruct A5 as [B1 [B2 [B3 [B4 [B5 [B6 [B7 [B8 B9]]]]]]]].
  destruct A2 as [L T K]. unfold set_look in L, T. sp.
  subst o.
  constructor; unfold set_look; sp.
  - exact L.
  - rewrite !ltext_cons. rewrite ltext_cons in T. rewrite <- T.
    unfold terminal_full_text at 1 2 3. cbn [t_leading t_text t_trailing trivia_text map concat].
    rewrite H1, app_nil_r, <- !app_assoc. reflexivity.
  - rewrite B1, B2, B3, B4. apply (inv_off _ _ I).
  - rewrite B5, B4. apply (inv_ltw _ _ I).
  - unfold look_ok in A4 |- *. sp. destruct (p_eof s1).
    + destruct A4 as [l [t [Hl [Hn [Ht Hr]]]]]. rewrite Hl.
      eexists (_ :: _ :: l), t. split; [reflexivity|]. repeat split; auto.
      constructor; [cbn; intros E; rewrite E in H3; discriminate|].
      constructor; [cbn; intros E; rewrite E in H4; discriminate|exact Hn].
    + constructor; [cbn; intros E; rewrite E in H3; discriminate|].
      constructor; [cbn; intros E; rewrite E in H4; discriminate|exact A4].
  - discriminate.
  - rewrite B6, B3, B4. apply (inv_pd _ _ I).
  - rewrite B2, B6. apply (inv_pd_empty _ _ I).
  - rewrite B7. apply (inv_cache _ _ I).
  - rewrite B8. apply (inv_diags _ _ I).
  - rewrite B9. apply (inv_nopanic _ _ I).
Qed.

(* ---------- take_doc ---------- *)
Lemma trivia_text_app a b : trivia_text (a ++ b) = trivia_text a ++ trivia_text b.
Proof. unfold trivia_text. rewrite map_app, concat_app. reflexivity. Qed.

Lemma take_doc_spec src s : Inv src s -> Inv src (take_doc src s).
Proof.
  intros I. unfold take_doc.
  destruct (p_look s) as [|next look'] eqn:El; [exfalso; apply (inv_look_ne _ _ I); exact El|].
  destruct (doc_split (t_leading next) false 0) as [has idx].
  destruct has; cbn [negb]; [|exact I].
  set (header := firstn idx (t_leading next)).
  set (next' := {| t_kind := t_kind next; t_text := t_text next;
                   t_leading := skipn idx (t_leading next); t_trailing := t_trailing next |}).
  set (empty := {| t_kind := TEmpty; t_text := []; t_leading := header; t_trailing := [] |}).
  set (s0 := {| p_lex := p_lex s; p_eof := p_eof s; p_look := next' :: look';
                p_pending := p_pending s; p_offset := p_offset s + terminal_width empty;
                p_cur_w := p_cur_w s; p_last_tw := p_last_tw s; p_pdiags := p_pdiags s;
                p_cache := p_cache s; p_emitted := p_emitted s; p_diags := p_diags s;
                p_panicked := p_panicked s |}).
  assert (Hfe : terminal_full_text empty = trivia_text header).
  { unfold terminal_full_text. cbn [t_leading t_text t_trailing trivia_text map concat].
    rewrite app_nil_r. reflexivity. }
  assert (Hsplit : terminal_full_text next = trivia_text header ++ terminal_full_text next').
  { unfold terminal_full_text. cbn [t_leading t_text t_trailing].
    rewrite <- (firstn_skipn idx (t_leading next)) at 1. rewrite trivia_text_app, <- app_assoc.
    reflexivity. }
  pose proof (inv_text _ _ I) as T. rewrite El, ltext_cons, Hsplit, <- !app_assoc in T.
  pose proof (add_trivia_spec src TEmpty empty (p_offset s + p_cur_w s) s0
                (terminal_full_text next' ++ ltext look' ++ rest (p_lex s))
                (p_offset s + p_cur_w s)) as A.
  unfold s0 in A at 1 2 3 4 5 6 7. sp. rewrite Hfe in A.
  specialize (A T (inv_off _ _ I) (inv_pd _ _ I) (inv_end_le _ _ I) (inv_cache _ _ I)
                (inv_diags _ _ I)).
  set (s2 := add_trivia_to_terminal src TEmpty empty (p_offset s + p_cur_w s) s0) in *.
  destruct A as [[e [E1 E2]] [A2 [A3 [A4 [A5 [A6 [A7 [A8 [A9 [A10 [A11 A12]]]]]]]]]]].
  unfold s0 in A6, A7, A8, A9, A10, A11, A12, E1, E2. sp.
  constructor.
  - rewrite A6. apply (inv_lex _ _ I).
  - rewrite E1, A2, A6, A8, etext_app, etext_one, E2, ltext_cons. cbn [ptext map concat app].
    rewrite <- !app_assoc. exact T.
  - rewrite E1, A2, A9, A10, etext_app, etext_one, E2. cbn [ptext map concat]. rewrite app_nil_r.
    rewrite terminal_width_text, Hfe, !W_app. pose proof (inv_off _ _ I) as O. rewrite W_app in O. lia.
  - rewrite A10, A11. apply (inv_ltw _ _ I).
  - pose proof (inv_look _ _ I) as K. unfold look_ok in K |- *. rewrite A7, A8, A6, El in *.
    destruct (p_eof s).
    + destruct K as [l [t [Hl [Hn [Ht Hr]]]]]. destruct l as [|x l]; cbn in Hl.
      * injection Hl as -> ->. exists [], next'. repeat split; auto.
      * injection Hl as -> ->. exists (next' :: l), t. inversion Hn; subst.
        repeat split; auto. constructor; auto.
    + inversion K; subst. constructor; auto.
  - rewrite A8. discriminate.
  - rewrite A3. cbn. lia.
  - intros _. exact A3.
  - exact A4.
  - exact A5.
  - rewrite A12. apply (inv_nopanic _ _ I).
Qed.

(* ---------- create_and_report_missing ---------- *)
Lemma report_missing_spec src k s : Inv src s -> Inv src (report_missing k s).
Proof.
  intros I. unfold report_missing. apply add_diag_inv; [exact I|]. pose proof (inv_ltw _ _ I). lia.
Qed.

(* ---------- Parser::new ---------- *)
Lemma parser_new_inv src : Inv src (parser_new src).
Proof.
  unfold parser_new.
  set (s0 := {| p_lex := lexer_new src; p_eof := false; p_look := []; p_pending := [];
                p_offset := 0; p_cur_w := 0; p_last_tw := 0; p_pdiags := []; p_cache := [];
                p_emitted := []; p_diags := []; p_panicked := false |}).
  assert (L0 : LInv src s0) by (constructor; [reflexivity|reflexivity|constructor]).
  pose proof (ensure_go_spec src 2 2 s0 L0) as H. cbn zeta in H.
  fold (ensure_next_k_exists 2 s0) in H.
  destruct H as [J1 [_ [_ [J4 J5]]]].
  set (s1 := ensure_next_k_exists 2 s0) in *.
  destruct J4 as [B1 [B2 [B3 [B4 [B5 [B6 [B7 [B8 B9]]]]]]]].
  unfold s0 in B1, B2, B3, B4, B5, B6, B7, B8, B9. sp. destruct J1 as [L T K].
  constructor.
  - exact L.
  - exact T.
  - rewrite B1, B2, B3, B4. reflexivity.
  - rewrite B4, B5. lia.
  - exact K.
  - specialize (J5 ltac:(cbn; lia)). destruct J5 as [J5|J5].
    + unfold look_ok in K. rewrite J5 in K. destruct K as [l [t [Hl _]]]. rewrite Hl.
      destruct l; discriminate.
    + destruct (p_look s1); [cbn in J5; lia|discriminate].
  - rewrite B6. cbn. lia.
  - intros _. exact B6.
  - rewrite B7. constructor.
  - rewrite B8. constructor.
  - exact B9.
Qed.

(* ---------- every operation, every sequence ---------- *)
Lemma run_op_inv src s o : Inv src s -> op_ok s o = true -> Inv src (run_op src s o).
Proof.
  intros I H. destruct o; cbn [run_op].
  - apply take_spec; [exact I|]. cbn [op_ok] in H. apply is_eof_false.
    destruct (is_eof (peek_kind s)); [discriminate|reflexivity].
  - apply skip_token_spec. exact I.
  - apply skip_until_spec; [exact H|exact I].
  - apply skip_taken_nodes_spec; assumption.
  - apply unglue_spec; assumption.
  - apply take_doc_spec. exact I.
  - apply report_missing_spec. exact I.
Qed.

Lemma ops_ok_from_inv src : forall ops s,
  Inv src s -> ops_ok_from src s ops = true -> Inv src (fold_left (run_op src) ops s).
Proof.
  induction ops as [|o ops IH]; intros s I H; cbn [fold_left]; [exact I|].
  cbn [ops_ok_from] in H. apply andb_true_iff in H. destruct H as [H1 H2].
  apply IH; [apply run_op_inv; assumption|exact H2].
Qed.

Theorem plumbing_invariant src ops : ops_ok src ops = true -> Inv src (run_ops src ops).
Proof. intros H. apply ops_ok_from_inv; [apply parser_new_inv|exact H]. Qed.

(* ---------- the end of parse_syntax_file ---------- *)
Lemma finish_file_spec src s :
  Inv src s -> peek_kind s = TEndOfFile ->
  etext (p_emitted (finish_file src s)) = src
  /\ Forall (diag_in src) (p_diags (finish_file src s))
  /\ p_pending (finish_file src s) = [] /\ p_panicked (finish_file src s) = false.
Proof.
  intros I Hk. unfold finish_file.
  set (s0 := {| p_lex := p_lex s; p_eof := p_eof s; p_look := p_look s; p_pending := p_pending s;
                p_offset := p_offset s + p_cur_w s; p_cur_w := p_cur_w s;
                p_last_tw := p_last_tw s; p_pdiags := p_pdiags s; p_cache := p_cache s;
                p_emitted := p_emitted s; p_diags := p_diags s; p_panicked := p_panicked s |}).
  (* the look-ahead is exactly [EndOfFile] and the lexer is exhausted *)
  pose proof (inv_look _ _ I) as K. pose proof (inv_look_ne _ _ I) as Hne.
  unfold look_ok in K. unfold peek_kind, peek_term in Hk.
  destruct (p_look s) as [|t0 l0] eqn:El; [congruence|]. cbn [hd] in Hk.
  assert (Hl : l0 = [] /\ rest (p_lex s) = []).
  { destruct (p_eof s).
    - destruct K as [l [t [Hl [Hn [Ht Hr]]]]]. destruct l as [|x l]; cbn in Hl.
      + injection Hl as -> ->. auto.
      + injection Hl as -> ->. inversion Hn; subst. contradiction.
    - inversion K; subst. contradiction. }
  destruct Hl as [-> Hr].
  assert (Hpeek : peek_term s0 = t0) by (unfold peek_term, s0; sp; try rewrite El; reflexivity).
  rewrite Hpeek.
  pose proof (inv_text _ _ I) as T. rewrite El, Hr in T. unfold ltext in T. cbn [map concat] in T.
  rewrite !app_nil_r in T.
  pose proof (add_trivia_spec src TEndOfFile t0 (p_offset s0) s0 [] (p_offset s + p_cur_w s)) as A.
  unfold s0 in A at 1 2 3 4 5 6 7 8. sp. rewrite app_nil_r in A.
  specialize (A T (inv_off _ _ I) (inv_pd _ _ I) (inv_end_le _ _ I) (inv_cache _ _ I)
                (inv_diags _ _ I)).
  destruct A as [[e [E1 E2]] [A2 [A3 [A4 [A5 [A6 [A7 [A8 [A9 [A10 [A11 A12]]]]]]]]]]].
  split; [|split; [exact A5|split; [exact A2|]]].
  - rewrite E1, etext_app, etext_one, E2. exact T.
  - rewrite A12. unfold s0. sp. apply (inv_nopanic _ _ I).
Qed.

Theorem file_lossless src ops :
  ops_ok src ops = true -> peek_kind (run_ops src ops) = TEndOfFile ->
  etext (p_emitted (finish_file src (run_ops src ops))) = src.
Proof. intros H Hk. apply finish_file_spec; [apply plumbing_invariant; exact H|exact Hk]. Qed.

Theorem diag_in_file src ops :
  ops_ok src ops = true ->
  Forall (diag_in src) (p_diags (run_ops src ops))
  /\ (peek_kind (run_ops src ops) = TEndOfFile ->
      Forall (diag_in src) (p_diags (finish_file src (run_ops src ops)))).
Proof.
  intros H. pose proof (plumbing_invariant src ops H) as I. split; [apply (inv_diags _ _ I)|].
  intros Hk. apply finish_file_spec; assumption.
Qed.

(* known finding F1, in the model: a skip_taken_node call while tokens skipped after the node sit
   in pending_trivia (so [ops_ok] fails) permutes the text *)
Definition f1_src : str := str_of_string "#fn".
Definition f1_ops : list op :=
  [OTakeDoc; OTake; OMissing 0; OSkipToken 1; OMissing 0; OSkipTakenNodes [(1, 0, 3, 2)]].
Theorem skipped_node_after_skips_refuted :
  ops_ok f1_src f1_ops = false
  /\ peek_kind (run_ops f1_src f1_ops) = TEndOfFile
  /\ etext (p_emitted (finish_file f1_src (run_ops f1_src f1_ops))) = str_of_string "fn#".
Proof. vm_compute. repeat split. Qed.

(* the conjuncts of the invariant that the property statement quotes *)
Theorem plumbing_invariant_explicit src ops : ops_ok src ops = true ->
  let s := run_ops src ops in
  etext (p_emitted s) ++ ptext (p_pending s) ++ ltext (p_look s) ++ rest (p_lex s) = src
  /\ p_offset s + p_cur_w s = str_width (etext (p_emitted s) ++ ptext (p_pending s))
  /\ p_last_tw s <= p_cur_w s
  /\ Forall (fun kv => ptext (snd kv) = fst kv) (p_cache s)
  /\ p_panicked s = false.
Proof.
  intros H. pose proof (plumbing_invariant src ops H) as I. cbn zeta.
  split; [apply (inv_text _ _ I)|]. split; [apply (inv_off _ _ I)|]. split; [apply (inv_ltw _ _ I)|].
  split; [apply (inv_cache _ _ I)|apply (inv_nopanic _ _ I)].
Qed.

Theorem plumbing_unconditional_refuted :
  exists src ops,
    peek_kind (run_ops src ops) = TEndOfFile
    /\ p_panicked (finish_file src (run_ops src ops)) = false
    /\ etext (p_emitted (finish_file src (run_ops src ops))) <> src.
Proof.
  exists f1_src, f1_ops. split; [vm_compute; reflexivity|]. split; [vm_compute; reflexivity|].
  vm_compute. discriminate.
Qed.
