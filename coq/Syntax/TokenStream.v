(* Syntax/TokenStream.v -- model of the parser's *token plumbing* (crates/cairo-lang-parser/src/
   parser.rs, line numbers as of /repo b48894d): struct Parser fields lexer / current_terminals /
   eof / pending_trivia / offset / current_width / last_trivia_length /
   pending_skipped_token_diagnostics / trivia_greens (48-81), advance / ensure_next_k_exists
   (104-122), Parser::new (184-213), create_and_report_missing (328-337), parse_syntax_file's final
   step (349-378), unglue (3588-3628), take_raw (3631-3638), skip_token (3642-3654),
   append_skipped_token_to_pending_trivia (3658-3680), skip_taken_node_with_offset (3700-3735),
   skip_until (3758-3787), add_trivia_to_terminal (3792-3842), trivia_green (3846-3858),
   consume_pending_skipped_diagnostics (3862-3912), take (3916-3923), take_doc (3927-3975).
   The grammar (which operation comes next) is NOT modelled: [op] lists what the grammar can ask
   of the plumbing, [run_ops] executes any sequence of them.  Texts are lists of Unicode scalar
   values, offsets and widths are byte counts.  Rust `unwrap`/index panics of the plumbing become
   explicit do-nothing branches marked (panic); [op_ok] says when an op stays clear of them.
   Model file: no proofs. *)
From Syntax Require Import Lexer Green.

(* TriviumGreen in pending_trivia: a lexer trivium, TokenSkipped(text), or TriviumSkippedNode
   (only the text under the node matters to the plumbing) *)
Inductive ptrivium :=
  | PLex (tv : trivium)
  | PSkipped (text : str)
  | PSkippedNode (text : str).
Definition ptv_text (p : ptrivium) : str :=
  match p with PLex tv => tv_text tv | PSkipped t => t | PSkippedNode t => t end.
Definition ptext (l : list ptrivium) : str := concat (map ptv_text l).
Definition pwidth (l : list ptrivium) : N := fold_right (fun p a => str_width (ptv_text p) + a) 0 l.
Definition plex (l : list trivium) : list ptrivium := map PLex l.

(* a terminal green handed to the grammar by take / take_doc / the final EndOfFile *)
Record eterm := { e_kind : tkind; e_lead : list ptrivium; e_text : str; e_trail : list ptrivium }.
Definition eterm_text (e : eterm) : str := ptext (e_lead e) ++ e_text e ++ ptext (e_trail e).
Definition etext (l : list eterm) : str := concat (map eterm_text l).
Definition ltext (l : list terminal) : str := concat (map terminal_full_text l).

(* PendingParserDiagnostic; the kind is an opaque tag *)
Record pdiag := { pd_kind : N; pd_start : N; pd_end : N; pd_lead_start : N; pd_trail_end : N }.

Record pstate := {
  p_lex : lexer;                       (* lexer *)
  p_eof : bool;                        (* eof *)
  p_look : list terminal;              (* current_terminals *)
  p_pending : list ptrivium;           (* pending_trivia *)
  p_offset : N;                        (* offset *)
  p_cur_w : N;                         (* current_width *)
  p_last_tw : N;                       (* last_trivia_length *)
  p_pdiags : list pdiag;               (* pending_skipped_token_diagnostics *)
  p_cache : list (str * list ptrivium);(* trivia_greens, keyed by source text *)
  p_emitted : list eterm;              (* every terminal green handed out, in order *)
  p_diags : list (N * N * N);          (* reported diagnostics: kind tag, span start, span end *)
  p_panicked : bool                    (* an unwrap / index of the plumbing would have panicked *)
}.

Definition set_look s l := {| p_lex := p_lex s; p_eof := p_eof s; p_look := l; p_pending := p_pending s;
  p_offset := p_offset s; p_cur_w := p_cur_w s; p_last_tw := p_last_tw s; p_pdiags := p_pdiags s;
  p_cache := p_cache s; p_emitted := p_emitted s; p_diags := p_diags s; p_panicked := p_panicked s |}.
Definition set_panicked s := {| p_lex := p_lex s; p_eof := p_eof s; p_look := p_look s;
  p_pending := p_pending s; p_offset := p_offset s; p_cur_w := p_cur_w s; p_last_tw := p_last_tw s;
  p_pdiags := p_pdiags s; p_cache := p_cache s; p_emitted := p_emitted s; p_diags := p_diags s;
  p_panicked := true |}.
Definition add_diag s (k a b : N) := {| p_lex := p_lex s; p_eof := p_eof s; p_look := p_look s;
  p_pending := p_pending s; p_offset := p_offset s; p_cur_w := p_cur_w s; p_last_tw := p_last_tw s;
  p_pdiags := p_pdiags s; p_cache := p_cache s; p_emitted := p_emitted s;
  p_diags := p_diags s ++ [(k, a, b)]; p_panicked := p_panicked s |}.

(* ---- ensure_next_k_exists / advance / Parser::new ---- *)
Definition pull (s : pstate) : pstate :=
  let (t, l') := match_terminal (p_lex s) in
  {| p_lex := l'; p_eof := is_eof (t_kind t); p_look := p_look s ++ [t]; p_pending := p_pending s;
     p_offset := p_offset s; p_cur_w := p_cur_w s; p_last_tw := p_last_tw s; p_pdiags := p_pdiags s;
     p_cache := p_cache s; p_emitted := p_emitted s; p_diags := p_diags s;
     p_panicked := p_panicked s |}.
(* while !eof && len < k: at most k iterations *)
Fixpoint ensure_go (fuel k : nat) (s : pstate) : pstate :=
  match fuel with
  | O => s
  | S fuel' =>
      if p_eof s || Nat.leb k (length (p_look s)) then s else ensure_go fuel' k (pull s)
  end.
Definition ensure_next_k_exists (k : nat) (s : pstate) : pstate := ensure_go k k s.

Definition parser_new (src : str) : pstate :=
  ensure_next_k_exists 2
    {| p_lex := lexer_new src; p_eof := false; p_look := []; p_pending := []; p_offset := 0;
       p_cur_w := 0; p_last_tw := 0; p_pdiags := []; p_cache := []; p_emitted := []; p_diags := [];
       p_panicked := false |}.

Definition dummy_terminal : terminal :=
  {| t_kind := TEndOfFile; t_text := []; t_leading := []; t_trailing := [] |}.
(* next_terminal(): current_terminals[0] *)
Definition peek_term (s : pstate) : terminal := hd dummy_terminal (p_look s).
Definition peek_kind (s : pstate) : tkind := t_kind (peek_term s).

(* advance: ensure 3, pop_front().unwrap() *)
Definition advance (s : pstate) : terminal * pstate :=
  let s := ensure_next_k_exists 3 s in
  match p_look s with
  | t :: l => (t, set_look s l)
  | [] => (dummy_terminal, set_panicked s)          (* (panic) unwrap on an empty deque *)
  end.

(* take_raw *)
Definition take_raw (s : pstate) : terminal * pstate :=
  let (t, s) := advance s in
  (t, {| p_lex := p_lex s; p_eof := p_eof s; p_look := p_look s; p_pending := p_pending s;
         p_offset := p_offset s + p_cur_w s; p_cur_w := terminal_width t;
         p_last_tw := trivia_width (t_trailing t); p_pdiags := p_pdiags s; p_cache := p_cache s;
         p_emitted := p_emitted s; p_diags := p_diags s; p_panicked := p_panicked s |}).

(* append_skipped_token_to_pending_trivia *)
Definition append_skipped (t : terminal) (kind : N) (s : pstate) : pstate :=
  let orig_offset := p_offset s in
  let diag_start := p_offset s + trivia_width (t_leading t) in
  let diag_end := diag_start + str_width (t_text t) in
  {| p_lex := p_lex s; p_eof := p_eof s; p_look := p_look s;
     p_pending := p_pending s ++ plex (t_leading t) ++ [PSkipped (t_text t)] ++ plex (t_trailing t);
     p_offset := p_offset s; p_cur_w := p_cur_w s; p_last_tw := p_last_tw s;
     p_pdiags := p_pdiags s ++ [{| pd_kind := kind; pd_start := diag_start; pd_end := diag_end;
                                   pd_lead_start := orig_offset;
                                   pd_trail_end := diag_end + trivia_width (t_trailing t) |}];
     p_cache := p_cache s; p_emitted := p_emitted s; p_diags := p_diags s;
     p_panicked := p_panicked s |}.

(* skip_token *)
Definition skip_token (kind : N) (s : pstate) : pstate :=
  if is_eof (peek_kind s) then
    let next_offset := p_offset s + (p_cur_w s - p_last_tw s) in
    add_diag s kind next_offset next_offset
  else
    let (t, s) := take_raw s in append_skipped t kind s.

(* skip_until; the loop runs while !should_stop(peek kind); [fuel] bounds the iterations (the
   Rust loop has no bound: it ends because should_stop(EndOfFile) holds at every call site).
   The returned SkippedError span is recorded as a diagnostic with tag [kind]. *)
Fixpoint skip_until_go (fuel : nat) (stop : tkind -> bool) (span : option (N * N)) (s : pstate)
  : option (N * N) * pstate :=
  match fuel with
  | O => (span, s)
  | S fuel' =>
      if stop (peek_kind s) then (span, s)
      else
        let (t, s) := take_raw s in
        let text_start := p_offset s + trivia_width (t_leading t) in
        let diag_start := match span with Some (a, _) => a | None => text_start end in
        let diag_end := text_start + str_width (t_text t) in
        let s := {| p_lex := p_lex s; p_eof := p_eof s; p_look := p_look s;
                    p_pending := p_pending s ++ plex (t_leading t) ++ [PSkipped (t_text t)]
                                 ++ plex (t_trailing t);
                    p_offset := p_offset s; p_cur_w := p_cur_w s; p_last_tw := p_last_tw s;
                    p_pdiags := p_pdiags s; p_cache := p_cache s; p_emitted := p_emitted s;
                    p_diags := p_diags s; p_panicked := p_panicked s |} in
        skip_until_go fuel' stop (Some (diag_start, diag_end)) s
  end.
Definition skip_until (fuel : nat) (stop : tkind -> bool) (kind : N) (s : pstate) : pstate :=
  let (span, s) := skip_until_go fuel stop None s in
  match span with Some (a, b) => add_diag s kind a b | None => s end.

(* skip_taken_node_with_offset.  The grammar calls it for nodes it has already built from greens
   the plumbing handed out: they leave the grammar's tree and come back as TriviumSkippedNode
   trivia.  Consecutive calls (attributes, visibility, path in try_parse_module_item) are one
   operation here: [nodes] lists, in call order, (text width of the node, trailing_trivia_width
   of the node, end_of_node_offset, diagnostic tag); together the nodes are the last terminals
   handed out. *)
Fixpoint pop_width (w : N) (rev_emitted : list eterm) (acc : list eterm)
  : option (list eterm * list eterm) :=
  if w =? 0 then Some (rev_emitted, acc)
  else match rev_emitted with
       | [] => None
       | e :: r =>
           let we := str_width (eterm_text e) in
           if we <=? w then pop_width (w - we) r (e :: acc) else None
       end.
(* the first terminals of [l] of total width exactly [w] *)
Fixpoint take_width (w : N) (l : list eterm) : option (list eterm * list eterm) :=
  if w =? 0 then Some ([], l)
  else match l with
       | [] => None
       | e :: r =>
           let we := str_width (eterm_text e) in
           if we <=? w then
             match take_width (w - we) r with
             | Some (g, rest) => Some (e :: g, rest)
             | None => None
             end
           else None
       end.
Fixpoint split_nodes (ws : list N) (l : list eterm) : option (list (list eterm)) :=
  match ws with
  | [] => match l with [] => Some [] | _ => None end
  | w :: ws' =>
      match take_width w l with
      | Some (g, rest) =>
          match split_nodes ws' rest with Some gs => Some (g :: gs) | None => None end
      | None => None
      end
  end.
Definition node_widths (nodes : list (N * N * N * N)) : list N := map (fun '(w, _, _, _) => w) nodes.
Definition sumN (l : list N) : N := fold_right N.add 0 l.
Definition node_pdiag (n : N * N * N * N) : pdiag :=
  let '(w, trail_w, end_off, kind) := n in
  {| pd_kind := kind; pd_start := end_off - trail_w; pd_end := end_off - trail_w;
     pd_lead_start := end_off - w; pd_trail_end := end_off |}.
Definition skip_taken_nodes (nodes : list (N * N * N * N)) (s : pstate) : pstate :=
  match pop_width (sumN (node_widths nodes)) (rev (p_emitted s)) [] with
  | None => set_panicked s                           (* not the last terminals handed out *)
  | Some (rest_rev, terms) =>
      match split_nodes (node_widths nodes) terms with
      | None => set_panicked s
      | Some groups =>
          {| p_lex := p_lex s; p_eof := p_eof s; p_look := p_look s;
             p_pending := p_pending s ++ map (fun g => PSkippedNode (etext g)) groups;
             p_offset := p_offset s; p_cur_w := p_cur_w s; p_last_tw := p_last_tw s;
             p_pdiags := p_pdiags s ++ map node_pdiag nodes;
             p_cache := p_cache s; p_emitted := rev rest_rev; p_diags := p_diags s;
             p_panicked := p_panicked s |}
      end
  end.

(* consume_pending_skipped_diagnostics: merge consecutive similar ones *)
Fixpoint merge_pdiags (cur : pdiag) (l : list pdiag) : list (N * N * N) :=
  match l with
  | [] => [(pd_kind cur, pd_start cur, pd_end cur)]
  | d :: l' =>
      if (pd_kind d =? pd_kind cur) && (pd_trail_end cur =? pd_lead_start d) then
        merge_pdiags {| pd_kind := pd_kind d; pd_start := pd_start cur; pd_end := pd_end d;
                        pd_lead_start := pd_lead_start cur; pd_trail_end := pd_trail_end d |} l'
      else (pd_kind cur, pd_start cur, pd_end cur) :: merge_pdiags d l'
  end.
Definition consume_pdiags (l : list pdiag) : list (N * N * N) :=
  match l with [] => [] | d :: l' => merge_pdiags d l' end.

(* trivia_green: the cache of pure-whitespace trivia lists keyed by the *source text at the span* *)
Definition is_ws_byte_char (c : char) : bool :=
  (c =? c_space) || (c =? c_tab) || (c =? c_cr) || (c =? c_nl).
Fixpoint cache_lookup (k : str) (c : list (str * list ptrivium)) : option (list ptrivium) :=
  match c with
  | [] => None
  | (k', v) :: c' => if str_eqb k k' then Some v else cache_lookup k c'
  end.
Definition trivia_green (src : str) (cache : list (str * list ptrivium)) (trivia : list ptrivium)
  (start end_ : N) : list ptrivium * list (str * list ptrivium) :=
  match trivia with
  | [] => ([], cache)                                 (* empty_trivia *)
  | _ =>
      let text := slice_bytes src start (end_ - start) in
      if forallb is_ws_byte_char text then
        match cache_lookup text cache with
        | Some v => (v, cache)
        | None => (trivia, (text, trivia) :: cache)
        end
      else (trivia, cache)
  end.

(* add_trivia_to_terminal *)
Definition add_trivia_to_terminal (src : str) (kind : tkind) (t : terminal) (terminal_start : N)
  (s : pstate) : pstate :=
  let pending := p_pending s in
  let diags := consume_pdiags (p_pdiags s) in
  let leading_start := terminal_start - pwidth pending in
  let leading_end := terminal_start + trivia_width (t_leading t) in
  let trailing_start := leading_end + str_width (t_text t) in
  let trailing_end := trailing_start + trivia_width (t_trailing t) in
  let leading := match pending with [] => plex (t_leading t) | _ => pending ++ plex (t_leading t) end in
  let (lead_g, cache) := trivia_green src (p_cache s) leading leading_start leading_end in
  let (trail_g, cache) := trivia_green src cache (plex (t_trailing t)) trailing_start trailing_end in
  {| p_lex := p_lex s; p_eof := p_eof s; p_look := p_look s; p_pending := [];
     p_offset := p_offset s; p_cur_w := p_cur_w s; p_last_tw := p_last_tw s; p_pdiags := [];
     p_cache := cache;
     p_emitted := p_emitted s ++ [{| e_kind := kind; e_lead := lead_g; e_text := t_text t;
                                     e_trail := trail_g |}];
     p_diags := p_diags s ++ diags; p_panicked := p_panicked s |}.

(* take::<Terminal> (the assert_eq on the kind is the grammar's business) *)
Definition take (src : str) (s : pstate) : pstate :=
  let (t, s) := take_raw s in
  add_trivia_to_terminal src (t_kind t) t (p_offset s) s.

(* take_doc *)
Fixpoint doc_split (l : list trivium) (has : bool) (idx : nat) : bool * nat :=
  match l with
  | [] => (has, idx)
  | tv :: l' =>
      match tv_kind tv with
      | TvSingleLineComment | TvSingleLineInnerComment => doc_split l' true (S idx)
      | TvSingleLineDocComment => (has, idx)
      | _ => doc_split l' has (S idx)
      end
  end.
Definition take_doc (src : str) (s : pstate) : pstate :=
  match p_look s with
  | [] => set_panicked s                              (* (panic) current_terminals[0] *)
  | next :: look' =>
      let (has, idx) := doc_split (t_leading next) false O in
      if negb has then s
      else
        let header := firstn idx (t_leading next) in
        let next' := {| t_kind := t_kind next; t_text := t_text next;
                        t_leading := skipn idx (t_leading next); t_trailing := t_trailing next |} in
        let empty := {| t_kind := TEmpty; t_text := []; t_leading := header; t_trailing := [] |} in
        let terminal_start := p_offset s + p_cur_w s in
        let s := {| p_lex := p_lex s; p_eof := p_eof s; p_look := next' :: look';
                    p_pending := p_pending s; p_offset := p_offset s + terminal_width empty;
                    p_cur_w := p_cur_w s; p_last_tw := p_last_tw s; p_pdiags := p_pdiags s;
                    p_cache := p_cache s; p_emitted := p_emitted s; p_diags := p_diags s;
                    p_panicked := p_panicked s |} in
        add_trivia_to_terminal src TEmpty empty terminal_start s
  end.

(* unglue::<Original, First, Second>(first, second) *)
Definition unglue (orig k1 k2 : tkind) (first second : str) (s : pstate) : pstate :=
  if negb (tkind_eqb (peek_kind s) orig) then s
  else
    let (o, s) := advance s in
    set_look s ({| t_kind := k1; t_text := first; t_leading := t_leading o; t_trailing := [] |}
                :: {| t_kind := k2; t_text := second; t_leading := []; t_trailing := t_trailing o |}
                :: p_look s).

(* create_and_report_missing *)
Definition report_missing (kind : N) (s : pstate) : pstate :=
  let next_offset := p_offset s + (p_cur_w s - p_last_tw s) in
  add_diag s kind next_offset next_offset.

(* the last step of parse_syntax_file: offset += current_width; the EndOfFile terminal gets the
   pending trivia *)
Definition finish_file (src : str) (s : pstate) : pstate :=
  let s := {| p_lex := p_lex s; p_eof := p_eof s; p_look := p_look s; p_pending := p_pending s;
              p_offset := p_offset s + p_cur_w s; p_cur_w := p_cur_w s; p_last_tw := p_last_tw s;
              p_pdiags := p_pdiags s; p_cache := p_cache s; p_emitted := p_emitted s;
              p_diags := p_diags s; p_panicked := p_panicked s |} in
  let t := peek_term s in                             (* next_terminal().clone(): not popped *)
  add_trivia_to_terminal src TEndOfFile t (p_offset s) s.

(* ---- what the grammar can ask ---- *)
Inductive op :=
  | OTake
  | OSkipToken (kind : N)
  | OSkipUntil (fuel : nat) (stop : tkind -> bool) (kind : N)
  | OSkipTakenNodes (nodes : list (N * N * N * N))
  | OUnglue (orig k1 k2 : tkind) (first second : str)
  | OTakeDoc
  | OMissing (kind : N).

Definition run_op (src : str) (s : pstate) (o : op) : pstate :=
  match o with
  | OTake => take src s
  | OSkipToken k => skip_token k s
  | OSkipUntil fuel stop k => skip_until fuel stop k s
  | OSkipTakenNodes nodes => skip_taken_nodes nodes s
  | OUnglue orig k1 k2 a b => unglue orig k1 k2 a b s
  | OTakeDoc => take_doc src s
  | OMissing k => report_missing k s
  end.
Definition run_ops (src : str) (ops : list op) : pstate := fold_left (run_op src) ops (parser_new src).

(* Side conditions under which an op stays inside what the plumbing was written for.  They are
   facts about the *grammar* (its call sites), checked per input through the op log:
   - take is never asked for the EndOfFile terminal (it is built by parse_syntax_file itself);
   - every should_stop of skip_until holds at EndOfFile;
   - unglue's two texts spell the original token;
   - skip_taken_node: the nodes are exactly the last greens handed out, nothing was skipped since
     the last of them was taken (pending_trivia is empty), and the offsets the grammar passes are
     the nodes' ends (known finding F1 is a call that violates the pending_trivia condition). *)
(* the offsets the grammar passes: a node's trailing trivia is part of it, the node fits before its
   end_of_node_offset, which is not past what was consumed; the nodes' diagnostic positions
   (end - trailing width) do not decrease.  (end_of_node_offset may lie after the node's real end
   when tokens were skipped behind it and re-attached to the next node: post_attributes_offset in
   try_parse_module_item.) *)
Fixpoint ends_ok (hi : N) (rev_nodes : list (N * N * N * N)) : bool :=
  match rev_nodes with
  | [] => true
  | (w, tw, e, _) :: r => (tw <=? w) && (w <=? e) && (e <=? hi) && ends_ok (e - tw) r
  end.
Definition op_ok (s : pstate) (o : op) : bool :=
  match o with
  | OTake => negb (is_eof (peek_kind s))
  | OSkipToken _ => true
  | OSkipUntil _ stop _ => stop TEndOfFile
  | OSkipTakenNodes nodes =>
      match p_pending s with [] => true | _ => false end
      && (match pop_width (sumN (node_widths nodes)) (rev (p_emitted s)) [] with
          | Some (_, terms) =>
              match split_nodes (node_widths nodes) terms with Some _ => true | None => false end
          | None => false
          end)
      && ends_ok (p_offset s + p_cur_w s) (rev nodes)
  | OUnglue orig k1 k2 a b =>
      negb (tkind_eqb (peek_kind s) orig)
      || (str_eqb (t_text (peek_term s)) (a ++ b) && negb (is_eof orig) && negb (is_eof k1)
          && negb (is_eof k2))
  | OTakeDoc => true
  | OMissing _ => true
  end.
Fixpoint ops_ok_from (src : str) (s : pstate) (ops : list op) : bool :=
  match ops with
  | [] => true
  | o :: ops' => op_ok s o && ops_ok_from src (run_op src s o) ops'
  end.
Definition ops_ok (src : str) (ops : list op) : bool := ops_ok_from src (parser_new src) ops.
