(* Syntax/Corr.v -- executable comparison of the models with the implementation's answers as
   printed by harness/h10.  Each [check_*] returns the cases on which model and implementation
   disagree (with the position of the first difference and the model's answer); the driver
   expects []. *)
From Syntax Require Import Lexer Green TokenStream Recovery.

Definition s2l := str_of_string.   (* used only for printable-ASCII texts: bytes = code points *)
Definition tv := Build_trivium.
Definition mkT (k : tkind) (text : str) (lead trail : list trivium) (width : N) : terminal * N :=
  (Build_terminal k text lead trail, width).

Fixpoint list_eqb {A} (eqb : A -> A -> bool) (a b : list A) : bool :=
  match a, b with
  | [], [] => true
  | x :: a', y :: b' => eqb x y && list_eqb eqb a' b'
  | _, _ => false
  end.

Definition trivium_eqb (a b : trivium) : bool :=
  trivium_kind_eqb (tv_kind a) (tv_kind b) && str_eqb (tv_text a) (tv_text b).
Definition terminal_eqb (a b : terminal) : bool :=
  tkind_eqb (t_kind a) (t_kind b) && str_eqb (t_text a) (t_text b)
  && list_eqb trivium_eqb (t_leading a) (t_leading b)
  && list_eqb trivium_eqb (t_trailing a) (t_trailing b).

Fixpoint indexed {A} (n : N) (l : list A) : list (N * A) :=
  match l with [] => [] | x :: r => (n, x) :: indexed (n + 1) r end.

(* ---- leg 1: the real Lexer vs lex_all: kind, text, trivia kinds and texts, width() ---- *)
Definition lex_case := (str * list (terminal * N))%type.

Fixpoint first_diff (n : N) (ms : list terminal) (rs : list (terminal * N))
  : option (N * option terminal) :=
  match ms, rs with
  | [], [] => None
  | m :: ms', (r, w) :: rs' =>
      if terminal_eqb m r && (terminal_width m =? w) then first_diff (n + 1) ms' rs'
      else Some (n, Some m)
  | m :: _, [] => Some (n, Some m)
  | [], _ :: _ => Some (n, None)
  end.

Definition check_lex (cs : list lex_case) : list (N * N * option terminal) :=
  flat_map (fun '(k, (input, real)) =>
    match first_diff 0 (lex_all input) real with
    | None => []
    | Some (i, m) => [(k, i, m)]
    end) (indexed 0 cs).

(* ---- leg 2: real red trees vs Green.v: offsets and widths recomputed by the model from the
   token texts alone; the tokens give back the input; get_text = slice at the span ---- *)
Definition tree_case := (str * red)%type.

Fixpoint red_eqb (a b : red) : bool :=
  match a, b with
  | RT k1 t1 o1 w1, RT k2 t2 o2 w2 =>
      String.eqb k1 k2 && str_eqb t1 t2 && (o1 =? o2) && (w1 =? w2)
  | RN k1 c1 o1 w1, RN k2 c2 o2 w2 =>
      String.eqb k1 k2 && (o1 =? o2) && (w1 =? w2)
      && (fix go (x y : list red) : bool :=
            match x, y with
            | [], [] => true
            | a' :: x', b' :: y' => red_eqb a' b' && go x' y'
            | _, _ => false
            end) c1 c2
  | _, _ => false
  end.

(* every node's text is the slice of the input at its (real) span *)
Fixpoint spans_ok (input : str) (r : red) : bool :=
  str_eqb (green_text (erase r)) (slice_bytes input (red_offset r) (red_width r))
  && match r with
     | RT _ _ _ _ => true
     | RN _ cs _ _ =>
         (fix go (cs : list red) : bool :=
            match cs with [] => true | c :: cs' => spans_ok input c && go cs' end) cs
     end.

Definition check_tree (cs : list tree_case) : list (N * N * N) :=
  flat_map (fun '(k, (input, real)) =>
    let g := erase real in
    let ok1 := red_eqb (red_of 0 g) real in
    let ok2 := str_eqb (green_text g) input in
    let ok3 := (red_offset real =? 0) && (red_width real =? str_width input) in
    let ok4 := spans_ok input real in
    if ok1 && ok2 && ok3 && ok4 then []
    else [(k, (if ok1 then 0 else 1) + (if ok2 then 0 else 2) + (if ok3 then 0 else 4)
              + (if ok4 then 0 else 8), green_width g)]) (indexed 0 cs).

(* ---- leg 3: the real parser's token-plumbing op log (hook in parser.rs) replayed through
   TokenStream.v: before every operation the real (offset, current_width, last_trivia_length,
   #pending_trivia, #pending diagnostics, #look-ahead) equal the model's; every terminal the real
   add_trivia_to_terminal builds (kind, text, leading / trailing trivia text and length) and
   every diagnostic the real consume_pending_skipped_diagnostics / create_and_report_missing
   emits equal the model's; the final states agree; the model's side conditions [ops_ok] fail
   exactly on the inputs where the impl-level oracle saw signature F1; and when they hold the
   emitted terminals spell the source. ---- *)
Record snap := mkSnap { sn_off : N; sn_cw : N; sn_ltw : N; sn_npend : N; sn_npd : N; sn_nlook : N }.
Definition snap_of (s : pstate) : snap :=
  mkSnap (p_offset s) (p_cur_w s) (p_last_tw s) (N.of_nat (length (p_pending s)))
         (N.of_nat (length (p_pdiags s))) (N.of_nat (length (p_look s))).
Definition snap_eqb (a b : snap) : bool :=
  (sn_off a =? sn_off b) && (sn_cw a =? sn_cw b) && (sn_ltw a =? sn_ltw b)
  && (sn_npend a =? sn_npend b) && (sn_npd a =? sn_npd b) && (sn_nlook a =? sn_nlook b).
Record tobs := mkObs { ob_kind : tkind; ob_text : str; ob_lead : str; ob_trail : str;
                       ob_nlead : N; ob_ntrail : N }.
Inductive rkind := KOp (o : op) | KFinish.
Record rop := mkR { r_kind : rkind; r_pre : snap; r_obs : option tobs;
                    r_diags : option (list (N * N * N)) }.
Definition oplog_case := (str * list rop * snap * bool)%type.

Definition obs_matches (e : eterm) (o : tobs) : bool :=
  tkind_eqb (e_kind e) (ob_kind o) && str_eqb (e_text e) (ob_text o)
  && str_eqb (ptext (e_lead e)) (ob_lead o) && str_eqb (ptext (e_trail e)) (ob_trail o)
  && (N.of_nat (length (e_lead e)) =? ob_nlead o) && (N.of_nat (length (e_trail e)) =? ob_ntrail o).
Definition diag_eqb (a b : N * N * N) : bool :=
  let '(k1, s1, e1) := a in let '(k2, s2, e2) := b in (k1 =? k2) && (s1 =? s2) && (e1 =? e2).
Definition is_skip_nodes (k : rkind) : bool :=
  match k with KOp (OSkipTakenNodes _) => true | _ => false end.

(* first mismatch (step, code) ; final state ; conjunction of the side conditions *)
Fixpoint replay (src : str) (s : pstate) (ok : bool) (i : N) (l : list rop)
  : option (N * N) * pstate * bool :=
  match l with
  | [] => (None, s, ok)
  | r :: l' =>
      if negb (snap_eqb (snap_of s) (r_pre r)) then (Some (i, 1), s, ok)
      else
        let ok' := ok && match r_kind r with
                         | KOp o => op_ok s o
                         | KFinish => is_eof (peek_kind s)
                         end in
        let s' := match r_kind r with KOp o => run_op src s o | KFinish => finish_file src s end in
        let n_e := length (p_emitted s) in
        let obs_ok :=
          match r_obs r with
          | Some o =>
              Nat.eqb (length (p_emitted s')) (S n_e)
              && match last (map Some (p_emitted s')) None with
                 | Some e => obs_matches e o
                 | None => false
                 end
          | None => is_skip_nodes (r_kind r) || Nat.eqb (length (p_emitted s')) n_e
          end in
        let diags_ok :=
          match r_diags r with
          | Some ds => list_eqb diag_eqb (skipn (length (p_diags s)) (p_diags s')) ds
          | None => true
          end in
        if negb obs_ok then (Some (i, 2), s', ok')
        else if negb diags_ok then (Some (i, 3), s', ok')
        else replay src s' ok' (i + 1) l'
  end.

Definition check_oplog (cs : list oplog_case) : list (N * N * N) :=
  flat_map (fun '(k, (src, log, fin, f1)) =>
    match replay src (parser_new src) true 0 log with
    | (Some (i, code), _, _) => [(k, i, code)]
    | (None, s, ok) =>
        if negb (snap_eqb (snap_of s) fin) then [(k, 0, 4)]
        else if p_panicked s then [(k, 0, 5)]
        else if negb (Bool.eqb ok (negb f1)) then [(k, 0, 6)]
        else if ok && negb (str_eqb (etext (p_emitted s)) src) then [(k, 0, 7)]
        else []
    end) (indexed 0 cs).

(* ---- leg 4: the loop events of the real parser (hook Li / Lr / L-): every observed iteration of
   parse_list, parse_separated_list_inner and skip_until meets the contract the progress theorems
   of RecoveryProofs.v assume of the element parser and of should_stop ([iter_ok]); the other
   instrumented loops (expression operators, paths, token trees, modifiers, conditions, macro
   elements) are only watched: consecutive iterations consumed something. ---- *)
Definition loops_case := list (lkind * list liter).
Definition check_loops (cs : list loops_case) : list (N * N * N) :=
  flat_map (fun '(k, runs) =>
    flat_map (fun '(r, (kind, its)) =>
      flat_map (fun '(i, it) => if iter_ok kind it then [] else [(k, r, i)]) (indexed 0 its))
      (indexed 0 runs)) (indexed 0 cs).
