(* Syntax/Corr.v -- executable comparison of the models with the implementation's answers as
   printed by harness/h10.  Each [check_*] returns the cases on which model and implementation
   disagree (with the position of the first difference and the model's answer); the driver
   expects []. *)
From Syntax Require Import Lexer Green.

Definition s2l := str_of_string.   (* used only for printable-ASCII texts: bytes = code points *)
Definition tv := Build_trivium.
Definition mkT (k : tkind) (text : str) (lead trail : list trivium) (width : N) : terminal * N :=
  (Build_terminal k text lead trail, width).

Fixpoint list_eqb {A} (eqb : A -> A -> bool) (a b : list A) : bool :=
  match a, b with
  | [], [] => true
  | x :: a', y :: b' => eqb x y && list_eqb eqb a' b'
  | _, _ => false
  end.

Definition trivium_eqb (a b : trivium) : bool :=
  trivium_kind_eqb (tv_kind a) (tv_kind b) && str_eqb (tv_text a) (tv_text b).
Definition terminal_eqb (a b : terminal) : bool :=
  tkind_eqb (t_kind a) (t_kind b) && str_eqb (t_text a) (t_text b)
  && list_eqb trivium_eqb (t_leading a) (t_leading b)
  && list_eqb trivium_eqb (t_trailing a) (t_trailing b).

Fixpoint indexed {A} (n : N) (l : list A) : list (N * A) :=
  match l with [] => [] | x :: r => (n, x) :: indexed (n + 1) r end.

(* ---- leg 1: the real Lexer vs lex_all: kind, text, trivia kinds and texts, width() ---- *)
Definition lex_case := (str * list (terminal * N))%type.

Fixpoint first_diff (n : N) (ms : list terminal) (rs : list (terminal * N))
  : option (N * option terminal) :=
  match ms, rs with
  | [], [] => None
  | m :: ms', (r, w) :: rs' =>
      if terminal_eqb m r && (terminal_width m =? w) then first_diff (n + 1) ms' rs'
      else Some (n, Some m)
  | m :: _, [] => Some (n, Some m)
  | [], _ :: _ => Some (n, None)
  end.

Definition check_lex (cs : list lex_case) : list (N * N * option terminal) :=
  flat_map (fun '(k, (input, real)) =>
    match first_diff 0 (lex_all input) real with
    | None => []
    | Some (i, m) => [(k, i, m)]
    end) (indexed 0 cs).

(* ---- leg 2: real red trees vs Green.v: offsets and widths recomputed by the model from the
   token texts alone; the tokens give back the input; get_text = slice at the span ---- *)
Definition tree_case := (str * red)%type.

Fixpoint red_eqb (a b : red) : bool :=
  match a, b with
  | RT k1 t1 o1 w1, RT k2 t2 o2 w2 =>
      String.eqb k1 k2 && str_eqb t1 t2 && (o1 =? o2) && (w1 =? w2)
  | RN k1 c1 o1 w1, RN k2 c2 o2 w2 =>
      String.eqb k1 k2 && (o1 =? o2) && (w1 =? w2)
      && (fix go (x y : list red) : bool :=
            match x, y with
            | [], [] => true
            | a' :: x', b' :: y' => red_eqb a' b' && go x' y'
            | _, _ => false
            end) c1 c2
  | _, _ => false
  end.

(* every node's text is the slice of the input at its (real) span *)
Fixpoint spans_ok (input : str) (r : red) : bool :=
  str_eqb (green_text (erase r)) (slice_bytes input (red_offset r) (red_width r))
  && match r with
     | RT _ _ _ _ => true
     | RN _ cs _ _ =>
         (fix go (cs : list red) : bool :=
            match cs with [] => true | c :: cs' => spans_ok input c && go cs' end) cs
     end.

Definition check_tree (cs : list tree_case) : list (N * N * N) :=
  flat_map (fun '(k, (input, real)) =>
    let g := erase real in
    let ok1 := red_eqb (red_of 0 g) real in
    let ok2 := str_eqb (green_text g) input in
    let ok3 := (red_offset real =? 0) && (red_width real =? str_width input) in
    let ok4 := spans_ok input real in
    if ok1 && ok2 && ok3 && ok4 then []
    else [(k, (if ok1 then 0 else 1) + (if ok2 then 0 else 2) + (if ok3 then 0 else 4)
              + (if ok4 then 0 else 8), green_width g)]) (indexed 0 cs).
