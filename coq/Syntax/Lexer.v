(* Syntax/Lexer.v -- model of crates/cairo-lang-parser/src/lexer.rs (struct Lexer, lines 15-325).
   Input text = list of Unicode scalar values ([char := N]); byte widths through [utf8_width]
   (TextWidth::from_char).  The Rust lexer state is (text, previous_position, current_position);
   here  [rest]      = text[current_position..]            (as characters)
         [span_rev]  = text[previous_position..current_position], reversed (so [take] is O(1)).
   Every Rust method of [Lexer] has a definition of the same name below.  Rust `while` loops whose
   termination argument is "each iteration consumes a character" take a fuel list at least as long
   as the remaining input (a list, not a nat, so that no [length] is computed); LexerProofs.v
   proves the fuel is never exhausted.
   Model file: no proofs. *)
From Coq Require Export Ascii String NArith Bool List.
Export ListNotations.
Open Scope N_scope.

Definition char := N.
Definition str := list char.

(* TextWidth::from_char = char::len_utf8 *)
Definition utf8_width (c : char) : N :=
  if c <? 0x80 then 1 else if c <? 0x800 then 2 else if c <? 0x10000 then 3 else 4.
Definition str_width (s : str) : N := fold_right (fun c a => utf8_width c + a) 0 s.

Definition ch (a : ascii) : char := N_of_ascii a.
Fixpoint str_of_string (s : string) : str :=
  match s with EmptyString => [] | String a r => ch a :: str_of_string r end.

Fixpoint str_eqb (a b : str) : bool :=
  match a, b with
  | [], [] => true
  | x :: a', y :: b' => (x =? y) && str_eqb a' b'
  | _, _ => false
  end.

(* ---- enum TokenKind (lexer.rs 341-433) composed with token_kind_to_terminal_syntax_kind
   (436-525), which maps TokenKind::X to SyntaxKind::TerminalX for every X: the model's [TX] is
   SyntaxKind::TerminalX. ---- *)
Inductive tkind :=
  | TIdentifier | TLiteralNumber | TShortString | TString
  | TAs | TConst | TFalse | TTrue | TExtern | TType | TFunction | TTrait | TImpl | TOf | TModule
  | TStruct | TEnum | TLet | TReturn | TMatch | TMacro | TIf | TWhile | TFor | TLoop | TContinue
  | TBreak | TElse | TUse | TImplicits | TNoPanic | TPub
  | TRef | TMut
  | TAnd | TAndAnd | TAt | TOr | TOrOr | TXor | TEqEq | TNeq | TGE | TGT | TLE | TLT | TNot
  | TBitNot | TPlus | TPlusEq | TMinus | TMinusEq | TMul | TMulEq | TDiv | TDivEq | TMod | TModEq
  | TColon | TColonColon | TComma | TDollar | TDot | TDotDot | TDotDotEq | TEq | THash
  | TSemicolon | TQuestionMark | TUnderscore | TLBrace | TRBrace | TLBrack | TRBrack | TLParen
  | TRParen | TArrow | TMatchArrow
  | TEndOfFile | TBadCharacters
  | TEmpty. (* SyntaxKind::TerminalEmpty: never produced by the lexer; parser.rs take_doc *)

Definition tkind_tag (k : tkind) : N :=
  match k with
  | TIdentifier => 0 | TLiteralNumber => 1 | TShortString => 2 | TString => 3
  | TAs => 4 | TConst => 5 | TFalse => 6 | TTrue => 7 | TExtern => 8 | TType => 9
  | TFunction => 10 | TTrait => 11 | TImpl => 12 | TOf => 13 | TModule => 14
  | TStruct => 15 | TEnum => 16 | TLet => 17 | TReturn => 18 | TMatch => 19 | TMacro => 20
  | TIf => 21 | TWhile => 22 | TFor => 23 | TLoop => 24 | TContinue => 25
  | TBreak => 26 | TElse => 27 | TUse => 28 | TImplicits => 29 | TNoPanic => 30 | TPub => 31
  | TRef => 32 | TMut => 33
  | TAnd => 34 | TAndAnd => 35 | TAt => 36 | TOr => 37 | TOrOr => 38 | TXor => 39 | TEqEq => 40
  | TNeq => 41 | TGE => 42 | TGT => 43 | TLE => 44 | TLT => 45 | TNot => 46
  | TBitNot => 47 | TPlus => 48 | TPlusEq => 49 | TMinus => 50 | TMinusEq => 51 | TMul => 52
  | TMulEq => 53 | TDiv => 54 | TDivEq => 55 | TMod => 56 | TModEq => 57
  | TColon => 58 | TColonColon => 59 | TComma => 60 | TDollar => 61 | TDot => 62 | TDotDot => 63
  | TDotDotEq => 64 | TEq => 65 | THash => 66
  | TSemicolon => 67 | TQuestionMark => 68 | TUnderscore => 69 | TLBrace => 70 | TRBrace => 71
  | TLBrack => 72 | TRBrack => 73 | TLParen => 74
  | TRParen => 75 | TArrow => 76 | TMatchArrow => 77
  | TEndOfFile => 78 | TBadCharacters => 79 | TEmpty => 80
  end.
Definition tkind_eqb (a b : tkind) : bool := tkind_tag a =? tkind_tag b.
Definition is_eof (k : tkind) : bool := match k with TEndOfFile => true | _ => false end.

(* the five trivium tokens the lexer builds (TokenWhitespace, TokenNewline, TokenSingleLineComment and its Doc, Inner variants) *)
Inductive trivium_kind :=
  | TvWhitespace | TvNewline | TvSingleLineComment | TvSingleLineDocComment
  | TvSingleLineInnerComment.
Definition trivium_kind_eqb (a b : trivium_kind) : bool :=
  match a, b with
  | TvWhitespace, TvWhitespace | TvNewline, TvNewline
  | TvSingleLineComment, TvSingleLineComment
  | TvSingleLineDocComment, TvSingleLineDocComment
  | TvSingleLineInnerComment, TvSingleLineInnerComment => true
  | _, _ => false
  end.
Record trivium := { tv_kind : trivium_kind; tv_text : str }.

(* struct LexerTerminal (lexer.rs 327-339) *)
Record terminal := {
  t_kind : tkind; t_text : str; t_leading : list trivium; t_trailing : list trivium }.

Definition trivia_text (tvs : list trivium) : str := concat (map tv_text tvs).
Definition terminal_full_text (t : terminal) : str :=
  trivia_text (t_leading t) ++ t_text t ++ trivia_text (t_trailing t).
(* LexerTerminal::width *)
Definition trivia_width (tvs : list trivium) : N :=
  fold_right (fun tv a => str_width (tv_text tv) + a) 0 tvs.
Definition terminal_width (t : terminal) : N :=
  trivia_width (t_leading t) + str_width (t_text t) + trivia_width (t_trailing t).

(* ---- characters ---- *)
Definition c_tab : char := 9.
Definition c_nl : char := 10.
Definition c_cr : char := 13.
Definition c_space : char := 32.
Definition c_dquote : char := 34.
Definition c_squote : char := 39.
Definition c_backslash : char := 92.
Definition c_slash : char := ch "/".
Definition c_bang : char := ch "!".
Definition c_underscore : char := ch "_".

Definition in_range (lo hi c : char) : bool := (lo <=? c) && (c <=? hi).
Definition is_ascii_digit (c : char) : bool := in_range (ch "0") (ch "9") c.
Definition is_ascii_hexdigit (c : char) : bool :=
  is_ascii_digit c || in_range (ch "a") (ch "f") c || in_range (ch "A") (ch "F") c.
Definition is_oct_digit (c : char) : bool := in_range (ch "0") (ch "7") c.
Definition is_bin_digit (c : char) : bool := in_range (ch "0") (ch "1") c.
Definition is_ascii_alphabetic (c : char) : bool :=
  in_range (ch "a") (ch "z") c || in_range (ch "A") (ch "Z") c.
Definition is_ascii_alphanumeric (c : char) : bool := is_ascii_alphabetic c || is_ascii_digit c.
Definition is_ident_char (c : char) : bool := is_ascii_alphanumeric c || (c =? c_underscore).
Definition is_whitespace (c : char) : bool := (c =? c_space) || (c =? c_cr) || (c =? c_tab).

Definition opt_is (o : option char) (c : char) : bool :=
  match o with Some x => x =? c | None => false end.

(* ---- struct Lexer and its helpers (lexer.rs 15-61) ---- *)
Record lexer := mkLexer { span_rev : str; rest : str }.
Definition lexer_new (text : str) : lexer := mkLexer [] text.

Definition peek (l : lexer) : option char := hd_error (rest l).
Definition peek_nth (n : nat) (l : lexer) : option char := nth_error (rest l) n.
Definition take (l : lexer) : lexer :=
  match rest l with [] => l | c :: r => mkLexer (c :: span_rev l) r end.
Fixpoint take_while_go (f : char -> bool) (acc r : str) : lexer :=
  match r with
  | c :: r' => if f c then take_while_go f (c :: acc) r' else mkLexer acc r
  | [] => mkLexer acc []
  end.
Definition take_while (f : char -> bool) (l : lexer) : lexer :=
  take_while_go f (span_rev l) (rest l).
Definition peek_text_span (l : lexer) : str := rev' (span_rev l).
Definition consume_text_span (l : lexer) : str * lexer :=
  (peek_text_span l, mkLexer [] (rest l)).

(* ---- trivia matchers (63-123) ---- *)
Definition match_trivium_whitespace (l : lexer) : trivium * lexer :=
  let l := take_while is_whitespace l in
  let (text, l) := consume_text_span l in
  ({| tv_kind := TvWhitespace; tv_text := text |}, l).

Definition match_trivium_newline (l : lexer) : trivium * lexer :=
  let l := take l in
  let (text, l) := consume_text_span l in
  ({| tv_kind := TvNewline; tv_text := text |}, l).

Definition not_newline (c : char) : bool := negb (c =? c_nl).

Definition match_trivium_single_line_comment (l : lexer) : trivium * lexer :=
  let kind :=
    match peek_nth 2 l with
    | Some c =>
        if (c =? c_slash) && negb (opt_is (peek_nth 3 l) c_slash) then TvSingleLineDocComment
        else if c =? c_bang then TvSingleLineInnerComment
        else TvSingleLineComment
    | None => TvSingleLineComment
    end in
  let l := take_while not_newline l in
  let (text, l) := consume_text_span l in
  ({| tv_kind := kind; tv_text := text |}, l).

Fixpoint match_trivia_go (fuel : str) (leading : bool) (l : lexer) : list trivium * lexer :=
  match fuel with
  | [] => ([], l)
  | _ :: fuel' =>
      match peek l with
      | None => ([], l)
      | Some current =>
          let continue (r : trivium * lexer) : list trivium * lexer :=
            let (tv, l') := r in
            if (current =? c_nl) && negb leading then ([tv], l')
            else let (tvs, l'') := match_trivia_go fuel' leading l' in (tv :: tvs, l'') in
          if is_whitespace current then continue (match_trivium_whitespace l)
          else if current =? c_nl then continue (match_trivium_newline l)
          else if (current =? c_slash) && opt_is (peek_nth 1 l) c_slash
               then continue (match_trivium_single_line_comment l)
          else ([], l)
      end
  end.
Definition match_trivia (leading : bool) (l : lexer) : list trivium * lexer :=
  match_trivia_go (0 :: rest l) leading l.

(* ---- token matchers (128-250) ---- *)
Definition take_token_literal_number (l : lexer) : tkind * lexer :=
  let '(special, l) :=
    if opt_is (peek l) (ch "0") then
      let l := take l in
      match peek l with
      | Some c =>
          if c =? ch "x" then (true, take_while is_ascii_hexdigit (take l))
          else if c =? ch "o" then (true, take_while is_oct_digit (take l))
          else if c =? ch "b" then (true, take_while is_bin_digit (take l))
          else (false, l)
      | None => (false, l)
      end
    else (false, l) in
  let l := if special then l else take_while is_ascii_digit l in
  let l := if opt_is (peek l) c_underscore then take_while is_ident_char l else l in
  (TLiteralNumber, l).

Fixpoint string_helper_go (delimiter : char) (escaped : bool) (acc r : str) : lexer :=
  match r with
  | [] => mkLexer acc []
  | token :: r' =>
      if escaped then string_helper_go delimiter false (token :: acc) r'
      else if token =? c_backslash then string_helper_go delimiter true (token :: acc) r'
      else if token =? delimiter then mkLexer (token :: acc) r'
      else string_helper_go delimiter false (token :: acc) r'
  end.
Definition take_token_string_helper (delimiter : char) (l : lexer) : lexer :=
  let l := take l in
  string_helper_go delimiter false (span_rev l) (rest l).

Definition take_token_short_string (l : lexer) : tkind * lexer :=
  let l := take_token_string_helper c_squote l in
  let l := if opt_is (peek l) c_underscore then take_while is_ident_char l else l in
  (TShortString, l).

Definition take_token_string (l : lexer) : tkind * lexer :=
  (TString, take_token_string_helper c_dquote l).

Definition keywords : list (string * tkind) :=
  [ ("as", TAs); ("const", TConst); ("false", TFalse); ("true", TTrue); ("extern", TExtern);
    ("type", TType); ("fn", TFunction); ("trait", TTrait); ("impl", TImpl); ("of", TOf);
    ("mod", TModule); ("struct", TStruct); ("enum", TEnum); ("let", TLet); ("return", TReturn);
    ("match", TMatch); ("macro", TMacro); ("if", TIf); ("loop", TLoop); ("continue", TContinue);
    ("break", TBreak); ("else", TElse); ("while", TWhile); ("use", TUse);
    ("implicits", TImplicits); ("ref", TRef); ("mut", TMut); ("for", TFor);
    ("nopanic", TNoPanic); ("pub", TPub); ("_", TUnderscore) ]%string.

Fixpoint keyword_lookup (tbl : list (string * tkind)) (s : str) : tkind :=
  match tbl with
  | [] => TIdentifier
  | (kw, k) :: tbl' => if str_eqb (str_of_string kw) s then k else keyword_lookup tbl' s
  end.

Definition take_token_identifier (l : lexer) : tkind * lexer :=
  let l := take_while is_ident_char l in
  (keyword_lookup keywords (peek_text_span l), l).

Definition take_token_of_kind (kind : tkind) (l : lexer) : tkind * lexer := (kind, take l).

Definition pick_kind (second_char : char) (long_kind short_kind : tkind) (l : lexer)
  : tkind * lexer :=
  let l := take l in
  if opt_is (peek l) second_char then (long_kind, take l) else (short_kind, l).

(* the `match current { ... }` of match_terminal (255-309); [current] = self.peek() *)
Definition scan_token (current : char) (l : lexer) : tkind * lexer :=
  if is_ascii_digit current then take_token_literal_number l
  else if current =? c_squote then take_token_short_string l
  else if current =? c_dquote then take_token_string l
  else if current =? ch "," then take_token_of_kind TComma l
  else if current =? ch ";" then take_token_of_kind TSemicolon l
  else if current =? ch "?" then take_token_of_kind TQuestionMark l
  else if current =? ch "{" then take_token_of_kind TLBrace l
  else if current =? ch "}" then take_token_of_kind TRBrace l
  else if current =? ch "[" then take_token_of_kind TLBrack l
  else if current =? ch "]" then take_token_of_kind TRBrack l
  else if current =? ch "(" then take_token_of_kind TLParen l
  else if current =? ch ")" then take_token_of_kind TRParen l
  else if current =? ch "." then
    let l := take l in
    if opt_is (peek l) (ch ".") then pick_kind (ch "=") TDotDotEq TDotDot l else (TDot, l)
  else if current =? ch "*" then pick_kind (ch "=") TMulEq TMul l
  else if current =? ch "/" then pick_kind (ch "=") TDivEq TDiv l
  else if current =? ch "%" then pick_kind (ch "=") TModEq TMod l
  else if current =? ch "+" then pick_kind (ch "=") TPlusEq TPlus l
  else if current =? ch "#" then take_token_of_kind THash l
  else if current =? ch "$" then take_token_of_kind TDollar l
  else if current =? ch "-" then
    let l := take l in
    if opt_is (peek l) (ch ">") then take_token_of_kind TArrow l
    else if opt_is (peek l) (ch "=") then take_token_of_kind TMinusEq l
    else (TMinus, l)
  else if current =? ch "<" then pick_kind (ch "=") TLE TLT l
  else if current =? ch ">" then pick_kind (ch "=") TGE TGT l
  else if is_ascii_alphabetic current || (current =? c_underscore) then take_token_identifier l
  else if current =? ch ":" then pick_kind (ch ":") TColonColon TColon l
  else if current =? ch "!" then pick_kind (ch "=") TNeq TNot l
  else if current =? ch "~" then take_token_of_kind TBitNot l
  else if current =? ch "=" then
    let l := take l in
    if opt_is (peek l) (ch "=") then take_token_of_kind TEqEq l
    else if opt_is (peek l) (ch ">") then take_token_of_kind TMatchArrow l
    else (TEq, l)
  else if current =? ch "&" then pick_kind (ch "&") TAndAnd TAnd l
  else if current =? ch "|" then pick_kind (ch "|") TOrOr TOr l
  else if current =? ch "^" then take_token_of_kind TXor l
  else if current =? ch "@" then take_token_of_kind TAt l
  else take_token_of_kind TBadCharacters l.

(* Lexer::match_terminal (252-324) *)
Definition match_terminal (l : lexer) : terminal * lexer :=
  let (leading_trivia, l) := match_trivia true l in
  let (kind, l) :=
    match peek l with
    | Some current => scan_token current l
    | None => (TEndOfFile, l)
    end in
  let (text, l) := consume_text_span l in
  let (trailing_trivia, l) := match_trivia false l in
  ({| t_kind := kind; t_text := text; t_leading := leading_trivia;
      t_trailing := trailing_trivia |}, l).

(* The parser pulls terminals until (and including) the first TerminalEndOfFile
   (parser.rs ensure_next_k_exists).  [None] = out of fuel. *)
Fixpoint lex_fuel (fuel : str) (l : lexer) : option (list terminal) :=
  match fuel with
  | [] => None
  | _ :: fuel' =>
      let (t, l') := match_terminal l in
      if is_eof (t_kind t) then Some [t]
      else match lex_fuel fuel' l' with Some ts => Some (t :: ts) | None => None end
  end.
Definition lex_all (s : str) : list terminal :=
  match lex_fuel (0 :: s) (lexer_new s) with Some ts => ts | None => [] end.

(* ---- specification predicates used by the progress theorems (definitions only) ---- *)
(* every trivium holds at least one character *)
Definition trivia_ok (tvs : list trivium) : Prop := Forall (fun tv => tv_text tv <> []) tvs.
(* every trivium is non-empty and a terminal other than EndOfFile has a non-empty token text *)
Definition terminal_ok (t : terminal) : Prop :=
  trivia_ok (t_leading t) /\ trivia_ok (t_trailing t)
  /\ (t_kind t <> TEndOfFile -> t_text t <> []).
