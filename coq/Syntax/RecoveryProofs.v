(* Syntax/RecoveryProofs.v -- progress of the recovery loops: every iteration of parse_list,
   parse_separated_list_inner and skip_until either ends the loop or strictly decreases the number
   of unread characters; hence fuel = unread + 1 is never exhausted. *)
From Syntax Require Import Lexer LexerProofs Green GreenProofs TokenStream TokenStreamProofs Recovery.
From Coq Require Import Lia PeanoNat.
Local Open Scope N_scope.

(* every terminal waiting in the look-ahead, except EndOfFile, has a non-empty token text *)
Definition LookNE (s : pstate) : Prop :=
  Forall (fun t => t_kind t <> TEndOfFile -> t_text t <> []) (p_look s).

Lemma text_full_ne t : t_text t <> [] -> terminal_full_text t <> [].
Proof.
  intros H. unfold terminal_full_text. destruct (t_text t); [congruence|].
  destruct (trivia_text (t_leading t)); discriminate.
Qed.
(* the plumbing invariant of TokenStreamProofs.v plus LookNE *)
Definition RInv (src : str) (s : pstate) : Prop := Inv src s /\ LookNE s.

Lemma unread_def s : unread s = length (ltext (p_look s) ++ rest (p_lex s)).
Proof. reflexivity. Qed.

(* ---------- refilling the look-ahead moves text, it does not consume ---------- *)
Lemma pull_extra src s :
  LInv src s -> p_eof s = false -> LookNE s -> unread (pull s) = unread s /\ LookNE (pull s).
Proof.
  intros [L T K] He Hn. unfold pull, unread, LookNE in *.
  pose proof (match_terminal_spec (p_lex s) L) as M.
  destruct (match_terminal (p_lex s)) as [t l'] eqn:E. cbn [fst snd] in M.
  destruct M as [M1 [M2 [M3 M4]]]. sp. split.
  - rewrite ltext_app, <- M1. unfold ltext at 2. cbn [map concat]. rewrite app_nil_r, <- !app_assoc.
    reflexivity.
  - apply Forall_app. split; [exact Hn|]. constructor; [|constructor].
    intros Hk. destruct M3 as [_ [_ M3]]. exact (M3 Hk).
Qed.

Lemma ensure_extra src : forall fuel k s,
  LInv src s -> LookNE s ->
  unread (ensure_go fuel k s) = unread s /\ LookNE (ensure_go fuel k s).
Proof.
  induction fuel as [|fuel IH]; intros k s I Hn; cbn [ensure_go]; [auto|].
  destruct (p_eof s) eqn:He; cbn [orb]; [auto|].
  destruct (Nat.leb k (length (p_look s))); [auto|].
  destruct (pull_spec src s I He) as [I' _].
  destruct (pull_extra src s I He Hn) as [U N'].
  destruct (IH k (pull s) I' N') as [U2 N2]. split; [congruence|exact N2].
Qed.

(* ---------- advance / take_raw consume exactly the head terminal ---------- *)
Lemma advance_extra src s :
  Inv src s -> LookNE s -> peek_kind s <> TEndOfFile ->
  let r := advance s in
  (unread (snd r) + length (terminal_full_text (fst r)) = unread s)%nat
  /\ terminal_full_text (fst r) <> [] /\ LookNE (snd r).
Proof.
  intros I Hn Hk. unfold advance.
  pose proof (ensure_go_spec src 3 3 s (Inv_LInv _ _ I)) as H. cbn zeta in H.
  destruct H as [J1 [_ [J3 _]]].
  destruct (ensure_extra src 3 3 s (Inv_LInv _ _ I) Hn) as [U N1].
  fold (ensure_next_k_exists 3 s) in *.
  pose proof (inv_look_ne _ _ I) as Hne.
  destruct (p_look s) as [|t0 l0] eqn:El; [congruence|].
  destruct (J3 t0 l0 eq_refl) as [l1 H1].
  assert (Hk0 : t_kind t0 <> TEndOfFile).
  { unfold peek_kind, peek_term in Hk. rewrite El in Hk. exact Hk. }
  set (s1 := ensure_next_k_exists 3 s) in *. rewrite H1. cbn [fst snd].
  unfold LookNE in N1. rewrite H1 in N1. inversion N1 as [|? ? Ht Hl]; subst.
  split; [|split; [exact (text_full_ne _ (Ht Hk0))|exact Hl]].
  rewrite <- U. unfold unread, set_look. sp. rewrite H1, ltext_cons, <- app_assoc, !app_length. lia.
Qed.

Lemma take_raw_extra src s :
  Inv src s -> LookNE s -> peek_kind s <> TEndOfFile ->
  let r := take_raw s in
  (unread (snd r) < unread s)%nat /\ LookNE (snd r).
Proof.
  intros I Hn Hk. unfold take_raw.
  pose proof (advance_extra src s I Hn Hk) as A. cbn zeta in A.
  destruct (advance s) as [t s1]. cbn [fst snd] in *. destruct A as [A1 [A2 A3]].
  split; [|exact A3].
  unfold unread in *. sp. destruct (terminal_full_text t); [congruence|]. cbn [length] in A1. lia.
Qed.

(* operations that leave the look-ahead and the lexer alone *)
Lemma add_trivia_look src k t ts s :
  p_look (add_trivia_to_terminal src k t ts s) = p_look s
  /\ p_lex (add_trivia_to_terminal src k t ts s) = p_lex s.
Proof.
  unfold add_trivia_to_terminal.
  destruct (trivia_green src (p_cache s) _ _ _) as [a c1].
  destruct (trivia_green src c1 _ _ _) as [b c2]. split; reflexivity.
Qed.

Lemma same_look_unread s s' :
  p_look s' = p_look s -> p_lex s' = p_lex s -> unread s' = unread s /\ (LookNE s -> LookNE s').
Proof. intros H1 H2. unfold unread, LookNE. rewrite H1, H2. auto. Qed.

(* ---------- take ---------- *)
Lemma take_extra src s :
  RInv src s -> peek_kind s <> TEndOfFile ->
  RInv src (take src s) /\ (unread (take src s) < unread s)%nat.
Proof.
  intros [I Hn] Hk. split; [split; [apply take_spec; assumption|]|].
  - unfold take. pose proof (take_raw_extra src s I Hn Hk) as T. cbn zeta in T.
    destruct (take_raw s) as [t s1]. cbn [fst snd] in T. destruct T as [_ N1].
    destruct (add_trivia_look src (t_kind t) t (p_offset s1) s1) as [A1 A2].
    apply (same_look_unread s1 _ A1 A2). exact N1.
  - unfold take. pose proof (take_raw_extra src s I Hn Hk) as T. cbn zeta in T.
    destruct (take_raw s) as [t s1]. cbn [fst snd] in T. destruct T as [U _].
    destruct (add_trivia_look src (t_kind t) t (p_offset s1) s1) as [A1 A2].
    destruct (same_look_unread s1 _ A1 A2) as [E _]. lia.
Qed.

(* ---------- skip_token ---------- *)
Lemma skip_token_extra src k s :
  RInv src s ->
  RInv src (skip_token k s)
  /\ (unread (skip_token k s) <= unread s)%nat
  /\ (peek_kind s <> TEndOfFile -> (unread (skip_token k s) < unread s)%nat).
Proof.
  intros [I Hn]. split; [split; [apply skip_token_spec; exact I|]|].
  - unfold skip_token. destruct (is_eof (peek_kind s)) eqn:E; [exact Hn|].
    pose proof (take_raw_extra src s I Hn (is_eof_false _ E)) as T. cbn zeta in T.
    destruct (take_raw s) as [t s1]. cbn [fst snd] in T. exact (proj2 T).
  - unfold skip_token. destruct (is_eof (peek_kind s)) eqn:E.
    + split; [reflexivity|]. intros H. apply is_eof_true in E. contradiction.
    + pose proof (take_raw_extra src s I Hn (is_eof_false _ E)) as T. cbn zeta in T.
      destruct (take_raw s) as [t s1]. cbn [fst snd] in T. destruct T as [U _].
      unfold append_skipped, unread in *. sp. split; [lia|intros _; lia].
Qed.

Lemma add_diag_extra src s k a b :
  RInv src s -> a <= b -> b <= p_offset s + p_cur_w s ->
  RInv src (add_diag s k a b) /\ unread (add_diag s k a b) = unread s.
Proof.
  intros [I Hn] Ha Hb. split; [split; [apply add_diag_inv2; assumption|exact Hn]|reflexivity].
Qed.

Lemma report_missing_extra src k s :
  RInv src s -> RInv src (report_missing k s) /\ unread (report_missing k s) = unread s.
Proof.
  intros [I Hn]. split; [split; [apply report_missing_spec; exact I|exact Hn]|reflexivity].
Qed.

(* ---------- what the loops need of the element parser and of should_stop ---------- *)
Section Progress.
  Variable src : str.
  Variable try_parse : pstate -> tpr * pstate.
  Variable should_stop : tkind -> bool.
  Variable skipped_tag : N.

  (* (c) every stop predicate holds at EndOfFile (proved for all call sites: stop_sites_eof) *)
  Hypothesis stop_at_eof : should_stop TEndOfFile = true.
  (* the element parser keeps the plumbing invariant and never "un-reads" *)
  Hypothesis try_inv : forall s, RInv src s -> RInv src (snd (try_parse s)).
  Hypothesis try_mono : forall s, RInv src s -> (unread (snd (try_parse s)) <= unread s)%nat.
  (* (a) Ok means an element was parsed, which consumed at least one token; DoNothing means tokens
     were consumed before the failure was found - needed only when the loop goes on *)
  Hypothesis try_ok_consumes : forall s, RInv src s -> fst (try_parse s) = POk ->
    (unread (snd (try_parse s)) < unread s)%nat.
  Hypothesis try_donothing_consumes : forall s, RInv src s -> fst (try_parse s) = PDoNothing ->
    should_stop (peek_kind (snd (try_parse s))) = false ->
    (unread (snd (try_parse s)) < unread s)%nat.

  Lemma not_stop_not_eof s : should_stop (peek_kind s) = false -> peek_kind s <> TEndOfFile.
  Proof. intros H E. rewrite E, stop_at_eof in H. discriminate. Qed.

  (* parse_list: an iteration that continues has strictly less to read *)
  Theorem parse_list_iter_progress s :
    RInv src s ->
    let r := parse_list_iter try_parse should_stop skipped_tag s in
    RInv src (snd r) /\ (unread (snd r) <= unread s)%nat
    /\ (fst r = true -> (unread (snd r) < unread s)%nat).
  Proof.
    intros I. unfold parse_list_iter.
    pose proof (try_inv s I) as I1. pose proof (try_mono s I) as M1.
    pose proof (try_ok_consumes s I) as C1. pose proof (try_donothing_consumes s I) as C2.
    destruct (try_parse s) as [r s1]. cbn [fst snd] in *.
    destruct r.
    - cbn [fst snd]. split; [exact I1|]. split; [exact M1|]. intros _. apply C1. reflexivity.
    - destruct (should_stop (peek_kind s1)) eqn:E; cbn [fst snd].
      + split; [exact I1|]. split; [exact M1|discriminate].
      + destruct (skip_token_extra src skipped_tag s1 I1) as [I2 [M2 S2]].
        split; [exact I2|]. split; [lia|]. intros _.
        specialize (S2 (not_stop_not_eof _ E)). lia.
    - destruct (should_stop (peek_kind s1)) eqn:E; cbn [fst snd].
      + split; [exact I1|]. split; [exact M1|discriminate].
      + split; [exact I1|]. split; [exact M1|]. intros _. apply C2; auto.
  Qed.

  Theorem parse_list_terminates : forall fuel s,
    RInv src s -> (unread s < fuel)%nat ->
    let r := parse_list_go try_parse should_stop skipped_tag fuel s in
    fst r = true /\ RInv src (snd r) /\ (unread (snd r) <= unread s)%nat.
  Proof.
    induction fuel as [|fuel IH]; intros s I Hf; [lia|]. cbn [parse_list_go].
    pose proof (parse_list_iter_progress s I) as P. cbn zeta in P.
    destruct (parse_list_iter try_parse should_stop skipped_tag s) as [c s1]. cbn [fst snd] in P.
    destruct P as [I1 [M1 S1]]. destruct c.
    - specialize (S1 eq_refl). destruct (IH s1 I1 ltac:(lia)) as [F [I2 M2]].
      split; [exact F|]. split; [exact I2|lia].
    - cbn [fst snd]. auto.
  Qed.

  (* parse_separated_list_inner *)
  Variable separator : tkind.
  Variable missing_tag : N.
  Variable forbid_trailing_separator : option N.
  Hypothesis separator_not_eof : separator <> TEndOfFile.

  Lemma try_parse_token_extra s :
    RInv src s ->
    let r := try_parse_token src separator s in
    RInv src (snd r) /\ (unread (snd r) <= unread s)%nat.
  Proof.
    intros I. unfold try_parse_token. destruct (tkind_eqb separator (peek_kind s)) eqn:E; cbn [fst snd].
    - apply tkind_eqb_eq in E.
      destruct (take_extra src s I ltac:(rewrite <- E; exact separator_not_eof)) as [I1 U1].
      split; [exact I1|lia].
    - auto.
  Qed.

  Theorem sep_list_iter_progress nonempty s :
    RInv src s ->
    let r := sep_list_iter src try_parse should_stop skipped_tag separator missing_tag
               forbid_trailing_separator nonempty s in
    RInv src (snd r) /\ (unread (snd r) <= unread s)%nat
    /\ (fst (fst r) = true -> (unread (snd r) < unread s)%nat).
  Proof.
    intros I. unfold sep_list_iter.
    pose proof (try_inv s I) as I1. pose proof (try_mono s I) as M1.
    pose proof (try_ok_consumes s I) as C1.
    destruct (try_parse s) as [r s1]. cbn [fst snd] in *.
    assert (Herr :
      let r := (if should_stop (peek_kind s1)
                then (false, nonempty,
                      match forbid_trailing_separator with
                      | Some k => if nonempty then add_diag s1 k (p_offset s1) (p_offset s1) else s1
                      | None => s1
                      end)
                else (true, nonempty, skip_token skipped_tag s1)) in
      RInv src (snd r) /\ (unread (snd r) <= unread s)%nat
      /\ (fst (fst r) = true -> (unread (snd r) < unread s)%nat)).
    { destruct (should_stop (peek_kind s1)) eqn:E; cbn [fst snd].
      - split; [|split; [|discriminate]].
        + destruct forbid_trailing_separator as [k|]; [|exact I1]. destruct nonempty; [|exact I1].
          apply add_diag_extra; [exact I1|lia|lia].
        + destruct forbid_trailing_separator as [k|]; [|exact M1]. destruct nonempty; exact M1.
      - destruct (skip_token_extra src skipped_tag s1 I1) as [I2 [M2 S2]].
        split; [exact I2|]. split; [lia|]. intros _. specialize (S2 (not_stop_not_eof _ E)). lia. }
    destruct r; [|exact Herr|exact Herr].
    specialize (C1 eq_refl).
    pose proof (try_parse_token_extra s1 I1) as T. cbn zeta in T.
    destruct (try_parse_token src separator s1) as [got s2]. cbn [fst snd] in T. destruct T as [I2 M2].
    destruct got; cbn [fst snd].
    - split; [exact I2|]. split; lia.
    - destruct (should_stop (peek_kind s2)); cbn [fst snd].
      + split; [exact I2|]. split; [lia|discriminate].
      + destruct (report_missing_extra src missing_tag s2 I2) as [I3 U3].
        split; [exact I3|]. split; lia.
  Qed.

  Theorem sep_list_terminates : forall fuel nonempty s,
    RInv src s -> (unread s < fuel)%nat ->
    let r := sep_list_go src try_parse should_stop skipped_tag separator missing_tag
               forbid_trailing_separator fuel nonempty s in
    fst r = true /\ RInv src (snd r) /\ (unread (snd r) <= unread s)%nat.
  Proof.
    induction fuel as [|fuel IH]; intros nonempty s I Hf; [lia|]. cbn [sep_list_go].
    pose proof (sep_list_iter_progress nonempty s I) as P. cbn zeta in P.
    destruct (sep_list_iter src try_parse should_stop skipped_tag separator missing_tag
                forbid_trailing_separator nonempty s) as [[c ne] s1]. cbn [fst snd] in P.
    destruct P as [I1 [M1 S1]]. destruct c.
    - specialize (S1 eq_refl). destruct (IH ne s1 I1 ltac:(lia)) as [F [I2 M2]].
      split; [exact F|]. split; [exact I2|lia].
    - cbn [fst snd]. auto.
  Qed.
End Progress.

(* ---------- skip_until ---------- *)
Theorem skip_until_terminates src stop : stop TEndOfFile = true -> forall fuel span s,
  RInv src s -> (unread s < fuel)%nat ->
  let r := skip_until_go fuel stop span s in
  stop (peek_kind (snd r)) = true /\ RInv src (snd r) /\ (unread (snd r) <= unread s)%nat.
Proof.
  intros Hstop. induction fuel as [|fuel IH]; intros span s R Hf; [lia|].
  cbn [skip_until_go]. destruct (stop (peek_kind s)) eqn:E;
    [cbn [snd]; split; [exact E|split; [exact R|lia]]|].
  destruct R as [I Hn].
  assert (Hk : peek_kind s <> TEndOfFile) by (intros H; rewrite H in E; congruence).
  pose proof (take_raw_spec src s I Hk) as T. pose proof (take_raw_extra src s I Hn Hk) as X.
  cbn zeta in T, X. destruct (take_raw s) as [t s1]. cbn [fst snd] in T, X.
  destruct T as [_ [F _]]. destruct X as [U N1].
  match goal with |- context [skip_until_go fuel stop ?sp ?st] =>
    destruct (IH sp st) as [A [B C]] end.
  - split.
    + apply push_skipped_inv; [exact F|]. eapply pd_sorted_weaken; [apply (f_pd _ _ _ F)|lia].
    + exact N1.
  - unfold unread in *. sp. lia.
  - split; [exact A|]. split; [exact B|]. unfold unread in *. sp. lia.
Qed.

(* one iteration of skip_until's loop (take_raw + push) strictly decreases the unread text *)
Theorem skip_until_iter_progress src s :
  RInv src s -> peek_kind s <> TEndOfFile -> (unread (snd (take_raw s)) < unread s)%nat.
Proof. intros [I Hn] Hk. apply (take_raw_extra src s I Hn Hk). Qed.

(* ---------- (c): every stop predicate of parser.rs holds at EndOfFile ---------- *)
Theorem stop_sites_eof : Forall (fun site => snd site TEndOfFile = true) stop_sites.
Proof. unfold stop_sites. repeat (constructor; [reflexivity|]). constructor. Qed.

Theorem separators_not_eof : Forall (fun k => k <> TEndOfFile) separator_kinds.
Proof. unfold separator_kinds. repeat (constructor; [discriminate|]). constructor. Qed.

Lemma parser_new_rinv src : RInv src (parser_new src).
Proof.
  split; [apply parser_new_inv|]. unfold parser_new.
  match goal with |- LookNE (ensure_next_k_exists 2 ?s0) =>
    assert (L0 : LInv src s0) by (constructor; [reflexivity|reflexivity|constructor]);
    apply (ensure_extra src 2 2 s0 L0) end.
  constructor.
Qed.

(* ---------- element parsers made of plumbing operations ---------- *)
(* [try_inv] and [try_mono] hold for every element parser that only acts through the plumbing
   operations, as long as these respect the side conditions of TokenStream.op_ok (checked per
   input through the op log) and unglue's two parts are non-empty (they are "&","&" / "|","|" /
   ">","=" in parser.rs). *)
Definition is_nil {A} (l : list A) : bool := match l with [] => true | _ => false end.
Definition op_ok2 (s : pstate) (o : op) : bool :=
  op_ok s o
  && match o with OUnglue _ _ _ a b => negb (is_nil a) && negb (is_nil b) | _ => true end.

Lemma skip_until_go_extra src stop : stop TEndOfFile = true -> forall fuel span s,
  RInv src s ->
  LookNE (snd (skip_until_go fuel stop span s))
  /\ (unread (snd (skip_until_go fuel stop span s)) <= unread s)%nat.
Proof.
  intros Hstop. induction fuel as [|fuel IH]; intros span s R; [split; [apply R|reflexivity]|].
  cbn [skip_until_go]. destruct (stop (peek_kind s)) eqn:E; [split; [apply R|reflexivity]|].
  destruct R as [I Hn].
  assert (Hk : peek_kind s <> TEndOfFile) by (intros H; rewrite H in E; congruence).
  pose proof (take_raw_spec src s I Hk) as T. pose proof (take_raw_extra src s I Hn Hk) as X.
  cbn zeta in T, X. destruct (take_raw s) as [t s1]. cbn [fst snd] in T, X.
  destruct T as [_ [F _]]. destruct X as [U N1].
  match goal with |- context [skip_until_go fuel stop ?sp ?st] =>
    destruct (IH sp st) as [A B] end.
  - split.
    + apply push_skipped_inv; [exact F|]. eapply pd_sorted_weaken; [apply (f_pd _ _ _ F)|lia].
    + exact N1.
  - split; [exact A|]. unfold unread in *. sp. lia.
Qed.

Lemma run_op_extra src s o :
  RInv src s -> op_ok2 s o = true ->
  RInv src (run_op src s o) /\ (unread (run_op src s o) <= unread s)%nat.
Proof.
  intros R H. unfold op_ok2 in H. apply andb_true_iff in H. destruct H as [Hok H2].
  assert (Iv : Inv src (run_op src s o)) by (apply run_op_inv; [apply R|exact Hok]).
  destruct o; cbn [run_op] in *.
  - (* take *)
    cbn [op_ok] in Hok.
    assert (Hk : peek_kind s <> TEndOfFile)
      by (apply is_eof_false; destruct (is_eof (peek_kind s)); [discriminate|reflexivity]).
    destruct (take_extra src s R Hk) as [R1 U1]. split; [exact R1|lia].
  - destruct (skip_token_extra src kind s R) as [R1 [U1 _]]. split; [exact R1|exact U1].
  - (* skip_until *)
    cbn [op_ok] in Hok. unfold skip_until in *.
    destruct (skip_until_go_extra src stop Hok fuel None s R) as [A B].
    destruct (skip_until_go fuel stop None s) as [span s1]. cbn [snd] in A, B.
    destruct span as [[a b]|]; (split; [split; [exact Iv|exact A]|exact B]).
  - (* skip_taken_node *)
    assert (E : p_look (skip_taken_nodes nodes s) = p_look s /\ p_lex (skip_taken_nodes nodes s) = p_lex s).
    { unfold skip_taken_nodes. destruct (pop_width _ _ _) as [[rr terms]|]; [|split; reflexivity].
      destruct (split_nodes _ _); split; reflexivity. }
    destruct E as [E1 E2]. destruct (same_look_unread s _ E1 E2) as [U N1].
    split; [split; [exact Iv|apply N1, R]|lia].
  - (* unglue *)
    destruct R as [I Hn]. unfold unglue in *. cbn [op_ok] in Hok.
    destruct (tkind_eqb (peek_kind s) orig) eqn:Ek; cbn [negb orb] in *;
      [|split; [split; assumption|reflexivity]].
    apply andb_true_iff in Hok. destruct Hok as [Hok _]. apply andb_true_iff in Hok.
    destruct Hok as [Hok _]. apply andb_true_iff in Hok. destruct Hok as [H1 Ho].
    apply str_eqb_true in H1. apply tkind_eqb_eq in Ek.
    assert (Hk : peek_kind s <> TEndOfFile).
    { rewrite Ek. intros E. rewrite E in Ho. discriminate. }
    pose proof (advance_spec src s I Hk) as A. pose proof (advance_extra src s I Hn Hk) as X.
    cbn zeta in A, X. destruct (advance s) as [o s1]. cbn [fst snd] in A, X.
    destruct A as [A1 _]. destruct X as [X1 [_ X3]]. subst o.
    apply andb_true_iff in H2. destruct H2 as [Ha Hb].
    split; [split; [exact Iv|]|].
    + unfold LookNE, set_look in *. sp.
      constructor; [cbn; intros _; destruct first; [discriminate|discriminate]|].
      constructor; [cbn; intros _; destruct second; [discriminate|discriminate]|exact X3].
    + unfold unread, set_look in *. sp. rewrite !ltext_cons. rewrite <- X1.
      unfold terminal_full_text at 1 2 3. cbn [t_leading t_text t_trailing trivia_text map concat].
      rewrite H1, app_nil_r, !app_length. cbn [length]. unfold trivia_text. lia.
  - (* take_doc *)
    destruct R as [I Hn]. unfold take_doc in *.
    destruct (p_look s) as [|next look'] eqn:El; [exfalso; apply (inv_look_ne _ _ I); exact El|].
    destruct (doc_split (t_leading next) false 0) as [has idx].
    destruct has; cbn [negb] in *;
      [|split; [split; assumption|reflexivity]].
    match goal with |- context [add_trivia_to_terminal src TEmpty ?e ?ts ?s0] =>
      destruct (add_trivia_look src TEmpty e ts s0) as [E1 E2];
      set (s2 := add_trivia_to_terminal src TEmpty e ts s0) in * end.
    sp. split; [split; [exact Iv|]|].
    + unfold LookNE in *. rewrite E1. rewrite El in Hn. inversion Hn; subst. constructor; auto.
    + unfold unread. rewrite E1, E2, El, !ltext_cons.
      unfold terminal_full_text at 2. rewrite <- (firstn_skipn idx (t_leading next)) at 2.
      rewrite trivia_text_app. unfold terminal_full_text. cbn [t_leading t_text t_trailing].
      rewrite !app_length. lia.
  - destruct (report_missing_extra src kind s R) as [R1 U1]. split; [exact R1|lia].
Qed.

(* an element parser that performs the plumbing operations [ops_of s] and answers [res_of s] *)
Definition ops_element (src : str) (res_of : pstate -> tpr) (ops_of : pstate -> list op)
  (s : pstate) : tpr * pstate := (res_of s, fold_left (run_op src) (ops_of s) s).
Fixpoint ops_ok2_from (src : str) (s : pstate) (ops : list op) : bool :=
  match ops with
  | [] => true
  | o :: ops' => op_ok2 s o && ops_ok2_from src (run_op src s o) ops'
  end.

Lemma ops_extra src : forall ops s,
  RInv src s -> ops_ok2_from src s ops = true ->
  RInv src (fold_left (run_op src) ops s) /\ (unread (fold_left (run_op src) ops s) <= unread s)%nat.
Proof.
  induction ops as [|o ops IH]; intros s R H; cbn [fold_left]; [split; [exact R|reflexivity]|].
  cbn [ops_ok2_from] in H. apply andb_true_iff in H. destruct H as [H1 H2].
  destruct (run_op_extra src s o R H1) as [R1 U1]. destruct (IH _ R1 H2) as [R2 U2].
  split; [exact R2|lia].
Qed.

Theorem ops_element_inv_mono src res_of ops_of :
  (forall s, RInv src s -> ops_ok2_from src s (ops_of s) = true) ->
  (forall s, RInv src s -> RInv src (snd (ops_element src res_of ops_of s)))
  /\ (forall s, RInv src s -> (unread (snd (ops_element src res_of ops_of s)) <= unread s)%nat).
Proof.
  intros H. split; intros s R; cbn [ops_element snd]; apply (ops_extra src _ s R (H s R)).
Qed.

(* ---------- the statement of the property file ---------- *)
Theorem recovery_progress :
  forall (src : str) (try_parse : pstate -> tpr * pstate) (should_stop : tkind -> bool)
         (skipped_tag missing_tag : N) (separator : tkind) (forbid_trailing : option N),
  should_stop TEndOfFile = true -> separator <> TEndOfFile ->
  (forall s, RInv src s -> RInv src (snd (try_parse s))) ->
  (forall s, RInv src s -> (unread (snd (try_parse s)) <= unread s)%nat) ->
  (forall s, RInv src s -> fst (try_parse s) = POk -> (unread (snd (try_parse s)) < unread s)%nat) ->
  (forall s, RInv src s -> fst (try_parse s) = PDoNothing ->
     should_stop (peek_kind (snd (try_parse s))) = false ->
     (unread (snd (try_parse s)) < unread s)%nat) ->
  forall s, RInv src s ->
  (* parse_list: an iteration that goes on has strictly less to read; unread + 1 fuel suffices *)
  (let r := parse_list_iter try_parse should_stop skipped_tag s in
   RInv src (snd r) /\ (fst r = true -> (unread (snd r) < unread s)%nat))
  /\ fst (parse_list try_parse should_stop skipped_tag s) = true
  (* parse_separated_list_inner: the same *)
  /\ (forall nonempty,
      let r := sep_list_iter src try_parse should_stop skipped_tag separator missing_tag
                 forbid_trailing nonempty s in
      RInv src (snd r) /\ (fst (fst r) = true -> (unread (snd r) < unread s)%nat))
  /\ fst (parse_separated_list src try_parse should_stop skipped_tag separator missing_tag
            forbid_trailing s) = true
  (* skip_until: the same *)
  /\ (should_stop (peek_kind s) = false -> (unread (snd (take_raw s)) < unread s)%nat)
  /\ should_stop (peek_kind (snd (skip_until_go (S (unread s)) should_stop None s))) = true.
Proof.
  intros src try_parse should_stop skipped_tag missing_tag separator forbid Hstop Hsep H1 H2 H3 H4 s R.
  split; [|split; [|split; [|split; [|split]]]].
  - destruct (parse_list_iter_progress src try_parse should_stop skipped_tag Hstop H1 H2 H3 H4 s R)
      as [A [_ B]]. split; assumption.
  - unfold parse_list.
    apply (parse_list_terminates src try_parse should_stop skipped_tag Hstop H1 H2 H3 H4
             (S (unread s)) s R). lia.
  - intros ne.
    destruct (sep_list_iter_progress src try_parse should_stop skipped_tag Hstop H1 H2 H3
                separator missing_tag forbid Hsep ne s R) as [A [_ B]]. split; assumption.
  - unfold parse_separated_list.
    apply (sep_list_terminates src try_parse should_stop skipped_tag Hstop H1 H2 H3
             separator missing_tag forbid Hsep (S (unread s)) false s R). lia.
  - intros E. destruct R as [I Hn]. apply (take_raw_extra src s I Hn).
    intros H. rewrite H in E. congruence.
  - apply (skip_until_terminates src should_stop Hstop (S (unread s)) None s R). lia.
Qed.

(* the loops are entered in states that satisfy RInv: the initial state does, and so does every
   state reached through plumbing operations that respect the side conditions *)
Theorem rinv_reachable src ops :
  ops_ok2_from src (parser_new src) ops = true -> RInv src (run_ops src ops).
Proof. intros H. apply (ops_extra src ops _ (parser_new_rinv src) H). Qed.

(* ---------- a concrete element parser, for non-vacuity ---------- *)
(* "an item is the keyword fn": Ok after taking it, otherwise Err(SkipToken) without consuming *)
Definition fn_element (src : str) : pstate -> tpr * pstate :=
  ops_element src
    (fun s => if tkind_eqb (peek_kind s) TFunction then POk else PSkipToken)
    (fun s => if tkind_eqb (peek_kind s) TFunction then [OTake] else []).

Lemma fn_element_contract src :
  (forall s, RInv src s -> RInv src (snd (fn_element src s)))
  /\ (forall s, RInv src s -> (unread (snd (fn_element src s)) <= unread s)%nat)
  /\ (forall s, RInv src s -> fst (fn_element src s) = POk ->
        (unread (snd (fn_element src s)) < unread s)%nat)
  /\ (forall stop s, RInv src s -> fst (fn_element src s) = PDoNothing ->
        stop (peek_kind (snd (fn_element src s))) = false ->
        (unread (snd (fn_element src s)) < unread s)%nat).
Proof.
  assert (Hops : forall s, RInv src s ->
            ops_ok2_from src s (if tkind_eqb (peek_kind s) TFunction then [OTake] else []) = true).
  { intros s _. destruct (tkind_eqb (peek_kind s) TFunction) eqn:E; [|reflexivity].
    apply tkind_eqb_eq in E. cbn [ops_ok2_from]. unfold op_ok2. cbn [op_ok]. rewrite E. reflexivity. }
  destruct (ops_element_inv_mono src
              (fun s => if tkind_eqb (peek_kind s) TFunction then POk else PSkipToken) _ Hops) as [A B].
  split; [exact A|]. split; [exact B|]. split.
  - intros s R. unfold fn_element, ops_element. cbn [fst snd].
    destruct (tkind_eqb (peek_kind s) TFunction) eqn:E; [|discriminate]. intros _.
    apply tkind_eqb_eq in E. cbn [fold_left run_op].
    apply (take_extra src s R). rewrite E. discriminate.
  - intros stop s _. unfold fn_element, ops_element. cbn [fst].
    destruct (tkind_eqb (peek_kind s) TFunction); discriminate.
Qed.
