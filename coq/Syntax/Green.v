(* Syntax/Green.v -- model of the green tree widths and the red tree offsets:
     crates/cairo-lang-syntax/src/node/green.rs       GreenNode, GreenNodeDetails, width()
     crates/cairo-lang-syntax-codegen/src/generator.rs new_green (lines 267-279, 323-335, 669-699):
                                                       width = sum of the children's widths;
                                                       missing(): width 0
     crates/cairo-lang-syntax/src/node/mod.rs          collect_children_into (offset_in_parent
                                                       accumulates the widths of the preceding
                                                       siblings from TextOffset::START),
                                                       absolute_offset (parent's + offset_in_parent),
                                                       span = (offset, offset + width), get_text.
   Offsets and widths are byte counts ([str_width]); texts are lists of Unicode scalar values.
   Kinds are carried as strings (SyntaxKind's Debug name): no offset depends on them.
   Model file: no proofs. *)
From Syntax Require Import Lexer.

Inductive green :=
  | GToken (kind : string) (text : str)
  | GNode (kind : string) (children : list green) (width : N).

(* GreenNode::width *)
Definition green_width (g : green) : N :=
  match g with GToken _ t => str_width t | GNode _ _ w => w end.

Definition sum_widths (cs : list green) : N := fold_right (fun c a => green_width c + a) 0 cs.

(* every generated new_green *)
Definition gnode (kind : string) (children : list green) : green :=
  GNode kind children (sum_widths children).
(* every generated missing(): the children are themselves missing() greens *)
Definition gmissing (kind : string) (children : list green) : green := GNode kind children 0.

(* the text under a node: its tokens in order *)
Fixpoint green_text (g : green) : str :=
  match g with
  | GToken _ t => t
  | GNode _ cs _ =>
      (fix go (cs : list green) : str :=
         match cs with [] => [] | c :: cs' => green_text c ++ go cs' end) cs
  end.

(* A green is well formed when every stored width is the sum of the children's widths
   (what new_green establishes; missing() relies on its children having width 0). *)
Fixpoint green_wf (g : green) : bool :=
  match g with
  | GToken _ _ => true
  | GNode _ cs w =>
      (w =? sum_widths cs)
      && (fix go (cs : list green) : bool :=
            match cs with [] => true | c :: cs' => green_wf c && go cs' end) cs
  end.

(* ---- red tree: SyntaxNode with its absolute offset ---- *)
Inductive red :=
  | RT (kind : string) (text : str) (offset width : N)
  | RN (kind : string) (children : list red) (offset width : N).

Definition red_offset (r : red) : N := match r with RT _ _ o _ | RN _ _ o _ => o end.
Definition red_width (r : red) : N := match r with RT _ _ _ w | RN _ _ _ w => w end.

(* new_syntax_node(green, offset_in_parent) for each child in collect_children_into, with
   absolute_offset unfolded: [abs] is the absolute offset of the node being built. *)
Fixpoint red_of (abs : N) (g : green) : red :=
  match g with
  | GToken k t => RT k t abs (str_width t)
  | GNode k cs w =>
      RN k ((fix go (offset_in_parent : N) (cs : list green) : list red :=
               match cs with
               | [] => []
               | c :: cs' =>
                   red_of (abs + offset_in_parent) c :: go (offset_in_parent + green_width c) cs'
               end) 0 cs) abs w
  end.

(* the green under a red node, rebuilt with the smart constructor (used by the correspondence:
   real tree -> forget offsets and widths -> model recomputes them) *)
Fixpoint erase (r : red) : green :=
  match r with
  | RT k t _ _ => GToken k t
  | RN k cs _ _ => gnode k (map erase cs)
  end.

(* SyntaxNode::get_text = span.take(file_content): the slice of the file at the node's span.
   Slicing a list of scalar values by byte offsets. *)
Fixpoint skip_bytes (n : N) (s : str) : str :=
  match s with
  | [] => []
  | c :: s' => if n =? 0 then s else skip_bytes (n - utf8_width c) s'
  end.
Fixpoint take_bytes (n : N) (s : str) : str :=
  match s with
  | [] => []
  | c :: s' => if n =? 0 then [] else c :: take_bytes (n - utf8_width c) s'
  end.
Definition slice_bytes (s : str) (offset width : N) : str := take_bytes width (skip_bytes offset s).

(* ---- specification vocabulary for the theorems (definitions only) ---- *)
(* the greens the parser can build: tokens, new_green over built children, missing() over built
   children of total width 0 *)
Inductive built : green -> Prop :=
  | built_token k t : built (GToken k t)
  | built_node k cs : Forall built cs -> built (gnode k cs)
  | built_missing k cs : Forall built cs -> sum_widths cs = 0 -> built (gmissing k cs).

(* the text under a red node *)
Fixpoint red_text (r : red) : str :=
  match r with
  | RT _ t _ _ => t
  | RN _ cs _ _ =>
      (fix go (cs : list red) : str :=
         match cs with [] => [] | c :: cs' => red_text c ++ go cs' end) cs
  end.

(* P holds at a node and at all its descendants *)
Fixpoint red_all (P : red -> Prop) (r : red) : Prop :=
  P r /\
  match r with
  | RT _ _ _ _ => True
  | RN _ cs _ _ =>
      (fix go (cs : list red) : Prop :=
         match cs with [] => True | c :: cs' => red_all P c /\ go cs' end) cs
  end.

(* consecutive spans from [from] that end exactly at [to] *)
Fixpoint tiles (from to : N) (cs : list red) : Prop :=
  match cs with
  | [] => from = to
  | c :: cs' => red_offset c = from /\ tiles (from + red_width c) to cs'
  end.
(* a node's span is the concatenation of its children's spans *)
Definition children_tile (n : red) : Prop :=
  match n with
  | RT _ _ _ _ => True
  | RN _ cs o w => tiles o (o + w) cs
  end.

(* node [n] of a tree over [file]: its text sits in the file right after [before], its offset is
   the byte length of [before], its width the byte length of its text *)
Definition node_in_file (file : str) (n : red) : Prop :=
  (exists before after, file = before ++ red_text n ++ after /\ red_offset n = str_width before)
  /\ red_width n = str_width (red_text n)
  /\ red_text n = slice_bytes file (red_offset n) (red_width n)
  /\ children_tile n.

