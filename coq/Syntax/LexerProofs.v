(* Syntax/LexerProofs.v -- proofs about the lexer model: every scanner only moves characters from
   the front of [rest] to [span_rev] ([extends]); consume_text_span hands out exactly the span;
   hence match_terminal is lossless, a non-EOF terminal has a non-empty token text, EOF is
   produced only on empty input, and [lex_all] never runs out of fuel. *)
From Syntax Require Import Lexer.
From Coq Require Import Lia.

Local Open Scope N_scope.

(* ---------- the "only moves characters forward" relation ---------- *)
Definition extends (l l' : lexer) : Prop :=
  exists w, span_rev l' = rev w ++ span_rev l /\ rest l = w ++ rest l'.
Definition extends1 (l l' : lexer) : Prop :=
  exists w, w <> [] /\ span_rev l' = rev w ++ span_rev l /\ rest l = w ++ rest l'.

Definition remaining (l : lexer) : str := rev (span_rev l) ++ rest l.

Lemma extends_refl l : extends l l.
Proof. exists []. split; reflexivity. Qed.

Lemma extends_trans a b c : extends a b -> extends b c -> extends a c.
Proof.
  intros [w1 [H1 H2]] [w2 [H3 H4]]. exists (w1 ++ w2). split.
  - rewrite H3, H1, rev_app_distr, app_assoc. reflexivity.
  - rewrite H2, H4, app_assoc. reflexivity.
Qed.

Lemma extends1_extends a b : extends1 a b -> extends a b.
Proof. intros [w [_ H]]. exists w. exact H. Qed.

Lemma extends1_l a b c : extends1 a b -> extends b c -> extends1 a c.
Proof.
  intros [w1 [Hn [H1 H2]]] [w2 [H3 H4]]. exists (w1 ++ w2). split; [|split].
  - destruct w1; [congruence|discriminate].
  - rewrite H3, H1, rev_app_distr, app_assoc. reflexivity.
  - rewrite H2, H4, app_assoc. reflexivity.
Qed.

Lemma extends1_r a b c : extends a b -> extends1 b c -> extends1 a c.
Proof.
  intros [w1 [H1 H2]] [w2 [Hn [H3 H4]]]. exists (w1 ++ w2). split; [|split].
  - destruct w1; [exact Hn|discriminate].
  - rewrite H3, H1, rev_app_distr, app_assoc. reflexivity.
  - rewrite H2, H4, app_assoc. reflexivity.
Qed.

Lemma extends_remaining a b : extends a b -> remaining b = remaining a.
Proof.
  intros [w [H1 H2]]. unfold remaining. rewrite H1, H2, rev_app_distr, rev_involutive, app_assoc.
  reflexivity.
Qed.

Lemma extends_length a b : extends a b -> (length (rest b) <= length (rest a))%nat.
Proof. intros [w [_ H]]. rewrite H, app_length. lia. Qed.

Lemma extends1_length a b : extends1 a b -> (length (rest b) < length (rest a))%nat.
Proof.
  intros [w [Hn [_ H]]]. rewrite H, app_length. destruct w; [congruence|cbn; lia].
Qed.

(* ---------- helpers ---------- *)
Lemma take_extends l : extends l (take l).
Proof.
  unfold take. destruct (rest l) as [|c r] eqn:E.
  - apply extends_refl.
  - exists [c]. cbn. rewrite E. split; reflexivity.
Qed.

Lemma take_extends1 l c : peek l = Some c -> extends1 l (take l).
Proof.
  unfold peek, take. destruct (rest l) as [|x r] eqn:E; cbn; [discriminate|].
  intros _. exists [x]. cbn. rewrite E. repeat split. discriminate.
Qed.

Lemma take_while_go_spec f : forall r acc,
  exists w, span_rev (take_while_go f acc r) = rev w ++ acc /\ r = w ++ rest (take_while_go f acc r).
Proof.
  induction r as [|c r IH]; intros acc; cbn.
  - exists []. split; reflexivity.
  - destruct (f c).
    + destruct (IH (c :: acc)) as [w [H1 H2]]. exists (c :: w). split.
      * rewrite H1. cbn. rewrite <- app_assoc. reflexivity.
      * cbn. f_equal. exact H2.
    + exists []. split; reflexivity.
Qed.

Lemma take_while_extends f l : extends l (take_while f l).
Proof. unfold take_while. destruct (take_while_go_spec f (rest l) (span_rev l)) as [w H]. exists w. exact H. Qed.

Lemma take_while_first f l c :
  peek l = Some c -> f c = true -> take_while f l = take_while f (take l).
Proof.
  unfold peek, take_while, take. destruct (rest l) as [|x r]; cbn; [discriminate|].
  intros H Hf. injection H as ->. rewrite Hf. reflexivity.
Qed.

Lemma take_while_extends1 f l c :
  peek l = Some c -> f c = true -> extends1 l (take_while f l).
Proof.
  intros Hp Hf. rewrite (take_while_first f l c Hp Hf).
  eapply extends1_l; [eapply take_extends1; eauto | apply take_while_extends].
Qed.

Lemma string_helper_go_spec d : forall r esc acc,
  exists w, span_rev (string_helper_go d esc acc r) = rev w ++ acc
            /\ r = w ++ rest (string_helper_go d esc acc r).
Proof.
  induction r as [|c r IH]; intros esc acc; cbn.
  - exists []. split; reflexivity.
  - assert (Hrec : forall e, exists w,
              span_rev (string_helper_go d e (c :: acc) r) = rev w ++ acc
              /\ c :: r = w ++ rest (string_helper_go d e (c :: acc) r)).
    { intros e. destruct (IH e (c :: acc)) as [w [H1 H2]]. exists (c :: w). split.
      - rewrite H1. cbn. rewrite <- app_assoc. reflexivity.
      - cbn. f_equal. exact H2. }
    destruct esc; [apply Hrec|].
    destruct (c =? c_backslash); [apply Hrec|].
    destruct (c =? d); [|apply Hrec].
    exists [c]. split; reflexivity.
Qed.

Lemma string_helper_extends1 d l c :
  peek l = Some c -> extends1 l (take_token_string_helper d l).
Proof.
  intros Hp. unfold take_token_string_helper.
  eapply extends1_l; [eapply take_extends1; eauto|].
  destruct (string_helper_go_spec d (rest (take l)) false (span_rev (take l))) as [w H].
  exists w. exact H.
Qed.

Lemma pick_kind_extends1 s lk sk l c :
  peek l = Some c -> extends1 l (snd (pick_kind s lk sk l)).
Proof.
  intros Hp. unfold pick_kind. destruct (opt_is (peek (take l)) s); cbn.
  - eapply extends1_l; [eapply take_extends1; eauto | apply take_extends].
  - eapply take_extends1; eauto.
Qed.

Lemma pick_kind_kind s lk sk l : fst (pick_kind s lk sk l) = lk \/ fst (pick_kind s lk sk l) = sk.
Proof. unfold pick_kind. destruct (opt_is _ _); cbn; auto. Qed.

Lemma opt_is_true o c : opt_is o c = true -> o = Some c.
Proof. destruct o; cbn; [|discriminate]. intros H. apply N.eqb_eq in H. congruence. Qed.

Lemma cond_take_while_extends (b : bool) f l : extends l (if b then take_while f l else l).
Proof. destruct b; [apply take_while_extends|apply extends_refl]. Qed.

Lemma number_extends1 l c :
  peek l = Some c -> is_ascii_digit c = true -> extends1 l (snd (take_token_literal_number l)).
Proof.
  intros Hp Hd. unfold take_token_literal_number.
  destruct (opt_is (peek l) (ch "0")) eqn:H0.
  - (* leading 0: at least that character is taken *)
    assert (H1 : extends1 l (take l)) by (eapply take_extends1; eauto).
    destruct (peek (take l)) as [c1|] eqn:Hp1.
    + destruct (c1 =? ch "x"); [|destruct (c1 =? ch "o"); [|destruct (c1 =? ch "b")]]; cbn.
      1-3: eapply extends1_l; [exact H1|];
           (eapply extends_trans; [|apply cond_take_while_extends]);
           (eapply extends_trans; [apply take_extends|apply take_while_extends]).
      eapply extends1_l; [exact H1|].
      eapply extends_trans; [apply take_while_extends|apply cond_take_while_extends].
    + cbn. eapply extends1_l; [exact H1|].
      eapply extends_trans; [apply take_while_extends|apply cond_take_while_extends].
  - cbn. eapply extends1_l; [eapply take_while_extends1; eauto|apply cond_take_while_extends].
Qed.

Lemma number_kind l : fst (take_token_literal_number l) = TLiteralNumber.
Proof.
  unfold take_token_literal_number.
  match goal with |- fst (let '(_, _) := ?e in _) = _ => destruct e as [special l0] end.
  reflexivity.
Qed.

Lemma short_string_extends1 l c :
  peek l = Some c -> extends1 l (snd (take_token_short_string l)).
Proof.
  intros Hp. unfold take_token_short_string. cbn.
  eapply extends1_l; [eapply string_helper_extends1; eauto|apply cond_take_while_extends].
Qed.

Lemma identifier_extends1 l c :
  peek l = Some c -> is_ascii_alphabetic c || (c =? c_underscore) = true ->
  extends1 l (snd (take_token_identifier l)).
Proof.
  intros Hp Hc. unfold take_token_identifier. cbn.
  eapply take_while_extends1; eauto.
  unfold is_ident_char, is_ascii_alphanumeric.
  apply orb_true_iff in Hc. destruct Hc as [Hc|Hc]; rewrite Hc; cbn; auto using orb_true_r.
Qed.

Lemma keyword_lookup_not_eof tbl s :
  Forall (fun p => snd p <> TEndOfFile) tbl -> keyword_lookup tbl s <> TEndOfFile.
Proof.
  induction 1 as [|[kw k] tbl Hk _ IH]; cbn; [discriminate|].
  destruct (str_eqb _ _); auto.
Qed.

Lemma keywords_not_eof : Forall (fun p : string * tkind => snd p <> TEndOfFile) keywords.
Proof. unfold keywords. repeat (constructor; [cbn; discriminate|]). constructor. Qed.

Ltac kind_goal :=
  match goal with
  | |- fst (pick_kind ?s ?a ?b ?l) <> _ =>
      destruct (pick_kind_kind s a b l) as [-> | ->]; discriminate
  | |- _ => cbn; discriminate
  end.

(* the token scanner consumes at least one character and never answers EndOfFile *)
Lemma scan_token_spec c l :
  peek l = Some c ->
  extends1 l (snd (scan_token c l)) /\ fst (scan_token c l) <> TEndOfFile.
Proof.
  intros Hp.
  assert (Htk : forall k, extends1 l (snd (take_token_of_kind k l)))
    by (intros k; cbn; eapply take_extends1; eauto).
  assert (Hpk : forall s lk sk, extends1 l (snd (pick_kind s lk sk l)))
    by (intros; eapply pick_kind_extends1; eauto).
  assert (Ht1 : extends1 l (take l)) by (eapply take_extends1; eauto).
  assert (Ht2 : extends1 l (take (take l)))
    by (eapply extends1_l; [exact Ht1|apply take_extends]).
  unfold scan_token.
  repeat match goal with
  | |- context [if ?b then _ else _] =>
      lazymatch b with
      | opt_is _ _ => fail
      | _ => destruct b eqn:?
      end
  end;
  try (split; [solve [apply Htk | apply Hpk] | kind_goal]).
  - split; [eapply number_extends1; eauto | rewrite number_kind; discriminate].
  - split; [eapply short_string_extends1; eauto | discriminate].
  - split; [cbn; eapply string_helper_extends1; eauto | discriminate].
  - (* . .. ..= *)
    destruct (opt_is (peek (take l)) (ch ".")) eqn:Hd.
    + apply opt_is_true in Hd. split.
      * eapply extends1_l; [exact Ht1|apply extends1_extends; eapply pick_kind_extends1; eauto].
      * kind_goal.
    + split; [exact Ht1|discriminate].
  - (* - -> -= *)
    destruct (opt_is (peek (take l)) (ch ">")); [|destruct (opt_is (peek (take l)) (ch "="))];
      cbn; (split; [assumption|discriminate]).
  - split; [eapply identifier_extends1; eauto|].
    unfold take_token_identifier. cbn [fst]. apply keyword_lookup_not_eof, keywords_not_eof.
  - (* = == => *)
    destruct (opt_is (peek (take l)) (ch "=")); [|destruct (opt_is (peek (take l)) (ch ">"))];
      cbn; (split; [assumption|discriminate]).
Qed.

(* ---------- consume_text_span and the trivium matchers ---------- *)
Lemma rev'_rev (s : str) : rev' s = rev s.
Proof. unfold rev'. symmetry. apply rev_alt. Qed.

Lemma consume_spec l :
  fst (consume_text_span l) ++ rest (snd (consume_text_span l)) = remaining l
  /\ span_rev (snd (consume_text_span l)) = []
  /\ rest (snd (consume_text_span l)) = rest l.
Proof. unfold consume_text_span, peek_text_span, remaining. cbn. rewrite rev'_rev. auto. Qed.

(* a trivium step: hands out text [tv_text], leaves an empty span *)
Definition trivium_step (l : lexer) (r : trivium * lexer) : Prop :=
  tv_text (fst r) ++ rest (snd r) = remaining l /\ span_rev (snd r) = []
  /\ (span_rev l = [] -> tv_text (fst r) <> []).

Lemma trivium_of_extends1 l l1 k :
  extends1 l l1 ->
  trivium_step l (let (text, l2) := consume_text_span l1 in ({| tv_kind := k; tv_text := text |}, l2)).
Proof.
  intros He. pose proof (consume_spec l1) as [H1 [H2 H3]].
  destruct (consume_text_span l1) as [text l2] eqn:E. cbn in *.
  split; [|split]; cbn; auto.
  - rewrite H1. apply extends_remaining, extends1_extends, He.
  - intros Hs. inversion E; subst. unfold peek_text_span. rewrite rev'_rev.
    destruct He as [w [Hn [Hw _]]]. rewrite Hw, Hs, app_nil_r, rev_involutive. exact Hn.
Qed.

Lemma whitespace_step l c :
  peek l = Some c -> is_whitespace c = true -> trivium_step l (match_trivium_whitespace l).
Proof.
  intros Hp Hc. unfold match_trivium_whitespace.
  apply trivium_of_extends1. eapply take_while_extends1; eauto.
Qed.

Lemma newline_step l c : peek l = Some c -> trivium_step l (match_trivium_newline l).
Proof.
  intros Hp. unfold match_trivium_newline. apply trivium_of_extends1. eapply take_extends1; eauto.
Qed.

Lemma comment_step l c :
  peek l = Some c -> c =? c_slash = true -> trivium_step l (match_trivium_single_line_comment l).
Proof.
  intros Hp Hc. unfold match_trivium_single_line_comment.
  apply trivium_of_extends1. eapply take_while_extends1; eauto.
  apply N.eqb_eq in Hc. subst c. reflexivity.
Qed.

(* ---------- match_trivia ---------- *)

Opaque match_trivium_whitespace match_trivium_newline match_trivium_single_line_comment.

Lemma match_trivia_go_spec : forall fuel leading l,
  span_rev l = [] ->
  let r := match_trivia_go fuel leading l in
  trivia_text (fst r) ++ rest (snd r) = rest l /\ span_rev (snd r) = [] /\ trivia_ok (fst r).
Proof.
  induction fuel as [|x fuel IH]; intros leading l Hs; cbn [match_trivia_go].
  - cbn. repeat split; auto. constructor.
  - destruct (peek l) as [c|] eqn:Hp; [|cbn; repeat split; auto; constructor].
    remember ((c =? c_nl) && negb leading) as stop eqn:Hstop. clear Hstop.
    assert (Hk : forall r, trivium_step l r ->
      let r' := (let (tv, l') := r in
                 if stop then ([tv], l')
                 else let (tvs, l'') := match_trivia_go fuel leading l' in (tv :: tvs, l'')) in
      trivia_text (fst r') ++ rest (snd r') = rest l /\ span_rev (snd r') = []
      /\ trivia_ok (fst r')).
    { intros [tv l'] [H1 [H2 H3]]. cbn in H1, H2, H3. unfold remaining in H1.
      rewrite Hs in H1. cbn in H1.
      destruct stop; cbn.
      - unfold trivia_text. cbn. rewrite app_nil_r. repeat split; auto.
        constructor; [auto|constructor].
      - specialize (IH leading l' H2). cbn in IH.
        destruct (match_trivia_go fuel leading l') as [tvs l'']. cbn in *.
        destruct IH as [I1 [I2 I3]]. unfold trivia_text in *. cbn.
        rewrite <- app_assoc, I1. repeat split; auto. constructor; auto. }
    destruct (is_whitespace c) eqn:Hw; [apply Hk; eapply whitespace_step; eauto|].
    destruct (c =? c_nl) eqn:Hn; [apply Hk; eapply newline_step; eauto|].
    destruct ((c =? c_slash) && opt_is (peek_nth 1 l) c_slash) eqn:Hc.
    + apply Hk. apply andb_true_iff in Hc. eapply comment_step; [eauto|apply Hc].
    + cbn. repeat split; auto. constructor.
Qed.

Lemma match_trivia_spec leading l :
  span_rev l = [] ->
  let r := match_trivia leading l in
  trivia_text (fst r) ++ rest (snd r) = rest l /\ span_rev (snd r) = [] /\ trivia_ok (fst r).
Proof. apply match_trivia_go_spec. Qed.

(* the fuel of match_trivia is never exhausted: any fuel longer than the input gives the same
   answer (so the [[] => ([], l)] branch of match_trivia_go is unreachable from match_trivia) *)
Lemma trivium_step_length l r :
  span_rev l = [] -> trivium_step l r -> (length (rest (snd r)) < length (rest l))%nat.
Proof.
  intros Hs [H1 [_ H3]]. unfold remaining in H1. rewrite Hs in H1. cbn in H1.
  rewrite <- H1, app_length. specialize (H3 Hs). destruct (tv_text (fst r)); [congruence|cbn; lia].
Qed.

Lemma match_trivia_go_fuel : forall fuel1 fuel2 leading l,
  span_rev l = [] ->
  (length (rest l) < length fuel1)%nat -> (length (rest l) < length fuel2)%nat ->
  match_trivia_go fuel1 leading l = match_trivia_go fuel2 leading l.
Proof.
  induction fuel1 as [|x f1 IH]; intros fuel2 leading l Hs H1 H2; [cbn in H1; lia|].
  destruct fuel2 as [|y f2]; [cbn in H2; lia|]. cbn [match_trivia_go].
  destruct (peek l) as [c|] eqn:Hp; [|reflexivity].
  remember ((c =? c_nl) && negb leading) as stop eqn:Hstop. clear Hstop.
  assert (Hk : forall r, trivium_step l r ->
     (let (tv, l') := r in
      if stop then ([tv], l')
      else let (tvs, l'') := match_trivia_go f1 leading l' in (tv :: tvs, l''))
   = (let (tv, l') := r in
      if stop then ([tv], l')
      else let (tvs, l'') := match_trivia_go f2 leading l' in (tv :: tvs, l''))).
  { intros r Hr. pose proof (trivium_step_length l r Hs Hr) as Hl.
    destruct r as [tv l']. destruct stop; [reflexivity|].
    destruct Hr as [_ [Hs' _]]. cbn in Hs', Hl, H1, H2.
    rewrite (IH f2 leading l' Hs'); [reflexivity|lia|lia]. }
  destruct (is_whitespace c) eqn:Hw; [apply Hk; eapply whitespace_step; eauto|].
  destruct (c =? c_nl) eqn:Hn; [apply Hk; eapply newline_step; eauto|].
  destruct ((c =? c_slash) && opt_is (peek_nth 1 l) c_slash) eqn:Hc; [|reflexivity].
  apply Hk. apply andb_true_iff in Hc. eapply comment_step; [eauto|apply Hc].
Qed.

Lemma match_trivia_fuel_sufficient fuel leading l :
  span_rev l = [] -> (length (rest l) < length fuel)%nat ->
  match_trivia_go fuel leading l = match_trivia leading l.
Proof.
  intros Hs Hl. unfold match_trivia. apply match_trivia_go_fuel; auto.
Qed.

Transparent match_trivium_whitespace match_trivium_newline match_trivium_single_line_comment.

(* ---------- match_terminal ---------- *)

Lemma match_terminal_spec l :
  span_rev l = [] ->
  let r := match_terminal l in
  terminal_full_text (fst r) ++ rest (snd r) = rest l
  /\ span_rev (snd r) = []
  /\ terminal_ok (fst r)
  /\ (t_kind (fst r) = TEndOfFile -> rest (snd r) = []).
Proof.
  intros Hs. unfold match_terminal.
  pose proof (match_trivia_spec true l Hs) as HL.
  destruct (match_trivia true l) as [lead l1]. cbn in HL. destruct HL as [L1 [L2 L3]].
  set (sc := match peek l1 with Some current => scan_token current l1 | None => (TEndOfFile, l1) end).
  assert (Hsc : extends l1 (snd sc)
                /\ (fst sc <> TEndOfFile -> extends1 l1 (snd sc))
                /\ (fst sc = TEndOfFile -> rest l1 = [])).
  { subst sc. destruct (peek l1) as [c|] eqn:Hp.
    - destruct (scan_token_spec c l1 Hp) as [H1 H2]. split; [apply extends1_extends, H1|].
      split; [auto|]. intros H. contradiction.
    - cbn. split; [apply extends_refl|]. split; [congruence|].
      intros _. unfold peek in Hp. destruct (rest l1); [reflexivity|discriminate]. }
  destruct sc as [kind l2]. cbn in Hsc. destruct Hsc as [S1 [S2 S3]].
  pose proof (consume_spec l2) as HC. destruct (consume_text_span l2) as [text l3] eqn:EC.
  cbn in HC. destruct HC as [C1 [C2 C3]].
  pose proof (match_trivia_spec false l3 C2) as HT.
  destruct (match_trivia false l3) as [trail l4]. cbn in HT. destruct HT as [T1 [T2 T3]].
  cbn. unfold terminal_full_text. cbn.
  assert (Hrem : text ++ rest l3 = rest l1).
  { rewrite C1, (extends_remaining _ _ S1). unfold remaining. rewrite L2. reflexivity. }
  split; [|split; [exact T2|split]].
  - rewrite <- L1, <- Hrem, <- T1, <- !app_assoc. reflexivity.
  - split; [exact L3|split; [exact T3|]]. intros Hk. specialize (S2 Hk).
    destruct S2 as [w [Hn [Hw _]]]. inversion EC; subst. unfold peek_text_span.
    rewrite rev'_rev, Hw, L2, app_nil_r, rev_involutive. exact Hn.
  - intros Hk. specialize (S3 Hk). rewrite S3 in Hrem.
    apply app_eq_nil in Hrem. destruct Hrem as [_ Hr3]. rewrite Hr3 in T1.
    apply app_eq_nil in T1. apply T1.
Qed.

(* ---------- lex_all ---------- *)
Lemma lex_fuel_spec : forall fuel l,
  span_rev l = [] -> (length (rest l) < length fuel)%nat ->
  exists ts t, lex_fuel fuel l = Some (ts ++ [t])
    /\ concat (map terminal_full_text (ts ++ [t])) = rest l
    /\ t_kind t = TEndOfFile
    /\ Forall (fun t => t_kind t <> TEndOfFile /\ t_text t <> []) ts
    /\ Forall terminal_ok (ts ++ [t]).
Proof.
  induction fuel as [|x fuel IH]; intros l Hs Hl; [cbn in Hl; lia|]. cbn [lex_fuel].
  pose proof (match_terminal_spec l Hs) as HM.
  destruct (match_terminal l) as [t l']. cbn in HM. destruct HM as [M1 [M2 [M3 M4]]].
  destruct (is_eof (t_kind t)) eqn:He.
  - assert (Hk : t_kind t = TEndOfFile) by (destruct (t_kind t); try discriminate; reflexivity).
    exists [], t. cbn. rewrite app_nil_r. specialize (M4 Hk). rewrite M4, app_nil_r in M1.
    repeat split; auto.
  - assert (Hk : t_kind t <> TEndOfFile) by (intros E; rewrite E in He; discriminate).
    assert (Htx : t_text t <> []) by (apply M3; exact Hk).
    assert (Hlen : (length (rest l') < length fuel)%nat).
    { rewrite <- M1 in Hl. unfold terminal_full_text in Hl. rewrite !app_length in Hl. cbn in Hl.
      destruct (t_text t); [congruence|]. cbn in Hl. lia. }
    destruct (IH l' M2 Hlen) as [ts [te [E1 [E2 [E3 [E4 E5]]]]]].
    exists (t :: ts), te. rewrite E1. cbn. rewrite E2, M1. repeat split; auto.
Qed.

Theorem lexer_not_out_of_fuel s : lex_fuel (0 :: s) (lexer_new s) <> None.
Proof.
  destruct (lex_fuel_spec (0 :: s) (lexer_new s) eq_refl) as [ts [t [E _]]]; [cbn; lia|].
  rewrite E. discriminate.
Qed.

Theorem lexer_lossless s : concat (map terminal_full_text (lex_all s)) = s.
Proof.
  unfold lex_all.
  destruct (lex_fuel_spec (0 :: s) (lexer_new s) eq_refl) as [ts [t [E [H _]]]]; [cbn; lia|].
  rewrite E. exact H.
Qed.

Theorem lexer_total_progress s :
  lex_fuel (0 :: s) (lexer_new s) <> None
  /\ exists ts t, lex_all s = ts ++ [t]
       /\ t_kind t = TEndOfFile
       /\ Forall (fun t => t_kind t <> TEndOfFile /\ t_text t <> []) ts
       /\ Forall terminal_ok (ts ++ [t]).
Proof.
  split; [apply lexer_not_out_of_fuel|]. unfold lex_all.
  destruct (lex_fuel_spec (0 :: s) (lexer_new s) eq_refl) as [ts [t [E [_ H]]]]; [cbn; lia|].
  rewrite E. exists ts, t. split; [reflexivity|exact H].
Qed.

(* ---------- byte widths ---------- *)
Lemma str_width_app a b : str_width (a ++ b) = str_width a + str_width b.
Proof. unfold str_width. induction a as [|c a IH]; cbn [app fold_right]; [reflexivity|]. rewrite IH. lia. Qed.

Lemma trivia_width_text tvs : trivia_width tvs = str_width (trivia_text tvs).
Proof.
  induction tvs as [|tv tvs IH]; [reflexivity|].
  change (trivia_text (tv :: tvs)) with (tv_text tv ++ trivia_text tvs).
  rewrite str_width_app, <- IH. reflexivity.
Qed.

Lemma terminal_width_text t : terminal_width t = str_width (terminal_full_text t).
Proof.
  unfold terminal_width, terminal_full_text.
  rewrite !str_width_app, !trivia_width_text. lia.
Qed.

Theorem lexer_widths s :
  fold_right (fun t a => terminal_width t + a) 0 (lex_all s) = str_width s.
Proof.
  rewrite <- (lexer_lossless s) at 2.
  induction (lex_all s) as [|t ts IH]; cbn; [reflexivity|].
  rewrite str_width_app, IH, terminal_width_text. reflexivity.
Qed.
