(* Syntax/GreenProofs.v -- proofs about green widths and red offsets (Green.v):
   width = byte length of the text below; the offset of a red node = byte length of everything
   before it; its text is the slice of the file at its span; children spans tile the parent's. *)
From Syntax Require Import Lexer LexerProofs Green.
From Coq Require Import Lia.
Local Open Scope N_scope.

(* ---------- induction principle for the nested type ---------- *)
Section green_induction.
  Variable P : green -> Prop.
  Hypothesis HT : forall k t, P (GToken k t).
  Hypothesis HN : forall k cs w, Forall P cs -> P (GNode k cs w).
  Fixpoint green_ind' (g : green) : P g :=
    match g with
    | GToken k t => HT k t
    | GNode k cs w =>
        HN k cs w
          ((fix go (cs : list green) : Forall P cs :=
              match cs with
              | [] => Forall_nil P
              | c :: cs' => Forall_cons c (green_ind' c) (go cs')
              end) cs)
    end.
End green_induction.

(* ---------- the inner fixpoints are the usual list functions ---------- *)
Lemma green_text_node k cs w : green_text (GNode k cs w) = concat (map green_text cs).
Proof. cbn. induction cs as [|c cs IH]; cbn; [reflexivity|]. f_equal; auto. Qed.

Lemma green_wf_node k cs w :
  green_wf (GNode k cs w) = (w =? sum_widths cs) && forallb green_wf cs.
Proof.
  assert (H : forall l,
    (fix go (cs : list green) : bool :=
       match cs with [] => true | c :: cs' => green_wf c && go cs' end) l = forallb green_wf l)
    by (induction l as [|c l IHl]; [reflexivity|]; cbn [forallb]; rewrite <- IHl; reflexivity).
  cbn [green_wf]. rewrite H. reflexivity.
Qed.

Fixpoint red_children (abs off : N) (cs : list green) : list red :=
  match cs with
  | [] => []
  | c :: cs' => red_of (abs + off) c :: red_children abs (off + green_width c) cs'
  end.

Lemma red_of_node abs k cs w : red_of abs (GNode k cs w) = RN k (red_children abs 0 cs) abs w.
Proof.
  cbn. f_equal. generalize 0 as off.
  induction cs as [|c cs IH]; intros off; cbn; [reflexivity|]. f_equal. apply IH.
Qed.

Lemma red_text_node k cs o w : red_text (RN k cs o w) = concat (map red_text cs).
Proof. cbn. induction cs as [|c cs IH]; cbn; [reflexivity|]. f_equal; auto. Qed.

Lemma red_all_node P k cs o w :
  red_all P (RN k cs o w) <-> P (RN k cs o w) /\ Forall (red_all P) cs.
Proof.
  cbn. split; intros [H1 H2]; split; auto.
  - clear H1. induction cs as [|c cs IH]; [constructor|]. destruct H2 as [Ha Hb].
    constructor; [exact Ha|apply IH, Hb].
  - clear H1. induction H2 as [|c cs Ha _ IH]; [exact I|]. split; [exact Ha|exact IH].
Qed.

(* ---------- widths ---------- *)
Lemma sum_widths_text cs :
  Forall (fun c => green_width c = str_width (green_text c)) cs ->
  sum_widths cs = str_width (concat (map green_text cs)).
Proof.
  induction 1 as [|c cs Hc _ IH]; cbn; [reflexivity|].
  rewrite str_width_app, <- IH, <- Hc. reflexivity.
Qed.

Lemma wf_children k cs w :
  green_wf (GNode k cs w) = true -> w = sum_widths cs /\ Forall (fun c => green_wf c = true) cs.
Proof.
  rewrite green_wf_node. intros H. apply andb_true_iff in H. destruct H as [Hw Hc].
  apply N.eqb_eq in Hw. split; [exact Hw|]. apply Forall_forall. intros c Hin.
  rewrite forallb_forall in Hc. auto.
Qed.

Theorem widths_wf : forall g, green_wf g = true -> green_width g = str_width (green_text g).
Proof.
  induction g as [k t|k cs w IH] using green_ind'; intros Hwf; [reflexivity|].
  destruct (wf_children _ _ _ Hwf) as [Hw Hc]. rewrite green_text_node. cbn [green_width].
  rewrite Hw. apply sum_widths_text.
  rewrite Forall_forall in *. intros c Hin. auto.
Qed.

Lemma built_wf : forall g, built g -> green_wf g = true.
Proof.
  fix IH 2. intros g [k t|k cs Hcs|k cs Hcs H0].
  - reflexivity.
  - unfold gnode. rewrite green_wf_node, N.eqb_refl. cbn.
    induction Hcs as [|c cs Hc _ IHcs]; cbn; [reflexivity|]. rewrite (IH c Hc). exact IHcs.
  - unfold gmissing. rewrite green_wf_node, H0. cbn. clear H0.
    induction Hcs as [|c cs Hc _ IHcs]; cbn; [reflexivity|]. rewrite (IH c Hc). exact IHcs.
Qed.

Theorem widths_built : forall g, built g -> green_width g = str_width (green_text g).
Proof. intros g H. apply widths_wf, built_wf, H. Qed.

(* ---------- red tree basics ---------- *)
Lemma red_offset_of abs g : red_offset (red_of abs g) = abs.
Proof. destruct g; [reflexivity|]. rewrite red_of_node. reflexivity. Qed.

Lemma red_width_of abs g : red_width (red_of abs g) = green_width g.
Proof. destruct g; [reflexivity|]. rewrite red_of_node. reflexivity. Qed.

Lemma red_text_of : forall g abs, red_text (red_of abs g) = green_text g.
Proof.
  induction g as [k t|k cs w IH] using green_ind'; intros abs; [reflexivity|].
  rewrite red_of_node, red_text_node, green_text_node. f_equal.
  generalize 0 as off. induction IH as [|c cs Hc _ IHcs]; intros off; cbn; [reflexivity|].
  rewrite Hc. f_equal. apply IHcs.
Qed.

Lemma red_children_tile abs cs : forall off,
  tiles (abs + off) (abs + off + sum_widths cs) (red_children abs off cs).
Proof.
  induction cs as [|c cs IH]; intros off.
  - cbn. lia.
  - change (sum_widths (c :: cs)) with (green_width c + sum_widths cs).
    cbn [red_children tiles].
    split; [apply red_offset_of|]. rewrite red_width_of.
    replace (abs + off + (green_width c + sum_widths cs))
      with (abs + (off + green_width c) + sum_widths cs) by lia.
    replace (abs + off + green_width c) with (abs + (off + green_width c)) by lia.
    apply IH.
Qed.

(* ---------- slicing by byte offsets ---------- *)
Lemma utf8_width_pos c : 1 <= utf8_width c.
Proof. unfold utf8_width. repeat destruct (_ <? _); lia. Qed.

Lemma skip_bytes_prefix p r : skip_bytes (str_width p) (p ++ r) = r.
Proof.
  induction p as [|c p IH]; cbn [app].
  - destruct r; reflexivity.
  - change (str_width (c :: p)) with (utf8_width c + str_width p). cbn [skip_bytes].
    pose proof (utf8_width_pos c).
    destruct (utf8_width c + str_width p =? 0) eqn:E; [apply N.eqb_eq in E; lia|].
    replace (utf8_width c + str_width p - utf8_width c) with (str_width p) by lia. exact IH.
Qed.

Lemma take_bytes_prefix t q : take_bytes (str_width t) (t ++ q) = t.
Proof.
  induction t as [|c t IH]; cbn [app].
  - destruct q; reflexivity.
  - change (str_width (c :: t)) with (utf8_width c + str_width t). cbn [take_bytes].
    pose proof (utf8_width_pos c).
    destruct (utf8_width c + str_width t =? 0) eqn:E; [apply N.eqb_eq in E; lia|].
    replace (utf8_width c + str_width t - utf8_width c) with (str_width t) by lia.
    f_equal. exact IH.
Qed.

Lemma slice_middle p t q : slice_bytes (p ++ t ++ q) (str_width p) (str_width t) = t.
Proof. unfold slice_bytes. rewrite skip_bytes_prefix. apply take_bytes_prefix. Qed.

(* ---------- spans ---------- *)
Lemma node_in_file_intro file n p q :
  file = p ++ red_text n ++ q -> red_offset n = str_width p ->
  red_width n = str_width (red_text n) -> children_tile n -> node_in_file file n.
Proof.
  intros Hf Ho Hw Ht. split; [exists p, q; auto|]. split; [exact Hw|]. split; [|exact Ht].
  rewrite Hf, Ho, Hw. symmetry. apply slice_middle.
Qed.

Lemma spans_gen : forall g, green_wf g = true -> forall p q,
  red_all (node_in_file (p ++ green_text g ++ q)) (red_of (str_width p) g).
Proof.
  induction g as [k t|k cs w IH] using green_ind'; intros Hwf p q.
  - cbn. split; [|exact I]. apply (node_in_file_intro _ _ p q); cbn; auto.
  - destruct (wf_children _ _ _ Hwf) as [Hw Hc].
    rewrite red_of_node. apply red_all_node. split.
    + apply (node_in_file_intro _ _ p q).
      * rewrite <- red_of_node, red_text_of. reflexivity.
      * reflexivity.
      * rewrite <- red_of_node, red_text_of. cbn [red_width].
        change w with (green_width (GNode k cs w)). apply widths_wf, Hwf.
      * cbn. pose proof (red_children_tile (str_width p) cs 0) as T.
        rewrite N.add_0_r in T. rewrite Hw. exact T.
    + (* children: sibling texts accumulate in [done] *)
      rewrite green_text_node.
      assert (G : forall done off, off = str_width done ->
        forall rest, cs = rest \/ True ->
        Forall (fun c => green_wf c = true) rest ->
        Forall (fun c => green_wf c = true -> forall p q,
                  red_all (node_in_file (p ++ green_text c ++ q)) (red_of (str_width p) c)) rest ->
        forall tail,
        Forall (red_all (node_in_file (p ++ (done ++ concat (map green_text rest)) ++ tail)))
               (red_children (str_width p) off rest)).
      { intros done off Hoff rest _ Hwfr. revert done off Hoff.
        induction Hwfr as [|c rest Hcw _ IHr]; intros done off Hoff HIH tail; cbn; [constructor|].
        inversion HIH as [|? ? Hic Hir]; subst. constructor.
        - specialize (Hic Hcw (p ++ done) (concat (map green_text rest) ++ tail)).
          rewrite str_width_app in Hic.
          replace (p ++ (done ++ green_text c ++ concat (map green_text rest)) ++ tail)
            with ((p ++ done) ++ green_text c ++ concat (map green_text rest) ++ tail)
            by (rewrite <- !app_assoc; reflexivity).
          exact Hic.
        - specialize (IHr (done ++ green_text c) (str_width done + green_width c)).
          rewrite (widths_wf c Hcw) in IHr |- *.
          specialize (IHr ltac:(rewrite str_width_app; reflexivity) Hir tail).
          replace (p ++ (done ++ green_text c ++ concat (map green_text rest)) ++ tail)
            with (p ++ ((done ++ green_text c) ++ concat (map green_text rest)) ++ tail)
            by (rewrite <- !app_assoc; reflexivity).
          exact IHr. }
      specialize (G [] 0 eq_refl cs (or_introl eq_refl) Hc IH q). cbn [app] in G. exact G.
Qed.

Theorem spans_wf : forall g, green_wf g = true ->
  let file := green_text g in
  let root := red_of 0 g in
  red_text root = file /\ red_offset root = 0 /\ red_width root = str_width file
  /\ red_all (node_in_file file) root.
Proof.
  intros g Hwf file root. subst file root.
  split; [apply red_text_of|]. split; [apply red_offset_of|].
  split; [rewrite red_width_of; apply widths_wf, Hwf|].
  pose proof (spans_gen g Hwf [] []) as H. cbn [app str_width fold_right] in H.
  rewrite app_nil_r in H. exact H.
Qed.

Theorem spans_built : forall g, built g ->
  let file := green_text g in
  let root := red_of 0 g in
  red_text root = file /\ red_offset root = 0 /\ red_width root = str_width file
  /\ red_all (node_in_file file) root.
Proof. intros g H. apply spans_wf, built_wf, H. Qed.
