(* Syntax/Recovery.v -- model of the parser's recovery loops, over the token-plumbing model
   (TokenStream.v).  crates/cairo-lang-parser/src/parser.rs (line numbers as of /repo 83d2696):
     parse_list                  3458-3505   (through parse_attributed_list 3511: the module / trait /
                                              impl item lists; statement lists, macro rules,
                                              parse_attribute_list 1149)
     parse_separated_list_inner  3540-3605   (parse_separated_list 3608: params, args, struct / enum
                                              members, generic args / params, match arms, patterns,
                                              use trees, implicits, expr lists, ...)
     skip_until                  3819-3855   (TokenStream.skip_until_go)
   and recovery.rs: the `is_of_kind!` stop sets with their EndOfFile guard, and every stop
   predicate the three loops are called with.
   The element parser is a parameter: [try_parse s] returns what `try_parse_list_element(self)`
   answers (Ok / Err(SkipToken) / Err(DoNothing); the green does not matter) and the plumbing
   state it leaves.  RecoveryProofs.v states exactly what the loops need of it.
   Model file: no proofs. *)
From Syntax Require Import Lexer Green TokenStream.

(* TryParseResult, without the green *)
Inductive tpr := POk | PSkipToken | PDoNothing.

(* the measure: characters not yet consumed (in the look-ahead or unread by the lexer) *)
Definition unread (s : pstate) : nat := length (ltext (p_look s) ++ rest (p_lex s)).

Section Loops.
  Variable src : str.
  Variable try_parse : pstate -> tpr * pstate.     (* try_parse_list_element *)
  Variable should_stop : tkind -> bool.
  Variable skipped_tag : N.                         (* SkippedElement { expected_element } *)

  (* one iteration of parse_list's `loop`: (continue?, state) *)
  Definition parse_list_iter (s : pstate) : bool * pstate :=
    let (r, s) := try_parse s in
    match r with
    | POk => (true, s)                                (* children.push(element_green) *)
    | PSkipToken =>
        if should_stop (peek_kind s) then (false, s) else (true, skip_token skipped_tag s)
    | PDoNothing => if should_stop (peek_kind s) then (false, s) else (true, s)
    end.

  (* (finished?, state): finished = the loop reached its `break` *)
  Fixpoint parse_list_go (fuel : nat) (s : pstate) : bool * pstate :=
    match fuel with
    | O => (false, s)
    | S fuel' =>
        let (continue, s') := parse_list_iter s in
        if continue then parse_list_go fuel' s' else (true, s')
    end.
  Definition parse_list (s : pstate) : bool * pstate := parse_list_go (S (unread s)) s.

  (* parse_separated_list_inner *)
  Variable separator : tkind.                       (* Separator::KIND *)
  Variable missing_tag : N.                         (* MissingToken(Separator::KIND) *)
  Variable forbid_trailing_separator : option N.

  (* try_parse_token::<Separator> *)
  Definition try_parse_token (s : pstate) : bool * pstate :=
    if tkind_eqb separator (peek_kind s) then (true, take src s) else (false, s).

  (* one iteration: (continue?, children non-empty afterwards, state) *)
  Definition sep_list_iter (nonempty : bool) (s : pstate) : bool * bool * pstate :=
    let (r, s) := try_parse s in
    match r with
    | POk =>
        let (got, s) := try_parse_token s in
        if got then (true, true, s)
        else if should_stop (peek_kind s) then (false, true, s)
        else (true, true, report_missing missing_tag s)
    | _ =>
        if should_stop (peek_kind s) then
          (false, nonempty,
           match forbid_trailing_separator with
           | Some k => if nonempty then add_diag s k (p_offset s) (p_offset s) else s
           | None => s
           end)
        else (true, nonempty, skip_token skipped_tag s)
    end.

  Fixpoint sep_list_go (fuel : nat) (nonempty : bool) (s : pstate) : bool * pstate :=
    match fuel with
    | O => (false, s)
    | S fuel' =>
        let '(continue, nonempty', s') := sep_list_iter nonempty s in
        if continue then sep_list_go fuel' nonempty' s' else (true, s')
    end.
  Definition parse_separated_list (s : pstate) : bool * pstate :=
    sep_list_go (S (unread s)) false s.
End Loops.

(* ---- recovery.rs: the is_of_kind! sets ---- *)
Definition k_match_arrow := [TMatchArrow].
Definition k_lbrace := [TLBrace].
Definition k_rbrace := [TRBrace].
Definition k_rparen := [TRParen].
Definition k_rbrack := [TRBrack].
Definition k_rangle := [TGT; TGE].
Definition k_or := [TOr].
Definition k_comma := [TComma].
Definition k_semicolon := [TSemicolon].
Definition k_eq := [TEq].
Definition k_module_item_kw :=
  [TConst; TEnum; TExtern; TFunction; TImpl; TMacro; TModule; TStruct; TTrait; TType; TUse].
Definition k_block := [TLet; TMatch; TReturn; TBreak; TContinue; TIf; TWhile; TLoop; TFor].

(* is_of_kind!(sets...) : the listed kinds, and always TerminalEndOfFile *)
Definition is_of_kind (sets : list (list tkind)) (k : tkind) : bool :=
  existsb (tkind_eqb k) (concat sets) || is_eof k.

(* every stop predicate parse_list / parse_separated_list(_inner) / skip_until is called with in
   parser.rs, by the line of the call as of /repo 7186e4e (the loop-event hook 83d2696 shifted them
   down by up to 90 lines); the ErrorRecovery.should_stop values (674, 1323, 2997, 3062) are
   passed on to skip_until by parse_type_clause / the expression-clause helpers *)
Definition stop_sites : list (N * (tkind -> bool)) :=
  [ (250, is_of_kind []); (271, is_eof); (314, is_of_kind []); (356, is_of_kind []);
    (544, is_of_kind [k_rbrace]); (674, is_of_kind [k_eq; k_semicolon; k_module_item_kw]);
    (789, is_of_kind [k_rbrace]); (829, is_of_kind [k_rbrace; k_lbrace]);
    (955, is_of_kind [k_rparen; k_rbrace; k_rbrack]); (1021, is_of_kind [k_rbrace; k_module_item_kw]);
    (1150, fun k => negb (tkind_eqb k THash));
    (1232, is_of_kind [k_rbrace; k_module_item_kw]);
    (1323, is_of_kind [k_eq; k_semicolon; k_module_item_kw]); (1409, is_of_kind [k_rbrace]);
    (1820, is_of_kind [k_rparen; k_block; k_rbrace; k_module_item_kw]);
    (2051, is_of_kind [k_rparen; k_rbrace; k_rbrack; k_block; k_module_item_kw]);
    (2203, is_of_kind [k_rparen; k_block; k_rbrace; k_module_item_kw]);
    (2230, is_of_kind [k_rparen; k_block; k_rbrace; k_module_item_kw]);
    (2257, is_of_kind [k_rbrack; k_semicolon]);
    (2327, is_of_kind [k_rbrace; k_lbrace; k_module_item_kw; k_block]);
    (2351, is_of_kind [k_rbrace; k_module_item_kw]);
    (2371, is_of_kind [k_block; k_rbrace; k_module_item_kw]);
    (2456, is_of_kind [k_rbrace; k_lbrace; k_module_item_kw; k_block]);
    (2473, is_of_kind [k_eq]); (2571, is_of_kind [k_rbrack; k_semicolon]);
    (2597, is_of_kind [k_match_arrow; k_rparen; k_block; k_rbrace; k_module_item_kw]);
    (2644, is_of_kind [k_rparen; k_block; k_rbrace; k_module_item_kw]);
    (2708, is_of_kind [k_rparen; k_block; k_rbrace; k_module_item_kw]);
    (2722, is_of_kind [k_rbrack; k_block; k_rbrace; k_module_item_kw]);
    (2929, is_of_kind [k_rparen; k_lbrace; k_rbrace]);
    (2946, is_of_kind [k_rparen; k_block; k_lbrace; k_rbrace; k_module_item_kw]);
    (2958, is_of_kind [k_or; k_block; k_lbrace; k_rbrace; k_module_item_kw]);
    (2997, is_of_kind [k_comma; k_rparen; k_module_item_kw]);
    (3038, is_of_kind [k_rparen; k_block; k_lbrace; k_rbrace; k_module_item_kw]);
    (3062, is_of_kind [k_comma; k_rbrace; k_module_item_kw]);
    (3074, is_of_kind [k_rparen; k_block; k_lbrace; k_rbrace; k_module_item_kw]);
    (3300, is_of_kind [k_rangle; k_rparen; k_block; k_lbrace; k_rbrace; k_module_item_kw]);
    (3317, is_of_kind [k_rangle; k_rparen; k_block; k_lbrace; k_rbrace; k_module_item_kw]);
    (3386, is_of_kind [k_rbrack; k_rangle; k_rparen; k_block; k_lbrace; k_rbrace; k_module_item_kw]) ].

(* the separators parse_separated_list(_inner) is instantiated with *)
Definition separator_kinds : list tkind := [TComma; TOr].

(* ---- what the hook's loop events say about one run of a real loop (Corr.v check_loops) ---- *)
Inductive lres := LOk | LSkip | LDo | LErr | LNone.
Inductive lkind := LParseList | LSepList | LSkipUntil | LWatched (name : string).
(* consumed = offset + current_width (bytes): at the head of the iteration, right after the
   element parser returned (= head when the loop has none), at the head of the next iteration
   or after the loop; whether the look-ahead was EndOfFile when the element parser returned;
   whether this was the run's last logged iteration *)
Record liter := mkIt { it_c0 : N; it_res : lres; it_eof : bool; it_c1 : N; it_next : option N;
                       it_last : bool }.

(* The contract of RecoveryProofs.v read off one observed iteration:
   - consumption never goes backwards;
   - an iteration that is followed by another one consumed something (progress);
   - parse_list: Ok consumed; DoNothing consumed unless the loop stopped; SkipToken consumed
     nothing, and then the loop either stopped or its skip_token consumed;
   - parse_separated_list: Ok consumed;
   - at EndOfFile an element failure ends the loop (every should_stop holds at EndOfFile). *)
Definition iter_ok (k : lkind) (it : liter) : bool :=
  (it_c0 it <=? it_c1 it)
  && match it_next it with Some n => it_c1 it <=? n | None => true end
  && (it_last it || match it_next it with Some n => it_c0 it <? n | None => false end)
  && match k, it_res it with
     | LParseList, LOk => it_c0 it <? it_c1 it
     | LParseList, LDo => it_last it || (it_c0 it <? it_c1 it)
     | LParseList, LSkip =>
         (it_c0 it =? it_c1 it)
         && (it_last it || match it_next it with Some n => it_c1 it <? n | None => false end)
     | LSepList, LOk => it_c0 it <? it_c1 it
     | _, _ => true
     end
  && match k, it_res it with
     | LParseList, (LSkip | LDo) | LSepList, LErr => negb (it_eof it) || it_last it
     | _, _ => true
     end.
