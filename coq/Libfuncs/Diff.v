(* Libfuncs/Diff.v -- i*_diff (invocations/int/signed.rs::build_diff). *)
From Libfuncs Require Import Tactics Stmt.
From GenC03 Require Import W_i8_diff W_i16_diff W_i32_diff W_i64_diff W_i128_diff.

Ltac diff_tac ps :=
  intros m pb s0 s' va vb Hm Hpc Hr rc Ha Hb Ea Eb Hrc Hrck; unfold in_i in *;
  sound_paths ps Hpc Hr; subst rc;
  sound_mem m Hm Hrck; clear_ap m s0; clear_unused_canon m;
  rewrite ?Ea, ?Eb in *; merge_mods; destr_bools; unfold P in *; repeat split; lia.

Definition paths_i8_diff := Eval vm_compute in
  match symex code_i8_diff 200 [] (sinit entry_i8_diff) with Some p => p | None => [] end.
Theorem i8_diff_sound : idiff_sound 8 code_i8_diff entry_i8_diff.
Proof. time "i8_diff" (diff_tac paths_i8_diff). Qed.

Definition paths_i16_diff := Eval vm_compute in
  match symex code_i16_diff 200 [] (sinit entry_i16_diff) with Some p => p | None => [] end.
Theorem i16_diff_sound : idiff_sound 16 code_i16_diff entry_i16_diff.
Proof. time "i16_diff" (diff_tac paths_i16_diff). Qed.

Definition paths_i32_diff := Eval vm_compute in
  match symex code_i32_diff 200 [] (sinit entry_i32_diff) with Some p => p | None => [] end.
Theorem i32_diff_sound : idiff_sound 32 code_i32_diff entry_i32_diff.
Proof. time "i32_diff" (diff_tac paths_i32_diff). Qed.

Definition paths_i64_diff := Eval vm_compute in
  match symex code_i64_diff 200 [] (sinit entry_i64_diff) with Some p => p | None => [] end.
Theorem i64_diff_sound : idiff_sound 64 code_i64_diff entry_i64_diff.
Proof. time "i64_diff" (diff_tac paths_i64_diff). Qed.

Definition paths_i128_diff := Eval vm_compute in
  match symex code_i128_diff 200 [] (sinit entry_i128_diff) with Some p => p | None => [] end.
Theorem i128_diff_sound : idiff_sound 128 code_i128_diff entry_i128_diff.
Proof. time "i128_diff" (diff_tac paths_i128_diff). Qed.

