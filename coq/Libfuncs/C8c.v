(* Libfuncs/C8c.v -- 8-bit unary libfuncs: completeness with honest hints by a COMPLETE sweep of the 8-bit
   operand domain (vm_compute), lifted with forallb_forall. *)
From Libfuncs Require Import CTactics.
From GenC03 Require Import W_u8_is_zero W_u8_to_felt252 W_u8_sqrt W_i8_to_felt252 W_upcast_u8_i128 W_upcast_u8_i16 W_upcast_u8_i32 W_upcast_u8_i64 W_upcast_u8_u128 W_upcast_u8_u16 W_upcast_u8_u32 W_upcast_u8_u64 W_upcast_i8_i128 W_upcast_i8_i16 W_upcast_i8_i32 W_upcast_i8_i64.

Theorem u8_is_zero_complete : is_zero_complete 8 code_u8_is_zero entry_u8_is_zero.
Proof. sweep_u8_1. Qed.

Theorem u8_to_felt252_complete : uident_complete 8 code_u8_to_felt252 entry_u8_to_felt252.
Proof. sweep_u8_1. Qed.

Theorem u8_sqrt_complete : usqrt_complete 8 code_u8_sqrt entry_u8_sqrt.
Proof. sweep_u8_1. Qed.

Theorem i8_to_felt252_complete : iident_complete 8 code_i8_to_felt252 entry_i8_to_felt252.
Proof. sweep_i8_1. Qed.

Theorem upcast_u8_i128_complete : uident_complete 8 code_upcast_u8_i128 entry_upcast_u8_i128.
Proof. sweep_u8_1. Qed.

Theorem upcast_u8_i16_complete : uident_complete 8 code_upcast_u8_i16 entry_upcast_u8_i16.
Proof. sweep_u8_1. Qed.

Theorem upcast_u8_i32_complete : uident_complete 8 code_upcast_u8_i32 entry_upcast_u8_i32.
Proof. sweep_u8_1. Qed.

Theorem upcast_u8_i64_complete : uident_complete 8 code_upcast_u8_i64 entry_upcast_u8_i64.
Proof. sweep_u8_1. Qed.

Theorem upcast_u8_u128_complete : uident_complete 8 code_upcast_u8_u128 entry_upcast_u8_u128.
Proof. sweep_u8_1. Qed.

Theorem upcast_u8_u16_complete : uident_complete 8 code_upcast_u8_u16 entry_upcast_u8_u16.
Proof. sweep_u8_1. Qed.

Theorem upcast_u8_u32_complete : uident_complete 8 code_upcast_u8_u32 entry_upcast_u8_u32.
Proof. sweep_u8_1. Qed.

Theorem upcast_u8_u64_complete : uident_complete 8 code_upcast_u8_u64 entry_upcast_u8_u64.
Proof. sweep_u8_1. Qed.

Theorem upcast_i8_i128_complete : iident_complete 8 code_upcast_i8_i128 entry_upcast_i8_i128.
Proof. sweep_i8_1. Qed.

Theorem upcast_i8_i16_complete : iident_complete 8 code_upcast_i8_i16 entry_upcast_i8_i16.
Proof. sweep_i8_1. Qed.

Theorem upcast_i8_i32_complete : iident_complete 8 code_upcast_i8_i32 entry_upcast_i8_i32.
Proof. sweep_i8_1. Qed.

Theorem upcast_i8_i64_complete : iident_complete 8 code_upcast_i8_i64 entry_upcast_i8_i64.
Proof. sweep_i8_1. Qed.

