(* Libfuncs/C8b1.v -- i8_overflowing_add: completeness with honest hints by a COMPLETE sweep of the 65 536
   operand pairs (vm_compute), lifted with forallb_forall. *)
From Libfuncs Require Import CTactics.
From GenC03 Require Import W_i8_overflowing_add.

Theorem i8_overflowing_add_complete : iarith_complete Z.add 8 2 1 code_i8_overflowing_add entry_i8_overflowing_add.
Proof. sweep_i8_2. Qed.
