(* Libfuncs/DownB.v -- downcast between BoundedInt types, one instance per CastType case of
   invocations/casts.rs::build_downcast (overflow above / below / both, bounds of either sign, wide and
   far-from-zero ranges). *)
From Libfuncs Require Import Tactics Stmt.
From GenC03 Require Import W_p_downcast_both W_p_downcast_both_pos W_p_downcast_both_neg W_p_downcast_above_only W_p_downcast_above_only_neg_bound W_p_downcast_below_only W_p_downcast_below_only_zero W_p_downcast_below_only_pos W_p_downcast_wide_both W_p_downcast_full_128_to_half W_p_downcast_far_both W_p_downcast_u128_to_upper_2p128_lower_pos W_p_downcast_u128_to_top_singleton W_p_downcast_u128_to_lower_one W_p_downcast_shifted128_both_upper_2p128 W_p_downcast_shifted128_above_upper_2p128_plus1 W_p_downcast_around_2p128_both W_p_downcast_around_2p128_above_to_upper_2p128 W_p_downcast_around_2p128_below_from_2p128 W_p_downcast_neg_to_upper_zero W_p_downcast_neg_to_upper_one W_p_downcast_to_lower_one W_p_downcast_to_singleton_zero W_p_downcast_full_signed_128_to_nonneg.

Ltac cast_tac ps :=
  intros m pb s0 s' v Hm Hpc Hr rc Hv Ev Hrc Hrck;
  sound_paths ps Hpc Hr; subst rc;
  sound_mem m Hm Hrck; clear_ap m s0; clear_unused_canon m;
  rewrite ?Ev in *; merge_mods; destr_bools; unfold P in *; repeat split; lia.

Definition paths_p_downcast_both := Eval vm_compute in
  match symex code_p_downcast_both 200 [] (sinit entry_p_downcast_both) with Some p => p | None => [] end.
Theorem p_downcast_both_sound : downcast_sound (-10) 10 (-5) 5 2 1 code_p_downcast_both entry_p_downcast_both.
Proof. time "p_downcast_both" (cast_tac paths_p_downcast_both). Qed.

Definition paths_p_downcast_both_pos := Eval vm_compute in
  match symex code_p_downcast_both_pos 200 [] (sinit entry_p_downcast_both_pos) with Some p => p | None => [] end.
Theorem p_downcast_both_pos_sound : downcast_sound 0 1000 10 20 2 1 code_p_downcast_both_pos entry_p_downcast_both_pos.
Proof. time "p_downcast_both_pos" (cast_tac paths_p_downcast_both_pos). Qed.

Definition paths_p_downcast_both_neg := Eval vm_compute in
  match symex code_p_downcast_both_neg 200 [] (sinit entry_p_downcast_both_neg) with Some p => p | None => [] end.
Theorem p_downcast_both_neg_sound : downcast_sound (-1000) 0 (-20) (-10) 2 1 code_p_downcast_both_neg entry_p_downcast_both_neg.
Proof. time "p_downcast_both_neg" (cast_tac paths_p_downcast_both_neg). Qed.

Definition paths_p_downcast_above_only := Eval vm_compute in
  match symex code_p_downcast_above_only 200 [] (sinit entry_p_downcast_above_only) with Some p => p | None => [] end.
Theorem p_downcast_above_only_sound : downcast_sound (-10) 10 (-10) 3 1 1 code_p_downcast_above_only entry_p_downcast_above_only.
Proof. time "p_downcast_above_only" (cast_tac paths_p_downcast_above_only). Qed.

Definition paths_p_downcast_above_only_neg_bound := Eval vm_compute in
  match symex code_p_downcast_above_only_neg_bound 200 [] (sinit entry_p_downcast_above_only_neg_bound) with Some p => p | None => [] end.
Theorem p_downcast_above_only_neg_bound_sound : downcast_sound (-10) 10 (-10) (-3) 1 1 code_p_downcast_above_only_neg_bound entry_p_downcast_above_only_neg_bound.
Proof. time "p_downcast_above_only_neg_bound" (cast_tac paths_p_downcast_above_only_neg_bound). Qed.

Definition paths_p_downcast_below_only := Eval vm_compute in
  match symex code_p_downcast_below_only 200 [] (sinit entry_p_downcast_below_only) with Some p => p | None => [] end.
Theorem p_downcast_below_only_sound : downcast_sound (-10) 10 (-3) 10 1 1 code_p_downcast_below_only entry_p_downcast_below_only.
Proof. time "p_downcast_below_only" (cast_tac paths_p_downcast_below_only). Qed.

Definition paths_p_downcast_below_only_zero := Eval vm_compute in
  match symex code_p_downcast_below_only_zero 200 [] (sinit entry_p_downcast_below_only_zero) with Some p => p | None => [] end.
Theorem p_downcast_below_only_zero_sound : downcast_sound (-10) 10 0 10 1 1 code_p_downcast_below_only_zero entry_p_downcast_below_only_zero.
Proof. time "p_downcast_below_only_zero" (cast_tac paths_p_downcast_below_only_zero). Qed.

Definition paths_p_downcast_below_only_pos := Eval vm_compute in
  match symex code_p_downcast_below_only_pos 200 [] (sinit entry_p_downcast_below_only_pos) with Some p => p | None => [] end.
Theorem p_downcast_below_only_pos_sound : downcast_sound (-10) 10 3 10 1 1 code_p_downcast_below_only_pos entry_p_downcast_below_only_pos.
Proof. time "p_downcast_below_only_pos" (cast_tac paths_p_downcast_below_only_pos). Qed.

Definition paths_p_downcast_wide_both := Eval vm_compute in
  match symex code_p_downcast_wide_both 200 [] (sinit entry_p_downcast_wide_both) with Some p => p | None => [] end.
Theorem p_downcast_wide_both_sound : downcast_sound (-170141183460469231731687303715884105728) 170141183460469231731687303715884105727 (-1267650600228229401496703205376) 1267650600228229401496703205376 2 1 code_p_downcast_wide_both entry_p_downcast_wide_both.
Proof. time "p_downcast_wide_both" (cast_tac paths_p_downcast_wide_both). Qed.

Definition paths_p_downcast_full_128_to_half := Eval vm_compute in
  match symex code_p_downcast_full_128_to_half 200 [] (sinit entry_p_downcast_full_128_to_half) with Some p => p | None => [] end.
Theorem p_downcast_full_128_to_half_sound : downcast_sound 0 340282366920938463463374607431768211455 170141183460469231731687303715884105728 340282366920938463463374607431768211455 1 1 code_p_downcast_full_128_to_half entry_p_downcast_full_128_to_half.
Proof. time "p_downcast_full_128_to_half" (cast_tac paths_p_downcast_full_128_to_half). Qed.

Definition paths_p_downcast_far_both := Eval vm_compute in
  match symex code_p_downcast_far_both 200 [] (sinit entry_p_downcast_far_both) with Some p => p | None => [] end.
Theorem p_downcast_far_both_sound : downcast_sound 1606938044258990275541962092341162602522202993782792835301376 1606938044258990275541962092341162602522202993782792835302376 1606938044258990275541962092341162602522202993782792835301386 1606938044258990275541962092341162602522202993782792835301396 2 1 code_p_downcast_far_both entry_p_downcast_far_both.
Proof. time "p_downcast_far_both" (cast_tac paths_p_downcast_far_both). Qed.

Definition paths_p_downcast_u128_to_upper_2p128_lower_pos := Eval vm_compute in
  match symex code_p_downcast_u128_to_upper_2p128_lower_pos 200 [] (sinit entry_p_downcast_u128_to_upper_2p128_lower_pos) with Some p => p | None => [] end.
Theorem p_downcast_u128_to_upper_2p128_lower_pos_sound : downcast_sound 0 340282366920938463463374607431768211455 340282366920938463463374607431768210456 340282366920938463463374607431768211455 1 1 code_p_downcast_u128_to_upper_2p128_lower_pos entry_p_downcast_u128_to_upper_2p128_lower_pos.
Proof. time "p_downcast_u128_to_upper_2p128_lower_pos" (cast_tac paths_p_downcast_u128_to_upper_2p128_lower_pos). Qed.

Definition paths_p_downcast_u128_to_top_singleton := Eval vm_compute in
  match symex code_p_downcast_u128_to_top_singleton 200 [] (sinit entry_p_downcast_u128_to_top_singleton) with Some p => p | None => [] end.
Theorem p_downcast_u128_to_top_singleton_sound : downcast_sound 0 340282366920938463463374607431768211455 340282366920938463463374607431768211455 340282366920938463463374607431768211455 1 1 code_p_downcast_u128_to_top_singleton entry_p_downcast_u128_to_top_singleton.
Proof. time "p_downcast_u128_to_top_singleton" (cast_tac paths_p_downcast_u128_to_top_singleton). Qed.

Definition paths_p_downcast_u128_to_lower_one := Eval vm_compute in
  match symex code_p_downcast_u128_to_lower_one 200 [] (sinit entry_p_downcast_u128_to_lower_one) with Some p => p | None => [] end.
Theorem p_downcast_u128_to_lower_one_sound : downcast_sound 0 340282366920938463463374607431768211455 1 340282366920938463463374607431768211455 1 1 code_p_downcast_u128_to_lower_one entry_p_downcast_u128_to_lower_one.
Proof. time "p_downcast_u128_to_lower_one" (cast_tac paths_p_downcast_u128_to_lower_one). Qed.

Definition paths_p_downcast_shifted128_both_upper_2p128 := Eval vm_compute in
  match symex code_p_downcast_shifted128_both_upper_2p128 200 [] (sinit entry_p_downcast_shifted128_both_upper_2p128) with Some p => p | None => [] end.
Theorem p_downcast_shifted128_both_upper_2p128_sound : downcast_sound 1 340282366920938463463374607431768211456 5 340282366920938463463374607431768211455 2 1 code_p_downcast_shifted128_both_upper_2p128 entry_p_downcast_shifted128_both_upper_2p128.
Proof. time "p_downcast_shifted128_both_upper_2p128" (cast_tac paths_p_downcast_shifted128_both_upper_2p128). Qed.

Definition paths_p_downcast_shifted128_above_upper_2p128_plus1 := Eval vm_compute in
  match symex code_p_downcast_shifted128_above_upper_2p128_plus1 200 [] (sinit entry_p_downcast_shifted128_above_upper_2p128_plus1) with Some p => p | None => [] end.
Theorem p_downcast_shifted128_above_upper_2p128_plus1_sound : downcast_sound 1 340282366920938463463374607431768211456 1 340282366920938463463374607431768211454 1 1 code_p_downcast_shifted128_above_upper_2p128_plus1 entry_p_downcast_shifted128_above_upper_2p128_plus1.
Proof. time "p_downcast_shifted128_above_upper_2p128_plus1" (cast_tac paths_p_downcast_shifted128_above_upper_2p128_plus1). Qed.

Definition paths_p_downcast_around_2p128_both := Eval vm_compute in
  match symex code_p_downcast_around_2p128_both 200 [] (sinit entry_p_downcast_around_2p128_both) with Some p => p | None => [] end.
Theorem p_downcast_around_2p128_both_sound : downcast_sound 340282366920938463463374607431768211451 340282366920938463463374607431768211461 340282366920938463463374607431768211454 340282366920938463463374607431768211457 2 1 code_p_downcast_around_2p128_both entry_p_downcast_around_2p128_both.
Proof. time "p_downcast_around_2p128_both" (cast_tac paths_p_downcast_around_2p128_both). Qed.

Definition paths_p_downcast_around_2p128_above_to_upper_2p128 := Eval vm_compute in
  match symex code_p_downcast_around_2p128_above_to_upper_2p128 200 [] (sinit entry_p_downcast_around_2p128_above_to_upper_2p128) with Some p => p | None => [] end.
Theorem p_downcast_around_2p128_above_to_upper_2p128_sound : downcast_sound 340282366920938463463374607431768211451 340282366920938463463374607431768211461 340282366920938463463374607431768211451 340282366920938463463374607431768211455 1 1 code_p_downcast_around_2p128_above_to_upper_2p128 entry_p_downcast_around_2p128_above_to_upper_2p128.
Proof. time "p_downcast_around_2p128_above_to_upper_2p128" (cast_tac paths_p_downcast_around_2p128_above_to_upper_2p128). Qed.

Definition paths_p_downcast_around_2p128_below_from_2p128 := Eval vm_compute in
  match symex code_p_downcast_around_2p128_below_from_2p128 200 [] (sinit entry_p_downcast_around_2p128_below_from_2p128) with Some p => p | None => [] end.
Theorem p_downcast_around_2p128_below_from_2p128_sound : downcast_sound 340282366920938463463374607431768211451 340282366920938463463374607431768211461 340282366920938463463374607431768211456 340282366920938463463374607431768211461 1 1 code_p_downcast_around_2p128_below_from_2p128 entry_p_downcast_around_2p128_below_from_2p128.
Proof. time "p_downcast_around_2p128_below_from_2p128" (cast_tac paths_p_downcast_around_2p128_below_from_2p128). Qed.

Definition paths_p_downcast_neg_to_upper_zero := Eval vm_compute in
  match symex code_p_downcast_neg_to_upper_zero 200 [] (sinit entry_p_downcast_neg_to_upper_zero) with Some p => p | None => [] end.
Theorem p_downcast_neg_to_upper_zero_sound : downcast_sound (-10) 10 (-10) (-1) 1 1 code_p_downcast_neg_to_upper_zero entry_p_downcast_neg_to_upper_zero.
Proof. time "p_downcast_neg_to_upper_zero" (cast_tac paths_p_downcast_neg_to_upper_zero). Qed.

Definition paths_p_downcast_neg_to_upper_one := Eval vm_compute in
  match symex code_p_downcast_neg_to_upper_one 200 [] (sinit entry_p_downcast_neg_to_upper_one) with Some p => p | None => [] end.
Theorem p_downcast_neg_to_upper_one_sound : downcast_sound (-10) 10 (-10) 0 1 1 code_p_downcast_neg_to_upper_one entry_p_downcast_neg_to_upper_one.
Proof. time "p_downcast_neg_to_upper_one" (cast_tac paths_p_downcast_neg_to_upper_one). Qed.

Definition paths_p_downcast_to_lower_one := Eval vm_compute in
  match symex code_p_downcast_to_lower_one 200 [] (sinit entry_p_downcast_to_lower_one) with Some p => p | None => [] end.
Theorem p_downcast_to_lower_one_sound : downcast_sound (-10) 10 1 10 1 1 code_p_downcast_to_lower_one entry_p_downcast_to_lower_one.
Proof. time "p_downcast_to_lower_one" (cast_tac paths_p_downcast_to_lower_one). Qed.

Definition paths_p_downcast_to_singleton_zero := Eval vm_compute in
  match symex code_p_downcast_to_singleton_zero 200 [] (sinit entry_p_downcast_to_singleton_zero) with Some p => p | None => [] end.
Theorem p_downcast_to_singleton_zero_sound : downcast_sound (-10) 10 0 0 2 1 code_p_downcast_to_singleton_zero entry_p_downcast_to_singleton_zero.
Proof. time "p_downcast_to_singleton_zero" (cast_tac paths_p_downcast_to_singleton_zero). Qed.

Definition paths_p_downcast_full_signed_128_to_nonneg := Eval vm_compute in
  match symex code_p_downcast_full_signed_128_to_nonneg 200 [] (sinit entry_p_downcast_full_signed_128_to_nonneg) with Some p => p | None => [] end.
Theorem p_downcast_full_signed_128_to_nonneg_sound : downcast_sound (-170141183460469231731687303715884105728) 170141183460469231731687303715884105727 0 170141183460469231731687303715884105727 1 1 code_p_downcast_full_signed_128_to_nonneg entry_p_downcast_full_signed_128_to_nonneg.
Proof. time "p_downcast_full_signed_128_to_nonneg" (cast_tac paths_p_downcast_full_signed_128_to_nonneg). Qed.

