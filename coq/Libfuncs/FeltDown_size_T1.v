(* Libfuncs/FeltDown_size_T1.v -- downcast<felt252, BoundedInt<0, 10633823966279327296825105735305134079>> (range_reduction.rs), class size_T1. *)
From Libfuncs Require Import Tactics Stmt.
From GenC03 Require Import W_p_felt_downcast_size_T1.

Ltac feltcast_tac ps :=
  intros m pb s0 s' Hm Hpc Hr rc a Hrc Hrck;
  sound_paths ps Hpc Hr; subst rc a;
  sound_mem m Hm Hrck; clear_ap m s0; clear_unused_canon m;
  unfold felt_in; merge_mods; destr_bools; unfold P in *; repeat split; lia.

Definition paths_p_felt_downcast_size_T1 := Eval vm_compute in
  match symex code_p_felt_downcast_size_T1 200 [] (sinit entry_p_felt_downcast_size_T1) with Some p => p | None => [] end.
Theorem p_felt_downcast_size_T1_sound : feltcast_sound 0 10633823966279327296825105735305134079 2 3 code_p_felt_downcast_size_T1 entry_p_felt_downcast_size_T1.
Proof. time "p_felt_downcast_size_T1" (feltcast_tac paths_p_felt_downcast_size_T1). Qed.
