(* Libfuncs/FeltDown_upper_2p128_singleton.v -- downcast<felt252, BoundedInt<340282366920938463463374607431768211455, 340282366920938463463374607431768211455>> (range_reduction.rs), class upper_2p128_singleton. *)
From Libfuncs Require Import Tactics Stmt.
From GenC03 Require Import W_p_felt_downcast_upper_2p128_singleton.

Ltac feltcast_tac ps :=
  intros m pb s0 s' Hm Hpc Hr rc a Hrc Hrck;
  sound_paths ps Hpc Hr; subst rc a;
  sound_mem m Hm Hrck; clear_ap m s0; clear_unused_canon m;
  unfold felt_in; merge_mods; destr_bools; unfold P in *; repeat split; lia.

Definition paths_p_felt_downcast_upper_2p128_singleton := Eval vm_compute in
  match symex code_p_felt_downcast_upper_2p128_singleton 200 [] (sinit entry_p_felt_downcast_upper_2p128_singleton) with Some p => p | None => [] end.
Theorem p_felt_downcast_upper_2p128_singleton_sound : feltcast_sound 340282366920938463463374607431768211455 340282366920938463463374607431768211455 2 3 code_p_felt_downcast_upper_2p128_singleton entry_p_felt_downcast_upper_2p128_singleton.
Proof. time "p_felt_downcast_upper_2p128_singleton" (feltcast_tac paths_p_felt_downcast_upper_2p128_singleton). Qed.
