(* Libfuncs/Down3.v -- downcast instances (invocations/casts.rs::build_downcast) through TryInto. *)
From Libfuncs Require Import Tactics Stmt.
From GenC03 Require Import W_downcast_i128_i64 W_downcast_i128_u32 W_downcast_i16_u128 W_downcast_i16_u8 W_downcast_i32_u16 W_downcast_i64_i16 W_downcast_i64_u16 W_downcast_i8_u128 W_downcast_i8_u8 W_downcast_u128_i64 W_downcast_u128_u64 W_downcast_u16_u8 W_downcast_u32_u16 W_downcast_u64_i64 W_downcast_u64_u8.

Ltac cast_tac ps :=
  intros m pb s0 s' v Hm Hpc Hr rc Hv Ev Hrc Hrck;
  sound_paths ps Hpc Hr; subst rc;
  sound_mem m Hm Hrck; clear_ap m s0; clear_unused_canon m;
  rewrite ?Ev in *; merge_mods; destr_bools; unfold P in *; repeat split; lia.

Definition paths_downcast_i128_i64 := Eval vm_compute in
  match symex code_downcast_i128_i64 200 [] (sinit entry_downcast_i128_i64) with Some p => p | None => [] end.
Theorem downcast_i128_i64_sound : downcast_sound (-170141183460469231731687303715884105728) 170141183460469231731687303715884105727 (-9223372036854775808) 9223372036854775807 2 1 code_downcast_i128_i64 entry_downcast_i128_i64.
Proof. time "downcast_i128_i64" (cast_tac paths_downcast_i128_i64). Qed.

Definition paths_downcast_i128_u32 := Eval vm_compute in
  match symex code_downcast_i128_u32 200 [] (sinit entry_downcast_i128_u32) with Some p => p | None => [] end.
Theorem downcast_i128_u32_sound : downcast_sound (-170141183460469231731687303715884105728) 170141183460469231731687303715884105727 0 4294967295 2 1 code_downcast_i128_u32 entry_downcast_i128_u32.
Proof. time "downcast_i128_u32" (cast_tac paths_downcast_i128_u32). Qed.

Definition paths_downcast_i16_u128 := Eval vm_compute in
  match symex code_downcast_i16_u128 200 [] (sinit entry_downcast_i16_u128) with Some p => p | None => [] end.
Theorem downcast_i16_u128_sound : downcast_sound (-32768) 32767 0 340282366920938463463374607431768211455 1 1 code_downcast_i16_u128 entry_downcast_i16_u128.
Proof. time "downcast_i16_u128" (cast_tac paths_downcast_i16_u128). Qed.

Definition paths_downcast_i16_u8 := Eval vm_compute in
  match symex code_downcast_i16_u8 200 [] (sinit entry_downcast_i16_u8) with Some p => p | None => [] end.
Theorem downcast_i16_u8_sound : downcast_sound (-32768) 32767 0 255 2 1 code_downcast_i16_u8 entry_downcast_i16_u8.
Proof. time "downcast_i16_u8" (cast_tac paths_downcast_i16_u8). Qed.

Definition paths_downcast_i32_u16 := Eval vm_compute in
  match symex code_downcast_i32_u16 200 [] (sinit entry_downcast_i32_u16) with Some p => p | None => [] end.
Theorem downcast_i32_u16_sound : downcast_sound (-2147483648) 2147483647 0 65535 2 1 code_downcast_i32_u16 entry_downcast_i32_u16.
Proof. time "downcast_i32_u16" (cast_tac paths_downcast_i32_u16). Qed.

Definition paths_downcast_i64_i16 := Eval vm_compute in
  match symex code_downcast_i64_i16 200 [] (sinit entry_downcast_i64_i16) with Some p => p | None => [] end.
Theorem downcast_i64_i16_sound : downcast_sound (-9223372036854775808) 9223372036854775807 (-32768) 32767 2 1 code_downcast_i64_i16 entry_downcast_i64_i16.
Proof. time "downcast_i64_i16" (cast_tac paths_downcast_i64_i16). Qed.

Definition paths_downcast_i64_u16 := Eval vm_compute in
  match symex code_downcast_i64_u16 200 [] (sinit entry_downcast_i64_u16) with Some p => p | None => [] end.
Theorem downcast_i64_u16_sound : downcast_sound (-9223372036854775808) 9223372036854775807 0 65535 2 1 code_downcast_i64_u16 entry_downcast_i64_u16.
Proof. time "downcast_i64_u16" (cast_tac paths_downcast_i64_u16). Qed.

Definition paths_downcast_i8_u128 := Eval vm_compute in
  match symex code_downcast_i8_u128 200 [] (sinit entry_downcast_i8_u128) with Some p => p | None => [] end.
Theorem downcast_i8_u128_sound : downcast_sound (-128) 127 0 340282366920938463463374607431768211455 1 1 code_downcast_i8_u128 entry_downcast_i8_u128.
Proof. time "downcast_i8_u128" (cast_tac paths_downcast_i8_u128). Qed.

Definition paths_downcast_i8_u8 := Eval vm_compute in
  match symex code_downcast_i8_u8 200 [] (sinit entry_downcast_i8_u8) with Some p => p | None => [] end.
Theorem downcast_i8_u8_sound : downcast_sound (-128) 127 0 255 1 1 code_downcast_i8_u8 entry_downcast_i8_u8.
Proof. time "downcast_i8_u8" (cast_tac paths_downcast_i8_u8). Qed.

Definition paths_downcast_u128_i64 := Eval vm_compute in
  match symex code_downcast_u128_i64 200 [] (sinit entry_downcast_u128_i64) with Some p => p | None => [] end.
Theorem downcast_u128_i64_sound : downcast_sound 0 340282366920938463463374607431768211455 (-9223372036854775808) 9223372036854775807 1 1 code_downcast_u128_i64 entry_downcast_u128_i64.
Proof. time "downcast_u128_i64" (cast_tac paths_downcast_u128_i64). Qed.

Definition paths_downcast_u128_u64 := Eval vm_compute in
  match symex code_downcast_u128_u64 200 [] (sinit entry_downcast_u128_u64) with Some p => p | None => [] end.
Theorem downcast_u128_u64_sound : downcast_sound 0 340282366920938463463374607431768211455 0 18446744073709551615 1 1 code_downcast_u128_u64 entry_downcast_u128_u64.
Proof. time "downcast_u128_u64" (cast_tac paths_downcast_u128_u64). Qed.

Definition paths_downcast_u16_u8 := Eval vm_compute in
  match symex code_downcast_u16_u8 200 [] (sinit entry_downcast_u16_u8) with Some p => p | None => [] end.
Theorem downcast_u16_u8_sound : downcast_sound 0 65535 0 255 1 1 code_downcast_u16_u8 entry_downcast_u16_u8.
Proof. time "downcast_u16_u8" (cast_tac paths_downcast_u16_u8). Qed.

Definition paths_downcast_u32_u16 := Eval vm_compute in
  match symex code_downcast_u32_u16 200 [] (sinit entry_downcast_u32_u16) with Some p => p | None => [] end.
Theorem downcast_u32_u16_sound : downcast_sound 0 4294967295 0 65535 1 1 code_downcast_u32_u16 entry_downcast_u32_u16.
Proof. time "downcast_u32_u16" (cast_tac paths_downcast_u32_u16). Qed.

Definition paths_downcast_u64_i64 := Eval vm_compute in
  match symex code_downcast_u64_i64 200 [] (sinit entry_downcast_u64_i64) with Some p => p | None => [] end.
Theorem downcast_u64_i64_sound : downcast_sound 0 18446744073709551615 (-9223372036854775808) 9223372036854775807 1 1 code_downcast_u64_i64 entry_downcast_u64_i64.
Proof. time "downcast_u64_i64" (cast_tac paths_downcast_u64_i64). Qed.

Definition paths_downcast_u64_u8 := Eval vm_compute in
  match symex code_downcast_u64_u8 200 [] (sinit entry_downcast_u64_u8) with Some p => p | None => [] end.
Theorem downcast_u64_u8_sound : downcast_sound 0 18446744073709551615 0 255 1 1 code_downcast_u64_u8 entry_downcast_u64_u8.
Proof. time "downcast_u64_u8" (cast_tac paths_downcast_u64_u8). Qed.

