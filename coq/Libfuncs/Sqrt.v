(* Libfuncs/Sqrt.v -- u{8..128}_sqrt (invocations/int/unsigned.rs::build_sqrt): the hinted root is
   pinned by  root < 2^125,  root^2 <= value,  value <= root^2 + 2 root. *)
From Libfuncs Require Import Tactics Stmt.
From GenC03 Require Import W_u8_sqrt W_u16_sqrt W_u32_sqrt W_u64_sqrt W_u128_sqrt.

Ltac sqrt_tac ps :=
  intros m pb s0 s' Hm Hpc Hr rc a Ha Hrc Hrck; unfold in_u in *;
  sound_paths ps Hpc Hr; subst rc a;
  sound_mem m Hm Hrck; clear_ap m s0; clear_unused_canon m; elim_mods;
  split; [reflexivity|];
  match goal with
  | |- ?r = Z.sqrt ?e =>
      symmetry; apply Z.sqrt_unique;
      replace (Z.succ r * Z.succ r) with (r * r + 2 * r + 1) by ring
  end;
  lia.

Definition paths_u8_sqrt := Eval vm_compute in
  match symex code_u8_sqrt 200 [] (sinit entry_u8_sqrt) with Some p => p | None => [] end.
Theorem u8_sqrt_sound : usqrt_sound 8 code_u8_sqrt entry_u8_sqrt.
Proof. time "u8_sqrt" (sqrt_tac paths_u8_sqrt). Qed.

Definition paths_u16_sqrt := Eval vm_compute in
  match symex code_u16_sqrt 200 [] (sinit entry_u16_sqrt) with Some p => p | None => [] end.
Theorem u16_sqrt_sound : usqrt_sound 16 code_u16_sqrt entry_u16_sqrt.
Proof. time "u16_sqrt" (sqrt_tac paths_u16_sqrt). Qed.

Definition paths_u32_sqrt := Eval vm_compute in
  match symex code_u32_sqrt 200 [] (sinit entry_u32_sqrt) with Some p => p | None => [] end.
Theorem u32_sqrt_sound : usqrt_sound 32 code_u32_sqrt entry_u32_sqrt.
Proof. time "u32_sqrt" (sqrt_tac paths_u32_sqrt). Qed.

Definition paths_u64_sqrt := Eval vm_compute in
  match symex code_u64_sqrt 200 [] (sinit entry_u64_sqrt) with Some p => p | None => [] end.
Theorem u64_sqrt_sound : usqrt_sound 64 code_u64_sqrt entry_u64_sqrt.
Proof. time "u64_sqrt" (sqrt_tac paths_u64_sqrt). Qed.

Definition paths_u128_sqrt := Eval vm_compute in
  match symex code_u128_sqrt 200 [] (sinit entry_u128_sqrt) with Some p => p | None => [] end.
Theorem u128_sqrt_sound : usqrt_sound 128 code_u128_sqrt entry_u128_sqrt.
Proof. time "u128_sqrt" (sqrt_tac paths_u128_sqrt). Qed.

