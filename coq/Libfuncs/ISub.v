(* Libfuncs/ISub.v -- i{8..128}_overflowing_sub (invocations/int/signed.rs, signed128.rs) through
   the public OverflowingAdd/Sub impls of corelib. *)
From Libfuncs Require Import Tactics Stmt.
From GenC03 Require Import W_i8_overflowing_sub W_i16_overflowing_sub W_i32_overflowing_sub W_i64_overflowing_sub W_i128_overflowing_sub.

Ltac iarith_tac ps :=
  intros m pb s0 s' va vb Hm Hpc Hr rc Ha Hb Ea Eb Hrc Hrck; unfold in_i in *;
  sound_paths ps Hpc Hr; subst rc;
  sound_mem m Hm Hrck; clear_ap m s0; clear_unused_canon m;
  unfold iwrap, ifits; rewrite ?Ea, ?Eb in *; merge_mods;
  (destruct (_ <=? _) eqn:E1; [apply Z.leb_le in E1|apply Z.leb_gt in E1]);
  (destruct (_ <? _) eqn:E2; [apply Z.ltb_lt in E2|apply Z.ltb_ge in E2]); cbn [andb];
  unfold P in *; repeat split; lia.

Definition paths_i8_overflowing_sub := Eval vm_compute in
  match symex code_i8_overflowing_sub 200 [] (sinit entry_i8_overflowing_sub) with Some p => p | None => [] end.
Theorem i8_overflowing_sub_sound : iarith_sound Z.sub 8 2 1 code_i8_overflowing_sub entry_i8_overflowing_sub.
Proof. time "i8_overflowing_sub" (iarith_tac paths_i8_overflowing_sub). Qed.

Definition paths_i16_overflowing_sub := Eval vm_compute in
  match symex code_i16_overflowing_sub 200 [] (sinit entry_i16_overflowing_sub) with Some p => p | None => [] end.
Theorem i16_overflowing_sub_sound : iarith_sound Z.sub 16 2 1 code_i16_overflowing_sub entry_i16_overflowing_sub.
Proof. time "i16_overflowing_sub" (iarith_tac paths_i16_overflowing_sub). Qed.

Definition paths_i32_overflowing_sub := Eval vm_compute in
  match symex code_i32_overflowing_sub 200 [] (sinit entry_i32_overflowing_sub) with Some p => p | None => [] end.
Theorem i32_overflowing_sub_sound : iarith_sound Z.sub 32 2 1 code_i32_overflowing_sub entry_i32_overflowing_sub.
Proof. time "i32_overflowing_sub" (iarith_tac paths_i32_overflowing_sub). Qed.

Definition paths_i64_overflowing_sub := Eval vm_compute in
  match symex code_i64_overflowing_sub 200 [] (sinit entry_i64_overflowing_sub) with Some p => p | None => [] end.
Theorem i64_overflowing_sub_sound : iarith_sound Z.sub 64 2 1 code_i64_overflowing_sub entry_i64_overflowing_sub.
Proof. time "i64_overflowing_sub" (iarith_tac paths_i64_overflowing_sub). Qed.

Definition paths_i128_overflowing_sub := Eval vm_compute in
  match symex code_i128_overflowing_sub 200 [] (sinit entry_i128_overflowing_sub) with Some p => p | None => [] end.
Theorem i128_overflowing_sub_sound : iarith_sound Z.sub 128 1 1 code_i128_overflowing_sub entry_i128_overflowing_sub.
Proof. time "i128_overflowing_sub" (iarith_tac paths_i128_overflowing_sub). Qed.

