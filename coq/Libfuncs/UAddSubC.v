(* Libfuncs/UAddSubC.v -- completeness of u*_overflowing_add/sub with honest hints.
   8-bit: complete finite sweep (65 536 pairs) by vm_compute. *)
From Libfuncs Require Import CTactics.
From GenC03 Require Import W_u8_overflowing_add W_u8_overflowing_sub.

Theorem u8_overflowing_add_complete : uarith_complete uadd 8 code_u8_overflowing_add entry_u8_overflowing_add.
Proof. apply uarith_sweep8. time "u8_overflowing_add_complete" (vm_cast_no_check (eq_refl true)). Qed.

Theorem u8_overflowing_sub_complete : uarith_complete usub 8 code_u8_overflowing_sub entry_u8_overflowing_sub.
Proof. apply uarith_sweep8. time "u8_overflowing_sub_complete" (vm_cast_no_check (eq_refl true)). Qed.
