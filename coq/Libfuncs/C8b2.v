(* Libfuncs/C8b2.v -- i8_overflowing_sub: completeness with honest hints by a COMPLETE sweep of the 65 536
   operand pairs (vm_compute), lifted with forallb_forall. *)
From Libfuncs Require Import CTactics.
From GenC03 Require Import W_i8_overflowing_sub.

Theorem i8_overflowing_sub_complete : iarith_complete Z.sub 8 2 1 code_i8_overflowing_sub entry_i8_overflowing_sub.
Proof. sweep_i8_2. Qed.
