(* Libfuncs/Simple.v -- builtin-free libfuncs: u*/i*_eq, felt252_is_zero, u*_is_zero, *_to_felt252
   (invocations/int/mod.rs::build_const / misc.rs, felt252.rs, casts.rs). *)
From Libfuncs Require Import Tactics Stmt.
From GenC03 Require Import W_u8_eq W_u16_eq W_u32_eq W_u64_eq W_u128_eq W_i8_eq W_i16_eq W_i32_eq W_i64_eq W_i128_eq W_felt252_is_zero W_u8_is_zero W_u16_is_zero W_u32_is_zero W_u64_is_zero W_u128_is_zero W_u8_to_felt252 W_u16_to_felt252 W_u32_to_felt252 W_u64_to_felt252 W_u128_to_felt252 W_i8_to_felt252 W_i16_to_felt252 W_i32_to_felt252 W_i64_to_felt252 W_i128_to_felt252.

Ltac eq_tac ps :=
  intros m pb s0 s' Hm Hpc Hr a b;
  sound_paths ps Hpc Hr; subst a b; sound_mem_norc m Hm; finish_lia.
Ltac fzero_tac ps :=
  intros m pb s0 s' Hm Hpc Hr a;
  sound_paths ps Hpc Hr; subst a; sound_mem_norc m Hm; finish_lia.
Ltac is_zero_tac ps :=
  intros m pb s0 s' Hm Hpc Hr a;
  sound_paths ps Hpc Hr; subst a; sound_mem_norc m Hm; finish_lia.
Ltac ident_tac ps :=
  intros m pb s0 s' Hm Hpc Hr;
  sound_paths ps Hpc Hr; sound_mem_norc m Hm; finish_lia.

Definition paths_u8_eq := Eval vm_compute in
  match symex code_u8_eq 200 [] (sinit entry_u8_eq) with Some p => p | None => [] end.
Theorem u8_eq_sound : eq_sound code_u8_eq entry_u8_eq.
Proof. time "u8_eq" (eq_tac paths_u8_eq). Qed.

Definition paths_u16_eq := Eval vm_compute in
  match symex code_u16_eq 200 [] (sinit entry_u16_eq) with Some p => p | None => [] end.
Theorem u16_eq_sound : eq_sound code_u16_eq entry_u16_eq.
Proof. time "u16_eq" (eq_tac paths_u16_eq). Qed.

Definition paths_u32_eq := Eval vm_compute in
  match symex code_u32_eq 200 [] (sinit entry_u32_eq) with Some p => p | None => [] end.
Theorem u32_eq_sound : eq_sound code_u32_eq entry_u32_eq.
Proof. time "u32_eq" (eq_tac paths_u32_eq). Qed.

Definition paths_u64_eq := Eval vm_compute in
  match symex code_u64_eq 200 [] (sinit entry_u64_eq) with Some p => p | None => [] end.
Theorem u64_eq_sound : eq_sound code_u64_eq entry_u64_eq.
Proof. time "u64_eq" (eq_tac paths_u64_eq). Qed.

Definition paths_u128_eq := Eval vm_compute in
  match symex code_u128_eq 200 [] (sinit entry_u128_eq) with Some p => p | None => [] end.
Theorem u128_eq_sound : eq_sound code_u128_eq entry_u128_eq.
Proof. time "u128_eq" (eq_tac paths_u128_eq). Qed.

Definition paths_i8_eq := Eval vm_compute in
  match symex code_i8_eq 200 [] (sinit entry_i8_eq) with Some p => p | None => [] end.
Theorem i8_eq_sound : eq_sound code_i8_eq entry_i8_eq.
Proof. time "i8_eq" (eq_tac paths_i8_eq). Qed.

Definition paths_i16_eq := Eval vm_compute in
  match symex code_i16_eq 200 [] (sinit entry_i16_eq) with Some p => p | None => [] end.
Theorem i16_eq_sound : eq_sound code_i16_eq entry_i16_eq.
Proof. time "i16_eq" (eq_tac paths_i16_eq). Qed.

Definition paths_i32_eq := Eval vm_compute in
  match symex code_i32_eq 200 [] (sinit entry_i32_eq) with Some p => p | None => [] end.
Theorem i32_eq_sound : eq_sound code_i32_eq entry_i32_eq.
Proof. time "i32_eq" (eq_tac paths_i32_eq). Qed.

Definition paths_i64_eq := Eval vm_compute in
  match symex code_i64_eq 200 [] (sinit entry_i64_eq) with Some p => p | None => [] end.
Theorem i64_eq_sound : eq_sound code_i64_eq entry_i64_eq.
Proof. time "i64_eq" (eq_tac paths_i64_eq). Qed.

Definition paths_i128_eq := Eval vm_compute in
  match symex code_i128_eq 200 [] (sinit entry_i128_eq) with Some p => p | None => [] end.
Theorem i128_eq_sound : eq_sound code_i128_eq entry_i128_eq.
Proof. time "i128_eq" (eq_tac paths_i128_eq). Qed.

Definition paths_felt252_is_zero := Eval vm_compute in
  match symex code_felt252_is_zero 200 [] (sinit entry_felt252_is_zero) with Some p => p | None => [] end.
Theorem felt252_is_zero_sound : felt_is_zero_sound code_felt252_is_zero entry_felt252_is_zero.
Proof. time "felt252_is_zero" (fzero_tac paths_felt252_is_zero). Qed.

Definition paths_u8_is_zero := Eval vm_compute in
  match symex code_u8_is_zero 200 [] (sinit entry_u8_is_zero) with Some p => p | None => [] end.
Theorem u8_is_zero_sound : is_zero_sound code_u8_is_zero entry_u8_is_zero.
Proof. time "u8_is_zero" (is_zero_tac paths_u8_is_zero). Qed.

Definition paths_u16_is_zero := Eval vm_compute in
  match symex code_u16_is_zero 200 [] (sinit entry_u16_is_zero) with Some p => p | None => [] end.
Theorem u16_is_zero_sound : is_zero_sound code_u16_is_zero entry_u16_is_zero.
Proof. time "u16_is_zero" (is_zero_tac paths_u16_is_zero). Qed.

Definition paths_u32_is_zero := Eval vm_compute in
  match symex code_u32_is_zero 200 [] (sinit entry_u32_is_zero) with Some p => p | None => [] end.
Theorem u32_is_zero_sound : is_zero_sound code_u32_is_zero entry_u32_is_zero.
Proof. time "u32_is_zero" (is_zero_tac paths_u32_is_zero). Qed.

Definition paths_u64_is_zero := Eval vm_compute in
  match symex code_u64_is_zero 200 [] (sinit entry_u64_is_zero) with Some p => p | None => [] end.
Theorem u64_is_zero_sound : is_zero_sound code_u64_is_zero entry_u64_is_zero.
Proof. time "u64_is_zero" (is_zero_tac paths_u64_is_zero). Qed.

Definition paths_u128_is_zero := Eval vm_compute in
  match symex code_u128_is_zero 200 [] (sinit entry_u128_is_zero) with Some p => p | None => [] end.
Theorem u128_is_zero_sound : is_zero_sound code_u128_is_zero entry_u128_is_zero.
Proof. time "u128_is_zero" (is_zero_tac paths_u128_is_zero). Qed.

Definition paths_u8_to_felt252 := Eval vm_compute in
  match symex code_u8_to_felt252 200 [] (sinit entry_u8_to_felt252) with Some p => p | None => [] end.
Theorem u8_to_felt252_sound : ident_sound code_u8_to_felt252 entry_u8_to_felt252.
Proof. time "u8_to_felt252" (ident_tac paths_u8_to_felt252). Qed.

Definition paths_u16_to_felt252 := Eval vm_compute in
  match symex code_u16_to_felt252 200 [] (sinit entry_u16_to_felt252) with Some p => p | None => [] end.
Theorem u16_to_felt252_sound : ident_sound code_u16_to_felt252 entry_u16_to_felt252.
Proof. time "u16_to_felt252" (ident_tac paths_u16_to_felt252). Qed.

Definition paths_u32_to_felt252 := Eval vm_compute in
  match symex code_u32_to_felt252 200 [] (sinit entry_u32_to_felt252) with Some p => p | None => [] end.
Theorem u32_to_felt252_sound : ident_sound code_u32_to_felt252 entry_u32_to_felt252.
Proof. time "u32_to_felt252" (ident_tac paths_u32_to_felt252). Qed.

Definition paths_u64_to_felt252 := Eval vm_compute in
  match symex code_u64_to_felt252 200 [] (sinit entry_u64_to_felt252) with Some p => p | None => [] end.
Theorem u64_to_felt252_sound : ident_sound code_u64_to_felt252 entry_u64_to_felt252.
Proof. time "u64_to_felt252" (ident_tac paths_u64_to_felt252). Qed.

Definition paths_u128_to_felt252 := Eval vm_compute in
  match symex code_u128_to_felt252 200 [] (sinit entry_u128_to_felt252) with Some p => p | None => [] end.
Theorem u128_to_felt252_sound : ident_sound code_u128_to_felt252 entry_u128_to_felt252.
Proof. time "u128_to_felt252" (ident_tac paths_u128_to_felt252). Qed.

Definition paths_i8_to_felt252 := Eval vm_compute in
  match symex code_i8_to_felt252 200 [] (sinit entry_i8_to_felt252) with Some p => p | None => [] end.
Theorem i8_to_felt252_sound : ident_sound code_i8_to_felt252 entry_i8_to_felt252.
Proof. time "i8_to_felt252" (ident_tac paths_i8_to_felt252). Qed.

Definition paths_i16_to_felt252 := Eval vm_compute in
  match symex code_i16_to_felt252 200 [] (sinit entry_i16_to_felt252) with Some p => p | None => [] end.
Theorem i16_to_felt252_sound : ident_sound code_i16_to_felt252 entry_i16_to_felt252.
Proof. time "i16_to_felt252" (ident_tac paths_i16_to_felt252). Qed.

Definition paths_i32_to_felt252 := Eval vm_compute in
  match symex code_i32_to_felt252 200 [] (sinit entry_i32_to_felt252) with Some p => p | None => [] end.
Theorem i32_to_felt252_sound : ident_sound code_i32_to_felt252 entry_i32_to_felt252.
Proof. time "i32_to_felt252" (ident_tac paths_i32_to_felt252). Qed.

Definition paths_i64_to_felt252 := Eval vm_compute in
  match symex code_i64_to_felt252 200 [] (sinit entry_i64_to_felt252) with Some p => p | None => [] end.
Theorem i64_to_felt252_sound : ident_sound code_i64_to_felt252 entry_i64_to_felt252.
Proof. time "i64_to_felt252" (ident_tac paths_i64_to_felt252). Qed.

Definition paths_i128_to_felt252 := Eval vm_compute in
  match symex code_i128_to_felt252 200 [] (sinit entry_i128_to_felt252) with Some p => p | None => [] end.
Theorem i128_to_felt252_sound : ident_sound code_i128_to_felt252 entry_i128_to_felt252.
Proof. time "i128_to_felt252" (ident_tac paths_i128_to_felt252). Qed.
