(* Libfuncs/C8b3.v -- i8_eq: completeness with honest hints by a COMPLETE sweep of the 65 536
   operand pairs (vm_compute), lifted with forallb_forall. *)
From Libfuncs Require Import CTactics.
From GenC03 Require Import W_i8_eq.

Theorem i8_eq_complete : ieq_complete 8 code_i8_eq entry_i8_eq.
Proof. sweep_i8_2. Qed.
