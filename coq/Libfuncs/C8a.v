(* Libfuncs/C8a.v -- u8 binary libfuncs: completeness with honest hints by a COMPLETE sweep of the 8-bit
   operand domain (vm_compute), lifted with forallb_forall. *)
From Libfuncs Require Import CTactics.
From GenC03 Require Import W_u8_overflowing_add W_u8_overflowing_sub W_u8_eq W_u8_wide_mul W_u8_safe_divmod.

Theorem u8_overflowing_add_complete : uarith_complete uadd 8 code_u8_overflowing_add entry_u8_overflowing_add.
Proof. sweep_u8_2. Qed.

Theorem u8_overflowing_sub_complete : uarith_complete usub 8 code_u8_overflowing_sub entry_u8_overflowing_sub.
Proof. sweep_u8_2. Qed.

Theorem u8_eq_complete : ueq_complete 8 code_u8_eq entry_u8_eq.
Proof. sweep_u8_2. Qed.

Theorem u8_wide_mul_complete : uwide_mul_complete 8 code_u8_wide_mul entry_u8_wide_mul.
Proof. sweep_u8_2. Qed.

Theorem u8_safe_divmod_complete : udivmod_complete 8 3 code_u8_safe_divmod entry_u8_safe_divmod.
Proof. sweep_u8_2. Qed.

