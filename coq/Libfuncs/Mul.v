(* Libfuncs/Mul.v -- u*/i*_wide_mul (w <= 64), felt252_add/sub/mul, upcast instances
   (invocations/int/mod.rs::build_small_wide_mul, felt252.rs, casts.rs::build_upcast). *)
From Libfuncs Require Import Tactics Stmt.
From GenC03 Require Import W_u8_wide_mul W_u16_wide_mul W_u32_wide_mul W_u64_wide_mul W_i8_wide_mul W_i16_wide_mul W_i32_wide_mul W_i64_wide_mul W_felt252_add W_felt252_sub W_felt252_mul W_upcast_i16_i128 W_upcast_i16_i32 W_upcast_i16_i64 W_upcast_i32_i128 W_upcast_i32_i64 W_upcast_i64_i128 W_upcast_i8_i128 W_upcast_i8_i16 W_upcast_i8_i32 W_upcast_i8_i64 W_upcast_u16_i128 W_upcast_u16_i32 W_upcast_u16_i64 W_upcast_u16_u128 W_upcast_u16_u32 W_upcast_u16_u64 W_upcast_u32_i128 W_upcast_u32_i64 W_upcast_u32_u128 W_upcast_u32_u64 W_upcast_u64_i128 W_upcast_u64_u128 W_upcast_u8_i128 W_upcast_u8_i16 W_upcast_u8_i32 W_upcast_u8_i64 W_upcast_u8_u128 W_upcast_u8_u16 W_upcast_u8_u32 W_upcast_u8_u64.

Ltac uwide_tac ps :=
  intros m pb s0 s' Hm Hpc Hr a b Ha Hb; unfold in_u in *;
  sound_paths ps Hpc Hr; subst a b; sound_mem_norc m Hm;
  match goal with |- _ = ?x * ?y => assert (0 <= x * y < 2 ^ 128) by nia end;
  unfold P in *; lia.
Ltac iwide_tac ps :=
  intros m pb s0 s' va vb Hm Hpc Hr Ha Hb Ea Eb; unfold in_i in *;
  sound_paths ps Hpc Hr; sound_mem_norc m Hm;
  rewrite ?Ea, ?Eb in *; rewrite Z.mul_mod_idemp_l, Z.mul_mod_idemp_r by (unfold P; lia);
  reflexivity.
Ltac felt_tac ps :=
  intros m pb s0 s' Hm Hpc Hr a b;
  sound_paths ps Hpc Hr; subst a b; unfold fadd, fsub, fmul; sound_mem_norc m Hm;
  unfold P in *; lia.
Ltac ident_tac ps :=
  intros m pb s0 s' Hm Hpc Hr;
  sound_paths ps Hpc Hr; sound_mem_norc m Hm; finish_lia.

Definition paths_u8_wide_mul := Eval vm_compute in
  match symex code_u8_wide_mul 200 [] (sinit entry_u8_wide_mul) with Some p => p | None => [] end.
Theorem u8_wide_mul_sound : uwide_mul_sound 8 code_u8_wide_mul entry_u8_wide_mul.
Proof. time "u8_wide_mul" (uwide_tac paths_u8_wide_mul). Qed.

Definition paths_u16_wide_mul := Eval vm_compute in
  match symex code_u16_wide_mul 200 [] (sinit entry_u16_wide_mul) with Some p => p | None => [] end.
Theorem u16_wide_mul_sound : uwide_mul_sound 16 code_u16_wide_mul entry_u16_wide_mul.
Proof. time "u16_wide_mul" (uwide_tac paths_u16_wide_mul). Qed.

Definition paths_u32_wide_mul := Eval vm_compute in
  match symex code_u32_wide_mul 200 [] (sinit entry_u32_wide_mul) with Some p => p | None => [] end.
Theorem u32_wide_mul_sound : uwide_mul_sound 32 code_u32_wide_mul entry_u32_wide_mul.
Proof. time "u32_wide_mul" (uwide_tac paths_u32_wide_mul). Qed.

Definition paths_u64_wide_mul := Eval vm_compute in
  match symex code_u64_wide_mul 200 [] (sinit entry_u64_wide_mul) with Some p => p | None => [] end.
Theorem u64_wide_mul_sound : uwide_mul_sound 64 code_u64_wide_mul entry_u64_wide_mul.
Proof. time "u64_wide_mul" (uwide_tac paths_u64_wide_mul). Qed.

Definition paths_i8_wide_mul := Eval vm_compute in
  match symex code_i8_wide_mul 200 [] (sinit entry_i8_wide_mul) with Some p => p | None => [] end.
Theorem i8_wide_mul_sound : iwide_mul_sound 8 code_i8_wide_mul entry_i8_wide_mul.
Proof. time "i8_wide_mul" (iwide_tac paths_i8_wide_mul). Qed.

Definition paths_i16_wide_mul := Eval vm_compute in
  match symex code_i16_wide_mul 200 [] (sinit entry_i16_wide_mul) with Some p => p | None => [] end.
Theorem i16_wide_mul_sound : iwide_mul_sound 16 code_i16_wide_mul entry_i16_wide_mul.
Proof. time "i16_wide_mul" (iwide_tac paths_i16_wide_mul). Qed.

Definition paths_i32_wide_mul := Eval vm_compute in
  match symex code_i32_wide_mul 200 [] (sinit entry_i32_wide_mul) with Some p => p | None => [] end.
Theorem i32_wide_mul_sound : iwide_mul_sound 32 code_i32_wide_mul entry_i32_wide_mul.
Proof. time "i32_wide_mul" (iwide_tac paths_i32_wide_mul). Qed.

Definition paths_i64_wide_mul := Eval vm_compute in
  match symex code_i64_wide_mul 200 [] (sinit entry_i64_wide_mul) with Some p => p | None => [] end.
Theorem i64_wide_mul_sound : iwide_mul_sound 64 code_i64_wide_mul entry_i64_wide_mul.
Proof. time "i64_wide_mul" (iwide_tac paths_i64_wide_mul). Qed.

Definition paths_felt252_add := Eval vm_compute in
  match symex code_felt252_add 200 [] (sinit entry_felt252_add) with Some p => p | None => [] end.
Theorem felt252_add_sound : felt_binop_sound fadd code_felt252_add entry_felt252_add.
Proof. time "felt252_add" (felt_tac paths_felt252_add). Qed.

Definition paths_felt252_sub := Eval vm_compute in
  match symex code_felt252_sub 200 [] (sinit entry_felt252_sub) with Some p => p | None => [] end.
Theorem felt252_sub_sound : felt_binop_sound fsub code_felt252_sub entry_felt252_sub.
Proof. time "felt252_sub" (felt_tac paths_felt252_sub). Qed.

Definition paths_felt252_mul := Eval vm_compute in
  match symex code_felt252_mul 200 [] (sinit entry_felt252_mul) with Some p => p | None => [] end.
Theorem felt252_mul_sound : felt_binop_sound fmul code_felt252_mul entry_felt252_mul.
Proof. time "felt252_mul" (felt_tac paths_felt252_mul). Qed.

Definition paths_upcast_i16_i128 := Eval vm_compute in
  match symex code_upcast_i16_i128 200 [] (sinit entry_upcast_i16_i128) with Some p => p | None => [] end.
Theorem upcast_i16_i128_sound : ident_sound code_upcast_i16_i128 entry_upcast_i16_i128.
Proof. time "upcast_i16_i128" (ident_tac paths_upcast_i16_i128). Qed.

Definition paths_upcast_i16_i32 := Eval vm_compute in
  match symex code_upcast_i16_i32 200 [] (sinit entry_upcast_i16_i32) with Some p => p | None => [] end.
Theorem upcast_i16_i32_sound : ident_sound code_upcast_i16_i32 entry_upcast_i16_i32.
Proof. time "upcast_i16_i32" (ident_tac paths_upcast_i16_i32). Qed.

Definition paths_upcast_i16_i64 := Eval vm_compute in
  match symex code_upcast_i16_i64 200 [] (sinit entry_upcast_i16_i64) with Some p => p | None => [] end.
Theorem upcast_i16_i64_sound : ident_sound code_upcast_i16_i64 entry_upcast_i16_i64.
Proof. time "upcast_i16_i64" (ident_tac paths_upcast_i16_i64). Qed.

Definition paths_upcast_i32_i128 := Eval vm_compute in
  match symex code_upcast_i32_i128 200 [] (sinit entry_upcast_i32_i128) with Some p => p | None => [] end.
Theorem upcast_i32_i128_sound : ident_sound code_upcast_i32_i128 entry_upcast_i32_i128.
Proof. time "upcast_i32_i128" (ident_tac paths_upcast_i32_i128). Qed.

Definition paths_upcast_i32_i64 := Eval vm_compute in
  match symex code_upcast_i32_i64 200 [] (sinit entry_upcast_i32_i64) with Some p => p | None => [] end.
Theorem upcast_i32_i64_sound : ident_sound code_upcast_i32_i64 entry_upcast_i32_i64.
Proof. time "upcast_i32_i64" (ident_tac paths_upcast_i32_i64). Qed.

Definition paths_upcast_i64_i128 := Eval vm_compute in
  match symex code_upcast_i64_i128 200 [] (sinit entry_upcast_i64_i128) with Some p => p | None => [] end.
Theorem upcast_i64_i128_sound : ident_sound code_upcast_i64_i128 entry_upcast_i64_i128.
Proof. time "upcast_i64_i128" (ident_tac paths_upcast_i64_i128). Qed.

Definition paths_upcast_i8_i128 := Eval vm_compute in
  match symex code_upcast_i8_i128 200 [] (sinit entry_upcast_i8_i128) with Some p => p | None => [] end.
Theorem upcast_i8_i128_sound : ident_sound code_upcast_i8_i128 entry_upcast_i8_i128.
Proof. time "upcast_i8_i128" (ident_tac paths_upcast_i8_i128). Qed.

Definition paths_upcast_i8_i16 := Eval vm_compute in
  match symex code_upcast_i8_i16 200 [] (sinit entry_upcast_i8_i16) with Some p => p | None => [] end.
Theorem upcast_i8_i16_sound : ident_sound code_upcast_i8_i16 entry_upcast_i8_i16.
Proof. time "upcast_i8_i16" (ident_tac paths_upcast_i8_i16). Qed.

Definition paths_upcast_i8_i32 := Eval vm_compute in
  match symex code_upcast_i8_i32 200 [] (sinit entry_upcast_i8_i32) with Some p => p | None => [] end.
Theorem upcast_i8_i32_sound : ident_sound code_upcast_i8_i32 entry_upcast_i8_i32.
Proof. time "upcast_i8_i32" (ident_tac paths_upcast_i8_i32). Qed.

Definition paths_upcast_i8_i64 := Eval vm_compute in
  match symex code_upcast_i8_i64 200 [] (sinit entry_upcast_i8_i64) with Some p => p | None => [] end.
Theorem upcast_i8_i64_sound : ident_sound code_upcast_i8_i64 entry_upcast_i8_i64.
Proof. time "upcast_i8_i64" (ident_tac paths_upcast_i8_i64). Qed.

Definition paths_upcast_u16_i128 := Eval vm_compute in
  match symex code_upcast_u16_i128 200 [] (sinit entry_upcast_u16_i128) with Some p => p | None => [] end.
Theorem upcast_u16_i128_sound : ident_sound code_upcast_u16_i128 entry_upcast_u16_i128.
Proof. time "upcast_u16_i128" (ident_tac paths_upcast_u16_i128). Qed.

Definition paths_upcast_u16_i32 := Eval vm_compute in
  match symex code_upcast_u16_i32 200 [] (sinit entry_upcast_u16_i32) with Some p => p | None => [] end.
Theorem upcast_u16_i32_sound : ident_sound code_upcast_u16_i32 entry_upcast_u16_i32.
Proof. time "upcast_u16_i32" (ident_tac paths_upcast_u16_i32). Qed.

Definition paths_upcast_u16_i64 := Eval vm_compute in
  match symex code_upcast_u16_i64 200 [] (sinit entry_upcast_u16_i64) with Some p => p | None => [] end.
Theorem upcast_u16_i64_sound : ident_sound code_upcast_u16_i64 entry_upcast_u16_i64.
Proof. time "upcast_u16_i64" (ident_tac paths_upcast_u16_i64). Qed.

Definition paths_upcast_u16_u128 := Eval vm_compute in
  match symex code_upcast_u16_u128 200 [] (sinit entry_upcast_u16_u128) with Some p => p | None => [] end.
Theorem upcast_u16_u128_sound : ident_sound code_upcast_u16_u128 entry_upcast_u16_u128.
Proof. time "upcast_u16_u128" (ident_tac paths_upcast_u16_u128). Qed.

Definition paths_upcast_u16_u32 := Eval vm_compute in
  match symex code_upcast_u16_u32 200 [] (sinit entry_upcast_u16_u32) with Some p => p | None => [] end.
Theorem upcast_u16_u32_sound : ident_sound code_upcast_u16_u32 entry_upcast_u16_u32.
Proof. time "upcast_u16_u32" (ident_tac paths_upcast_u16_u32). Qed.

Definition paths_upcast_u16_u64 := Eval vm_compute in
  match symex code_upcast_u16_u64 200 [] (sinit entry_upcast_u16_u64) with Some p => p | None => [] end.
Theorem upcast_u16_u64_sound : ident_sound code_upcast_u16_u64 entry_upcast_u16_u64.
Proof. time "upcast_u16_u64" (ident_tac paths_upcast_u16_u64). Qed.

Definition paths_upcast_u32_i128 := Eval vm_compute in
  match symex code_upcast_u32_i128 200 [] (sinit entry_upcast_u32_i128) with Some p => p | None => [] end.
Theorem upcast_u32_i128_sound : ident_sound code_upcast_u32_i128 entry_upcast_u32_i128.
Proof. time "upcast_u32_i128" (ident_tac paths_upcast_u32_i128). Qed.

Definition paths_upcast_u32_i64 := Eval vm_compute in
  match symex code_upcast_u32_i64 200 [] (sinit entry_upcast_u32_i64) with Some p => p | None => [] end.
Theorem upcast_u32_i64_sound : ident_sound code_upcast_u32_i64 entry_upcast_u32_i64.
Proof. time "upcast_u32_i64" (ident_tac paths_upcast_u32_i64). Qed.

Definition paths_upcast_u32_u128 := Eval vm_compute in
  match symex code_upcast_u32_u128 200 [] (sinit entry_upcast_u32_u128) with Some p => p | None => [] end.
Theorem upcast_u32_u128_sound : ident_sound code_upcast_u32_u128 entry_upcast_u32_u128.
Proof. time "upcast_u32_u128" (ident_tac paths_upcast_u32_u128). Qed.

Definition paths_upcast_u32_u64 := Eval vm_compute in
  match symex code_upcast_u32_u64 200 [] (sinit entry_upcast_u32_u64) with Some p => p | None => [] end.
Theorem upcast_u32_u64_sound : ident_sound code_upcast_u32_u64 entry_upcast_u32_u64.
Proof. time "upcast_u32_u64" (ident_tac paths_upcast_u32_u64). Qed.

Definition paths_upcast_u64_i128 := Eval vm_compute in
  match symex code_upcast_u64_i128 200 [] (sinit entry_upcast_u64_i128) with Some p => p | None => [] end.
Theorem upcast_u64_i128_sound : ident_sound code_upcast_u64_i128 entry_upcast_u64_i128.
Proof. time "upcast_u64_i128" (ident_tac paths_upcast_u64_i128). Qed.

Definition paths_upcast_u64_u128 := Eval vm_compute in
  match symex code_upcast_u64_u128 200 [] (sinit entry_upcast_u64_u128) with Some p => p | None => [] end.
Theorem upcast_u64_u128_sound : ident_sound code_upcast_u64_u128 entry_upcast_u64_u128.
Proof. time "upcast_u64_u128" (ident_tac paths_upcast_u64_u128). Qed.

Definition paths_upcast_u8_i128 := Eval vm_compute in
  match symex code_upcast_u8_i128 200 [] (sinit entry_upcast_u8_i128) with Some p => p | None => [] end.
Theorem upcast_u8_i128_sound : ident_sound code_upcast_u8_i128 entry_upcast_u8_i128.
Proof. time "upcast_u8_i128" (ident_tac paths_upcast_u8_i128). Qed.

Definition paths_upcast_u8_i16 := Eval vm_compute in
  match symex code_upcast_u8_i16 200 [] (sinit entry_upcast_u8_i16) with Some p => p | None => [] end.
Theorem upcast_u8_i16_sound : ident_sound code_upcast_u8_i16 entry_upcast_u8_i16.
Proof. time "upcast_u8_i16" (ident_tac paths_upcast_u8_i16). Qed.

Definition paths_upcast_u8_i32 := Eval vm_compute in
  match symex code_upcast_u8_i32 200 [] (sinit entry_upcast_u8_i32) with Some p => p | None => [] end.
Theorem upcast_u8_i32_sound : ident_sound code_upcast_u8_i32 entry_upcast_u8_i32.
Proof. time "upcast_u8_i32" (ident_tac paths_upcast_u8_i32). Qed.

Definition paths_upcast_u8_i64 := Eval vm_compute in
  match symex code_upcast_u8_i64 200 [] (sinit entry_upcast_u8_i64) with Some p => p | None => [] end.
Theorem upcast_u8_i64_sound : ident_sound code_upcast_u8_i64 entry_upcast_u8_i64.
Proof. time "upcast_u8_i64" (ident_tac paths_upcast_u8_i64). Qed.

Definition paths_upcast_u8_u128 := Eval vm_compute in
  match symex code_upcast_u8_u128 200 [] (sinit entry_upcast_u8_u128) with Some p => p | None => [] end.
Theorem upcast_u8_u128_sound : ident_sound code_upcast_u8_u128 entry_upcast_u8_u128.
Proof. time "upcast_u8_u128" (ident_tac paths_upcast_u8_u128). Qed.

Definition paths_upcast_u8_u16 := Eval vm_compute in
  match symex code_upcast_u8_u16 200 [] (sinit entry_upcast_u8_u16) with Some p => p | None => [] end.
Theorem upcast_u8_u16_sound : ident_sound code_upcast_u8_u16 entry_upcast_u8_u16.
Proof. time "upcast_u8_u16" (ident_tac paths_upcast_u8_u16). Qed.

Definition paths_upcast_u8_u32 := Eval vm_compute in
  match symex code_upcast_u8_u32 200 [] (sinit entry_upcast_u8_u32) with Some p => p | None => [] end.
Theorem upcast_u8_u32_sound : ident_sound code_upcast_u8_u32 entry_upcast_u8_u32.
Proof. time "upcast_u8_u32" (ident_tac paths_upcast_u8_u32). Qed.

Definition paths_upcast_u8_u64 := Eval vm_compute in
  match symex code_upcast_u8_u64 200 [] (sinit entry_upcast_u8_u64) with Some p => p | None => [] end.
Theorem upcast_u8_u64_sound : ident_sound code_upcast_u8_u64 entry_upcast_u8_u64.
Proof. time "upcast_u8_u64" (ident_tac paths_upcast_u8_u64). Qed.
