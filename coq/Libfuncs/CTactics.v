(* Libfuncs/CTactics.v -- lemmas for the completeness proofs: lifting of complete finite sweeps. *)
From Libfuncs Require Export CStmt.
Ltac Zify.zify_post_hook ::= Z.div_mod_to_equations.

Lemma In_zrange lo n x : lo <= x < lo + Z.of_nat n -> In x (zrange lo n).
Proof.
  intros H. unfold zrange. apply in_map_iff. exists (Z.to_nat (x - lo)). split; [lia|].
  apply in_seq. lia.
Qed.

Lemma outs_eqb_eq l o : outs_eqb l o = true -> l = map Some o.
Proof.
  revert o. induction l as [|[x|] r IH]; intros [|y s]; cbn [outs_eqb map]; try discriminate.
  - reflexivity.
  - intros H. apply andb_prop in H. destruct H as [H1 H2]. apply Z.eqb_eq in H1. subst y.
    f_equal. apply IH. exact H2.
Qed.

Lemma run_chk_ok c entry args outs : run_chk c entry args outs = true -> run_outputs c entry args outs.
Proof.
  unfold run_chk, run_outputs.
  destruct (outputs (run_honest c entry 200 args) (List.length outs)) as [l|]; [|discriminate].
  intros H. f_equal. apply outs_eqb_eq. exact H.
Qed.

(* a complete sweep of the finite operand domain proves the statement *)
Lemma sweep1_complete lo n sp c entry :
  sweep1 lo n sp c entry = true -> complete1 lo (lo + Z.of_nat n) sp c entry.
Proof.
  intros H a Ha. apply run_chk_ok. unfold sweep1 in H. rewrite forallb_forall in H.
  apply H. apply In_zrange. exact Ha.
Qed.
Lemma sweep2_complete lo n nz sp c entry :
  sweep2 lo n nz sp c entry = true -> complete2 lo (lo + Z.of_nat n) nz sp c entry.
Proof.
  intros H a b Ha Hb Hnz. apply run_chk_ok. unfold sweep2 in H. rewrite forallb_forall in H.
  specialize (H a (In_zrange _ _ _ Ha)). rewrite forallb_forall in H.
  specialize (H b (In_zrange _ _ _ Hb)). apply orb_prop in H. destruct H as [H|H]; [|exact H].
  apply andb_prop in H. destruct H as [H1 H2]. apply Z.eqb_eq in H2. specialize (Hnz H1). contradiction.
Qed.

(* the 8-bit domains: [0, 2^8) and [-2^7, 2^7) *)
Ltac sweep_u8_2 := apply (sweep2_complete 0 256); vm_cast_no_check (eq_refl true).
Ltac sweep_i8_2 := apply (sweep2_complete (-128) 256); vm_cast_no_check (eq_refl true).
Ltac sweep_u8_1 := apply (sweep1_complete 0 256); vm_cast_no_check (eq_refl true).
Ltac sweep_i8_1 := apply (sweep1_complete (-128) 256); vm_cast_no_check (eq_refl true).
