(* Libfuncs/CTactics.v -- lemmas for the completeness proofs: lifting of complete finite sweeps. *)
From Libfuncs Require Export CStmt.
Ltac Zify.zify_post_hook ::= Z.div_mod_to_equations.

Lemma In_zrange n x : 0 <= x < Z.of_nat n -> In x (zrange n).
Proof.
  intros H. unfold zrange. apply in_map_iff. exists (Z.to_nat x). split; [lia|].
  apply in_seq. lia.
Qed.

Lemma opt_eqb_eq o v : opt_eqb o v = true -> o = Some v.
Proof. destruct o as [x|]; cbn; [|discriminate]. intros H. apply Z.eqb_eq in H. congruence. Qed.

Lemma uarith_chk_ok op w c entry a b :
  uarith_chk op w c entry a b = true -> uarith_post op w a b (run_honest c entry 64 [RC0; a; b]).
Proof.
  unfold uarith_chk, uarith_post.
  destruct (run_honest c entry 64 [RC0; a; b]) as [[s' m']|e]; [|discriminate].
  intros H. exists s', m'. split; [reflexivity|].
  apply andb_prop in H. destruct H as [H1 H2]. split; [apply opt_eqb_eq; exact H1|].
  destruct (op w a b); apply andb_prop in H2; destruct H2 as [H2 H3];
    split; apply opt_eqb_eq; assumption.
Qed.

(* a complete sweep of the 2^8 x 2^8 operand pairs proves the statement for the 8-bit type *)
Lemma uarith_sweep8 op c entry :
  forallb (fun a => forallb (uarith_chk op 8 c entry a) (zrange 256)) (zrange 256) = true ->
  uarith_complete op 8 c entry.
Proof.
  intros H a b Ha Hb. apply uarith_chk_ok.
  rewrite forallb_forall in H. specialize (H a (In_zrange 256 a ltac:(unfold in_u in Ha; lia))).
  rewrite forallb_forall in H. apply H. apply In_zrange. unfold in_u in Hb. lia.
Qed.
