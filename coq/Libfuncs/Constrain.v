(* Libfuncs/Constrain.v -- bounded_int_constrain<T, B> (invocations/int/bounded.rs::build_constrain), one
   instance per decision class of the boundary / range (negative, zero, positive boundary; zero-crossing,
   2^128-wide, far-from-zero ranges; NonZero<T>). *)
From Libfuncs Require Import Tactics Stmt.
From GenC03 Require Import W_p_constrain_neg_boundary W_p_constrain_zero_boundary W_p_constrain_pos_boundary W_p_constrain_boundary_lower_plus1 W_p_constrain_boundary_upper W_p_constrain_unsigned_range W_p_constrain_i128_like_neg W_p_constrain_i128_like_pos W_p_constrain_i128_like_far_neg W_p_constrain_two_full_halves W_p_constrain_far_positive W_p_constrain_far_negative W_p_constrain_nonzero_neg_boundary W_p_constrain_nonzero_pos_boundary.

Ltac constrain_tac ps :=
  intros m pb s0 s' v Hm Hpc Hr rc Hv Ev Hrc Hrck;
  sound_paths ps Hpc Hr; subst rc;
  sound_mem m Hm Hrck; clear_ap m s0; clear_unused_canon m;
  rewrite ?Ev in *; merge_mods; destr_bools; unfold P in *; repeat split; lia.

Definition paths_p_constrain_neg_boundary := Eval vm_compute in
  match symex code_p_constrain_neg_boundary 200 [] (sinit entry_p_constrain_neg_boundary) with Some p => p | None => [] end.
Theorem p_constrain_neg_boundary_sound : constrain_sound (-10) 10 (-5) code_p_constrain_neg_boundary entry_p_constrain_neg_boundary.
Proof. time "p_constrain_neg_boundary" (constrain_tac paths_p_constrain_neg_boundary). Qed.

Definition paths_p_constrain_zero_boundary := Eval vm_compute in
  match symex code_p_constrain_zero_boundary 200 [] (sinit entry_p_constrain_zero_boundary) with Some p => p | None => [] end.
Theorem p_constrain_zero_boundary_sound : constrain_sound (-10) 10 0 code_p_constrain_zero_boundary entry_p_constrain_zero_boundary.
Proof. time "p_constrain_zero_boundary" (constrain_tac paths_p_constrain_zero_boundary). Qed.

Definition paths_p_constrain_pos_boundary := Eval vm_compute in
  match symex code_p_constrain_pos_boundary 200 [] (sinit entry_p_constrain_pos_boundary) with Some p => p | None => [] end.
Theorem p_constrain_pos_boundary_sound : constrain_sound (-10) 10 5 code_p_constrain_pos_boundary entry_p_constrain_pos_boundary.
Proof. time "p_constrain_pos_boundary" (constrain_tac paths_p_constrain_pos_boundary). Qed.

Definition paths_p_constrain_boundary_lower_plus1 := Eval vm_compute in
  match symex code_p_constrain_boundary_lower_plus1 200 [] (sinit entry_p_constrain_boundary_lower_plus1) with Some p => p | None => [] end.
Theorem p_constrain_boundary_lower_plus1_sound : constrain_sound (-10) 10 (-9) code_p_constrain_boundary_lower_plus1 entry_p_constrain_boundary_lower_plus1.
Proof. time "p_constrain_boundary_lower_plus1" (constrain_tac paths_p_constrain_boundary_lower_plus1). Qed.

Definition paths_p_constrain_boundary_upper := Eval vm_compute in
  match symex code_p_constrain_boundary_upper 200 [] (sinit entry_p_constrain_boundary_upper) with Some p => p | None => [] end.
Theorem p_constrain_boundary_upper_sound : constrain_sound (-10) 10 10 code_p_constrain_boundary_upper entry_p_constrain_boundary_upper.
Proof. time "p_constrain_boundary_upper" (constrain_tac paths_p_constrain_boundary_upper). Qed.

Definition paths_p_constrain_unsigned_range := Eval vm_compute in
  match symex code_p_constrain_unsigned_range 200 [] (sinit entry_p_constrain_unsigned_range) with Some p => p | None => [] end.
Theorem p_constrain_unsigned_range_sound : constrain_sound 0 255 100 code_p_constrain_unsigned_range entry_p_constrain_unsigned_range.
Proof. time "p_constrain_unsigned_range" (constrain_tac paths_p_constrain_unsigned_range). Qed.

Definition paths_p_constrain_i128_like_neg := Eval vm_compute in
  match symex code_p_constrain_i128_like_neg 200 [] (sinit entry_p_constrain_i128_like_neg) with Some p => p | None => [] end.
Theorem p_constrain_i128_like_neg_sound : constrain_sound (-170141183460469231731687303715884105728) 170141183460469231731687303715884105727 (-1) code_p_constrain_i128_like_neg entry_p_constrain_i128_like_neg.
Proof. time "p_constrain_i128_like_neg" (constrain_tac paths_p_constrain_i128_like_neg). Qed.

Definition paths_p_constrain_i128_like_pos := Eval vm_compute in
  match symex code_p_constrain_i128_like_pos 200 [] (sinit entry_p_constrain_i128_like_pos) with Some p => p | None => [] end.
Theorem p_constrain_i128_like_pos_sound : constrain_sound (-170141183460469231731687303715884105728) 170141183460469231731687303715884105727 1 code_p_constrain_i128_like_pos entry_p_constrain_i128_like_pos.
Proof. time "p_constrain_i128_like_pos" (constrain_tac paths_p_constrain_i128_like_pos). Qed.

Definition paths_p_constrain_i128_like_far_neg := Eval vm_compute in
  match symex code_p_constrain_i128_like_far_neg 200 [] (sinit entry_p_constrain_i128_like_far_neg) with Some p => p | None => [] end.
Theorem p_constrain_i128_like_far_neg_sound : constrain_sound (-170141183460469231731687303715884105728) 170141183460469231731687303715884105727 (-85070591730234615865843651857942052864) code_p_constrain_i128_like_far_neg entry_p_constrain_i128_like_far_neg.
Proof. time "p_constrain_i128_like_far_neg" (constrain_tac paths_p_constrain_i128_like_far_neg). Qed.

Definition paths_p_constrain_two_full_halves := Eval vm_compute in
  match symex code_p_constrain_two_full_halves 200 [] (sinit entry_p_constrain_two_full_halves) with Some p => p | None => [] end.
Theorem p_constrain_two_full_halves_sound : constrain_sound (-340282366920938463463374607431768211456) 340282366920938463463374607431768211455 0 code_p_constrain_two_full_halves entry_p_constrain_two_full_halves.
Proof. time "p_constrain_two_full_halves" (constrain_tac paths_p_constrain_two_full_halves). Qed.

Definition paths_p_constrain_far_positive := Eval vm_compute in
  match symex code_p_constrain_far_positive 200 [] (sinit entry_p_constrain_far_positive) with Some p => p | None => [] end.
Theorem p_constrain_far_positive_sound : constrain_sound 1606938044258990275541962092341162602522202993782792835301376 1606938044258990275541962092341162602522202993782792835301476 1606938044258990275541962092341162602522202993782792835301426 code_p_constrain_far_positive entry_p_constrain_far_positive.
Proof. time "p_constrain_far_positive" (constrain_tac paths_p_constrain_far_positive). Qed.

Definition paths_p_constrain_far_negative := Eval vm_compute in
  match symex code_p_constrain_far_negative 200 [] (sinit entry_p_constrain_far_negative) with Some p => p | None => [] end.
Theorem p_constrain_far_negative_sound : constrain_sound (-1606938044258990275541962092341162602522202993782792835301476) (-1606938044258990275541962092341162602522202993782792835301376) (-1606938044258990275541962092341162602522202993782792835301426) code_p_constrain_far_negative entry_p_constrain_far_negative.
Proof. time "p_constrain_far_negative" (constrain_tac paths_p_constrain_far_negative). Qed.

Definition paths_p_constrain_nonzero_neg_boundary := Eval vm_compute in
  match symex code_p_constrain_nonzero_neg_boundary 200 [] (sinit entry_p_constrain_nonzero_neg_boundary) with Some p => p | None => [] end.
Theorem p_constrain_nonzero_neg_boundary_sound : constrain_sound (-10) 10 (-5) code_p_constrain_nonzero_neg_boundary entry_p_constrain_nonzero_neg_boundary.
Proof. time "p_constrain_nonzero_neg_boundary" (constrain_tac paths_p_constrain_nonzero_neg_boundary). Qed.

Definition paths_p_constrain_nonzero_pos_boundary := Eval vm_compute in
  match symex code_p_constrain_nonzero_pos_boundary 200 [] (sinit entry_p_constrain_nonzero_pos_boundary) with Some p => p | None => [] end.
Theorem p_constrain_nonzero_pos_boundary_sound : constrain_sound (-10) 10 5 code_p_constrain_nonzero_pos_boundary entry_p_constrain_nonzero_pos_boundary.
Proof. time "p_constrain_nonzero_pos_boundary" (constrain_tac paths_p_constrain_nonzero_pos_boundary). Qed.

