(* Libfuncs/FeltDown_far.v -- downcast<felt252, BoundedInt<1606938044258990275541962092341162602522202993782792835301376, 1606938044258990275541962092341162602522202993782792835301386>> (range_reduction.rs), class far. *)
From Libfuncs Require Import Tactics Stmt.
From GenC03 Require Import W_p_felt_downcast_far.

Ltac feltcast_tac ps :=
  intros m pb s0 s' Hm Hpc Hr rc a Hrc Hrck;
  sound_paths ps Hpc Hr; subst rc a;
  sound_mem m Hm Hrck; clear_ap m s0; clear_unused_canon m;
  unfold felt_in; merge_mods; destr_bools; unfold P in *; repeat split; lia.

Definition paths_p_felt_downcast_far := Eval vm_compute in
  match symex code_p_felt_downcast_far 200 [] (sinit entry_p_felt_downcast_far) with Some p => p | None => [] end.
Theorem p_felt_downcast_far_sound : feltcast_sound 1606938044258990275541962092341162602522202993782792835301376 1606938044258990275541962092341162602522202993782792835301386 2 3 code_p_felt_downcast_far entry_p_felt_downcast_far.
Proof. time "p_felt_downcast_far" (feltcast_tac paths_p_felt_downcast_far). Qed.
