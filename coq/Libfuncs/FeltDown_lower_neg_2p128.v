(* Libfuncs/FeltDown_lower_neg_2p128.v -- downcast<felt252, BoundedInt<-340282366920938463463374607431768211456, -340282366920938463463374607431768211447>> (range_reduction.rs), class lower_neg_2p128. *)
From Libfuncs Require Import Tactics Stmt.
From GenC03 Require Import W_p_felt_downcast_lower_neg_2p128.

Ltac feltcast_tac ps :=
  intros m pb s0 s' Hm Hpc Hr rc a Hrc Hrck;
  sound_paths ps Hpc Hr; subst rc a;
  sound_mem m Hm Hrck; clear_ap m s0; clear_unused_canon m;
  unfold felt_in; merge_mods; destr_bools; unfold P in *; repeat split; lia.

Definition paths_p_felt_downcast_lower_neg_2p128 := Eval vm_compute in
  match symex code_p_felt_downcast_lower_neg_2p128 200 [] (sinit entry_p_felt_downcast_lower_neg_2p128) with Some p => p | None => [] end.
Theorem p_felt_downcast_lower_neg_2p128_sound : feltcast_sound (-340282366920938463463374607431768211456) (-340282366920938463463374607431768211447) 2 3 code_p_felt_downcast_lower_neg_2p128 entry_p_felt_downcast_lower_neg_2p128.
Proof. time "p_felt_downcast_lower_neg_2p128" (feltcast_tac paths_p_felt_downcast_lower_neg_2p128). Qed.
