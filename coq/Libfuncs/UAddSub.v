(* Libfuncs/UAddSub.v -- u{8,16,32,64,128}_overflowing_{add,sub}: soundness over the generated code
   (invocations/int/unsigned.rs::build_small_uint_overflowing_add/sub, unsigned128.rs). *)
From Libfuncs Require Import Tactics Stmt.
From GenC03 Require Import W_u8_overflowing_add W_u16_overflowing_add W_u32_overflowing_add
  W_u64_overflowing_add W_u128_overflowing_add W_u8_overflowing_sub W_u16_overflowing_sub
  W_u32_overflowing_sub W_u64_overflowing_sub W_u128_overflowing_sub.

Ltac uarith_tac ps :=
  intros m pb s0 s' Hm Hpc Hr rc a b Ha Hb Hrc Hrck;
  sound_start ps 64%nat Hpc Hr; clear Hr Hpc;
  unfold in_u, rc_ok in *;
  cbn [all_paths ps all_hold holds den sapk];
  repeat lazymatch goal with |- _ /\ _ => split | |- True => exact Logic.I end;
  intros; subst a b rc; norm_addr; norm_constmod; rew_mem m;
  pose proof (Hm (fp s0 + -5));
  norm_ind m; pose_rc m Hrck; pose_canon m Hm; clear Hm Hrck;
  unfold uadd, usub; destr_spec; unfold P in *; repeat split; lia.

Definition paths_u8_overflowing_add := Eval vm_compute in
  match symex code_u8_overflowing_add 64 [] (sinit entry_u8_overflowing_add) with Some p => p | None => [] end.
Theorem u8_overflowing_add_sound : uarith_sound uadd 8 code_u8_overflowing_add entry_u8_overflowing_add.
Proof. time "u8_overflowing_add" uarith_tac paths_u8_overflowing_add. Qed.

Definition paths_u16_overflowing_add := Eval vm_compute in
  match symex code_u16_overflowing_add 64 [] (sinit entry_u16_overflowing_add) with Some p => p | None => [] end.
Theorem u16_overflowing_add_sound : uarith_sound uadd 16 code_u16_overflowing_add entry_u16_overflowing_add.
Proof. time "u16_overflowing_add" uarith_tac paths_u16_overflowing_add. Qed.

Definition paths_u32_overflowing_add := Eval vm_compute in
  match symex code_u32_overflowing_add 64 [] (sinit entry_u32_overflowing_add) with Some p => p | None => [] end.
Theorem u32_overflowing_add_sound : uarith_sound uadd 32 code_u32_overflowing_add entry_u32_overflowing_add.
Proof. time "u32_overflowing_add" uarith_tac paths_u32_overflowing_add. Qed.

Definition paths_u64_overflowing_add := Eval vm_compute in
  match symex code_u64_overflowing_add 64 [] (sinit entry_u64_overflowing_add) with Some p => p | None => [] end.
Theorem u64_overflowing_add_sound : uarith_sound uadd 64 code_u64_overflowing_add entry_u64_overflowing_add.
Proof. time "u64_overflowing_add" uarith_tac paths_u64_overflowing_add. Qed.

Definition paths_u128_overflowing_add := Eval vm_compute in
  match symex code_u128_overflowing_add 64 [] (sinit entry_u128_overflowing_add) with Some p => p | None => [] end.
Theorem u128_overflowing_add_sound : uarith_sound uadd 128 code_u128_overflowing_add entry_u128_overflowing_add.
Proof. time "u128_overflowing_add" uarith_tac paths_u128_overflowing_add. Qed.

Definition paths_u8_overflowing_sub := Eval vm_compute in
  match symex code_u8_overflowing_sub 64 [] (sinit entry_u8_overflowing_sub) with Some p => p | None => [] end.
Theorem u8_overflowing_sub_sound : uarith_sound usub 8 code_u8_overflowing_sub entry_u8_overflowing_sub.
Proof. time "u8_overflowing_sub" uarith_tac paths_u8_overflowing_sub. Qed.

Definition paths_u16_overflowing_sub := Eval vm_compute in
  match symex code_u16_overflowing_sub 64 [] (sinit entry_u16_overflowing_sub) with Some p => p | None => [] end.
Theorem u16_overflowing_sub_sound : uarith_sound usub 16 code_u16_overflowing_sub entry_u16_overflowing_sub.
Proof. time "u16_overflowing_sub" uarith_tac paths_u16_overflowing_sub. Qed.

Definition paths_u32_overflowing_sub := Eval vm_compute in
  match symex code_u32_overflowing_sub 64 [] (sinit entry_u32_overflowing_sub) with Some p => p | None => [] end.
Theorem u32_overflowing_sub_sound : uarith_sound usub 32 code_u32_overflowing_sub entry_u32_overflowing_sub.
Proof. time "u32_overflowing_sub" uarith_tac paths_u32_overflowing_sub. Qed.

Definition paths_u64_overflowing_sub := Eval vm_compute in
  match symex code_u64_overflowing_sub 64 [] (sinit entry_u64_overflowing_sub) with Some p => p | None => [] end.
Theorem u64_overflowing_sub_sound : uarith_sound usub 64 code_u64_overflowing_sub entry_u64_overflowing_sub.
Proof. time "u64_overflowing_sub" uarith_tac paths_u64_overflowing_sub. Qed.

Definition paths_u128_overflowing_sub := Eval vm_compute in
  match symex code_u128_overflowing_sub 64 [] (sinit entry_u128_overflowing_sub) with Some p => p | None => [] end.
Theorem u128_overflowing_sub_sound : uarith_sound usub 128 code_u128_overflowing_sub entry_u128_overflowing_sub.
Proof. time "u128_overflowing_sub" uarith_tac paths_u128_overflowing_sub. Qed.

