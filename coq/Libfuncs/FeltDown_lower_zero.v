(* Libfuncs/FeltDown_lower_zero.v -- downcast<felt252, BoundedInt<0, 7>> (range_reduction.rs), class lower_zero. *)
From Libfuncs Require Import Tactics Stmt.
From GenC03 Require Import W_p_felt_downcast_lower_zero.

Ltac feltcast_tac ps :=
  intros m pb s0 s' Hm Hpc Hr rc a Hrc Hrck;
  sound_paths ps Hpc Hr; subst rc a;
  sound_mem m Hm Hrck; clear_ap m s0; clear_unused_canon m;
  unfold felt_in; merge_mods; destr_bools; unfold P in *; repeat split; lia.

Definition paths_p_felt_downcast_lower_zero := Eval vm_compute in
  match symex code_p_felt_downcast_lower_zero 200 [] (sinit entry_p_felt_downcast_lower_zero) with Some p => p | None => [] end.
Theorem p_felt_downcast_lower_zero_sound : feltcast_sound 0 7 2 3 code_p_felt_downcast_lower_zero entry_p_felt_downcast_lower_zero.
Proof. time "p_felt_downcast_lower_zero" (feltcast_tac paths_p_felt_downcast_lower_zero). Qed.
