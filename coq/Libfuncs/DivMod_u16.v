(* Libfuncs/DivMod_u16.v -- u16_safe_divmod (invocations/int/unsigned.rs::build_divmod; u128: unsigned128.rs):
   quotient and remainder are pinned by range checks. *)
From Libfuncs Require Import Tactics Stmt.
From GenC03 Require Import W_u16_safe_divmod.

Ltac divmod_tac ps :=
  intros m pb s0 s' Hm Hpc Hr rc a b Ha Hb Hnz Hrc Hrck; unfold in_u in *;
  sound_paths ps Hpc Hr; subst rc a b;
  sound_mem m Hm Hrck; clear_ap m s0; clear_unused_canon m; elim_mods;
  match goal with
  | |- context [(?B * ?Q + ?R) / ?B] =>
      destruct (divmod_bqr B Q R ltac:(lia)) as [E1 E2]; rewrite E1, E2
  end;
  repeat split; lia.

Definition paths_u16_safe_divmod := Eval vm_compute in
  match symex code_u16_safe_divmod 200 [] (sinit entry_u16_safe_divmod) with Some p => p | None => [] end.
Theorem u16_safe_divmod_sound : udivmod_sound 16 3 code_u16_safe_divmod entry_u16_safe_divmod.
Proof. time "u16_safe_divmod" (divmod_tac paths_u16_safe_divmod). Qed.
