(* Libfuncs/FeltDown_singleton_neg.v -- downcast<felt252, BoundedInt<-1, -1>> (range_reduction.rs), class singleton_neg. *)
From Libfuncs Require Import Tactics Stmt.
From GenC03 Require Import W_p_felt_downcast_singleton_neg.

Ltac feltcast_tac ps :=
  intros m pb s0 s' Hm Hpc Hr rc a Hrc Hrck;
  sound_paths ps Hpc Hr; subst rc a;
  sound_mem m Hm Hrck; clear_ap m s0; clear_unused_canon m;
  unfold felt_in; merge_mods; destr_bools; unfold P in *; repeat split; lia.

Definition paths_p_felt_downcast_singleton_neg := Eval vm_compute in
  match symex code_p_felt_downcast_singleton_neg 200 [] (sinit entry_p_felt_downcast_singleton_neg) with Some p => p | None => [] end.
Theorem p_felt_downcast_singleton_neg_sound : feltcast_sound (-1) (-1) 2 3 code_p_felt_downcast_singleton_neg entry_p_felt_downcast_singleton_neg.
Proof. time "p_felt_downcast_singleton_neg" (feltcast_tac paths_p_felt_downcast_singleton_neg). Qed.
