(* Libfuncs/FeltDown_small_crossing.v -- downcast<felt252, BoundedInt<-5, 5>> (range_reduction.rs), class small_crossing. *)
From Libfuncs Require Import Tactics Stmt.
From GenC03 Require Import W_p_felt_downcast_small_crossing.

Ltac feltcast_tac ps :=
  intros m pb s0 s' Hm Hpc Hr rc a Hrc Hrck;
  sound_paths ps Hpc Hr; subst rc a;
  sound_mem m Hm Hrck; clear_ap m s0; clear_unused_canon m;
  unfold felt_in; merge_mods; destr_bools; unfold P in *; repeat split; lia.

Definition paths_p_felt_downcast_small_crossing := Eval vm_compute in
  match symex code_p_felt_downcast_small_crossing 200 [] (sinit entry_p_felt_downcast_small_crossing) with Some p => p | None => [] end.
Theorem p_felt_downcast_small_crossing_sound : feltcast_sound (-5) 5 2 3 code_p_felt_downcast_small_crossing entry_p_felt_downcast_small_crossing.
Proof. time "p_felt_downcast_small_crossing" (feltcast_tac paths_p_felt_downcast_small_crossing). Qed.
