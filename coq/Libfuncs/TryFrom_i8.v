(* Libfuncs/TryFrom_i8.v -- i8_try_from_felt252 (invocations/range_reduction.rs; u128: int/unsigned128.rs). *)
From Libfuncs Require Import Tactics Stmt.
From GenC03 Require Import W_i8_try_from_felt252.

Ltac tryfrom_tac ps :=
  intros m pb s0 s' Hm Hpc Hr rc a Hrc Hrck;
  sound_paths ps Hpc Hr; subst rc a;
  sound_mem m Hm Hrck; clear_ap m s0; clear_unused_canon m;
  unfold felt_fits; merge_mods; destr_bools; unfold P in *; repeat split; lia.

Definition paths_i8_try_from_felt252 := Eval vm_compute in
  match symex code_i8_try_from_felt252 200 [] (sinit entry_i8_try_from_felt252) with Some p => p | None => [] end.
Theorem i8_try_from_felt252_sound : tryfrom_sound (-128) 127 2 3 code_i8_try_from_felt252 entry_i8_try_from_felt252.
Proof. time "i8_try_from_felt252" (tryfrom_tac paths_i8_try_from_felt252). Qed.
