(* Libfuncs/Tactics.v -- the proof recipe shared by the per-libfunc soundness theorems
   (DESIGN.md Appendix B): compute the paths with [vm_compute], reduce [all_paths] with [cbn],
   rewrite the memory equations, instantiate the range hypotheses at the cells that occur, CLEAR the
   universally quantified hypotheses, unfold P, then [lia]/[nia]. *)
From Vmx Require Export Symex SymexSound.
Ltac Zify.zify_post_hook ::= Z.div_mod_to_equations.

(* Entry point: goal [fp s' = fp s0 /\ G] where [G] mentions the final state only through [ap s'];
   reduces it to [all_paths m (ap s0) (fp s0) ps (fun apf => G[apf])]. *)
Lemma sound_by_paths (m : mem) (pb : Z) (c : code) (entry : Z) (fuel : nat) (ps : paths)
    (Q : Z -> Prop) (s0 s' : st) :
  symex c fuel [] (sinit entry) = Some ps ->
  pc s0 = pb + entry ->
  reaches m pb c 0 s0 s' ->
  all_paths m (ap s0) (fp s0) ps Q ->
  fp s' = fp s0 /\ Q (ap s').
Proof.
  intros Hs Hpc Hr Hall.
  destruct (symex_sound m pb c entry fuel ps Q s0 s' Hs Hall Hpc Hr) as [HQ Hfp]. split; assumption.
Qed.

Ltac sound_start ps fuel Hpc Hr :=
  lazymatch goal with
  | |- fp ?s' = fp ?s0 /\ ?G =>
      pattern (ap s');
      lazymatch goal with
      | |- (fun z => fp s' = fp s0 /\ @?Q z) (ap s') =>
          cbv beta;
          refine (sound_by_paths _ _ _ _ fuel ps Q s0 s' _ Hpc Hr _);
          [vm_compute; reflexivity|cbv beta]
      end
  end.

(* closed Z numerals *)
Ltac is_pos_const p :=
  lazymatch p with xH => idtac | xO ?q => is_pos_const q | xI ?q => is_pos_const q end.
Ltac is_Z_const k :=
  lazymatch k with Z0 => idtac | Zpos ?p => is_pos_const p | Zneg ?p => is_pos_const p end.

(* [x + k1 - k2] and [x - k] with literal k's become [x + k], the form produced by [den] *)
Ltac norm_addr :=
  repeat match goal with
  | |- context [?x + ?k1 - ?k2] =>
      is_Z_const k1; is_Z_const k2;
      let k := eval vm_compute in (k1 - k2) in replace (x + k1 - k2) with (x + k) in * by (clear; lia)
  | |- context [?x - ?k] =>
      is_Z_const k;
      let k' := eval vm_compute in (- k) in replace (x - k) with (x + k') in * by (clear; lia)
  | H : context [?x - ?k] |- _ =>
      is_Z_const k;
      let k' := eval vm_compute in (- k) in replace (x - k) with (x + k') in * by (clear; lia)
  end.

(* [k mod P] for literal k *)
Ltac norm_constmod :=
  repeat match goal with
  | |- context [?k mod P] =>
      is_Z_const k; let v := eval vm_compute in (k mod P) in change (k mod P) with v in *
  | H : context [?k mod P] |- _ =>
      is_Z_const k; let v := eval vm_compute in (k mod P) in change (k mod P) with v in *
  end.

(* rewrite the memory equations of the path condition everywhere *)
Ltac rew_mem m :=
  repeat match goal with H : m ?x = _ |- _ => rewrite H in * end.

(* canonical range of every memory read that occurs *)
Ltac pose_canon m Hm :=
  repeat match goal with
  | |- context [m ?t] =>
      lazymatch goal with H : 0 <= m t < P |- _ => fail | _ => pose proof (Hm t) end
  | H : context [m ?t] |- _ =>
      lazymatch type of H with forall _, _ => fail | _ => idtac end;
      lazymatch goal with H' : 0 <= m t < P |- _ => fail | _ => pose proof (Hm t) end
  end.

(* [(r + k) mod P] -> [r + k] for the addresses of double dereferences (range-check cells);
   needs [0 <= r] and [r + n < P] in the context *)
Ltac norm_ind m :=
  repeat match goal with
  | |- context [m ((?r + ?k) mod P)] => rewrite (Z.mod_small (r + k) P) in * by lia
  | H : context [m ((?r + ?k) mod P)] |- _ => rewrite (Z.mod_small (r + k) P) in * by lia
  end;
  rewrite ?Z.add_0_r in *.

(* instantiate the range-check hypothesis at every cell [m t] for which [lia] can show that t lies
   in the checked interval *)
Ltac is_rc_addr m t :=
  lazymatch t with m _ => idtac | m _ + _ => idtac end.
Ltac pose_rc m Hrck :=
  repeat match goal with
  | |- context [m ?t] =>
      is_rc_addr m t;
      lazymatch goal with H : 0 <= m t < 2 ^ 128 |- _ => fail | _ => idtac end;
      assert (0 <= m t < 2 ^ 128) by (apply Hrck; clear; lia)
  | H : context [m ?t] |- _ =>
      is_rc_addr m t;
      lazymatch type of H with forall _, _ => fail | _ => idtac end;
      lazymatch goal with H' : 0 <= m t < 2 ^ 128 |- _ => fail | _ => idtac end;
      assert (0 <= m t < 2 ^ 128) by (apply Hrck; clear; lia)
  end.

(* boolean tests of the specification become propositions *)
Ltac destr_spec :=
  repeat match goal with
  | |- context [if ?x <? ?y then _ else _] =>
      let E := fresh "E" in destruct (x <? y) eqn:E; [apply Z.ltb_lt in E|apply Z.ltb_ge in E]
  | |- context [if ?x <=? ?y then _ else _] =>
      let E := fresh "E" in destruct (x <=? y) eqn:E; [apply Z.leb_le in E|apply Z.leb_gt in E]
  | |- context [if ?x =? ?y then _ else _] =>
      let E := fresh "E" in destruct (x =? y) eqn:E; [apply Z.eqb_eq in E|apply Z.eqb_neq in E]
  end.

(* ---- the common script ---- *)
(* after [intros] of the statement's hypotheses: reduce to one goal per path, with the path
   condition in the context *)
Ltac sound_paths ps Hpc Hr :=
  sound_start ps 200%nat Hpc Hr; clear Hr Hpc;
  unfold rc_ok in *;
  cbn [all_paths ps all_hold holds den sapk];
  repeat lazymatch goal with |- _ /\ _ => split | |- True => exact Logic.I end;
  intros.

(* memory equations rewritten, range facts instantiated, quantified hypotheses cleared *)
Ltac sound_mem m Hm Hrck :=
  norm_addr; norm_constmod; rew_mem m;
  pose_canon m Hm; norm_ind m; pose_rc m Hrck; pose_canon m Hm; clear Hm Hrck.
Ltac sound_mem_norc m Hm :=
  norm_addr; norm_constmod; rew_mem m; pose_canon m Hm; clear Hm.

Ltac finish_lia := destr_spec; unfold P in *; repeat split; lia.

(* ---- mod elimination (for the families whose arithmetic never wraps around P) ---- *)
(* drop the (already substituted) equations of the ap cells *)
Ltac clear_ap m s0 :=
  repeat match goal with
  | H : m (ap s0 + _) = _ |- _ => clear H
  | H : m (ap s0) = _ |- _ => clear H
  end.
(* drop canonical-range facts of cells that occur nowhere else *)
Ltac clear_unused_canon m :=
  repeat match goal with
  | H : 0 <= m ?a < P |- _ =>
      lazymatch goal with |- context [m a] => fail | _ => idtac end;
      revert H;
      tryif (match goal with H' : context [m a] |- _ => idtac end)
      then fail else intros _
  end.
(* innermost [e mod P] with 0 <= e < P becomes e *)
Ltac no_mod e := lazymatch e with context [_ mod _] => fail | _ => idtac end.
Lemma mul_bound A B x y : 0 <= x < A -> 0 <= y < B -> 0 <= x * y < A * B.
Proof. intros Hx Hy. split; [apply Z.mul_nonneg_nonneg; lia|]. apply Z.mul_lt_mono_nonneg; lia. Qed.
(* explicit bounds for the products occurring in [e] (lia treats a product as an atom) *)
Ltac pose_prod x y :=
  first
  [ assert (0 <= x * y < 2 ^ 64 * 2 ^ 64) by (apply mul_bound; unfold P in *; lia)
  | assert (0 <= x * y < 2 ^ 64 * 2 ^ 128) by (apply mul_bound; unfold P in *; lia)
  | assert (0 <= x * y < 2 ^ 128 * 2 ^ 64) by (apply mul_bound; unfold P in *; lia)
  | assert (0 <= x * y < 2 ^ 125 * 2 ^ 125) by (apply mul_bound; unfold P in *; lia)
  | assert (0 <= x * y < 2 ^ 128 * 2 ^ 128) by (apply mul_bound; unfold P in *; lia) ].
Ltac ensure_prods e :=
  repeat match e with
  | context [?x * ?y] =>
      lazymatch goal with H : 0 <= x * y < _ |- _ => fail | _ => pose_prod x y end
  end.
Ltac small_tac := solve [unfold P in *; lia].
Ltac elim_mods :=
  repeat match goal with
  | |- context [?e mod P] =>
      no_mod e; ensure_prods e; rewrite (Z.mod_small e P) in * by small_tac
  | H : context [?e mod P] |- _ =>
      no_mod e; ensure_prods e; rewrite (Z.mod_small e P) in * by small_tac
  end.

Lemma divmod_bqr b q r : 0 <= r < b -> (b * q + r) / b = q /\ (b * q + r) mod b = r.
Proof.
  intros H. split.
  - symmetry. apply Z.div_unique with r; [left; exact H|reflexivity].
  - symmetry. apply Z.mod_unique with q; [left; exact H|reflexivity].
Qed.

(* nested reductions merged: (a mod P + b) mod P = (a + b) mod P, ... (fewer Euclidean divisions for lia) *)
Lemma Pnz : P <> 0. Proof. unfold P; lia. Qed.
Ltac merge_mods :=
  repeat first
  [ rewrite (Z.add_mod_idemp_l _ _ P Pnz) in *
  | rewrite (Z.add_mod_idemp_r _ _ P Pnz) in *
  | rewrite (Zminus_mod_idemp_l _ _ P) in *
  | rewrite (Zminus_mod_idemp_r _ _ P) in * ].

(* every comparison occurring in the goal becomes a proposition *)
Ltac destr_bools :=
  repeat match goal with
  | |- context [?x <=? ?y] =>
      let E := fresh "E" in destruct (x <=? y) eqn:E; [apply Z.leb_le in E|apply Z.leb_gt in E]
  | |- context [?x <? ?y] =>
      let E := fresh "E" in destruct (x <? y) eqn:E; [apply Z.ltb_lt in E|apply Z.ltb_ge in E]
  end; cbn [andb orb negb].
