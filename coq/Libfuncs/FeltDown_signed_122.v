(* Libfuncs/FeltDown_signed_122.v -- downcast<felt252, BoundedInt<-5316911983139663491615228241121378304, 5316911983139663491615228241121378304>> (range_reduction.rs), class signed_122. *)
From Libfuncs Require Import Tactics Stmt.
From GenC03 Require Import W_p_felt_downcast_signed_122.

Ltac feltcast_tac ps :=
  intros m pb s0 s' Hm Hpc Hr rc a Hrc Hrck;
  sound_paths ps Hpc Hr; subst rc a;
  sound_mem m Hm Hrck; clear_ap m s0; clear_unused_canon m;
  unfold felt_in; merge_mods; destr_bools; unfold P in *; repeat split; lia.

Definition paths_p_felt_downcast_signed_122 := Eval vm_compute in
  match symex code_p_felt_downcast_signed_122 200 [] (sinit entry_p_felt_downcast_signed_122) with Some p => p | None => [] end.
Theorem p_felt_downcast_signed_122_sound : feltcast_sound (-5316911983139663491615228241121378304) 5316911983139663491615228241121378304 2 3 code_p_felt_downcast_signed_122 entry_p_felt_downcast_signed_122.
Proof. time "p_felt_downcast_signed_122" (feltcast_tac paths_p_felt_downcast_signed_122). Qed.
