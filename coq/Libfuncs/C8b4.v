(* Libfuncs/C8b4.v -- i8_wide_mul: completeness with honest hints by a COMPLETE sweep of the 65 536
   operand pairs (vm_compute), lifted with forallb_forall. *)
From Libfuncs Require Import CTactics.
From GenC03 Require Import W_i8_wide_mul.

Theorem i8_wide_mul_complete : iwide_mul_complete 8 code_i8_wide_mul entry_i8_wide_mul.
Proof. sweep_i8_2. Qed.
