(* Libfuncs/CStmt.v -- statements of the completeness theorems (C06, CASM layer): with HONEST hint
   answers (VmRun.honest, transcribed from execute_core_hint) the executable VM never fails on
   in-range arguments and returns the mathematical result.  Frame: VmRun.init_st / init_mem
   (ap = fp = AP0, range-check segment at RC0, program loaded at 0).  Also the boolean checker used
   by the complete finite sweeps of the 8-bit types.  Model file: no proofs. *)
From Vmx Require Export VmRun.
From Spec Require Export Int.
From Libfuncs Require Export Stmt.

(* the run on [args] succeeds and the cells below the final ap hold exactly [outs] *)
Definition run_outputs (c : code) (entry : Z) (args outs : list Z) : Prop :=
  outputs (run_honest c entry 200 args) (List.length outs) = Some (map Some outs).

Fixpoint outs_eqb (l : list (option Z)) (o : list Z) : bool :=
  match l, o with
  | [], [] => true
  | Some x :: r, y :: s => (x =? y) && outs_eqb r s
  | _, _ => false
  end.
Definition run_chk (c : code) (entry : Z) (args outs : list Z) : bool :=
  match outputs (run_honest c entry 200 args) (List.length outs) with
  | Some l => outs_eqb l outs
  | None => false
  end.

(* a specification maps the mathematical operands to (argument cells, expected result cells) *)
Definition spec1 := Z -> (list Z * list Z).
Definition spec2 := Z -> Z -> (list Z * list Z).
(* operands range over [lo, hi); [nz]: the second operand is NonZero *)
Definition complete1 (lo hi : Z) (sp : spec1) (c : code) (entry : Z) : Prop :=
  forall a, lo <= a < hi -> run_outputs c entry (fst (sp a)) (snd (sp a)).
Definition complete2 (lo hi : Z) (nz : bool) (sp : spec2) (c : code) (entry : Z) : Prop :=
  forall a b, lo <= a < hi -> lo <= b < hi -> (nz = true -> b <> 0) ->
  run_outputs c entry (fst (sp a b)) (snd (sp a b)).

Definition zrange (lo : Z) (n : nat) : list Z := map (fun k => lo + Z.of_nat k) (seq 0 n).
Definition sweep1 (lo : Z) (n : nat) (sp : spec1) (c : code) (entry : Z) : bool :=
  forallb (fun a => run_chk c entry (fst (sp a)) (snd (sp a))) (zrange lo n).
Definition sweep2 (lo : Z) (n : nat) (nz : bool) (sp : spec2) (c : code) (entry : Z) : bool :=
  forallb (fun a => forallb (fun b => (nz && (b =? 0)) || run_chk c entry (fst (sp a b)) (snd (sp a b)))
                            (zrange lo n)) (zrange lo n).

(* ---- the specifications of the families (same meaning as the soundness statements of Stmt.v) ---- *)
Definition b2z (b : bool) : Z := if b then 1 else 0.
Definition sp_uarith (op : Z -> Z -> Z -> ures) (w : Z) : spec2 := fun a b =>
  ([RC0; a; b], RC0 + 1 :: match op w a b with UOk v => [0; v] | UErr v => [1; v] end).
Definition sp_eq : spec2 := fun a b => ([a mod P; b mod P], [b2z (a =? b)]).
Definition sp_is_zero : spec1 := fun a => ([a], if a =? 0 then [1; 0] else [0; a]).
Definition sp_ident : spec1 := fun a => ([a mod P], [a mod P]).
Definition sp_wide_mul : spec2 := fun a b => ([a mod P; b mod P], [(a * b) mod P]).
Definition sp_divmod (n : Z) : spec2 := fun a b => ([RC0; a; b], [RC0 + n; a / b; a mod b]).
Definition sp_sqrt : spec1 := fun a => ([RC0; a], [RC0 + 4; Z.sqrt a]).
Definition sp_iarith (f : Z -> Z -> Z) (w n_in n_out : Z) : spec2 := fun a b =>
  ([RC0; a mod P; b mod P],
   [RC0 + (if ifits w (f a b) then n_in else n_out); (iwrap w (f a b)) mod P;
    b2z (negb (ifits w (f a b)))]).

Definition uarith_complete (op : Z -> Z -> Z -> ures) (w : Z) := complete2 0 (2 ^ w) false (sp_uarith op w).
Definition ueq_complete (w : Z) := complete2 0 (2 ^ w) false sp_eq.
Definition ieq_complete (w : Z) := complete2 (- 2 ^ (w - 1)) (2 ^ (w - 1)) false sp_eq.
Definition is_zero_complete (w : Z) := complete1 0 (2 ^ w) sp_is_zero.
Definition uident_complete (w : Z) := complete1 0 (2 ^ w) sp_ident.
Definition iident_complete (w : Z) := complete1 (- 2 ^ (w - 1)) (2 ^ (w - 1)) sp_ident.
Definition uwide_mul_complete (w : Z) := complete2 0 (2 ^ w) false sp_wide_mul.
Definition iwide_mul_complete (w : Z) := complete2 (- 2 ^ (w - 1)) (2 ^ (w - 1)) false sp_wide_mul.
Definition udivmod_complete (w n : Z) := complete2 0 (2 ^ w) true (sp_divmod n).
Definition usqrt_complete (w : Z) := complete1 0 (2 ^ w) sp_sqrt.
Definition iarith_complete (f : Z -> Z -> Z) (w n_in n_out : Z) :=
  complete2 (- 2 ^ (w - 1)) (2 ^ (w - 1)) false (sp_iarith f w n_in n_out).
