(* Libfuncs/CStmt.v -- statements of the completeness theorems (C06, CASM layer): with HONEST hint
   answers (VmRun.honest, transcribed from execute_core_hint) the executable VM never fails on
   in-range arguments and returns the mathematical result.  Frame: VmRun.init_st / init_mem
   (ap = fp = AP0, range-check segment at RC0).  Also the boolean checkers used by the complete
   finite sweeps of the 8-bit types.  Model file: no proofs. *)
From Vmx Require Export VmRun.
From Spec Require Export Int.

Definition zrange (n : nat) : list Z := map Z.of_nat (seq 0 n).

(* u*_overflowing_add / sub *)
Definition uarith_post (op : Z -> Z -> Z -> ures) (w a b : Z) (r : res (st * pmem)) : Prop :=
  exists s' m', r = Ok (s', m') /\
    lookup (ap s' - 3) m' = Some (RC0 + 1) /\
    match op w a b with
    | UOk v => lookup (ap s' - 2) m' = Some 0 /\ lookup (ap s' - 1) m' = Some v
    | UErr v => lookup (ap s' - 2) m' = Some 1 /\ lookup (ap s' - 1) m' = Some v
    end.
Definition uarith_complete (op : Z -> Z -> Z -> ures) (w : Z) (c : code) (entry : Z) : Prop :=
  forall a b, in_u w a -> in_u w b -> uarith_post op w a b (run_honest c entry 64 [RC0; a; b]).

Definition opt_eqb (o : option Z) (v : Z) : bool :=
  match o with Some x => x =? v | None => false end.
Definition uarith_chk (op : Z -> Z -> Z -> ures) (w : Z) (c : code) (entry : Z) (a b : Z) : bool :=
  match run_honest c entry 64 [RC0; a; b] with
  | Ok (s', m') =>
      opt_eqb (lookup (ap s' - 3) m') (RC0 + 1) &&
      match op w a b with
      | UOk v => opt_eqb (lookup (ap s' - 2) m') 0 && opt_eqb (lookup (ap s' - 1) m') v
      | UErr v => opt_eqb (lookup (ap s' - 2) m') 1 && opt_eqb (lookup (ap s' - 1) m') v
      end
  | Err _ => false
  end.
