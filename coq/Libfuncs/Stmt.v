(* Libfuncs/Stmt.v -- the statements of the per-libfunc soundness theorems (C03 shape), as
   definitions parameterised by the bit width and by the GENERATED code object.  No hint and no
   hint value occurs anywhere: the statement quantifies over every total memory [m], i.e. over
   every answer a prover could supply.  Common standing hypotheses: memory cells are canonical
   felts; the range-check pointer does not wrap around P.  Model file: no proofs.

   Frame layout of a wrapper `fn main(args) -> rets` with implicit RangeCheck: arguments at
   [fp - 2 - n .. fp - 3] (RangeCheck pointer first), results at [ap' - k .. ap' - 1] at the
   final [ret] (RangeCheck pointer first). *)
From Vmx Require Export Sem.
From Spec Require Export Int.

(* u*_overflowing_add / u*_overflowing_sub : (RangeCheck, T, T) -> (RangeCheck, Result<T,T>) *)
Definition uarith_sound (op : Z -> Z -> Z -> ures) (w : Z) (c : code) (entry : Z) : Prop :=
  forall (m : mem) (pb : Z) (s0 s' : st),
  mem_canonical m ->
  pc s0 = pb + entry ->
  reaches m pb c 0 s0 s' ->
  let rc := m (fp s0 - 5) in let a := m (fp s0 - 4) in let b := m (fp s0 - 3) in
  in_u w a -> in_u w b -> rc + 1 < P -> rc_ok m rc (rc + 1) ->
  fp s' = fp s0 /\
  m (ap s' - 3) = rc + 1 /\
  match op w a b with
  | UOk v => m (ap s' - 2) = 0 /\ m (ap s' - 1) = v
  | UErr v => m (ap s' - 2) = 1 /\ m (ap s' - 1) = v
  end.
