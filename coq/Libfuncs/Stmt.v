(* Libfuncs/Stmt.v -- the statements of the per-libfunc soundness theorems (C03 shape), as
   definitions parameterised by the bit width and by the GENERATED code object.  No hint and no
   hint value occurs anywhere: the statement quantifies over every total memory [m], i.e. over
   every answer a prover could supply.  Common standing hypotheses: memory cells are canonical
   felts; the range-check pointer does not wrap around P.  Model file: no proofs.

   Frame layout of a wrapper `fn main(args) -> rets` with implicit RangeCheck: arguments at
   [fp - 2 - n .. fp - 3] (RangeCheck pointer first), results at [ap' - k .. ap' - 1] at the
   final [ret] (RangeCheck pointer first). *)
From Vmx Require Export Sem.
From Spec Require Export Int.

(* u*_overflowing_add / u*_overflowing_sub : (RangeCheck, T, T) -> (RangeCheck, Result<T,T>) *)
Definition uarith_sound (op : Z -> Z -> Z -> ures) (w : Z) (c : code) (entry : Z) : Prop :=
  forall (m : mem) (pb : Z) (s0 s' : st),
  mem_canonical m ->
  pc s0 = pb + entry ->
  reaches m pb c 0 s0 s' ->
  let rc := m (fp s0 - 5) in let a := m (fp s0 - 4) in let b := m (fp s0 - 3) in
  in_u w a -> in_u w b -> rc + 1 < P -> rc_ok m rc (rc + 1) ->
  fp s' = fp s0 /\
  m (ap s' - 3) = rc + 1 /\
  match op w a b with
  | UOk v => m (ap s' - 2) = 0 /\ m (ap s' - 1) = v
  | UErr v => m (ap s' - 2) = 1 /\ m (ap s' - 1) = v
  end.

(* ---- builtin-free libfuncs ---- *)
(* T x T -> bool: u*_eq, i*_eq (the cells hold canonical felts; equality of cells = equality of values) *)
Definition eq_sound (c : code) (entry : Z) : Prop :=
  forall (m : mem) (pb : Z) (s0 s' : st),
  mem_canonical m -> pc s0 = pb + entry -> reaches m pb c 0 s0 s' ->
  let a := m (fp s0 - 4) in let b := m (fp s0 - 3) in
  fp s' = fp s0 /\ m (ap s' - 1) = (if a =? b then 1 else 0).

(* felt252 -> bool (a == 0) *)
Definition felt_is_zero_sound (c : code) (entry : Z) : Prop :=
  forall (m : mem) (pb : Z) (s0 s' : st),
  mem_canonical m -> pc s0 = pb + entry -> reaches m pb c 0 s0 s' ->
  let a := m (fp s0 - 3) in
  fp s' = fp s0 /\ m (ap s' - 1) = (if a =? 0 then 1 else 0).

(* T -> Option<NonZero<T>> : u*_is_zero through TryInto; Some(a) = (0, a), None = (1, 0) *)
Definition is_zero_sound (c : code) (entry : Z) : Prop :=
  forall (m : mem) (pb : Z) (s0 s' : st),
  mem_canonical m -> pc s0 = pb + entry -> reaches m pb c 0 s0 s' ->
  let a := m (fp s0 - 3) in
  fp s' = fp s0 /\
  m (ap s' - 2) = (if a =? 0 then 1 else 0) /\ m (ap s' - 1) = (if a =? 0 then 0 else a).

(* value-preserving conversions: *_to_felt252, upcast -- the returned cell is the argument cell *)
Definition ident_sound (c : code) (entry : Z) : Prop :=
  forall (m : mem) (pb : Z) (s0 s' : st),
  mem_canonical m -> pc s0 = pb + entry -> reaches m pb c 0 s0 s' ->
  fp s' = fp s0 /\ m (ap s' - 1) = m (fp s0 - 3).

(* u*_wide_mul for w <= 64: the exact product *)
Definition uwide_mul_sound (w : Z) (c : code) (entry : Z) : Prop :=
  forall (m : mem) (pb : Z) (s0 s' : st),
  mem_canonical m -> pc s0 = pb + entry -> reaches m pb c 0 s0 s' ->
  let a := m (fp s0 - 4) in let b := m (fp s0 - 3) in
  in_u w a -> in_u w b ->
  fp s' = fp s0 /\ m (ap s' - 1) = a * b.

(* i*_wide_mul: arguments are the felts of the signed values va, vb *)
Definition in_i (w v : Z) : Prop := - 2 ^ (w - 1) <= v < 2 ^ (w - 1).
Definition iwide_mul_sound (w : Z) (c : code) (entry : Z) : Prop :=
  forall (m : mem) (pb : Z) (s0 s' : st) (va vb : Z),
  mem_canonical m -> pc s0 = pb + entry -> reaches m pb c 0 s0 s' ->
  in_i w va -> in_i w vb -> m (fp s0 - 4) = va mod P -> m (fp s0 - 3) = vb mod P ->
  fp s' = fp s0 /\ m (ap s' - 1) = (va * vb) mod P.

(* felt252 + - * *)
Definition felt_binop_sound (f : Z -> Z -> Z) (c : code) (entry : Z) : Prop :=
  forall (m : mem) (pb : Z) (s0 s' : st),
  mem_canonical m -> pc s0 = pb + entry -> reaches m pb c 0 s0 s' ->
  let a := m (fp s0 - 4) in let b := m (fp s0 - 3) in
  fp s' = fp s0 /\ m (ap s' - 1) = f a b.

(* u*_safe_divmod: (RangeCheck, T, NonZero<T>) -> (RangeCheck, T, T); [n] range-check cells *)
Definition udivmod_sound (w n : Z) (c : code) (entry : Z) : Prop :=
  forall (m : mem) (pb : Z) (s0 s' : st),
  mem_canonical m -> pc s0 = pb + entry -> reaches m pb c 0 s0 s' ->
  let rc := m (fp s0 - 5) in let a := m (fp s0 - 4) in let b := m (fp s0 - 3) in
  in_u w a -> in_u w b -> b <> 0 -> rc + n < P -> rc_ok m rc (rc + n) ->
  fp s' = fp s0 /\
  m (ap s' - 3) = rc + n /\ m (ap s' - 2) = a / b /\ m (ap s' - 1) = a mod b.

(* u*_sqrt: (RangeCheck, T) -> (RangeCheck, T') *)
Definition usqrt_sound (w : Z) (c : code) (entry : Z) : Prop :=
  forall (m : mem) (pb : Z) (s0 s' : st),
  mem_canonical m -> pc s0 = pb + entry -> reaches m pb c 0 s0 s' ->
  let rc := m (fp s0 - 4) in let a := m (fp s0 - 3) in
  in_u w a -> rc + 4 < P -> rc_ok m rc (rc + 4) ->
  fp s' = fp s0 /\ m (ap s' - 2) = rc + 4 /\ m (ap s' - 1) = Z.sqrt a.

(* i*_overflowing_add / sub through core::num::traits::OverflowingAdd/Sub (the extern
   i*_overflowing_{add,sub}_impl + the match that turns its three-way result into (value, flag)):
   (RangeCheck, T, T) -> (RangeCheck, (T, bool)).  va, vb are the signed values, the cells hold
   their felts; the result is the wrapped value and the out-of-range flag.  In range the libfunc
   consumes [n_in] range-check cells, otherwise [n_out]. *)
Definition iwrap (w r : Z) : Z := (r + 2 ^ (w - 1)) mod 2 ^ w - 2 ^ (w - 1).
Definition ifits (w r : Z) : bool := (- 2 ^ (w - 1) <=? r) && (r <? 2 ^ (w - 1)).
Definition iarith_sound (f : Z -> Z -> Z) (w n_in n_out : Z) (c : code) (entry : Z) : Prop :=
  forall (m : mem) (pb : Z) (s0 s' : st) (va vb : Z),
  mem_canonical m -> pc s0 = pb + entry -> reaches m pb c 0 s0 s' ->
  let rc := m (fp s0 - 5) in
  in_i w va -> in_i w vb -> m (fp s0 - 4) = va mod P -> m (fp s0 - 3) = vb mod P ->
  rc + 2 < P -> rc_ok m rc (rc + 2) ->
  fp s' = fp s0 /\
  m (ap s' - 3) = rc + (if ifits w (f va vb) then n_in else n_out) /\
  m (ap s' - 2) = (iwrap w (f va vb)) mod P /\
  m (ap s' - 1) = (if ifits w (f va vb) then 0 else 1).

(* downcast<A, B> through TryInto: (RangeCheck, A) -> (RangeCheck, Option<B>); v is the (signed) value,
   the cell holds its felt; Some(v) = (0, v), None = (1, 0); [n_some]/[n_none] range-check cells *)
Definition downcast_sound (la ha lb hb n_some n_none : Z) (c : code) (entry : Z) : Prop :=
  forall (m : mem) (pb : Z) (s0 s' : st) (v : Z),
  mem_canonical m -> pc s0 = pb + entry -> reaches m pb c 0 s0 s' ->
  let rc := m (fp s0 - 4) in
  la <= v <= ha -> m (fp s0 - 3) = v mod P -> rc + 3 < P -> rc_ok m rc (rc + 3) ->
  fp s' = fp s0 /\
  if (lb <=? v) && (v <=? hb)
  then m (ap s' - 3) = rc + n_some /\ m (ap s' - 2) = 0 /\ m (ap s' - 1) = v mod P
  else m (ap s' - 3) = rc + n_none /\ m (ap s' - 2) = 1 /\ m (ap s' - 1) = 0.

(* *_try_from_felt252 (range_reduction.rs): (RangeCheck, felt252) -> (RangeCheck, Option<T>);
   the felt a denotes a value of T = [lb, hb] iff a <= hb or (T signed and) a >= P + lb *)
Definition felt_fits (lb hb a : Z) : bool := (a <=? hb) || ((lb <? 0) && (P + lb <=? a)).
Definition tryfrom_sound (lb hb n_some n_none : Z) (c : code) (entry : Z) : Prop :=
  forall (m : mem) (pb : Z) (s0 s' : st),
  mem_canonical m -> pc s0 = pb + entry -> reaches m pb c 0 s0 s' ->
  let rc := m (fp s0 - 4) in let a := m (fp s0 - 3) in
  rc + 3 < P -> rc_ok m rc (rc + 3) ->
  fp s' = fp s0 /\
  if felt_fits lb hb a
  then m (ap s' - 3) = rc + n_some /\ m (ap s' - 2) = 0 /\ m (ap s' - 1) = a
  else m (ap s' - 3) = rc + n_none /\ m (ap s' - 2) = 1 /\ m (ap s' - 1) = 0.

(* i*_diff: (RangeCheck, T, T) -> (RangeCheck, Result<U, U>): Ok(a - b) if a >= b else Err(a - b + 2^w) *)
Definition idiff_sound (w : Z) (c : code) (entry : Z) : Prop :=
  forall (m : mem) (pb : Z) (s0 s' : st) (va vb : Z),
  mem_canonical m -> pc s0 = pb + entry -> reaches m pb c 0 s0 s' ->
  let rc := m (fp s0 - 5) in
  in_i w va -> in_i w vb -> m (fp s0 - 4) = va mod P -> m (fp s0 - 3) = vb mod P ->
  rc + 1 < P -> rc_ok m rc (rc + 1) ->
  fp s' = fp s0 /\ m (ap s' - 3) = rc + 1 /\
  if vb <=? va then m (ap s' - 2) = 0 /\ m (ap s' - 1) = va - vb
  else m (ap s' - 2) = 1 /\ m (ap s' - 1) = va - vb + 2 ^ w.

(* bounded_int_constrain<T, B> for T = [lo, hi] (also NonZero<T>): (RangeCheck, T) -> (RangeCheck,
   Result<[lo, B-1], [B, hi]>): Ok(v) = (0, v) iff v < B, Err(v) = (1, v) otherwise; one range check *)
Definition constrain_sound (lo hi b : Z) (c : code) (entry : Z) : Prop :=
  forall (m : mem) (pb : Z) (s0 s' : st) (v : Z),
  mem_canonical m -> pc s0 = pb + entry -> reaches m pb c 0 s0 s' ->
  let rc := m (fp s0 - 4) in
  lo <= v <= hi -> m (fp s0 - 3) = v mod P -> rc + 1 < P -> rc_ok m rc (rc + 1) ->
  fp s' = fp s0 /\ m (ap s' - 3) = rc + 1 /\
  m (ap s' - 2) = (if v <? b then 0 else 1) /\ m (ap s' - 1) = v mod P.

(* downcast<felt252, BoundedInt<lb, hb>> (range_reduction.rs): (RangeCheck, felt252) -> (RangeCheck, Option<T>);
   the felt a denotes a value of [lb, hb] iff a itself or a - P lies in it *)
Definition felt_in (lb hb a : Z) : bool :=
  ((lb <=? a) && (a <=? hb)) || ((lb <=? a - P) && (a - P <=? hb)).
Definition feltcast_sound (lb hb n_some n_none : Z) (c : code) (entry : Z) : Prop :=
  forall (m : mem) (pb : Z) (s0 s' : st),
  mem_canonical m -> pc s0 = pb + entry -> reaches m pb c 0 s0 s' ->
  let rc := m (fp s0 - 4) in let a := m (fp s0 - 3) in
  rc + 3 < P -> rc_ok m rc (rc + 3) ->
  fp s' = fp s0 /\
  if felt_in lb hb a
  then m (ap s' - 3) = rc + n_some /\ m (ap s' - 2) = 0 /\ m (ap s' - 1) = a
  else m (ap s' - 3) = rc + n_none /\ m (ap s' - 2) = 1 /\ m (ap s' - 1) = 0.
